#!/usr/bin/env python3
"""Writes seeded/RESULTS.md from seeded/*/meta.json."""
import json
import os

ROOT = os.path.dirname(os.path.dirname(os.path.abspath(__file__)))
props = ["C%02d" % i for i in range(1, 21)]
rows = []
for d in sorted(os.listdir(os.path.join(ROOT, "seeded"))):
    mp = os.path.join(ROOT, "seeded", d, "meta.json")
    if not os.path.exists(mp):
        continue
    m = json.load(open(mp))
    rows.append((d, m))
sym = {"violation-with-replay": "V", "no-failing-input-found": "n", "quiet": "·", "-": "?"}
out = ["# Seeded changes: which quick check reports what", "",
       "Each row is one change produced by an independent sub-agent from the text of one property only (column",
       "*target*), confirmed in a scratch worktree (patch applies, the 167 tests pass with it, its demo fails with",
       "it and passes without it) and then applied to /repo for one run of every quick check (`tools/seedtest.py`).",
       "`V` = VIOLATION with a concrete replay on the implementation, `n` = VIOLATION … no-failing-input-found",
       "(a theorem or the correspondence this property rests on no longer checks), `·` = quiet.", "",
       "| seed | target | " + " | ".join(p[1:] for p in props) + " | what it needs |", "|---|---|" + "---|" * (len(props) + 1)]
for d, m in rows:
    ck = m.get("checks_quick", {})
    cells = [sym[ck.get(p, {}).get("report", "-")] for p in props]
    out.append("| %s | %s | %s | %s |" % (d, m.get("breaks_property"), " | ".join(cells), m.get("needs", "")))
out.append("")
for d, m in rows:
    out.append("* **%s** (%s): %s" % (d, m.get("breaks_property"), m.get("idea", "")))
# behaviour-preserving refactorings (harmless/): every check should stay quiet
hrows = []
hdir = os.path.join(ROOT, "harmless")
if os.path.isdir(hdir):
    for d in sorted(os.listdir(hdir)):
        mp = os.path.join(hdir, d, "meta.json")
        if os.path.exists(mp):
            hrows.append((d, json.load(open(mp))))
if hrows:
    out += ["", "## Behaviour-preserving refactorings (`harmless/`): every check should stay quiet", "",
            "Produced by independent sub-agents asked for a refactoring of 40-150 lines that changes no observable",
            "behaviour (tests pass); applied to /repo for one run of every quick check.", "",
            "| refactoring | " + " | ".join(p[1:] for p in props) + " | what was refactored |", "|---|" + "---|" * (len(props) + 1)]
    for d, m in hrows:
        ck = m.get("checks_quick", {})
        cells = [sym[ck.get(p, {}).get("report", "-")] for p in props]
        out.append("| %s | %s | %s |" % (d, " | ".join(cells), m.get("idea", "")))
open(os.path.join(ROOT, "seeded", "RESULTS.md"), "w").write("\n".join(out) + "\n")
print("\n".join(out[:40]))
