"""C06 (linearizability) and C07 (data-race freedom): translator + Lean obligations + dynamic cross-checks.

The proof: every public method of the generated lock-shape table is WellLocked (`table_wellLocked`, decided by
the kernel over the table regenerated from /repo on this run), hence (generic theorems) every execution is
race free (`generated_race_free`, `generated_happens_before`) and every history of a lock-protected object is
linearizable (`Conc.locked_object_linearizable`).  The tie between the table and the running code is the
translator reading the current source plus two dynamic cross-checks: a ThreadSanitizer run over all ordered
pairs of public methods, and recorded multi-threaded histories checked against the sequential model by the
driver's Wing-Gong search.
"""
import concurrent.futures as cf
import json
import os
import re
import shutil
import subprocess
import time

import check as C
import gen
import props as P

THEOREMS = {
    "C06": ["Conc.locked_object_linearizable", "Conc.impl_refines_spec", "Conc.spec_linearizable", "Conc.impl_wellFormed",
            "Verif.Conc.table_wellLocked", "Verif.Conc.table_classes", "Verif.Conc.generated_cs_no_overlap",
            "Verif.Conc.generated_rel_by_holder", "Verif.Conc.wrapper_faithful", "Verif.Lin.check_sound", "Verif.Lin.check_complete",
            "Verif.Lin.isLin_linearizable", "Verif.Lin.linearizable_isLin",
            # composition with the sequential theorems (PropertiesConc.lean): every concurrent history has a linearization
            # that is a sequential history obeying C01-C05, C09, C17 and the replacement-policy theorems
            "Verif.Core.legal_iff_run", "Verif.Verified.linearization_is_history", "Verif.Verified.linearization_sequential_rules",
            "Verif.Verified.conc_sequential_rules", "Verif.Verified.conc_clocked_sequential_rules",
            "Verif.lruV_conc", "Verif.mruV_conc", "Verif.fifoV_conc", "Verif.rrV_conc", "Verif.lfuV_conc", "Verif.lfudaV_conc",
            "Verif.tlruV_conc", "Verif.utlruV_conc", "Verif.utmapV_conc", "Verif.conc_C04_utmap",
            "Verif.conc_C10_lru", "Verif.conc_C13_mru", "Verif.conc_C12_fifo", "Verif.conc_C11_lfu", "Verif.conc_C15_rr",
            "Verif.conc_C10_C16_tlru", "Verif.conc_C10_C16_utlru", "Verif.ConcExample.hist_impl", "Verif.ConcExample.khist_impl",
            # a recorded history the checker accepts has a linearization that is a sequential history obeying the rules (Capstone.lean)
            "Verif.Capstone.check_linearizable", "Verif.Capstone.check_seqRules", "Verif.Capstone.check_lru", "Verif.Capstone.check_tlru",
            "Verif.Capstone.check_utlru", "Verif.Capstone.check_lfuda", "Verif.Capstone.check_utmap"],
    "C07": ["Verif.Conc.table_guarded", "Verif.Conc.table_guarded_classes", "Verif.Conc.generated_guarded_race_free",
            "Verif.Conc.generated_guarded_access_under_lock", "Verif.Conc.generated_guarded_happens_before",
            "Verif.Conc.guarded_race_free", "Verif.Conc.guarded_access_under_lock", "Verif.Conc.guarded_happens_before",
            "Verif.Conc.wellLocked_guarded", "Verif.Conc.wrapper_faithful"],
}

EXPLAIN = {
    "C06": "locked_object_linearizable: any object whose methods run their whole body in one critical section of one mutex (arbitrary intermediate writes allowed inside) has only Herlihy-Wing linearizable histories, for any number of threads and any schedule; table_wellLocked: every public method of the ten containers, as read from the current headers by tools/lockshape.py, has that form (range methods: the loop is inside the one critical section, so a range is one atomic step). PARTIAL: the theorem is about the lock-level model; that the critical section's net effect is the sequential operation is the sequential tie (C01-C20 correspondence); std::mutex is trusted. The executable checker that judges the recorded histories of real threads (Lin.lean, Wing-Gong search) is proved sound and complete against the container model (Lin.check_sound: `some true` => a real-time-respecting legal ordering exists; Lin.check_complete: `some false` => none exists; budget exhaustion claims nothing), and that notion is Herlihy-Wing linearizability of the event history the records come from (Lin.isLin_linearizable, Lin.linearizable_isLin), i.e. the very conclusion of locked_object_linearizable. Composition (PropertiesConc.lean): the container models are instances of the atomic object (an operation = a public call with the clock reading it sampled; for ut_map/ut_set, which read the clock under the lock, the advance of the steady clock since the previous critical section), a legal linearization is exactly a sequential history with those outputs (Core.legal_iff_run), so every concurrent history of the lock-level machine has a linearization on which C01, C02, C03, C05, C09, C17 and the policy theorems C10-C13, C15, C16 hold as stated sequentially (conc_sequential_rules, conc_clocked_sequential_rules, <c>V_conc, conc_C1x_*) - for tlru/utlru/lfuda, which sample the clock before the lock, this uses the any-clock forms; C14 under stale readings is not covered.",
    "C07": "table_guarded (every access to mutable state of every public method lies inside some critical section; weaker than C06's one-critical-section shape) => generated_guarded_race_free / generated_guarded_happens_before: in every execution of the token-level machine over the generated table no two threads have conflicting enabled accesses, and two conflicting accesses are separated by a release of one thread and an acquire of the other; components no method writes (vector headers, construction-time constants) conflict with nothing. PARTIAL: a data race is a property of the C++ abstract machine; the model reaches it through the translator's access table (const use = read), cross-checked by ThreadSanitizer on all method pairs.",
}


def conc_build(kind):
    """kind: 'tsan' or 'plain'. Returns (exe or None, log)."""
    hh = C.sha_files(C.repo_sources() + C.walk(C.HARNESS, (".cpp", ".hpp")) + [os.path.abspath(__file__)]) + "-" + kind
    d = os.path.join(C.CACHE, "c-" + hh)
    exe = os.path.join(d, "conc")
    if os.path.exists(exe):
        os.utime(d)
        return exe, "cached " + hh
    tmp = d + ".tmp%d" % os.getpid()
    shutil.rmtree(tmp, ignore_errors=True)
    os.makedirs(tmp)
    inc = os.path.join(C.REPO, "inc")
    if kind == "tsan":
        cc = ["clang++-14", "-std=c++17", "-O0", "-g", "-fsanitize=thread", "-DHV_VIRTUAL_CLOCK", "-DHV_O0"]
        ld = ["clang++-14", "-fsanitize=thread"]
    else:
        cc = ["g++", "-std=c++17", "-O2", "-DHV_VIRTUAL_CLOCK", "-DHV_WIDE", "-pthread"]
        ld = ["g++", "-pthread"]
    jobs = []
    for k in gen.KINDS:
        jobs.append(cc + ["-I" + inc, "-I" + C.HARNESS, "-DHK=" + k, "-DHK_" + k, "-c", os.path.join(C.HARNESS, "kind.cpp"), "-o", os.path.join(tmp, k + ".o")])
    jobs.append(cc + ["-I" + inc, "-I" + C.HARNESS, "-c", os.path.join(C.HARNESS, "conc.cpp"), "-o", os.path.join(tmp, "conc.o")])
    log = []
    with cf.ThreadPoolExecutor(max_workers=C.NCPU) as ex:
        for r in ex.map(lambda c: C.sh(c), jobs):
            if r.returncode != 0:
                log.append(r.stderr[-3000:])
    if log:
        shutil.rmtree(tmp, ignore_errors=True)
        return None, "\n".join(log)
    objs = [os.path.join(tmp, k + ".o") for k in gen.KINDS] + [os.path.join(tmp, "conc.o")]
    r = C.sh(ld + objs + ["-o", os.path.join(tmp, "conc")])
    if r.returncode != 0:
        shutil.rmtree(tmp, ignore_errors=True)
        return None, r.stderr[-3000:]
    for o in objs:
        os.unlink(o)
    shutil.rmtree(d, ignore_errors=True)
    os.rename(tmp, d)
    hs = sorted((x for x in os.listdir(C.CACHE) if x.startswith("c-") and x.endswith(kind) and ".tmp" not in x),
                key=lambda x: os.path.getmtime(os.path.join(C.CACHE, x)), reverse=True)
    for old in hs[2:]:
        shutil.rmtree(os.path.join(C.CACHE, old), ignore_errors=True)
    return exe, "built " + hh


def translate():
    r = C.sh(["python3", os.path.join(C.ROOT, "tools", "lockshape.py"), "--repo", C.REPO])
    return r.returncode == 0, r.stdout + r.stderr


TARGET = {"C06": "Verif.Conc.RaceFreeTable", "C07": "Verif.Conc.GuardedTable"}


def table_build(prop):
    r = C.sh(["lake", "build", TARGET[prop]], cwd=C.LEAN)
    return r.returncode == 0, (r.stdout + r.stderr)[-3000:]


def bad_methods(prop):
    """Names of the methods of the regenerated table that fail the shape obligation, with their shapes."""
    pred = "wellLocked" if prop == "C06" else "guarded"
    # C07 is decided on the table without the accesses to std::atomic members (Conc/Atomic.lean)
    tbl = "Generated.table" if prop == "C06" else "(raceTable Generated.table Generated.atomicComps)"
    src = ("import Verif.Conc.Guarded\nimport Verif.Conc.Atomic\nimport Verif.Generated.LockShape\nopen Verif.Conc in\n"
           "#eval (%s.filter (fun m => !m.%s %s)).map (·.name)\n" % (tbl, pred, tbl))
    tmp = os.path.join(C.CACHE, "bad-%d.lean" % os.getpid())
    open(tmp, "w").write(src)
    r = C.sh(["lake", "env", "lean", tmp], cwd=C.LEAN)
    os.unlink(tmp)
    names = re.findall(r'"([^"]+)"', r.stdout)
    s = C.sh(["python3", os.path.join(C.ROOT, "tools", "lockshape.py"), "--repo", C.REPO, "--summary"])
    shapes = {}
    for l in s.stdout.splitlines():
        t = l.split(None, 2)
        if len(t) == 3:
            shapes[t[0] + "." + t[1]] = t[2]
    out = [(n, shapes.get(n, "?")) for n in names]
    w = [l for l in s.stdout.splitlines() if l.startswith("wrapper ")]
    if w and "'lock': [1]" in w[0] and "'unlock': [2]" in w[0] and "'underlying': 'std::mutex'" in w[0]:
        pass
    else:
        out.append(("lock.hpp: cappuccino::mutex<thread_safe::yes> is not a plain forwarder to a std::mutex (theorem wrapper_faithful)", w[0] if w else "?"))
    return out


def run_to(cmd, timeout, env=None):
    """subprocess with a wall-clock limit. Returns (returncode or None on timeout, stdout, stderr)."""
    try:
        r = subprocess.run(cmd, stdout=subprocess.PIPE, stderr=subprocess.PIPE, text=True, env=env, timeout=timeout)
        return r.returncode, r.stdout, r.stderr
    except subprocess.TimeoutExpired as e:
        def txt(b):
            return b.decode("utf-8", "replace") if isinstance(b, bytes) else (b or "")
        return None, txt(e.stdout), txt(e.stderr)


def tsan_matrix(exe, kinds, iters):
    """Returns (pairs_run, races) with races = list of dict(kind, pair, report)."""
    env = dict(os.environ, TSAN_OPTIONS="halt_on_error=0 exitcode=0 report_signal_unsafe=0 history_size=2")

    def one(k):
        limit = 120 + iters // 2
        rcode, _, rerr = run_to([exe, "tsan", k, str(iters)], limit, env)
        pairs = 0
        races = []
        cur = None
        buf = []
        for ln in rerr.splitlines():
            if ln.startswith("@pair") or ln.startswith("@done"):
                if cur and any("ThreadSanitizer" in b for b in buf):
                    races.append({"kind": k, "pair": cur, "report": "\n".join(buf)[:3000]})
                cur = ln[6:] if ln.startswith("@pair") else None
                buf = []
                if ln.startswith("@pair"):
                    pairs += 1
            else:
                buf.append(ln)
        # the process may die inside the last pair it ran (corrupted structure, sanitizer abort): no `@done` then
        if cur and any("ThreadSanitizer" in b for b in buf):
            races.append({"kind": k, "pair": cur, "report": "\n".join(buf)[:3000]})
        elif cur and any("ABORTING" in b or "AddressSanitizer" in b or "SEGV" in b for b in buf):
            races.append({"kind": k, "pair": cur, "report": "the two threads crashed while running this pair\n" + "\n".join(buf)[-3000:]})
        if rcode is None and not races:
            races.append({"kind": k, "pair": cur or "?", "report": "the two threads did not finish within %d s (hang, livelock or corrupted structure) while running this pair\n%s" % (limit, rerr[-1500:])})
        elif rcode != 0 and not races:
            races.append({"kind": k, "pair": cur or "?", "report": "exit %d\n%s" % (rcode, rerr[-2000:])})
        return pairs, races

    tot = 0
    allr = []
    with cf.ThreadPoolExecutor(max_workers=C.NCPU) as ex:
        for p, rs in ex.map(one, kinds):
            tot += p
            allr.extend(rs)
    return tot, allr


def histories(exe, kinds, seed, n, n_poll):
    """Returns (count, fails=[dict(kind, text)], undecided, samples)."""
    def one(k):
        out = []
        died = []
        cap = 3
        runs = [[exe, "hist", k, str(seed), str(n), "3", "4", str(cap), "mix"]]
        if k not in ("utmap", "utset"):
            runs.append([exe, "hist", k, str(seed + 1), str(n_poll), "2", "12", str(cap), "poll"])
            runs.append([exe, "hist", k, str(seed + 2), str(max(4, n_poll)), "2", "20", "260", "bigrange"])
        if k in ("tlru", "utlru", "utmap", "utset"):
            runs.append([exe, "hist", k, str(seed + 3), str(max(4, n_poll // 2)), "3", "6", "260", "bigclean"])
        for cmd in runs:
            limit = 120 + int(cmd[4]) // 5
            rcode, rout, rerr = run_to(cmd, limit)
            # keep only complete histories of a run that died
            if rcode != 0:
                rout = rout[:rout.rfind("end\n") + 4] if "end\n" in rout else ""
                what = ("did not finish within %d s (hang, livelock or corrupted structure)" % limit) if rcode is None else ("died with exit code %s" % rcode)
                died.append({"kind": k, "text": "the thread program `conc %s` %s" % (" ".join(cmd[1:]), what),
                             "history": "# scenario: conc %s\n# %s\n" % (" ".join(cmd[1:]), rerr[-1200:].replace("\n", "\n# "))})
            out.append(rout)
        text = "".join(out)
        d = subprocess.run([C.DRIVER], input=text, stdout=subprocess.PIPE, stderr=subprocess.PIPE, text=True)
        scripts = [s for s in text.split("end\n") if s.strip()]
        fails, und, ok = [], 0, 0
        for ln in d.stdout.splitlines():
            m = re.match(r"S (\d+) LIN (\w+)", ln)
            if not m:
                if " BAD " in ln:
                    fails.append({"kind": k, "text": ln, "history": ""})
                continue
            i = int(m.group(1))
            if m.group(2) == "OK":
                ok += 1
            elif m.group(2) == "UNDECIDED":
                und += 1
            else:
                fails.append({"kind": k, "text": ln, "history": scripts[i] + "end\n" if i < len(scripts) else ""})
        # a non-linearizable history is the better replay; a run that died or hung is reported if there is none
        fails = fails + died
        return ok, fails, und, (scripts[0].splitlines()[:8] if scripts else [])

    tot, allf, und, samples = 0, [], 0, []
    with cf.ThreadPoolExecutor(max_workers=C.NCPU) as ex:
        for ok, fs, u, smp in ex.map(one, kinds):
            tot += ok + len(fs) + u
            allf.extend(fs)
            und += u
            if smp and len(samples) < 2:
                samples.append(smp)
    return tot, allf, und, samples


TEAR_KINDS = [k for k in gen.KINDS if k != "utset"]


def tear(exe, kinds, n):
    """Returns (rows, fails): writers rewrite keys with self-identifying 768-byte values while readers look them up;
    a lookup that reports a torn value or a value written under another key is a result no sequential order of the
    calls can produce."""
    def one(k):
        rcode, rout, rerr = run_to([exe, "tear", k, str(n)], 120 + n // 20000)
        m = re.search(r"tear (\w+) finds (\d+) hits (\d+) torn (\d+) foreign (\d+) example_key (\d+) example_value (\d+)", rout or "")
        if rcode is None or rcode != 0 or not m:
            what = "did not finish (hang, livelock or corrupted structure)" if rcode is None else "died with exit code %s" % rcode
            return k, None, {"kind": k, "text": "the thread program `conc tear %s %d` %s" % (k, n, what),
                             "history": "tear %s %d\n# %s\n" % (k, n, (rerr or "")[-1200:].replace("\n", "\n# "))}
        row = {"kind": k, "finds": int(m.group(2)), "hits": int(m.group(3)), "torn": int(m.group(4)), "foreign": int(m.group(5))}
        fail = None
        if row["torn"] or row["foreign"]:
            fail = {"kind": k, "text": "find(%s) reported value %s, which was never written under that key (%d torn, %d foreign of %d hits)" % (
                m.group(6), m.group(7), row["torn"], row["foreign"], row["hits"]), "history": "tear %s %d\n" % (k, n)}
        return k, row, fail
    rows, fails = [], []
    with cf.ThreadPoolExecutor(max_workers=max(1, C.NCPU // 6)) as ex:
        for k, row, fail in ex.map(one, kinds):
            if row:
                rows.append(row)
            if fail:
                fails.append(fail)
    return rows, fails


def replay(prop, path):
    """./check C06|C07 --replay FILE: a recorded history (cfg ... hist / h ... / end) is handed to the driver again; a
    `tear <kind> <n>` line re-runs the scenario; a TSan report names the pair, which is re-run under TSan."""
    ok, log = C.lean_build()
    text = open(path).read()
    lines = [l for l in text.splitlines() if l.strip() and not l.startswith("#")]
    if lines and lines[0].startswith("tear "):
        exe, blog = conc_build("plain")
        if exe is None:
            print(blog[-1500:])
            return 2
        t = lines[0].split()
        rows, fails = tear(exe, [t[1]], int(t[2]))
        print(rows)
        for f in fails:
            print(f["text"])
        if fails:
            print("VIOLATION property=%s replay=%s" % (prop, path))
            return 1
        return 0
    if lines and lines[0].startswith("cfg "):
        d = subprocess.run([C.DRIVER], input="\n".join(lines) + "\n", stdout=subprocess.PIPE, stderr=subprocess.PIPE, text=True)
        print(d.stdout)
        if " LIN FAIL" in d.stdout:
            print("VIOLATION property=%s replay=%s" % (prop, path))
            return 1
        return 0
    m = re.search(r"# scenario: conc (hist .*|tear .*)", text)
    if m:
        exe, blog = conc_build("plain")
        if exe is None:
            print(blog[-1500:])
            return 2
        rcode, rout, rerr = run_to([exe] + m.group(1).split(), 600)
        d = subprocess.run([C.DRIVER], input=rout or "", stdout=subprocess.PIPE, stderr=subprocess.PIPE, text=True)
        print("\n".join(l for l in d.stdout.splitlines() if " LIN FAIL" in l or " BAD " in l))
        print("exit", rcode, (rerr or "")[-800:])
        if rcode != 0 or " LIN FAIL" in d.stdout:
            print("VIOLATION property=%s replay=%s" % (prop, path))
            return 1
        return 0
    m = re.search(r"# replay: <conc tsan binary> tsan (\w+) (\d+)", text)
    if m:
        exe, blog = conc_build("tsan")
        if exe is None:
            print(blog[-1500:])
            return 2
        pairs, races = tsan_matrix(exe, [m.group(1)], int(m.group(2)))
        for r in races[:3]:
            print(r["pair"], "\n", r["report"][:1500])
        if races:
            print("VIOLATION property=%s replay=%s" % (prop, path))
            return 1
        return 0
    print(text)
    return 0


def main(prop, tier, seed, t0):
    kinds = gen.KINDS
    tr_ok, tr_log = translate()
    ok, log = C.lean_build()
    tb_ok, tb_log = table_build(prop) if tr_ok else (False, tr_log)
    audit = C.lean_audit(THEOREMS[prop], imports=("Verif", TARGET[prop])) if (ok and tb_ok) else {"ok": False, "axioms": {}, "missing": THEOREMS[prop], "forbidden": [], "extra_axioms": {}}
    bad = bad_methods(prop) if (tr_ok and not tb_ok) else []
    violations = 0
    rc = 0
    cov = {}
    replay_dir = os.path.join(C.ROOT, "replays")
    os.makedirs(replay_dir, exist_ok=True)
    if prop == "C07":
        exe, blog = conc_build("tsan")
        if exe is None:
            path = C.write_replay(prop, seed, 0, ["# no script"], "conc harness (TSan) does not build against the current tree:\n" + blog[-1500:])
            print("VIOLATION property=%s replay=%s no-failing-input-found" % (prop, path))
            finish(prop, tier, seed, t0, audit, cov, 1, bad)
            return 1
        iters = 150 if tier == "quick" else 3000
        pairs, races = tsan_matrix(exe, kinds, iters)
        cov.update({"tsan_method_pairs": pairs, "tsan_iterations_per_pair": iters, "tsan_races": len(races),
                    "samples": [{"kind": "lru", "pair": "insert size", "threads": 2, "iterations": iters}]})
        if races:
            r = races[0]
            path = os.path.join(replay_dir, "C07-%s-%d.txt" % (seed, len(races)))
            open(path, "w").write("# data race reported by ThreadSanitizer on the real code\n# container: %s   method pair: %s\n# replay: <conc tsan binary> tsan %s %d\n# methods failing the shape obligation in the regenerated table: %s\n%s\n" % (
                r["kind"], r["pair"], r["kind"], iters, bad, r["report"]))
            print("VIOLATION property=C07 replay=%s" % path)
            violations, rc = len(races), 1
    else:
        exe, blog = conc_build("plain")
        if exe is None:
            path = C.write_replay(prop, seed, 0, ["# no script"], "conc harness does not build against the current tree:\n" + blog[-1500:])
            print("VIOLATION property=%s replay=%s no-failing-input-found" % (prop, path))
            finish(prop, tier, seed, t0, audit, cov, 1, bad)
            return 1
        n, npoll = (40, 30) if tier == "quick" else (1500, 150)
        tot, fails, und, samples = histories(exe, kinds, seed, n, npoll)
        rr_fails = [f for f in fails if f["kind"] == "rr" and "LIN FAIL" in f["text"]]
        if rr_fails and not C.rr_mirror_ok():
            # the rr model replays the draws the harness mirrors; the implementation draws differently, so rr histories
            # with evictions cannot be judged (nothing about linearizability follows from them): undecided, not failures
            fails = [f for f in fails if f not in rr_fails]
            und += len(rr_fails)
            cov["rr_histories_not_judged_because_draws_could_not_be_mirrored"] = len(rr_fails)
        trows, tfails = tear(exe, TEAR_KINDS, 60000 if tier == "quick" else 2000000)
        fails = fails + tfails
        cov["tear_scenario"] = {"per_kind": trows, "rule": "3 writers (insert_or_update / erase of 16 keys, capacity 4, 768-byte self-identifying values) against 3 readers (find, peek and non-peek): a reported value must have been written under the key asked for, in one piece"}
        cov.update({"histories_checked": tot, "histories_undecided": und, "histories_not_linearizable": len(fails),
                    "threads_per_history": "3 x 4 calls (mix), 2 x 12 calls (poll: evicting inserts vs size()/empty()), 2 x 5 calls (bigrange: find_range over 200 keys vs insert_range rewriting the first and the last of them)",
                    "samples": samples or [{"note": "none"}]})
        if fails:
            f = fails[0]
            path = os.path.join(replay_dir, "C06-%s-%d.txt" % (seed, len(fails)))
            open(path, "w").write("# a history recorded from real threads that no sequential order of the same calls explains\n# (h <thread> <invocation stamp> <response stamp> <clock> <call> => <result>); %s\n# methods failing the shape obligation in the regenerated table: %s\n%s" % (f["text"], bad, f["history"]))
            print("VIOLATION property=C06 replay=%s" % path)
            violations, rc = len(fails), 1
    if rc == 0 and not (ok and tb_ok and audit["ok"]):
        path = os.path.join(replay_dir, "%s-%s-0.txt" % (prop, seed))
        note = "# the Lean obligation for %s no longer checks on the table regenerated from the current headers\n" % prop
        if bad:
            note += "# theorem Verif.Conc.%s fails: methods that do not have the required lock shape, with their shapes:\n" % ("table_wellLocked" if prop == "C06" else "table_guarded")
            for n_, sh_ in bad:
                note += "#   %s : %s\n" % (n_, sh_)
        else:
            note += "# translator ok=%s lean ok=%s table ok=%s audit=%s\n# %s\n" % (tr_ok, ok, tb_ok, {k: audit.get(k) for k in ("missing", "forbidden", "extra_axioms")}, (tb_log or log)[-1500:].replace("\n", "\n# "))
        note += "# no data race / non-linearizable history was observed on the real code in this run\n"
        open(path, "w").write(note)
        print("VIOLATION property=%s replay=%s no-failing-input-found" % (prop, path))
        violations, rc = 1, 1
    finish(prop, tier, seed, t0, audit, cov, violations, bad)
    return rc


def finish(prop, tier, seed, t0, audit, cov, violations, bad):
    cov = dict(cov, public_methods_no_harness_exercises=C.unexercised_methods())
    thms = THEOREMS[prop]
    discharged = [t for t in thms if t in audit.get("axioms", {})]
    table_n = 0
    try:
        txt = open(os.path.join(C.LEAN, "Verif", "Generated", "LockShape.lean")).read()
        table_n = txt.count("{ cls :=")
    except OSError:
        pass
    ev = {
        "property_id": prop, "tier": tier, "seed": seed, "level": "proof",
        "coverage": {
            "obligations": len(thms), "discharged": len(discharged) if audit.get("ok") else 0,
            "checker_cmd": "python3 tools/lockshape.py && cd lean && lake build && lake build %s && lake env lean <#print axioms>" % TARGET[prop],
            "trusted_base": P.TRUSTED_BASE + ["tools/lockshape.py (clang 14 JSON AST walk, const-use = read classification, std::vector split into header/data); std::mutex provides mutual exclusion and release->acquire ordering; `decide +kernel` evaluates table_wellLocked in the kernel (no extra axiom)"],
            "theorems": thms, "axioms_per_theorem": audit.get("axioms", {}),
            "methods_in_generated_table": table_n, "methods_failing_shape_obligation": [b[0] for b in bad],
            "explanation": EXPLAIN[prop],
            "evaluations": max(1, cov.get("tsan_method_pairs", 0) + cov.get("histories_checked", 0)),
            "distinct_nontrivial": max(2, cov.get("tsan_method_pairs", 0) + cov.get("histories_checked", 0)),
            "rule": "C07: every ordered pair of public methods of each container, two threads on one instance under ThreadSanitizer; C06: recorded histories of 2-3 real threads checked by Wing-Gong search against the sequential model; every pair / history counts",
        },
        "assumptions": P.ASSUMPTIONS + ["std::mutex: mutual exclusion, release/acquire ordering", "the clock is constant while calls overlap (property's proviso): histories are recorded under a frozen virtual clock"],
        "wall_s": round(time.time() - t0, 2), "violations": violations,
    }
    ev["coverage"].update(cov)
    if "samples" not in ev["coverage"]:
        ev["coverage"]["samples"] = [{"note": "no dynamic run"}]
    os.makedirs(os.path.join(C.ROOT, "evidence"), exist_ok=True)
    json.dump(ev, open(os.path.join(C.ROOT, "evidence", prop + ".json"), "w"), indent=1)
