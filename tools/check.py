#!/usr/bin/env python3
"""Orchestrator for the libcappuccino verification checks (DESIGN.md sections 5 and 9).

  check --setup                       build the Lean library + driver and the harness for the current tree
  check Cxx [--tier quick|thorough]   decide one property, write evidence/Cxx.json
  check Cxx --replay FILE             re-run one stored script and print what the driver says

Exit 0: the property held on everything explored (KNOWN-FINDING lines may be printed).
Exit 1: a line `VIOLATION property=Cxx replay=<path> [no-failing-input-found]` was printed.
Exit 2: the framework itself failed (build error of the harness on the clean tree, audit failure ...).
"""
import concurrent.futures as cf
import hashlib
import json
import os
import random
import re
import shutil
import subprocess
import sys
import time

ROOT = os.path.dirname(os.path.dirname(os.path.abspath(__file__)))
REPO = os.environ.get("VERIF_REPO", "/repo")
CACHE = os.path.join(ROOT, ".cache")
LEAN = os.path.join(ROOT, "lean")
HARNESS = os.path.join(ROOT, "harness")
DRIVER = os.path.join(LEAN, ".lake", "build", "bin", "driver")
sys.path.insert(0, os.path.join(ROOT, "tools"))
import gen  # noqa: E402
import props as P  # noqa: E402

NCPU = int(os.environ.get("VERIF_JOBS", "0")) or os.cpu_count() or 4
GUARD = "CAPPUCCINO_VERIF_HOOKS"


def sh(cmd, **kw):
    return subprocess.run(cmd, stdout=subprocess.PIPE, stderr=subprocess.PIPE, text=True, **kw)


def sha_files(paths):
    h = hashlib.sha256()
    for p in sorted(paths):
        h.update(p.encode())
        with open(p, "rb") as f:
            h.update(f.read())
    return h.hexdigest()[:16]


def walk(d, exts):
    out = []
    for base, dirs, files in os.walk(d):
        dirs[:] = [x for x in dirs if x not in (".lake", ".git", "_build")]
        for f in files:
            if f.endswith(exts):
                out.append(os.path.join(base, f))
    return out


# ---------------------------------------------------------------------------------------------
# Lean: build, audit
# ---------------------------------------------------------------------------------------------

FORBIDDEN = re.compile(r"\bsorry\b|\badmit\b|^\s*axiom\s|native_decide|bv_decide|implemented_by|\bunsafe\s|maxHeartbeats\s+0")


def lean_sources():
    return walk(LEAN, (".lean", ".toml"))


def strip_comments(text):
    text = re.sub(r"/-.*?-/", "", text, flags=re.S)
    return "\n".join(l.split("--")[0] for l in text.splitlines())


def lean_build():
    """lake build (incremental). Returns (ok, log)."""
    r = sh(["lake", "build"], cwd=LEAN)
    ok = r.returncode == 0 and os.path.exists(DRIVER)
    return ok, (r.stdout + r.stderr)


def lean_audit(theorems, imports=("Verif",)):
    """grep for forbidden constructs; #print axioms for the given theorems.
    Returns dict(ok, forbidden=[...], axioms={thm: [...]}, missing=[...])."""
    bad = []
    for p in lean_sources():
        if not p.endswith(".lean"):
            continue
        txt = strip_comments(open(p).read())
        for i, l in enumerate(txt.splitlines()):
            if FORBIDDEN.search(l):
                # the driver's I/O loop is the one allowed `partial def`; it is not matched by FORBIDDEN
                bad.append("%s:%d: %s" % (os.path.relpath(p, ROOT), i + 1, l.strip()))
    os.makedirs(CACHE, exist_ok=True)
    key = sha_files(lean_sources()) + hashlib.sha256(" ".join(list(theorems) + list(imports)).encode()).hexdigest()[:8]
    cachef = os.path.join(CACHE, "axioms-%s.json" % key)
    if os.path.exists(cachef):
        ax = json.load(open(cachef))
    else:
        src = "".join("import %s\n" % i for i in imports) + "".join("#print axioms %s\n" % t for t in theorems)
        tmp = os.path.join(CACHE, "audit-%d.lean" % os.getpid())
        open(tmp, "w").write(src)
        r = sh(["lake", "env", "lean", tmp], cwd=LEAN)
        os.unlink(tmp)
        ax = {"axioms": {}, "raw": r.stdout + r.stderr}
        for m in re.finditer(r"'([^']+)' depends on axioms: \[([^\]]*)\]", r.stdout):
            ax["axioms"][m.group(1)] = [a.strip() for a in m.group(2).split(",") if a.strip()]
        for m in re.finditer(r"'([^']+)' does not depend on any axioms", r.stdout):
            ax["axioms"][m.group(1)] = []
        json.dump(ax, open(cachef, "w"))
    allowed = {"propext", "Quot.sound", "Classical.choice"}
    missing = [t for t in theorems if t not in ax["axioms"]]
    extra = {t: [a for a in v if a not in allowed] for t, v in ax["axioms"].items()}
    extra = {t: v for t, v in extra.items() if v}
    return {"ok": not bad and not missing and not extra, "forbidden": bad, "axioms": ax["axioms"],
            "missing": missing, "extra_axioms": extra, "raw": ax.get("raw", "")[-2000:]}


def table_obligation(tb):
    """An obligation over the lock-shape table regenerated from /repo's current headers (tools/lockshape.py):
    tb = dict(target=<Lean module>, pred=<Method predicate>, classes=<class indices>, theorems=[...]).
    Returns (ok, audit, note)."""
    empty = {"ok": False, "axioms": {}, "missing": list(tb["theorems"]), "forbidden": [], "extra_axioms": {}}
    r = sh(["python3", os.path.join(ROOT, "tools", "lockshape.py"), "--repo", REPO])
    if r.returncode != 0:
        return False, empty, "tools/lockshape.py failed on the current headers:\n" + (r.stdout + r.stderr)[-1500:]
    b = sh(["lake", "build", tb["target"]], cwd=LEAN)
    if b.returncode != 0:
        src = ("import Verif.Conc.ClockHeld\nimport Verif.Generated.LockShape\nopen Verif.Conc in\n"
               "#eval (Generated.table.filter (fun m => %s.contains m.cls && !m.%s Generated.table)).map (·.name)\n"
               % (list(tb["classes"]), tb["pred"]))
        tmp = os.path.join(CACHE, "badt-%d.lean" % os.getpid())
        open(tmp, "w").write(src)
        e = sh(["lake", "env", "lean", tmp], cwd=LEAN)
        os.unlink(tmp)
        names = re.findall(r'"([^"]+)"', e.stdout)
        sm = sh(["python3", os.path.join(ROOT, "tools", "lockshape.py"), "--repo", REPO, "--summary"])
        shapes = {}
        for l in sm.stdout.splitlines():
            t = l.split(None, 2)
            if len(t) == 3:
                shapes[t[0] + "." + t[1]] = t[2]
        note = "lake build %s fails on the table regenerated from the current headers; methods without the shape `%s`:\n" % (tb["target"], tb["pred"])
        note += "\n".join("  %s : %s" % (n, shapes.get(n, "?")) for n in names)
        w = [l for l in sm.stdout.splitlines() if l.startswith("wrapper ")]
        if not (w and "'lock': [1]" in w[0] and "'unlock': [2]" in w[0] and "'underlying': 'std::mutex'" in w[0]):
            note += "\n  lock.hpp: cappuccino::mutex<thread_safe::yes> is not a plain forwarder to a std::mutex (theorem wrapper_faithful): %s" % (w[0] if w else "?")
        if not names:
            note += "\n" + (b.stdout + b.stderr)[-1500:]
        return False, empty, note
    a = lean_audit(tb["theorems"], imports=("Verif", tb["target"]))
    return a["ok"], a, "" if a["ok"] else "audit of %s failed: missing %s, axioms %s" % (tb["target"], a["missing"], a["extra_axioms"])


EXERCISED = {"insert", "insert_range", "find", "find_range", "find_range_fill", "find_with_use_count", "erase", "erase_range",
             "clear", "clean_expired_values", "dynamically_age", "update_ttl", "size", "empty", "capacity"}


def unexercised_methods():
    """Public methods of the ten classes (as the translator sees them in the current headers) that no harness calls:
    the correspondence says nothing about them.  Reported in the evidence of the checks that run the translator."""
    sm = sh(["python3", os.path.join(ROOT, "tools", "lockshape.py"), "--repo", REPO, "--summary"])
    out = []
    for l in sm.stdout.splitlines():
        t = l.split(None, 2)
        if len(t) >= 2 and t[0] != "wrapper" and t[1].split("#")[0] not in EXERCISED:
            out.append(t[0] + "." + t[1])
    return out


def lean_audit_conc(theorems):
    return lean_audit(theorems, imports=("Verif", "Verif.Conc.RaceFreeTable"))


# ---------------------------------------------------------------------------------------------
# Harness build (from /repo's current working tree)
# ---------------------------------------------------------------------------------------------

SEQ_FLAGS = ["-std=c++17", "-O1", "-g", "-fsanitize=address,undefined", "-fno-sanitize-recover=all",
             "-D_GLIBCXX_DEBUG"]


def repo_sources():
    return walk(os.path.join(REPO, "inc"), (".hpp", ".h")) + walk(os.path.join(REPO, "src"), (".cpp",))


def harness_hash():
    return sha_files(repo_sources() + walk(HARNESS, (".cpp", ".hpp")) + [os.path.abspath(__file__)])


def harness_build(hooks=False):
    """Returns (path or None, log).  hooks=True: built with -DCAPPUCCINO_VERIF_HOOKS (structural tier)."""
    os.makedirs(CACHE, exist_ok=True)
    hh = harness_hash()
    d = os.path.join(CACHE, ("hs-" if hooks else "h-") + hh)
    exe = os.path.join(d, "harness")
    if os.path.exists(exe):
        os.utime(d)
        return exe, "cached " + hh
    tmp = d + ".tmp%d" % os.getpid()
    shutil.rmtree(tmp, ignore_errors=True)
    os.makedirs(tmp)
    inc = os.path.join(REPO, "inc")
    jobs = []
    flags = SEQ_FLAGS + (["-D" + GUARD] if hooks else [])
    for k in gen.KINDS:
        jobs.append(["g++"] + flags + ["-I" + inc, "-I" + HARNESS, "-DHK=" + k, "-DHK_" + k, "-c",
                                          os.path.join(HARNESS, "kind.cpp"), "-o", os.path.join(tmp, k + ".o")])
    jobs.append(["g++"] + flags + ["-I" + inc, "-I" + HARNESS, "-c", os.path.join(HARNESS, "main.cpp"), "-o",
                                      os.path.join(tmp, "main.o")])
    log = []
    with cf.ThreadPoolExecutor(max_workers=NCPU) as ex:
        for r in ex.map(lambda c: sh(c), jobs):
            if r.returncode != 0:
                log.append(r.stderr[-4000:])
    if log:
        shutil.rmtree(tmp, ignore_errors=True)
        return None, "\n".join(log)
    objs = [os.path.join(tmp, k + ".o") for k in gen.KINDS] + [os.path.join(tmp, "main.o")]
    r = sh(["g++", "-fsanitize=address,undefined"] + objs + ["-o", os.path.join(tmp, "harness")])
    if r.returncode != 0:
        shutil.rmtree(tmp, ignore_errors=True)
        return None, r.stderr[-4000:]
    for o in objs:
        os.unlink(o)
    shutil.rmtree(d, ignore_errors=True)
    os.rename(tmp, d)
    # keep only the two most recent harness builds
    pref = "hs-" if hooks else "h-"
    hs = sorted((x for x in os.listdir(CACHE) if x.startswith(pref) and ".tmp" not in x),
                key=lambda x: os.path.getmtime(os.path.join(CACHE, x)), reverse=True)
    for old in hs[4:]:
        shutil.rmtree(os.path.join(CACHE, old), ignore_errors=True)
    return exe, "built " + hh


# ---------------------------------------------------------------------------------------------
# Running scripts
# ---------------------------------------------------------------------------------------------

class Res:
    """What the driver (and the harness) said about one script."""

    def __init__(self, script):
        self.script = script
        self.kind = script[0].split()[1]
        self.mode = script[0].split()[8]
        self.l1 = None       # None = OK, else dict(ev, props, text)
        self.acc = []        # list of dict(inst, ev, props, text)
        self.twin = None     # dict(prop, ok, ev, text, kf)
        self.live = None
        self.bad = None
        self.crash = None    # sanitizer / abort text
        self.stat = {}
        self.maxcands = 1
        self.l2 = None       # structural tier: None / "OK n=.." / "DIFF ..."


def parse_driver(lines, results, offset):
    for ln in lines:
        if not ln.startswith("S "):
            continue
        t = ln.split(" ", 3)
        idx = int(t[1]) + offset
        if idx >= len(results):
            continue
        r = results[idx]
        what = t[2]
        rest = t[3] if len(t) > 3 else ""
        if what == "STAT":
            for kv in rest.split():
                k, _, v = kv.partition("=")
                if v.isdigit():
                    r.stat[k] = int(v)
        elif what == "L1":
            if rest.startswith("DIFF"):
                m = re.search(r"ev=(\d+) props=(\S*)", rest)
                r.l1 = {"ev": int(m.group(1)), "props": [x for x in m.group(2).split(",") if x], "text": rest}
        elif what == "ACC":
            if rest.startswith("FAIL"):
                m = re.search(r"inst=(\d+) ev=(\d+) props=(\S*)", rest)
                r.acc.append({"inst": int(m.group(1)), "ev": int(m.group(2)),
                              "props": [x for x in m.group(3).split(",") if x], "text": rest})
            else:
                m = re.search(r"maxcands=(\d+)", rest)
                if m:
                    r.maxcands = max(r.maxcands, int(m.group(1)))
        elif what == "TWIN":
            tt = rest.split(" ", 2)
            prop, verdict = tt[0], tt[1]
            tail = tt[2] if len(tt) > 2 else ""
            kf = []
            m = re.search(r"kf=(\S*)", tail)
            if m and verdict == "OK":
                kf = [x for x in m.group(1).split(",") if x]
            r.twin = {"prop": prop, "ok": verdict == "OK", "text": rest, "kf": kf}
        elif what == "L2":
            r.l2 = rest
        elif what == "LIVE":
            r.live = rest
        elif what == "BAD":
            r.bad = rest


SKEW = {"fired": 0, "noskew": 0}


def run_chunk(exe, scripts, extra_args=()):
    """Run a list of scripts through harness | driver. Returns list of Res (same order)."""
    results = [Res(s) for s in scripts]
    start = 0
    while start < len(scripts):
        text = "\n".join("\n".join(s) for s in scripts[start:]) + "\n"
        env = dict(os.environ, ASAN_OPTIONS="detect_leaks=1:abort_on_error=0:exitcode=66", UBSAN_OPTIONS="print_stacktrace=1")
        limit = 300 + len(scripts[start:]) // 20
        hung = False
        try:
            h = subprocess.run([exe] + list(extra_args), input=text, stdout=subprocess.PIPE, stderr=subprocess.PIPE,
                               text=True, env=env, timeout=limit)
        except subprocess.TimeoutExpired as e:
            # the implementation does not return from a call (infinite loop in a corrupted structure, deadlock)
            def txt(b_):
                return b_.decode("utf-8", "replace") if isinstance(b_, bytes) else (b_ or "")
            so = txt(e.stdout)
            h = subprocess.CompletedProcess(e.cmd, -9, so[:so.rfind("end\n") + 4] if "end\n" in so else "",
                                            txt(e.stderr) + "\nharness: no return from a call within %d s (hang)\n" % limit)
            hung = True
        d = subprocess.run([DRIVER], input=h.stdout, stdout=subprocess.PIPE, stderr=subprocess.PIPE, text=True)
        parse_driver(d.stdout.splitlines(), results, start)
        SKEW["fired"] += sum(int(x) for x in re.findall(r"@skew (\d+)", h.stderr))
        SKEW["noskew"] += len(re.findall(r"@noskew", h.stderr))
        if h.returncode == 0 and not hung:
            break
        # the harness died: the script being executed is the last `@script n` marker
        marks = re.findall(r"@script (\d+)", h.stderr)
        n = int(marks[-1]) if marks else 0
        bad = start + n
        err = re.sub(r"@(script|skew) \d+\n|@noskew\n", "", h.stderr)
        results[bad].crash = "exit=%d\n%s" % (h.returncode, err[-3000:])
        start = bad + 1
    return results


def run_scripts(exe, scripts, extra_args=()):
    if not scripts:
        return []
    n = max(1, min(NCPU, len(scripts) // 8 or 1))
    size = (len(scripts) + n - 1) // n
    chunks = [scripts[i:i + size] for i in range(0, len(scripts), size)]
    out = []
    with cf.ThreadPoolExecutor(max_workers=NCPU) as ex:
        for res in ex.map(lambda c: run_chunk(exe, c, extra_args), chunks):
            out.extend(res)
    return out


XARGS = ()


def run_one(exe, script, extra_args=None):
    return run_chunk(exe, [script], XARGS if extra_args is None else extra_args)[0]


# ---------------------------------------------------------------------------------------------
# Judging, shrinking, replay files
# ---------------------------------------------------------------------------------------------

LISTED = set()  # twin signatures covered by an open known finding (filled by check_known)


def failure_of(prop, r):
    """Does result `r` carry a failing input for `prop`?  Returns a short description or None."""
    spec = P.PROPS[prop]
    if r.crash:
        return "crash: " + r.crash.strip().splitlines()[-1][:200] if prop == "C08" else None
    if prop == "C08":
        if r.live:
            return "instance count: " + r.live
        if r.l2 and "undefined behaviour" in r.l2:
            return "slot-level model: " + r.l2
        return None
    if spec["judge"] == "ACC":
        for a in r.acc:
            if prop in a["props"]:
                return "reference semantics rejected the implementation's events: " + a["text"]
    if spec["judge"] == "L1":
        if r.l1 and prop in r.l1["props"]:
            return "policy model contradicted: " + r.l1["text"]
        for a in r.acc:
            if prop in a["props"]:
                return "reference semantics rejected the implementation's events: " + a["text"]
    if spec["judge"] == "TWIN":
        if r.twin and r.twin["prop"] == prop and not r.twin["ok"]:
            if "out of step" in r.twin["text"] or "ended early" in r.twin["text"] or "no clear in script" in r.twin["text"]:
                return None  # malformed twin script (only arises while shrinking)
            return "twin runs differ: " + r.twin["text"]
        if r.twin and r.twin["prop"] == prop:
            for sig in r.twin["kf"]:
                if sig not in LISTED:
                    return "twin runs differ in a way not listed as a known finding: " + sig
    return None


def tie_break_of(prop, r):
    """Is the correspondence this property's theorems rest on broken on `r` (without a failing input)?"""
    spec = P.PROPS[prop]
    if r.bad:
        return "driver could not read the harness output: " + r.bad
    if r.crash and prop != "C08":
        return "harness died: " + r.crash.strip().splitlines()[-1][:200]
    if prop == "C08" and r.l2 and r.l2.startswith("DIFF"):
        # a divergence that is already visible in the observable behaviour (outputs, observers, sweeps) is the
        # business of the behavioural properties; C08's own tie is broken when the private structure leaves
        # the slot-level model while the observable behaviour still agrees
        m = re.search(r"ev=(\d+)", r.l2)
        ev2 = int(m.group(1)) if m else 0
        if r.l1 is None or r.l1["ev"] > ev2 or "field=structure" not in r.l2 and r.l1 is None:
            if r.kind == "rr" and not rr_mirror_ok():
                # the slot-level rr model replays the mirrored draws too; they are not the implementation's
                RRDRAW["struct"] += 1
                return None
            return "private structure differs from the slot-level model: " + r.l2
    if spec["judge"] in ("L1", "TWIN") and r.l1:
        if rr_draws_only(r):
            RRDRAW["scripts"] += 1
            return None
        return "model and implementation disagree: " + r.l1["text"]
    return None


RRDRAW = {"scripts": 0, "struct": 0, "mirror": None}


def rr_mirror_ok():
    """Does the implementation's rr_cache draw its victims the way the harness mirrors them?  A sequential probe:
    capacity 3, twelve fresh keys (nine evictions) through the script harness and the driver; a first difference at
    an insert (marker RRDRAW) with the reference semantics accepting the script = not mirrored.  Cached per run."""
    if RRDRAW["mirror"] is None:
        exe, _ = harness_build()
        if exe is None:
            RRDRAW["mirror"] = True
        else:
            script = ["cfg rr 3 0 0 1 2 16 single ts=1 lf=1.0 val=u seed=4242"] + [
                "op 0 1000000000 ins %d %d iu 0" % (k, 100 + k) for k in range(12)] + ["end"]
            RRDRAW["mirror"] = not rr_draws_only(run_one(exe, script, ()))
    return RRDRAW["mirror"]



def rr_draws_only(r):
    """rr_cache: the model is fed the random outcomes the harness *mirrors* (same engine, same seed, one
    uniform_int_distribution per eviction).  If the implementation draws differently (another way of producing a
    uniform index), the first difference is a different victim at an evicting insert while everything else still
    agrees - and the reference semantics, which lets an evicting insert remove *any* resident, accepts the whole
    script.  That is not a broken correspondence: the model's input (the draws) could not be observed.  C15's
    first clause (a prior resident, never the new key, exactly one) is then decided by the acceptor alone and its
    spread clause by the spread probe."""
    return (r.kind == "rr" and r.l1 is not None and "RRDRAW" in r.l1["props"] and not r.acc and not r.crash
            and not r.bad and r.maxcands <= 400)


def ops_of(script):
    return [l for l in script if l.startswith("op ")]


def units_of(ops):
    """Group op lines into logical steps: the copies of one call on the twin instances, or the range
    call and its single calls (same @g tag), stay together so that shrinking keeps twins aligned."""
    units = []
    prev = None
    for l in ops:
        t = l.split()
        tag = t[3] if len(t) > 3 and t[3].startswith("@g") else None
        key = tag if tag else " ".join(t[2:])
        if prev is not None and key == prev:
            units[-1].append(l)
        else:
            units.append([l])
        prev = key
    return units


def shrink(exe, script, pred, budget=400):
    """Delta-debugging over logical steps; `pred(Res)` must stay true."""
    head = script[0]
    ubest = units_of(ops_of(script))
    n = 2
    tries = 0
    while len(ubest) >= 2 and tries < budget:
        size = max(1, len(ubest) // n)
        shrunk = False
        for i in range(0, len(ubest), size):
            cand = ubest[:i] + ubest[i + size:]
            if not cand:
                continue
            tries += 1
            r = run_one(exe, [head] + [l for u in cand for l in u] + ["end"])
            if pred(r):
                ubest = cand
                n = max(n - 1, 2)
                shrunk = True
                break
        if not shrunk:
            if size == 1:
                break
            n = min(len(ubest), n * 2)
    return [head] + [l for u in ubest for l in u] + ["end"]


def shrink_lines(exe, script, pred, budget=400):
    """(unused) line-level variant."""
    head, ops = script[0], ops_of(script)
    best = ops
    n = 2
    tries = 0
    while len(best) >= 2 and tries < budget:
        size = max(1, len(best) // n)
        shrunk = False
        for i in range(0, len(best), size):
            cand = best[:i] + best[i + size:]
            if not cand:
                continue
            tries += 1
            r = run_one(exe, [head] + cand + ["end"])
            if pred(r):
                best = cand
                n = max(n - 1, 2)
                shrunk = True
                break
        if not shrunk:
            if size == 1:
                break
            n = min(len(best), n * 2)
    return [head] + best + ["end"]


def write_replay(prop, seed, n, script, note):
    d = os.path.join(ROOT, "replays")
    os.makedirs(d, exist_ok=True)
    path = os.path.join(d, "%s-%s-%d.txt" % (prop, seed, n))
    with open(path, "w") as f:
        for l in note.splitlines():
            f.write("# " + l + "\n")
        f.write("\n".join(script) + "\n")
    return path


def load_script(path):
    return [l.rstrip("\n") for l in open(path) if l.strip() and not l.startswith("#")]


# ---------------------------------------------------------------------------------------------
# Known findings
# ---------------------------------------------------------------------------------------------

def known_findings():
    p = os.path.join(ROOT, "known_findings.json")
    if not os.path.exists(p):
        return {"open": [], "fixed": []}
    return json.load(open(p))


def check_known(prop, exe, out):
    """Run the replay of every open finding for `prop`; print KNOWN-FINDING for those that still fail the
    listed way.  Returns the set of twin signatures that are covered by an open finding."""
    sigs = set()
    for kf in known_findings().get("open", []):
        if prop not in kf["properties"]:
            continue
        script = load_script(os.path.join(ROOT, kf["replay"]))
        r = run_one(exe, script)
        still = False
        if kf.get("signature"):
            still = bool(r.twin and kf["signature"] in r.twin.get("kf", []))
        elif kf.get("clause"):
            still = any(kf["clause"] in a["text"] for a in r.acc) or bool(r.l1 and kf["clause"] in r.l1["text"])
        if still:
            out.append("KNOWN-FINDING: property=%s %s (%s)" % (prop, kf["what"], kf["id"]))
            if kf.get("signature"):
                sigs.add(kf["signature"])
    return sigs


# ---------------------------------------------------------------------------------------------
# The sequential check
# ---------------------------------------------------------------------------------------------

def gen_scripts(prop, tier, seed):
    spec = P.PROPS[prop]
    rng = random.Random(seed * 1000003 + int(prop[1:]))
    per = spec["quick"] if tier == "quick" else spec["thorough"] * THOROUGH_SCALE
    scripts = []
    # corpus first: minimised past failures and the replays of the repaired defects
    cdir = os.path.join(ROOT, "corpus")
    if os.path.isdir(cdir):
        for f in sorted(os.listdir(cdir)):
            s = load_script(os.path.join(cdir, f))
            if s and s[0].split()[1] in spec["kinds"] and s[0].split()[8] in spec["modes"]:
                scripts.append(s)
    ncorpus = len(scripts)
    if "single" in spec["modes"]:
        # one script of every 'unusual input' family per container (gen.gen_extreme), the huge ones in thorough only
        for kind in spec["kinds"]:
            scripts.extend(gen.extremes_fixed(rng, kind))
            if tier == "thorough":
                scripts.append(gen.gen_extreme(rng, kind, "hot", huge=True))
                if kind not in gen.TTL_KINDS:
                    scripts.append(gen.gen_extreme(rng, kind, "longrun", huge=True))
    for kind in spec["kinds"]:
        for mode in spec["modes"]:
            if mode == "c20" and kind not in ("utlru", "utmap"):
                continue
            for _ in range(per):
                scripts.append(gen.gen(rng, kind, mode))
    if tier == "thorough" and "single" in spec["modes"]:
        # bounded-exhaustive small scope: every script of 3 steps over the small alphabet, 2 slots, 3 keys
        # and every script of 4 steps over 2 keys
        for kind in spec["kinds"]:
            scripts.extend(gen.exhaustive(kind, 3))
            scripts.extend(gen.exhaustive(kind, 4, nkeys=2))
    return scripts, ncorpus


THOROUGH_SCALE = int(os.environ.get("VERIF_THOROUGH_SCALE", "4"))


def summarize(results):
    tot = {}
    perkind = {}
    for r in results:
        for k, v in r.stat.items():
            tot[k] = tot.get(k, 0) + v
        perkind[r.kind] = perkind.get(r.kind, 0) + 1
    return tot, perkind


def op_histogram(scripts):
    h = {}
    for s in scripts:
        for l in ops_of(s):
            t = l.split()
            name = t[4] if t[3].startswith("@") else t[3]
            h[name] = h.get(name, 0) + 1
    return h


def nontrivial(r):
    st = r.stat
    return (st.get("evictions", 0) + st.get("reaped", 0) + st.get("expired", 0) + st.get("rejected", 0)) > 0 and st.get("hits", 0) > 0



# ---------------------------------------------------------------------------------------------
# C15: spread probe (harness/rrspread.cpp) - which resident positions do rr_cache's evictions reach?
# ---------------------------------------------------------------------------------------------

SPREAD_EDGES = [255, 256, 257, 258, 511, 512, 513, 1000, 1023, 1024, 1025, 2047, 2048, 2049, 4095, 4096, 4097, 10000, 65537]


def spread_caps(tier):
    if tier == "thorough":
        return list(range(1, 1101)) + [c for c in SPREAD_EDGES if c > 1100] + [8191, 8193, 16385, 32769, 131073]
    return list(range(1, 130)) + SPREAD_EDGES


def spread_build():
    os.makedirs(CACHE, exist_ok=True)
    exe = os.path.join(CACHE, "spread-" + harness_hash())
    if os.path.exists(exe):
        return exe, "cached"
    for old in [x for x in os.listdir(CACHE) if x.startswith("spread-")]:
        os.unlink(os.path.join(CACHE, old))
    r = sh(["g++", "-std=c++17", "-O2", "-I" + os.path.join(REPO, "inc"), os.path.join(HARNESS, "rrspread.cpp"), "-o", exe + ".tmp", "-pthread"])
    if r.returncode != 0:
        return None, r.stderr[-2000:]
    os.rename(exe + ".tmp", exe)
    return exe, "built"


def spread_probe(caps):
    """-> (summary dict, list of (cap, text) where a resident position is immune / one position always chosen)."""
    exe, log = spread_build()
    if exe is None:
        return {"built": False, "note": "probe does not compile against the current rr_cache: " + log[-300:]}, []
    try:
        r = subprocess.run([exe] + [str(c) for c in caps], stdout=subprocess.PIPE, stderr=subprocess.PIPE, text=True, timeout=600)
    except subprocess.TimeoutExpired:
        return {"built": True, "note": "probe timed out"}, []
    rows, bad, inconclusive = [], [], 0
    for l in r.stdout.splitlines():
        t = l.split()
        if len(t) != 14 or t[0] != "cap":
            continue
        d = {t[i]: int(t[i + 1]) for i in range(0, 14, 2)}
        rows.append(d)
        if d["records"] != d["evictions"] or d["positions"] > d["cap"] or d["missing"]:
            # the value-assignment pattern is not the one the probe understands (or an insert failed): no verdict
            inconclusive += 1
            continue
        if d["positions"] < d["cap"]:
            bad.append((d["cap"], "capacity %d: %d of %d resident positions were never chosen in %d evictions" % (d["cap"], d["cap"] - d["positions"], d["cap"], d["evictions"])))
        elif d["cap"] >= 2 and d["max"] >= d["evictions"]:
            bad.append((d["cap"], "capacity %d: one position was chosen in all %d evictions" % (d["cap"], d["evictions"])))
    summ = {"built": True, "exit": r.returncode, "capacities": len(rows), "evictions": sum(d["evictions"] for d in rows),
            "inconclusive_capacities": inconclusive,
            "least_hits_of_any_position_over_40xcap_evictions": min([d["min"] for d in rows] or [0]),
            "most_hits_of_any_position": max([d["max"] for d in rows] or [0]),
            "rule": "per capacity: fill, 40 x capacity evicting inserts; a position = the address of the value that is overwritten; every position must be hit (P[false alarm] < cap * e^-40)"}
    if r.returncode != 0 and not rows:
        summ["note"] = "probe died: " + r.stderr[-300:]
    return summ, bad


def main_seq(prop, tier, seed, t0):
    spec = P.PROPS[prop]
    out = []
    # 1. Lean
    ok, log = lean_build()
    audit = lean_audit(spec["theorems"]) if ok else {"ok": False, "axioms": {}, "missing": spec["theorems"], "forbidden": [], "extra_axioms": {}}
    lean_ok = ok and audit["ok"]
    tnote = ""
    if ok and spec.get("table"):
        tok, taudit, tnote = table_obligation(spec["table"])
        lean_ok = lean_ok and tok
        audit = dict(audit, axioms=dict(audit["axioms"], **taudit["axioms"]), missing=audit["missing"] + taudit["missing"],
                     extra_axioms=dict(audit["extra_axioms"], **taudit["extra_axioms"]), ok=audit["ok"] and tok)
    # 2. harness (C08: with the friend hook, so that the private structure can be compared)
    struct = bool(spec.get("struct"))
    exe, hlog = harness_build(hooks=struct)
    struct_note = None
    if exe is None and struct:
        # The friend-hook dump (harness/dump.hpp) names private members.  If only *it* no longer compiles (members
        # renamed / retyped), the behavioural tie is intact: the L2 models are still run on the same calls and
        # compared on every output, and the sanitizers still watch the real code.  Only the member-for-member
        # comparison is unavailable; that is recorded, not reported as a violation.
        exe2, hlog2 = harness_build(hooks=False)
        if exe2 is not None:
            struct_note = ("structural comparison skipped: harness/dump.hpp does not compile against the current private "
                           "layout (" + hlog.strip().splitlines()[0][:200] + "); L2 models compared on outputs only, sanitizers as usual")
            print("NOTE: " + struct_note)
            exe, hlog, struct = exe2, hlog2, False
    xargs = ("--struct",) if struct else ()
    if exe is None:
        # the headers no longer compile with the harness: the correspondence cannot be run at all
        path = write_replay(prop, seed, 0, ["# no script"], "harness does not build against the current tree:\n" + hlog[-1500:])
        finish(prop, tier, seed, t0, spec, audit, [], [], 0, violations=1, extra={"harness_build": "failed"})
        print("VIOLATION property=%s replay=%s no-failing-input-found" % (prop, path))
        return 1
    # 3. scripts
    scripts, ncorpus = gen_scripts(prop, tier, seed)
    results = run_scripts(exe, scripts, xargs)
    # 4. judge
    LISTED.update(check_known(prop, exe, out))
    global XARGS
    XARGS = xargs
    fails = []
    ties = []
    kf_seen = set()
    for r in results:
        f = failure_of(prop, r)
        if f:
            fails.append((r, f))
            continue
        if r.twin and r.twin["ok"]:
            kf_seen.update(r.twin["kf"])
        t = tie_break_of(prop, r)
        if t:
            ties.append((r, t))
    for l in out:
        print(l)
    violations = 0
    rc = 0
    extra_cov = {}
    spread_bad = []
    if prop == "C15":
        extra_cov["spread_probe"], spread_bad = spread_probe(spread_caps(tier))
        extra_cov["rr_scripts_whose_draws_could_not_be_mirrored"] = RRDRAW["scripts"]
    if prop == "C08" and RRDRAW["struct"]:
        extra_cov["rr_scripts_whose_structure_was_not_compared_because_the_draws_could_not_be_mirrored"] = RRDRAW["struct"]
    if spread_bad and not fails:
        cap, why = spread_bad[0]
        path = write_replay(prop, seed, len(spread_bad), ["spread %d" % c for c, _ in spread_bad[:5]],
                            "property C15 (spread clause) fails on the implementation\n%s\n(%d capacities affected; replay with: ./check C15 --replay <this file>)" % (why, len(spread_bad)))
        print("VIOLATION property=%s replay=%s" % (prop, path))
        violations = len(spread_bad)
        rc = 1
    elif fails:
        r, why = fails[0]
        pred = lambda x: failure_of(prop, x) is not None  # noqa: E731
        small = shrink(exe, r.script, pred) if len(ops_of(r.script)) > 1 else r.script
        rs = run_one(exe, small)
        why2 = failure_of(prop, rs) or why
        path = write_replay(prop, seed, len(fails), small, "property %s fails on the implementation\n%s\n(%d failing scripts in this run; replay with: ./check %s --replay <this file>)" % (prop, why2, len(fails), prop))
        print("VIOLATION property=%s replay=%s" % (prop, path))
        violations = len(fails)
        rc = 1
    elif not lean_ok:
        note = "the Lean side no longer checks for %s\nmissing theorems: %s\nforbidden constructs: %s\nunexpected axioms: %s\n%s" % (
            prop, audit.get("missing"), audit.get("forbidden"), audit.get("extra_axioms"), tnote if ok else log[-3000:])
        path = write_replay(prop, seed, 0, ["# no script"], note)
        print("VIOLATION property=%s replay=%s no-failing-input-found" % (prop, path))
        violations = 1
        rc = 1
    elif ties:
        r, why = ties[0]
        pred = lambda x: tie_break_of(prop, x) is not None  # noqa: E731
        small = shrink(exe, r.script, pred, budget=150) if not r.crash else r.script
        path = write_replay(prop, seed, len(ties), small, "correspondence broken for %s: %s\nno input was found on which the property itself fails\n(%d disagreeing scripts)" % (prop, why, len(ties)))
        print("VIOLATION property=%s replay=%s no-failing-input-found" % (prop, path))
        violations = len(ties)
        rc = 1
    finish(prop, tier, seed, t0, spec, audit, scripts, results, ncorpus, violations,
           extra=dict({"harness": hlog, "known_finding_signatures_seen": sorted(kf_seen)}, **extra_cov,
                      **({"structural_tier": struct_note} if struct_note else {})))
    return rc


def finish(prop, tier, seed, t0, spec, audit, scripts, results, ncorpus, violations, extra=None):
    tot, perkind = summarize(results)
    distinct = len({hashlib.sha256("\n".join(ops_of(r.script)).encode()).hexdigest() for r in results if nontrivial(r)})
    samples = []
    for r in results[ncorpus:ncorpus + 2]:
        samples.append({"cfg": r.script[0], "ops": ops_of(r.script)[:12], "n_ops": len(ops_of(r.script))})
    thms = spec["theorems"] + (spec["table"]["theorems"] if spec.get("table") else [])
    discharged = [t for t in thms if t in audit.get("axioms", {})]
    ev = {
        "property_id": prop,
        "tier": tier,
        "seed": seed,
        "level": "proof",
        "coverage": {
            "obligations": max(1, len(thms)),
            "discharged": len(discharged) if audit.get("ok") else 0,
            "checker_cmd": "cd /verif/lean && lake build && lake env lean <#print axioms of the theorems below>" + (
                "; python3 tools/lockshape.py && lake build %s (table obligation, regenerated from the current headers)" % spec["table"]["target"] if spec.get("table") else ""),
            "trusted_base": P.TRUSTED_BASE + (["tools/lockshape.py (clang 14 JSON AST walk) for the table obligation; `decide +kernel` evaluates it in the kernel"] if spec.get("table") else []),
            "theorems": thms,
            "axioms_per_theorem": audit.get("axioms", {}),
            "forbidden_constructs_found": audit.get("forbidden", []),
            "evaluations": len(results),
            "distinct_nontrivial": distinct,
            "rule": "scripts generated from VERIF_SEED by tools/gen.py (modes %s, kinds %s), run on the real headers; distinct = distinct op sequences; non-trivial = at least one lookup hit and at least one eviction / expiry / reaped entry / rejected insert" % (spec["modes"], spec["kinds"]),
            "traces_validated_against_impl": len([r for r in results if not r.l1 and not r.acc and not r.crash and not r.bad]),
            "corpus_scripts": ncorpus,
            **({"public_methods_no_harness_exercises": unexercised_methods()} if spec.get("table") else {}),
            "scripts_with_lock_entry_skew": len([x for x in scripts if " skew=1" in x[0]]),
            "lock_acquisitions_that_moved_the_clock": SKEW["fired"],
            "skew_scripts_run_unskewed_because_the_lock_is_not_a_pthread_mutex": SKEW["noskew"],
            "scripts_per_kind": perkind,
            "operation_histogram": op_histogram(scripts),
            "measured": tot,
            "max_reference_candidates": max([r.maxcands for r in results] or [1]),
            "structural_tier_scripts_agreeing": len([r for r in results if r.l2 and r.l2.startswith("OK")]),
            "samples": samples or [{"note": "no scripts were run"}],
            "explanation": spec["explain"],
        },
        "assumptions": P.ASSUMPTIONS + spec.get("assume", []),
        "wall_s": round(time.time() - t0, 2),
        "violations": violations,
    }
    if extra:
        ev["coverage"].update(extra)
    os.makedirs(os.path.join(ROOT, "evidence"), exist_ok=True)
    json.dump(ev, open(os.path.join(ROOT, "evidence", prop + ".json"), "w"), indent=1)


# ---------------------------------------------------------------------------------------------

def setup():
    ok, log = lean_build()
    if not ok:
        print(log[-4000:])
        return 2
    exe, hlog = harness_build()
    if exe is None:
        print(hlog)
        return 2
    print("setup ok:", hlog)
    return 0


def replay(prop, path):
    ok, log = lean_build()
    exe, hlog = harness_build()
    if not ok or exe is None:
        print("build failed", log[-2000:], hlog)
        return 2
    script = load_script(path)
    if script and script[0].startswith("spread "):
        summ, bad = spread_probe([int(l.split()[1]) for l in script if l.startswith("spread ")])
        print(json.dumps(summ, indent=1))
        for _, why in bad:
            print(why)
        if bad:
            print("VIOLATION property=%s replay=%s" % (prop, path))
            return 1
        return 0
    if not script or script[0].startswith("no script"):
        print(open(path).read())
        return 0
    r = run_one(exe, script)
    text = "\n".join(script) + "\n"
    h = subprocess.run([exe], input=text, stdout=subprocess.PIPE, stderr=subprocess.PIPE, text=True)
    d = subprocess.run([DRIVER], input=h.stdout, stdout=subprocess.PIPE, text=True)
    print(h.stdout)
    print(d.stdout)
    if h.returncode != 0:
        print(h.stderr[-3000:])
    f = failure_of(prop, r) if prop in P.PROPS else None
    if f:
        print("VIOLATION property=%s replay=%s" % (prop, path))
        return 1
    return 0


def main():
    args = sys.argv[1:]
    if not args or args[0] in ("-h", "--help"):
        print(__doc__)
        return 0
    if args[0] == "--setup":
        return setup()
    prop = args[0]
    tier = os.environ.get("VERIF_TIER", "quick")
    if "--tier" in args:
        tier = args[args.index("--tier") + 1]
    seed = int(os.environ.get("VERIF_SEED", "1"))
    if "--replay" in args:
        if prop in P.CONC:
            import conc
            return conc.replay(prop, args[args.index("--replay") + 1])
        return replay(prop, args[args.index("--replay") + 1])
    t0 = time.time()
    if prop in P.CONC:
        import conc
        return conc.main(prop, tier, seed, t0)
    if prop == "C08":
        import mem
        return mem.main(prop, tier, seed, t0)
    return main_seq(prop, tier, seed, t0)


if __name__ == "__main__":
    sys.exit(main())
