// Translation unit for tools/lockshape.py: instantiates every public member (and member template) of
// the ten containers with thread_safe::yes so that clang's AST contains their fully resolved bodies.
#include <cappuccino/cappuccino.hpp>

#include <cstdint>
#include <map>
#include <tuple>
#include <vector>

using K = uint64_t;
using V = uint64_t;
using namespace cappuccino;

template class cappuccino::lru_cache<K, V, thread_safe::yes>;
template class cappuccino::mru_cache<K, V, thread_safe::yes>;
template class cappuccino::fifo_cache<K, V, thread_safe::yes>;
template class cappuccino::lfu_cache<K, V, thread_safe::yes>;
template class cappuccino::lfuda_cache<K, V, thread_safe::yes>;
template class cappuccino::rr_cache<K, V, thread_safe::yes>;
template class cappuccino::tlru_cache<K, V, thread_safe::yes>;
template class cappuccino::utlru_cache<K, V, thread_safe::yes>;
template class cappuccino::ut_map<K, V, thread_safe::yes>;
template class cappuccino::ut_set<K, thread_safe::yes>;

template<class C> void ranges(C& c)
{
    std::vector<std::pair<K, V>>                kv;
    std::vector<K>                              ks;
    std::vector<std::pair<K, std::optional<V>>> fill;
    c.insert_range(kv);
    c.erase_range(ks);
    (void)c.find_range(ks);
    c.find_range_fill(fill);
}

void instantiate_member_templates()
{
    lru_cache<K, V>   a(1); ranges(a);
    mru_cache<K, V>   b(1); ranges(b);
    lfu_cache<K, V>   d(1); ranges(d);
    lfuda_cache<K, V> e(1); ranges(e);
    rr_cache<K, V>    f(1); ranges(f);
    utlru_cache<K, V> g(std::chrono::milliseconds{1}, 1); ranges(g);
    ut_map<K, V>      h; ranges(h);

    fifo_cache<K, V> ff(1);
    ranges(ff);
    std::vector<std::pair<K, V>>                kv;
    std::vector<K>                              ks;
    std::vector<std::pair<K, std::optional<V>>> fill;
    ff.insert(kv.begin(), kv.end());
    ff.erase(ks.begin(), ks.end());
    (void)ff.find(ks.begin(), ks.end());
    ff.find_range_fill(fill.begin(), fill.end());

    tlru_cache<K, V>                                        t(1);
    std::vector<std::tuple<std::chrono::milliseconds, K, V>> tkv;
    t.insert_range(tkv);
    t.erase_range(ks);
    (void)t.find_range(ks);
    t.find_range_fill(fill);

    ut_set<K>                        s;
    std::vector<std::pair<K, bool>>  bfill;
    s.insert_range(ks);
    s.erase_range(ks);
    (void)s.find_range(ks);
    s.find_range_fill(bfill);
}
