#!/usr/bin/env python3
"""Confirms a seeded change (a mutant produced independently of /verif) and runs the registered checks on it.

  seedtest.py confirm <src_dir> <id> <property>   copy patch.diff/demo.cpp/README.md to /verif/seeded/<id>/ and confirm,
                                                  in a scratch worktree: patch applies, the 167 tests pass with it, the
                                                  demo fails with it and passes without it
  seedtest.py run <id> [props...]                 apply /verif/seeded/<id>/patch.diff to /repo, run the quick checks,
                                                  undo, record which checks reported what in meta.json
"""
import json
import os
import shutil
import subprocess
import sys
import tempfile
import time

ROOT = os.path.dirname(os.path.dirname(os.path.abspath(__file__)))
REPO = "/repo"


def sh(cmd, **kw):
    return subprocess.run(cmd, stdout=subprocess.PIPE, stderr=subprocess.STDOUT, text=True, **kw)


def confirm(src, sid, prop):
    d = os.path.join(ROOT, "seeded", sid)
    os.makedirs(d, exist_ok=True)
    for f in ("patch.diff", "demo.cpp", "README.md"):
        shutil.copy(os.path.join(src, f), os.path.join(d, f))
    wt = tempfile.mkdtemp(prefix="seedwt_", dir="/tmp")
    os.rmdir(wt)
    meta = {"id": sid, "breaks_property": prop, "confirmed": {}}
    try:
        r = sh(["git", "-C", REPO, "worktree", "add", "-q", wt, "HEAD"])
        assert r.returncode == 0, r.stdout
        # demo against the unmodified tree
        flags = os.environ.get("DEMO_FLAGS", "").split()
        meta["demo_flags"] = flags
        r = sh(["g++", "-std=c++17", "-O1"] + flags + ["-I" + wt + "/inc", os.path.join(d, "demo.cpp"), "-o", wt + "/demo_orig", "-pthread"])
        assert r.returncode == 0, r.stdout[-2000:]
        r0 = sh([wt + "/demo_orig"], timeout=600)
        meta["confirmed"]["demo_without_change"] = {"exit": r0.returncode, "tail": r0.stdout[-300:]}
        r = sh(["git", "-C", wt, "apply", os.path.join(d, "patch.diff")])
        meta["confirmed"]["patch_applies"] = r.returncode == 0
        assert r.returncode == 0, r.stdout
        r = sh(["g++", "-std=c++17", "-O1"] + flags + ["-I" + wt + "/inc", os.path.join(d, "demo.cpp"), "-o", wt + "/demo_mut", "-pthread"])
        assert r.returncode == 0, r.stdout[-2000:]
        r1 = sh([wt + "/demo_mut"], timeout=600)
        meta["confirmed"]["demo_with_change"] = {"exit": r1.returncode, "tail": r1.stdout[-300:]}
        # the existing suite with the change
        b = wt + "/_b"
        r = sh("cmake -G Ninja -S %s -B %s -DCAPPUCCINO_BUILD_EXAMPLES=OFF >/dev/null && cmake --build %s 2>&1 | tail -3" % (wt, b, b), shell=True)
        rt = sh([b + "/test/libcappuccino_tests"], timeout=900)
        meta["confirmed"]["tests_with_change"] = {"exit": rt.returncode, "tail": rt.stdout.strip().splitlines()[-1] if rt.stdout.strip() else ""}
        meta["confirmed"]["ok"] = (r0.returncode == 0 and r1.returncode != 0 and rt.returncode == 0 and "167 test cases" in rt.stdout)
    finally:
        sh(["git", "-C", REPO, "worktree", "remove", "--force", wt])
        shutil.rmtree(wt, ignore_errors=True)
    mp = os.path.join(d, "meta.json")
    old = json.load(open(mp)) if os.path.exists(mp) else {}
    old.update(meta)
    json.dump(old, open(mp, "w"), indent=1)
    print(json.dumps(meta, indent=1))
    return 0 if meta["confirmed"].get("ok") else 1


def run(sid, props):
    d = os.path.join(ROOT, os.environ.get("SEED_BASE", "seeded"), sid)
    manifest = json.load(open(os.path.join(ROOT, "MANIFEST.json")))
    claimed = [c["property_id"] for c in manifest["checks"]]
    import importlib
    sys.path.insert(0, os.path.join(ROOT, "tools"))
    P = importlib.import_module("props")
    todo = props or sorted(set(claimed) | set(P.PROPS.keys()) | set(P.CONC))
    assert sh(["git", "-C", REPO, "status", "--porcelain", "--untracked-files=no"]).stdout.strip() == "", "repo not clean"
    r = sh(["git", "-C", REPO, "apply", os.path.join(d, "patch.diff")])
    assert r.returncode == 0, r.stdout
    results = {}
    try:
        for p in todo:
            t0 = time.time()
            r = sh([os.path.join(ROOT, "check"), p, "--tier", "quick"], cwd=ROOT, env=dict(os.environ, VERIF_SEED=os.environ.get("VERIF_SEED", "1")))
            lines = [l for l in r.stdout.splitlines() if l.startswith("VIOLATION") or l.startswith("KNOWN-FINDING")]
            viol = [l for l in lines if l.startswith("VIOLATION")]
            kind = "quiet"
            if viol:
                kind = "no-failing-input-found" if "no-failing-input-found" in viol[0] else "violation-with-replay"
            results[p] = {"exit": r.returncode, "report": kind, "line": viol[0] if viol else "", "wall_s": round(time.time() - t0, 1)}
            if viol and "replay=" in viol[0]:
                rp = viol[0].split("replay=")[1].split()[0]
                if os.path.exists(rp):
                    results[p]["replay_head"] = open(rp).read()[:800]
            print(p, results[p]["report"], results[p]["exit"], flush=True)
    finally:
        sh(["git", "-C", REPO, "checkout", "--", "."])
    mp = os.path.join(d, "meta.json")
    meta = json.load(open(mp)) if os.path.exists(mp) else {"id": sid}
    meta.setdefault("checks_quick", {}).update(results)
    meta["ran"] = "git -C /repo apply " + os.environ.get("SEED_BASE", "seeded") + "/%s/patch.diff; ./check <Cxx> --tier quick for each property; git -C /repo checkout -- ." % sid
    json.dump(meta, open(mp, "w"), indent=1)
    return 0


if __name__ == "__main__":
    if sys.argv[1] == "confirm":
        sys.exit(confirm(sys.argv[2], sys.argv[3], sys.argv[4]))
    if sys.argv[1] == "run":
        sys.exit(run(sys.argv[2], sys.argv[3:]))
