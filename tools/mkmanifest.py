#!/usr/bin/env python3
"""Regenerates /verif/MANIFEST.json from tools/props.py (claimed checks) and tools/manifest_extra.json."""
import json
import os
import sys

ROOT = os.path.dirname(os.path.dirname(os.path.abspath(__file__)))
sys.path.insert(0, os.path.join(ROOT, "tools"))
import props as P  # noqa: E402

extra = json.load(open(os.path.join(ROOT, "tools", "manifest_extra.json")))
props = [json.loads(l) for l in open(os.path.join(ROOT, "properties.jsonl"))]
checks = []
na = []
for p in props:
    pid = p["id"]
    info = extra["checks"].get(pid)
    if (pid in P.PROPS or pid in P.CONC) and info and info.get("claimed", True):
        checks.append({
            "property_id": pid,
            "quick_cmd": "./check %s --tier quick" % pid,
            "thorough_cmd": "./check %s --tier thorough" % pid,
            "evidence_file": "/verif/evidence/%s.json" % pid,
            "replay_cmd_template": "./check %s --replay {path}" % pid,
            "engine": info.get("engine", "lean+harness"),
            "level_claimed": {"category": info.get("category", "proof"), "text": info["text"], "design_ref": info.get("design_ref", "DESIGN.md section 6")},
            "level_note": info["note"],
            "technique": info.get("technique", "Lean 4 proof (refinement to a reference semantics) + differential correspondence with the real headers"),
        })
    else:
        na.append({"property_id": pid, "reason": (info or {}).get("na_reason", extra["default_na_reason"])})
m = {
    "version": 1,
    "setup_cmd": "./check --setup",
    "hooks": extra["hooks"],
    "engines": extra["engines"],
    "checks": checks,
    "not_applicable": na,
    "notes": extra["notes"],
}
json.dump(m, open(os.path.join(ROOT, "MANIFEST.json"), "w"), indent=1)
print("claimed:", [c["property_id"] for c in checks])
print("not claimed:", [n["property_id"] for n in na])
