"""Per-property configuration of the checks: containers, script modes, judge, theorems."""

ALL = ["lru", "mru", "fifo", "lfu", "lfuda", "rr", "tlru", "utlru", "utmap", "utset"]
BOUNDED = ["lru", "mru", "fifo", "lfu", "lfuda", "rr", "tlru", "utlru"]
TTL = ["tlru", "utlru", "utmap", "utset"]

CONC = ("C06", "C07")

REFINES = ["Verif.Rec.refines", "Verif.Fifo.refines", "Verif.Rr.refines", "Verif.Lfu.refines", "Verif.Lfuda.refines",
           "Verif.Tlru.refines", "Verif.Utlru.refines", "Verif.UtMap.refines"]
REFINES_TTL = ["Verif.Tlru.refines", "Verif.Utlru.refines", "Verif.UtMap.refines"]
LIFT = ["Verif.Refines.runA", "Verif.Core.runA_eq", "Verif.Verified.history_is_run"]
BUNDLES = ["Verif.lruV", "Verif.mruV", "Verif.fifoV", "Verif.rrV", "Verif.lfuV", "Verif.lfudaV", "Verif.tlruV",
           "Verif.utlruV", "Verif.utmapV"]

TRUSTED_BASE = [
    "Lean 4.33.0 kernel; axioms allowed in any listed theorem: propext, Quot.sound, Classical.choice (audited every run by #print axioms)",
    "the hand-written models lean/Verif/Model/*.lean as a reading of inc/cappuccino/*.hpp: checked every run by the correspondence harness (real headers, same scripts, outputs + observers + sweeps compared), to the extent of the scripts executed",
    "std::list / std::vector / std::unordered_map / std::map / std::multimap behave per their standard contracts (modelled as lists; multimap::emplace inserts after equal keys)",
    "the harness: virtual steady_clock (link-time override of steady_clock::now), pinned random_device, twin replay for sweeps of TTL containers, canonical output",
    "the Lean driver's parser, acceptor (Accept.lean) and twin comparisons (Twin.lean): executed, not proved about",
    "g++ 12.2 / libstdc++ 12 / ASan+UBSan+_GLIBCXX_DEBUG as the meaning of what the code does",
]

ASSUMPTIONS = [
    "clock readings along a history are non-decreasing (steady_clock contract); TTLs keep now+ttl within the clock's range",
    "keys and values are modelled as natural numbers; the containers only use ==/hash/< on keys and copy/move on values",
    "capacity >= 1 and a finite positive load factor (the load factor does not occur in the model; the harness varies it)",
]

PROPS = {
    "C01": dict(kinds=ALL, modes=["single"], judge="ACC", quick=150, thorough=6000,
                theorems=["Verif.Verified.C01", "Verif.Spec.lookup_hit_is_last_write", "Verif.Spec.coupled_step"] + LIFT + REFINES + BUNDLES,
                explain="Theorem Verified.C01: in every history of every container model a lookup hit reports the latest successful write of that key (not erased/cleared since), for every victim choice; tie: the implementation's events are accepted by the executable reference semantics (Accept.lean) with the implementation's own victims."),
    "C02": dict(kinds=ALL, modes=["single"], judge="ACC", quick=150, thorough=6000,
                theorems=["Verif.Verified.C02_bound", "Verif.Spec.size_le_cap_step"] + LIFT + REFINES + BUNDLES,
                explain="Theorem Verified.C02_bound (size <= capacity after every history) plus the Nodup/length invariants of each Refines proof; observers size/empty/capacity and the sweep are compared with the reference semantics after every call."),
    "C03": dict(kinds=ALL, modes=["single"], judge="ACC", quick=150, thorough=6000,
                theorems=["Verif.Verified.C03", "Verif.Spec.retention_step"] + LIFT + REFINES + BUNDLES,
                explain="Theorem Verified.C03: at every step of every history a live resident entry survives unless erased, rewritten, or the single victim of an insert of a new key into a full container."),
    "C04": dict(kinds=TTL, modes=["single"], judge="ACC", quick=300, thorough=10000,
                theorems=["Verif.Verified.C01", "Verif.Spec.lookup_hit_is_last_write", "Verif.Spec.pre_fresh"] + LIFT + REFINES_TTL,
                explain="Theorem Verified.C01 (lazy flavor clause: a hit is strictly before the deadline of the latest write) and Spec.pre_fresh (eager flavor: after the per-call purge every resident entry is strictly before its deadline)."),
    "C05": dict(kinds=TTL, modes=["single"], judge="ACC", quick=300, thorough=10000,
                theorems=["Verif.Verified.C05", "Verif.Spec.live_is_served", "Verif.Verified.C03"] + LIFT + REFINES_TTL,
                explain="Theorem Verified.C05: a resident entry before its deadline is served by every lookup; its deadline is the one its latest write carried (coupling), and C03 bounds how it can stop being resident."),
    "C09": dict(kinds=ALL, modes=["single"], judge="ACC", quick=150, thorough=6000,
                theorems=["Verif.Verified.C09", "Verif.Spec.allow_verdict"] + LIFT + REFINES + BUNDLES,
                explain="Theorem Verified.C09: verdict of every single insert/update (and each element of a range) by allow mode and residency; rejected calls change nothing."),
    "C17": dict(kinds=TTL, modes=["single"], judge="ACC", quick=300, thorough=10000,
                theorems=["Verif.Verified.C17", "Verif.Spec.reap_exact"] + LIFT + REFINES_TTL,
                explain="Theorem Verified.C17: clean_expired_values removes exactly the expired entries and returns the drop in size."),
}
