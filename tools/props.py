"""Per-property configuration of the checks: containers, script modes, judge, theorems."""

ALL = ["lru", "mru", "fifo", "lfu", "lfuda", "rr", "tlru", "utlru", "utmap", "utset"]
BOUNDED = ["lru", "mru", "fifo", "lfu", "lfuda", "rr", "tlru", "utlru"]
TTL = ["tlru", "utlru", "utmap", "utset"]

CONC = ("C06", "C07")

REFINES = ["Verif.Rec.refines", "Verif.Fifo.refines", "Verif.Rr.refines", "Verif.Lfu.refines", "Verif.Lfuda.refines",
           "Verif.Tlru.refines", "Verif.Utlru.refines", "Verif.UtMap.refines"]
REFINES_TTL = ["Verif.Tlru.refines", "Verif.Utlru.refines", "Verif.UtMap.refines"]
LIFT = ["Verif.Refines.runA", "Verif.Core.runA_eq", "Verif.Verified.history_is_run", "Verif.Accept.accept_sound", "Verif.Accept.succ?_sound",
        "Verif.Accept.accept_complete", "Verif.Accept.accept_soundD", "Verif.Accept.accept_complete_lax_false",
        "Verif.Refines.runA_anyclock", "Verif.Verified.history_is_run_anyclock", "Verif.tlruV_timeless", "Verif.utlruV_timeless", "Verif.lfudaV_timeless"]
BUNDLES = ["Verif.lruV", "Verif.mruV", "Verif.fifoV", "Verif.rrV", "Verif.lfuV", "Verif.lfudaV", "Verif.tlruV",
           "Verif.utlruV", "Verif.utmapV"]

TRUSTED_BASE = [
    "Lean 4.33.0 kernel; axioms allowed in any listed theorem: propext, Quot.sound, Classical.choice (audited every run by #print axioms)",
    "the hand-written models lean/Verif/Model/*.lean as a reading of inc/cappuccino/*.hpp: checked every run by the correspondence harness (real headers, same scripts, outputs + observers + sweeps compared), to the extent of the scripts executed",
    "std::list / std::vector / std::unordered_map / std::map / std::multimap behave per their standard contracts (modelled as lists; multimap::emplace inserts after equal keys)",
    "the harness: virtual steady_clock (link-time override of steady_clock::now), pinned random_device, twin replay for sweeps of TTL containers, canonical output",
    "the Lean driver's parser and twin comparisons (Twin.lean): executed, not proved about; the acceptor (Accept.lean) is proved sound - a log it accepts is a run of the reference semantics explaining every output, observer and sweep (Accept.accept_sound) - and complete - it never rejects a log that the (deadline-, clear- and ttl-pinned) reference semantics explains, whatever victims were chosen, provided every inserted key is below the swept universe and ut_map/ut_set have a positive TTL (Accept.accept_complete; the excluded TTL-0 case is known finding KF1b); its attribution of a rejected event to property ids is not proved",
    "g++ 12.2 / libstdc++ 12 / ASan+UBSan+_GLIBCXX_DEBUG as the meaning of what the code does",
]

ASSUMPTIONS = [
    "clock readings along a history are non-decreasing (steady_clock contract); TTLs keep now+ttl within the clock's range",
    "keys and values are modelled as natural numbers; the containers only use ==/hash/< on keys and copy/move on values",
    "capacity >= 1 and a finite positive load factor (the load factor does not occur in the model; the harness varies it)",
]

PROPS = {
    "C01": dict(kinds=ALL, modes=["single"], judge="ACC", quick=150, thorough=6000,
                theorems=["Verif.Verified.C01", "Verif.Verified.C01_anyclock", "Verif.Spec.lookup_hit_is_last_write", "Verif.Spec.coupled_step"] + LIFT + REFINES + BUNDLES,
                explain="Theorem Verified.C01: in every history of every container model a lookup hit reports the latest successful write of that key (not erased/cleared since), for every victim choice; tie: the implementation's events are accepted by the executable reference semantics (Accept.lean) with the implementation's own victims."),
    "C02": dict(kinds=ALL, modes=["single"], judge="ACC", quick=150, thorough=6000,
                theorems=["Verif.Verified.C02_bound", "Verif.Verified.C02_bound_anyclock", "Verif.Spec.size_le_cap_step"] + LIFT + REFINES + BUNDLES,
                table=dict(target="Verif.Conc.ClockTable", pred="clockInside", classes=(8, 9),
                           theorems=["Verif.Conc.table_clockInside", "Verif.Conc.table_clock_nonvacuous", "Verif.Conc.wrapper_faithful",
                                     "Verif.Conc.generated_clock_under_lock", "Verif.Conc.generated_clock_order",
                                     "Verif.Conc.clock_under_lock", "Verif.Conc.clock_order"]),
                explain="Theorem Verified.C02_bound (size <= capacity after every history) plus the Nodup/length invariants of each Refines proof; observers size/empty/capacity and the sweep are compared with the reference semantics after every call."),
    "C03": dict(kinds=ALL, modes=["single"], judge="ACC", quick=150, thorough=6000,
                theorems=["Verif.Verified.C03", "Verif.Verified.C03_anyclock", "Verif.Spec.retention_step"] + LIFT + REFINES + BUNDLES,
                explain="Theorem Verified.C03: at every step of every history a live resident entry survives unless erased, rewritten, or the single victim of an insert of a new key into a full container."),
    "C04": dict(kinds=TTL, modes=["single"], judge="ACC", quick=300, thorough=10000,
                theorems=["Verif.Verified.C01", "Verif.Spec.lookup_hit_is_last_write", "Verif.Spec.pre_fresh", "Verif.C04_utmap"] + LIFT + REFINES_TTL,
                explain="Theorem Verified.C01 (lazy flavor clause: a hit is strictly before the deadline of the latest write) and Spec.pre_fresh (eager flavor: after the per-call purge every resident entry is strictly before its deadline)."),
    "C05": dict(kinds=TTL, modes=["single"], judge="ACC", quick=300, thorough=10000,
                theorems=["Verif.Verified.C05", "Verif.Verified.C05_anyclock", "Verif.Spec.live_is_served", "Verif.Verified.C03"] + LIFT + REFINES_TTL,
                explain="Theorem Verified.C05: a resident entry before its deadline is served by every lookup; its deadline is the one its latest write carried (coupling), and C03 bounds how it can stop being resident."),
    "C09": dict(kinds=ALL, modes=["single"], judge="ACC", quick=150, thorough=6000,
                theorems=["Verif.Verified.C09", "Verif.Verified.C09_anyclock", "Verif.Spec.allow_verdict"] + LIFT + REFINES + BUNDLES,
                explain="Theorem Verified.C09: verdict of every single insert/update (and each element of a range) by allow mode and residency; rejected calls change nothing."),
    "C17": dict(kinds=TTL, modes=["single"], judge="ACC", quick=300, thorough=10000,
                theorems=["Verif.Verified.C17", "Verif.Verified.C17_anyclock", "Verif.Spec.reap_exact"] + LIFT + REFINES_TTL,
                explain="Theorem Verified.C17: clean_expired_values removes exactly the expired entries and returns the drop in size."),
    "C10": dict(kinds=["lru", "tlru", "utlru"], modes=["single"], judge="L1", quick=400, thorough=15000,
                theorems=["Verif.C10_lru_history", "Verif.C10_lru_history_anyclock", "Verif.C10_C16_tlru_history", "Verif.C10_C16_utlru_history", "Verif.C10_C16_tlru_history_anyclock", "Verif.C10_C16_utlru_history_anyclock",
                          "Verif.C10_lru", "Verif.C10_tlru", "Verif.C10_utlru", "Verif.Core.steps_of_history"],
                explain="Theorems C10_lru_history / C10_C16_tlru_history / C10_C16_utlru_history: at every evicting insert of every history the model removes the resident key that is first in the recency ghost (a fold over the atoms: accepted writes and successful non-peek lookups move a key to the end); tie: the implementation agrees with the model on every output, observer and sweep, and a different victim is reported as the failing input."),
    "C11": dict(kinds=["lfu", "lfuda"], modes=["single"], judge="L1", quick=500, thorough=15000,
                theorems=["Verif.C11_lfu_history", "Verif.C11_lfu_history_anyclock", "Verif.C11_lfu_count", "Verif.C11_lfu_victim", "Verif.C14_lfuda_history",
                          "Verif.Core.steps_of_history"],
                explain="Theorems C11_lfu_history (and C14_lfuda_history between aging points): every reported use count equals the count ghost (1 at creation, +1 per accepted update and successful non-peek lookup); the victim's count is minimal."),
    "C12": dict(kinds=["fifo"], modes=["single"], judge="L1", quick=1200, thorough=30000,
                theorems=["Verif.C12_fifo_history", "Verif.C12_fifo_history_anyclock", "Verif.C12_fifo", "Verif.Core.steps_of_history"],
                explain="Theorem C12_fifo_history: the victim is first in the insertion-rank ghost (updates/lookups never move a key; re-insertion re-enters at the end)."),
    "C13": dict(kinds=["mru"], modes=["single"], judge="L1", quick=1200, thorough=30000,
                theorems=["Verif.C13_mru_history", "Verif.C13_mru_history_anyclock", "Verif.C13_mru", "Verif.Core.steps_of_history"],
                explain="Theorem C13_mru_history: the victim is last in the recency ghost and the new key becomes last."),
    "C14": dict(kinds=["lfuda"], modes=["single"], judge="L1", quick=1200, thorough=30000,
                theorems=["Verif.C14_lfuda_history", "Verif.C14_lfuda_count", "Verif.C14_lfuda_age", "Verif.C14_lfuda_victim",
                          "Verif.Core.steps_of_history"],
                explain="Theorem C14_lfuda_history: counts, dynamically_age()'s result and victims follow the aging ghost (idle strictly longer than the tick: count * num / den, timer restarted; at dynamically_age() and before each victim is chosen).",
                assume=["the aging ratio is num/den with den a power of two and count*num < 2^24, where the C++ float product is exact"]),
    "C15": dict(kinds=["rr"], modes=["single"], judge="L1", quick=1500, thorough=30000,
                theorems=["Verif.C15_rr_history", "Verif.C15_rr_history_anyclock", "Verif.C15_rr_victim", "Verif.C15_rr_bijection", "Verif.Core.steps_of_history"],
                explain="Theorem C15_rr_history: the victim is the resident entry in slot r (the outcome of the random source, r < cap), a prior resident and never the inserted key; in a full cache slot -> resident is a bijection. The implementation's draws are mirrored by the harness (same mt19937 seed through a pinned random_device) and fed to the model; spread is additionally measured.",
                assume=["std::uniform_int_distribution over mt19937 is uniform (trusted); the harness pins std::random_device"]),
    "C16": dict(kinds=["tlru", "utlru"], modes=["single"], judge="L1", quick=800, thorough=20000,
                theorems=["Verif.C10_C16_tlru_history", "Verif.C10_C16_utlru_history", "Verif.C10_C16_tlru_history_anyclock", "Verif.C10_C16_utlru_history_anyclock", "Verif.C16_tlru", "Verif.C16_utlru",
                          "Verif.Core.steps_of_history"],
                explain="Theorems C10_C16_*_history (C16 clause): if some resident entry has expired the removed entry is an expired one and every live entry stays, after any update_ttl sequence."),
    "C18": dict(kinds=ALL, modes=["c18"], judge="TWIN", quick=150, thorough=5000,
                theorems=["Verif.Core.C18_preTrivial", "Verif.Lru.preTrivial", "Verif.Mru.preTrivial", "Verif.Fifo.preTrivial",
                          "Verif.Rr.preTrivial", "Verif.Lfu.preTrivial", "Verif.Lfuda.preTrivial", "Verif.Tlru.preTrivial",
                          "Verif.Utlru.preTrivial", "Verif.C18_utmap"],
                explain="Theorem Core.C18_preTrivial (eight caches): a range call leaves the model in exactly the state of its single calls in order and returns their aggregate; ut_map/ut_set: C18_utmap for non-empty ranges and positive TTL. Checked directly on the implementation by twin instances (range vs singles, all later calls compared)."),
    "C19": dict(kinds=ALL, modes=["c19"], judge="TWIN", quick=300, thorough=8000,
                theorems=["Verif.C19_lru", "Verif.C19_mru", "Verif.C19_fifo", "Verif.C19_rr", "Verif.C19_lfu", "Verif.C19_lfuda",
                          "Verif.C19_tlru", "Verif.C19_utlru", "Verif.C19_utmap",
                          "Verif.Bisim.step_tlru", "Verif.Bisim.step_utlru", "Verif.Bisim.run_tlru", "Verif.Bisim.run_utlru",
                          "Verif.Bisim.rel_of_removed", "Verif.BisimUt.step_utmap", "Verif.BisimUt.rel_of_purge"],
                explain="Theorems C19_<container>: a call that by its own result had no effect (peek lookup, miss, rejected insert, erase of an absent key) leaves the model state exactly as it was (six non-TTL caches), or removes only entries that had already expired (tlru/utlru), or does exactly what the per-call purge does (ut_map/ut_set). The continuation half for the TTL containers is Bisim.run_tlru / run_utlru / BisimUt.step_utmap: two states whose parts not yet expired at t0 coincide (entries in recency order and the ttl structure in deadline order; for ut_map/ut_set: equal after the purge at t0) return the same result for every later call and stay so related, except size(), empty(), the count of clean_expired_values(), and erase / update-only calls addressed to a key that is resident-but-expired on one side; rel_of_removed / rel_of_purge show that what a no-effect call may do (C19_tlru/utlru/utmap: remove already-expired entries) lands in that relation. Checked directly on the implementation by twin instances (H vs H with no-effect calls spliced in)."),
    "C20": dict(kinds=["utlru", "utmap"], modes=["c20"], judge="TWIN", quick=600, thorough=20000,
                theorems=["Verif.C20_utlru", "Verif.C20_utmap", "Verif.Utlru.ttl_ms"],
                explain="Theorems C20_utlru / C20_utmap: clear() leaves exactly the state of a newly constructed container with the same capacity and the configured TTL; checked on the implementation by twin instances (after clear vs fresh, same continuation)."),
    "C08": dict(kinds=ALL, modes=["single", "c18"], judge="C08", quick=120, thorough=6000, struct=True,
                theorems=REFINES + ["Verif.Rec.inv_init", "Verif.Fifo.inv_init", "Verif.Rr.inv_init", "Verif.Lfu.inv_init",
                                    "Verif.Lfuda.inv_init", "Verif.Tlru.inv_init", "Verif.Utlru.inv_init", "Verif.UtMap.inv_init",
                                    "Verif.C15_rr_bijection", "Verif.Refines.runA", "Verif.Verified.C02_bound",
                                    "Verif.L2.Rr.no_ub", "Verif.L2.Rr.refines_l1", "Verif.L2.Slot.no_ub", "Verif.L2.Slot.refines_l1",
                                    "Verif.L2.Ttl.no_ub", "Verif.L2.Ttl.refines_l1", "Verif.L2.Fifo.no_ub", "Verif.L2.Fifo.refines_l1",
                                    "Verif.L2.Cnt.no_ub", "Verif.L2.Cnt.refines_l1_lfu", "Verif.L2.Cnt.refines_l1_lfuda",
                                    "Verif.L2.UtMap.no_ub", "Verif.L2.UtMap.refines_l1"],
                explain="PARTIAL. Proved (L2.<c>.no_ub, all ten containers): the slot/node/iterator-level models - m_elements slots with their stored iterators, list nodes, hash / multimap / ttl nodes with identities, partition iterators - never reach the `ub` flag (dereference of end(), decrement of begin(), begin() of an empty structure, index out of range, erase/splice through a stale iterator) on any history, for every capacity >= 1; and (L2.<c>.refines_l1) they return the same results as the L1 models with abs(L2 state) = L1 state, so every L1 theorem transfers. The L2 models are tied to the code by the structural tier: after every call the private structure read through the guarded friend hook equals the L2 model's. Also proved: the bookkeeping invariants of every container model hold after every history (resident keys duplicate-free, size <= capacity so the partition point never passes the end and a prune always finds a victim, rr's slot ids + free stack a permutation of 0..cap-1 so no slot is handed out twice, tlru/utlru ttl structure consistent with and sorted like the entries, ut_map list sorted) - these are the model-level reasons the C++ never dereferences end(), never erases through a stale iterator, never indexes out of range. NOT proved: memory safety of the C++ itself (libstdc++ internals, object lifetime of value_type); that part is the sanitizer correspondence: the same scripts run on the real headers under ASan+UBSan+checked iterators with an instance-counted heap-owning value type."),
}
