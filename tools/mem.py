"""C08: memory safety / values destroyed exactly once.

Executes generated scripts on the real headers under AddressSanitizer + UndefinedBehaviorSanitizer +
libstdc++ checked iterators (a sanitizer abort is a result: the script being executed is the replay) with a
heap-owning, instance-counted value type whose live-instance count must return to 0 when the container is
destroyed and never go negative.  The Lean side proves the bookkeeping discipline of the models (keys
duplicate-free, size <= capacity, rr's slot table a permutation of 0..cap-1, ttl structures consistent with
the entries): the invariants inside every `refines` proof.
"""
import check as C


def main(prop, tier, seed, t0):
    return C.main_seq(prop, tier, seed, t0)
