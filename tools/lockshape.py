#!/usr/bin/env python3
"""Translator for C06/C07: reads /repo's headers through clang's JSON AST and writes the lock shape of
every public member function of the ten containers as a Lean table (Verif/Generated/LockShape.lean).

For each public method (private helpers and calls to other public methods of the same object are
inlined at the call site) the shape is the sequence, in source order, of

  clock              a call of std::chrono::steady_clock::now()
  acq / rel          construction of a std::lock_guard / std::scoped_lock / std::unique_lock on m_lock / end of
                     its scope; explicit lock() / unlock() on such a unique_lock or on m_lock itself when they
                     are not under an if / switch / ?: / try (there: unknown)
  rd c / wr c        an access to member component c of *this (const use = rd, anything else = wr;
                     std::vector members are split into <m>.hdr (size/capacity/empty) and <m>.data)
  loop[ ... ]        a for/while/range-for body
  unknown s          anything the translator does not understand (fails closed: never WellLocked)

and the shape of the lock wrapper itself (lock.hpp): what cappuccino::mutex<thread_safe::yes>::lock()/unlock() do to the
wrapped member, the wrapped member's type, and the declared type of m_lock in the ten classes.

Usage: lockshape.py [--repo /repo] [--out FILE] [--summary]
"""
import hashlib
import json
import os
import subprocess
import sys

ROOT = os.path.dirname(os.path.dirname(os.path.abspath(__file__)))
CLASSES = ["fifo_cache", "lfu_cache", "lfuda_cache", "lru_cache", "mru_cache", "rr_cache", "tlru_cache",
           "utlru_cache", "ut_map", "ut_set"]
VECTOR_HDR = {"size", "capacity", "empty", "max_size"}
VECTOR_DATA = {"operator[]", "at", "data", "front", "back", "begin", "end", "cbegin", "cend"}
LOOPS = {"ForStmt", "WhileStmt", "DoStmt", "CXXForRangeStmt"}
CONDS = {"IfStmt", "SwitchStmt", "ConditionalOperator", "BinaryConditionalOperator", "CXXTryStmt"}
GUARDS = ("lock_guard", "scoped_lock", "unique_lock")
LOCKTYPE_RE = __import__("re").compile(r"^\s*(mutable\s+)?((cappuccino::)?mutex<|std::(recursive_|shared_|timed_|recursive_timed_|shared_timed_)?mutex\b)")
POINTERISH = __import__("re").compile(r"\*|&|iterator|_Node|element\b")
ATOMIC_RE = __import__("re").compile(r"^\s*(const\s+|volatile\s+|mutable\s+)*(std::)?(atomic<|atomic_(?:bool|flag|char|schar|uchar|short|ushort|int|uint|long|ulong|llong|ullong|size_t|ptrdiff_t|intptr_t|uintptr_t|int\d+_t|uint\d+_t)\b)")


def mentions(n, name):
    """does the subtree reference a declaration / member called `name`?"""
    if n.get("name") == name or n.get("referencedDecl", {}).get("name") == name:
        return True
    return any(mentions(c, name) for c in inner(n))


def clang_ast(repo):
    tu = os.path.join(ROOT, "tools", "lockshape", "instantiate.cpp")
    cmd = ["clang++-14", "-std=c++17", "-fsyntax-only", "-I" + os.path.join(repo, "inc"), "-Xclang", "-ast-dump=json",
           "-Xclang", "-ast-dump-filter=cappuccino", tu]
    r = subprocess.run(cmd, stdout=subprocess.PIPE, stderr=subprocess.PIPE, text=True)
    if r.returncode != 0:
        raise RuntimeError("clang failed:\n" + r.stderr[-3000:])
    docs = []
    dec = json.JSONDecoder()
    txt = r.stdout
    i = 0
    n = len(txt)
    while i < n:
        while i < n and txt[i].isspace():
            i += 1
        if i >= n:
            break
        obj, i = dec.raw_decode(txt, i)
        docs.append(obj)
    return docs


def inner(n):
    return [c for c in (n.get("inner") or []) if isinstance(c, dict) and c]


def strip_casts(n):
    while n.get("kind") in ("ImplicitCastExpr", "ParenExpr", "MaterializeTemporaryExpr", "ExprWithCleanups",
                            "CXXBindTemporaryExpr") and inner(n):
        n = inner(n)[0]
    return n


def is_this(n):
    return strip_casts(n).get("kind") == "CXXThisExpr"


class ClassInfo:
    def __init__(self, spec):
        self.name = spec["name"]
        self.fields = {}     # name -> type
        self.methods = {}    # id -> node
        self.by_name = {}    # name -> [ids]
        self.public = []     # ids of public methods with bodies
        self.atomic = set()  # fields whose (desugared) type is a std::atomic: their accesses cannot race
        self.lock_name = "m_lock"   # the object's mutex: the one field of (wrapper) mutex type, whatever it is called
        access = "private"
        for m in inner(spec):
            k = m.get("kind")
            if k == "AccessSpecDecl":
                access = m.get("access", access)
            elif k == "FieldDecl":
                ty = m.get("type", {})
                self.fields[m["name"]] = ty.get("qualType", "")
                if ATOMIC_RE.search(ty.get("desugaredQualType") or ty.get("qualType", "")):
                    self.atomic.add(m["name"])
            elif k == "CXXMethodDecl":
                self.add(m, access)
            elif k == "FunctionTemplateDecl":
                for s in inner(m):
                    if s.get("kind") == "CXXMethodDecl":
                        self.add(s, access)
        self.find_lock()

    def find_lock(self):
        cands = [f for f, t in self.fields.items() if LOCKTYPE_RE.search(t)]
        if len(cands) == 1:
            self.lock_name = cands[0]

    def add(self, m, access):
        if not any(c.get("kind") == "CompoundStmt" for c in inner(m)):
            return
        self.methods[m["id"]] = m
        self.by_name.setdefault(m["name"], []).append(m["id"])
        if access == "public":
            self.public.append(m["id"])


SYNC_ALGOS = {"for_each", "for_each_n", "find_if", "find_if_not", "any_of", "all_of", "none_of", "count_if", "remove_if",
              "transform", "accumulate", "generate", "generate_n", "sort", "stable_sort", "erase_if", "copy_if", "partition",
              "stable_partition", "min_element", "max_element", "lower_bound", "upper_bound", "binary_search", "equal_range",
              "replace_if", "unique", "mismatch", "equal", "search", "adjacent_find", "is_sorted", "nth_element", "partial_sort",
              "reduce", "inner_product", "invoke", "apply", "find_first_of", "remove_copy_if", "partition_point"}
WRAPPERS = ("ImplicitCastExpr", "ParenExpr", "MaterializeTemporaryExpr", "ExprWithCleanups", "CXXBindTemporaryExpr",
            "CXXFunctionalCastExpr", "CXXStaticCastExpr")


def find_lambda(n):
    """the LambdaExpr an argument / initialiser denotes, looking through temporaries, casts and copy construction"""
    while True:
        k = n.get("kind")
        if k == "LambdaExpr":
            return n
        kids = inner(n)
        if k in WRAPPERS and kids:
            n = kids[-1] if k in ("CXXFunctionalCastExpr", "CXXStaticCastExpr") else kids[0]
            continue
        if k == "CXXConstructExpr" and len(kids) == 1:
            n = kids[0]
            continue
        return None


def unwrap_forward(n):
    """f, std::forward<F>(f), std::move(f), (f) -> the DeclRefExpr"""
    while True:
        n = strip_casts(n)
        if n.get("kind") == "CallExpr":
            kids = inner(n)
            callee = strip_casts(kids[0]) if kids else {}
            if callee.get("referencedDecl", {}).get("name") in ("forward", "move") and len(kids) == 2:
                n = kids[1]
                continue
        return n


def lambda_body(lam):
    bodies = [c for c in inner(lam) if c.get("kind") == "CompoundStmt"]
    return bodies[-1] if bodies else None


class Walker:
    def __init__(self, ci):
        self.ci = ci
        self.stack = []
        self.cond = 0        # number of if / switch / ?: / try constructs around the node being visited
        self.guards = {}     # VarDecl id of a guard on m_lock -> does it hold the lock (straight-line reading)
        self.lam = {}        # ParmVarDecl / VarDecl id -> LambdaExpr bound to it (callable passed to a helper of the same object)
        self.held = 0        # straight-line count of acquisitions minus releases emitted so far in the method being walked
        self.locals = {}     # VarDecl id -> type string, for locals of pointer / reference / iterator type
        self.tainted = set() # such locals that were initialised or assigned while the lock was held
        self.lam_stack = []

    def emit_lock(self, out, tok):
        out.append((tok, ""))
        self.held += 1 if tok == "acq" else -1

    def guard_decl(self, v, out):
        """v: VarDecl of a guard type. Returns True if it was understood (tokens appended)."""
        t = v.get("type", {}).get("qualType", "")
        if not mentions(v, self.ci.lock_name):
            out.append(("unknown", "guard on something other than the object's mutex"))
            return
        if mentions(v, "try_to_lock") or mentions(v, "adopt_lock"):
            out.append(("unknown", "try_to_lock/adopt_lock"))
            return
        if mentions(v, "defer_lock"):
            self.guards[v["id"]] = False
            return
        self.emit_lock(out, "acq")
        self.guards[v["id"]] = True

    def lock_op(self, name, held_key, out):
        """explicit lock()/unlock()/try_lock() on a tracked guard (held_key = VarDecl id) or on m_lock (None)"""
        if self.cond > 0:
            out.append(("unknown", "conditional " + name))
            return
        if name == "lock":
            self.emit_lock(out, "acq")
            if held_key is not None:
                self.guards[held_key] = True
        elif name == "unlock":
            self.emit_lock(out, "rel")
            if held_key is not None:
                self.guards[held_key] = False
        else:
            out.append(("unknown", name + " on the lock"))

    def method(self, mid):
        if mid in self.stack:
            return [("unknown", "recursion")]
        if not self.stack:
            self.held = 0
            self.locals = {}
            self.tainted = set()
        self.stack.append(mid)
        body = [c for c in inner(self.ci.methods[mid]) if c.get("kind") == "CompoundStmt"][0]
        out = []
        self.visit(body, out, [])
        self.stack.pop()
        return out

    def field_access(self, n, parents, out):
        """n: MemberExpr on this naming a field; parents: the chain of nodes above it, nearest last."""
        name = n["name"]
        if name == self.ci.lock_name:
            # handed to a guard's constructor (seen by guard_decl), or locked / unlocked directly
            for p in reversed(parents):
                k = p.get("kind")
                if k in ("ImplicitCastExpr", "ParenExpr"):
                    continue
                if k == "MemberExpr":
                    self.lock_op(p.get("name", ""), None, out)
                break
            return
        ftype = self.ci.fields.get(name, "")
        is_vec = "std::vector" in ftype
        const = n.get("type", {}).get("qualType", "").startswith("const ")
        # look through value-preserving casts for the construct that uses the member
        user = None
        for p in reversed(parents):
            k = p.get("kind")
            if k == "ImplicitCastExpr" and p.get("castKind") == "LValueToRValue":
                user = ("load", "")
                break
            if k == "ImplicitCastExpr" and p.get("castKind") == "NoOp":
                if "const" in p.get("type", {}).get("qualType", ""):
                    const = True
                continue
            if k in ("ParenExpr", "ImplicitCastExpr"):
                continue
            if k == "MemberExpr":
                user = ("call", p.get("name", ""))
            elif k == "CXXOperatorCallExpr":
                kids = inner(p)
                op = strip_casts(kids[0]).get("referencedDecl", {}).get("name", "") if kids else ""
                # the member must be the object the operator is applied to (first operand)
                user = ("call", op) if len(kids) > 1 and strip_casts(kids[1]) is n else ("other", "")
            else:
                user = ("other", "")
            break
        if user is None:
            user = ("other", "")
        mode = "rd" if (const or user[0] == "load") else "wr"
        if is_vec:
            if user[0] == "call" and user[1] in VECTOR_HDR:
                out.append(("rd", name + ".hdr"))
            elif user[0] == "call" and user[1] in VECTOR_DATA:
                out.append((mode, name + ".data"))
            else:
                out.append((mode, name + ".hdr"))
                out.append((mode, name + ".data"))
            return
        out.append((mode, name))

    def lambda_of(self, a):
        """the lambda an argument denotes: written in place, or a local variable / parameter bound to one"""
        lam = find_lambda(a)
        if lam is not None:
            return lam
        n = a
        while True:
            n = unwrap_forward(n)
            k = n.get("kind")
            kids = inner(n)
            if k in WRAPPERS and kids:
                n = kids[0]
                continue
            if k == "CXXConstructExpr" and len(kids) == 1:
                n = kids[0]
                continue
            break
        if n.get("kind") == "DeclRefExpr":
            return self.lam.get(n.get("referencedDecl", {}).get("id"))
        return None

    def inline_lambda(self, lam, out, parents):
        body = lambda_body(lam)
        if body is None or lam.get("id", id(lam)) in self.lam_stack:
            out.append(("unknown", "lambda"))
            return
        self.lam_stack.append(lam.get("id", id(lam)))
        self.visit(body, out, parents)
        self.lam_stack.pop()

    def resolve_member(self, callee):
        """callee: MemberExpr on this naming a member function of the same object -> method id or None"""
        name = callee.get("name", "")
        if name not in self.ci.by_name:
            return None
        ref = callee.get("referencedMemberDecl")
        if ref in self.ci.methods:
            return ref
        if len(self.ci.by_name[name]) == 1:
            return self.ci.by_name[name][0]
        return None

    def visit(self, n, out, parents):
        parent = parents[-1] if parents else None
        k = n.get("kind")
        if k == "CXXMemberCallExpr":
            # a helper of the same object that is handed a lambda (with_lock([&] { ... })): bind the callable to the
            # helper's parameter and inline; the lambda's body is inlined where the helper calls the parameter
            kids = inner(n)
            callee = strip_casts(kids[0]) if kids else {}
            if (callee.get("kind") == "MemberExpr" and inner(callee) and is_this(inner(callee)[0])
                    and any(self.lambda_of(a) is not None for a in kids[1:])):
                target = self.resolve_member(callee)
                if target is not None:
                    params = [c for c in inner(self.ci.methods[target]) if c.get("kind") == "ParmVarDecl"]
                    for i, a in enumerate(kids[1:]):
                        lam = self.lambda_of(a)
                        if lam is not None and i < len(params):
                            self.lam[params[i]["id"]] = lam
                        else:
                            self.visit(a, out, parents + [n])
                    out.extend(self.method(target))
                    return
        if k == "CXXOperatorCallExpr":
            kids = inner(n)
            op = strip_casts(kids[0]).get("referencedDecl", {}) if kids else {}
            if op.get("name") == "operator()" and len(kids) >= 2:
                obj = unwrap_forward(kids[1])
                did = obj.get("referencedDecl", {}).get("id") if obj.get("kind") == "DeclRefExpr" else None
                if did in self.lam:
                    for a in kids[2:]:
                        self.visit(a, out, parents + [n])
                    self.inline_lambda(self.lam[did], out, parents + [n])
                    return
        if k == "VarDecl":
            kids = inner(n)
            lam = find_lambda(kids[-1]) if kids else None
            if lam is not None:
                self.lam[n["id"]] = lam      # auto f = [&] { ... };  inlined where f() is called
                return
            ty = n.get("type", {})
            tys = (ty.get("desugaredQualType") or "") + " " + ty.get("qualType", "")
            if POINTERISH.search(tys) and not any(g in tys for g in GUARDS):
                self.locals[n["id"]] = tys
                if self.held > 0 and kids:
                    self.tainted.add(n["id"])
        if k == "BinaryOperator" and n.get("opcode") == "=":
            kids = inner(n)
            lhs = strip_casts(kids[0]) if kids else {}
            if lhs.get("kind") == "DeclRefExpr" and lhs.get("referencedDecl", {}).get("id") in self.locals and self.held > 0:
                self.tainted.add(lhs["referencedDecl"]["id"])
        if k == "CXXOperatorCallExpr" and self.held > 0:
            kids = inner(n)
            op = strip_casts(kids[0]).get("referencedDecl", {}).get("name") if kids else None
            lhs = strip_casts(kids[1]) if len(kids) > 1 else {}
            if op == "operator=" and lhs.get("kind") == "DeclRefExpr" and lhs.get("referencedDecl", {}).get("id") in self.locals:
                self.tainted.add(lhs["referencedDecl"]["id"])
        if k == "DeclRefExpr" and n.get("referencedDecl", {}).get("id") in self.lam:
            # a callable bound to a lambda is mentioned other than by calling it or handing it to a synchronous
            # standard algorithm (both handled above): where and when its body runs is not understood
            out.append(("unknown", "callable passed on"))
            return
        if k == "DeclRefExpr" and self.held <= 0 and n.get("referencedDecl", {}).get("id") in self.tainted:
            # a pointer / reference / iterator into the container that was obtained inside a critical section is used
            # after the lock has been released: whatever it designates is no longer protected
            out.append(("unknown", "pointer or iterator obtained under the lock is used after the release"))
            return
        if k == "CallExpr":
            kids = inner(n)
            callee = strip_casts(kids[0]) if kids else {}
            fname = callee.get("referencedDecl", {}).get("name") if callee.get("kind") == "DeclRefExpr" else None
            if fname in SYNC_ALGOS and any(self.lambda_of(a) is not None for a in kids[1:]):
                # a standard algorithm calls the lambda synchronously, any number of times: a loop body
                for a in kids[1:]:
                    lam = self.lambda_of(a)
                    if lam is None:
                        self.visit(a, out, parents + [n])
                for a in kids[1:]:
                    lam = self.lambda_of(a)
                    if lam is not None:
                        body = []
                        self.inline_lambda(lam, body, parents + [n])
                        out.append(("loop", body))
                return
        if k == "CompoundStmt":
            mine = []
            for c in inner(n):
                gs = [v for v in inner(c) if v.get("kind") == "VarDecl" and
                      any(g in v.get("type", {}).get("qualType", "") for g in GUARDS)] if c.get("kind") == "DeclStmt" else []
                if gs:
                    for v in gs:
                        self.guard_decl(v, out)
                        mine.append(v["id"])
                    continue
                self.visit(c, out, parents + [n])
            for g in reversed(mine):
                if self.guards.pop(g, False):
                    self.emit_lock(out, "rel")
            return
        if k in CONDS:
            self.cond += 1
            for c in inner(n):
                self.visit(c, out, parents + [n])
            self.cond -= 1
            return
        if k in LOOPS:
            body = []
            for c in inner(n):
                self.visit(c, body, parents + [n])
            out.append(("loop", body))
            return
        if k == "LambdaExpr":
            out.append(("unknown", "lambda"))
            return
        if k == "MemberExpr":
            kids = inner(n)
            if kids and is_this(kids[0]):
                name = n.get("name", "")
                if name in self.ci.fields:
                    self.field_access(n, parents, out)
                    return
                if name in self.ci.by_name:
                    # call of a member function of the same object: inline the overload that is referenced
                    ref = n.get("referencedMemberDecl")
                    target = ref if ref in self.ci.methods else None
                    if target is None and len(self.ci.by_name[name]) == 1:
                        target = self.ci.by_name[name][0]
                    if target is None:
                        out.append(("unknown", "call " + name))
                    else:
                        out.extend(self.method(target))
                    return
                out.append(("unknown", "this->" + name))
                return
            # guard.lock() / guard.unlock() on a tracked unique_lock
            base = strip_casts(kids[0]) if kids else {}
            gid = base.get("referencedDecl", {}).get("id") if base.get("kind") == "DeclRefExpr" else None
            if gid in self.guards and n.get("name") in ("lock", "unlock", "try_lock", "release", "swap"):
                self.lock_op(n.get("name"), gid, out)
                return
            for c in kids:
                self.visit(c, out, parents + [n])
            return
        if k == "CallExpr":
            kids = inner(n)
            if kids:
                callee = strip_casts(kids[0])
                rd = callee.get("referencedDecl", {})
                if callee.get("kind") == "DeclRefExpr" and rd.get("name") == "now" and "steady_clock" in rd.get("type", {}).get("qualType", "") + n.get("type", {}).get("qualType", ""):
                    out.append(("clock", ""))
                    return
        if k == "CXXThisExpr":
            # `this` used other than through a member access (e.g. passed on): not understood
            if parent is not None and parent.get("kind") not in ("MemberExpr", "ImplicitCastExpr"):
                out.append(("unknown", "bare this"))
            return
        for c in inner(n):
            self.visit(c, out, parents + [n])


def wrapper_shape(docs):
    """cappuccino::mutex<thread_safe::yes>: what lock() and unlock() do to the underlying mutex.
    Returns dict(lock=[codes], unlock=[codes], underlying=<type of the wrapped member>); codes: 1 = a call
    of lock() on the wrapped member, 2 = unlock() on it, 0 = anything else that is not plain structure."""
    found = None

    def find(n):
        nonlocal found
        if n.get("kind") == "ClassTemplateSpecializationDecl" and n.get("name") == "mutex":
            args = [a for a in inner(n) if a.get("kind") == "TemplateArgument"]
            if args and args[0].get("value") == 1 and any(c.get("kind") == "CXXMethodDecl" for c in inner(n)):
                found = n
        for c in inner(n):
            find(c)
    for d in docs:
        find(d)
    if found is None:
        return {"lock": [0], "unlock": [0], "underlying": "?"}
    fields = {c["name"]: c.get("type", {}).get("qualType", "") for c in inner(found) if c.get("kind") == "FieldDecl"}

    def body_codes(m):
        out = []

        def visit(n):
            k = n.get("kind")
            if k in ("CXXMemberCallExpr",):
                kids = inner(n)
                callee = strip_casts(kids[0]) if kids else {}
                base = strip_casts(inner(callee)[0]) if callee.get("kind") == "MemberExpr" and inner(callee) else {}
                if (callee.get("kind") == "MemberExpr" and base.get("kind") == "MemberExpr" and base.get("name") in fields
                        and inner(base) and is_this(inner(base)[0]) and len(kids) == 1):
                    out.append({"lock": 1, "unlock": 2}.get(callee.get("name"), 0))
                else:
                    out.append(0)
                return
            if k == "IfStmt":
                kids = inner(n)
                if n.get("isConstexpr"):
                    for c in kids[1:]:      # the condition is a constant; discarded branches are absent
                        visit(c)
                else:
                    out.append(0)
                return
            if k in LOOPS or k in ("CallExpr", "CXXOperatorCallExpr", "ReturnStmt", "GotoStmt", "CXXThrowExpr", "LambdaExpr",
                                   "BinaryOperator", "CompoundAssignOperator", "UnaryOperator", "CXXTryStmt", "DeclStmt"):
                out.append(0)
                return
            for c in inner(n):
                visit(c)
        for c in inner(m):
            if c.get("kind") == "CompoundStmt":
                visit(c)
        return out
    res = {"underlying": ",".join(sorted(set(fields.values()))) or "?"}
    for name in ("lock", "unlock"):
        ms = [c for c in inner(found) if c.get("kind") == "CXXMethodDecl" and c.get("name") == name]
        res[name] = body_codes(ms[0]) if len(ms) == 1 else [0]
    return res


def lock_fields(docs):
    """declared type of m_lock in each of the ten classes"""
    out = {}
    for d in docs:
        if d.get("kind") == "ClassTemplateSpecializationDecl" and d.get("name") in CLASSES and inner(d):
            ci = ClassInfo(d)
            out[ci.name] = ci.fields.get(ci.lock_name, "?")
    return out


def sig_of(m):
    t = m.get("type", {}).get("qualType", "")
    return t


ATOMIC_FIELDS = set()   # "cls::field", filled by build_table


def build_table(docs):
    table = []
    ATOMIC_FIELDS.clear()
    for d in docs:
        if d.get("kind") != "ClassTemplateSpecializationDecl" or d.get("name") not in CLASSES or not inner(d):
            continue
        ci = ClassInfo(d)
        for f in ci.atomic:
            ATOMIC_FIELDS.add(ci.name + "::" + f)
        w = Walker(ci)
        seen = {}
        for mid in ci.public:
            m = ci.methods[mid]
            name = m["name"]
            if name.startswith("~") or name == ci.name or name.startswith("operator"):
                continue
            seen[name] = seen.get(name, 0) + 1
            label = name if seen[name] == 1 else "%s#%d" % (name, seen[name])
            table.append((ci.name, label, w.method(mid)))
    table.sort(key=lambda x: (x[0], x[1]))
    return table


def fmt_text(toks):
    parts = []
    for t, a in toks:
        if t == "loop":
            parts.append("loop[ " + fmt_text(a) + " ]")
        elif a:
            parts.append("%s %s" % (t, a))
        else:
            parts.append(t)
    return " ".join(parts)


def fmt_lean(toks, comp_id):
    parts = []
    for t, a in toks:
        if t == "loop":
            parts.append(".loop [" + ", ".join(fmt_lean(a, comp_id)) + "]")
        elif t in ("rd", "wr"):
            parts.append(".%s %d" % (t, comp_id(a)))
        elif t == "unknown":
            parts.append('.unknown "%s"' % a.replace('"', "'"))
        else:
            parts.append("." + t)
    return parts


def dedup(toks):
    """Collapse immediate repetitions (keeps the table small; order of first occurrences is kept)."""
    out = []
    for t, a in toks:
        if t == "loop":
            a = dedup(a)
        if out and out[-1] == (t, a):
            continue
        out.append((t, a))
    return out


def lean_source(table, repo_hash, wrapper=None, lockfields=None):
    comps = []

    def comp_id(name):
        if name not in comps:
            comps.append(name)
        return comps.index(name)

    rows = []
    for cls, name, toks in table:
        rows.append('  { cls := %d, name := "%s.%s", body := [%s] }' % (
            CLASSES.index(cls), cls, name, ", ".join(fmt_lean(dedup(toks), lambda a, c=cls: comp_id(c + "::" + a)))))
    lines = ["import Verif.Conc.Shape",
             "/-! GENERATED by tools/lockshape.py from the headers of /repo (content hash %s). Do not edit. -/" % repo_hash,
             "namespace Verif.Conc.Generated", "open Verif.Conc", "",
             "def clsNames : List String := [%s]" % ", ".join('"%s"' % c for c in CLASSES), "",
             "def compNames : List String := [%s]" % ", ".join('"%s"' % c for c in comps), "",
             "def table : List Method := ["]
    lines.append(",\n".join(rows))
    lines.append("]")
    lines.append("")
    lines += ["/-- components whose declared type is a `std::atomic`: accesses to them are atomic operations and cannot take part in a",
              "data race (C07 leaves them out, `Conc/Atomic.lean`); C06 keeps them (an atomic read outside the lock still breaks atomicity) -/",
              "def atomicComps : List Nat := [%s]" % ", ".join(str(i) for i, c in enumerate(comps) if c in ATOMIC_FIELDS or c.rsplit(".", 1)[0] in ATOMIC_FIELDS),
              ""]
    wrapper = wrapper or {"lock": [0], "unlock": [0], "underlying": "?"}
    lockfields = lockfields or {}
    lines += ["/-- cappuccino::mutex<thread_safe::yes> (lock.hpp): what `lock()` / `unlock()` do, in order: 1 = `lock()` on the wrapped",
              "member, 2 = `unlock()` on it, 0 = anything else; wrapped member type: %s -/" % wrapper["underlying"],
              "def wrapperLock : List Nat := %s" % wrapper["lock"],
              "def wrapperUnlock : List Nat := %s" % wrapper["unlock"],
              "def wrapperUnderlyingIsStdMutex : Bool := %s" % ("true" if wrapper["underlying"] == "std::mutex" else "false"),
              "/-- every one of the ten classes declares `m_lock` as a `cappuccino::mutex<...>`: %s -/" % sorted(set(lockfields.values())),
              "def lockFieldsAreWrapper : Bool := %s" % ("true" if len(lockfields) == len(CLASSES) and all(v.startswith("mutex<") for v in lockfields.values()) else "false"),
              ""]
    lines.append("end Verif.Conc.Generated")
    return "\n".join(lines) + "\n"


def main():
    repo = "/repo"
    out = os.path.join(ROOT, "lean", "Verif", "Generated", "LockShape.lean")
    args = sys.argv[1:]
    if "--repo" in args:
        repo = args[args.index("--repo") + 1]
    if "--out" in args:
        out = args[args.index("--out") + 1]
    docs = clang_ast(repo)
    table = build_table(docs)
    h = hashlib.sha256()
    for base, dirs, files in sorted(os.walk(os.path.join(repo, "inc"))):
        for f in sorted(files):
            h.update(open(os.path.join(base, f), "rb").read())
    src = lean_source(table, h.hexdigest()[:16], wrapper_shape(docs), lock_fields(docs))
    if "--summary" in args:
        for cls, name, toks in table:
            print("%-12s %-24s %s" % (cls, name, fmt_text(dedup(toks))))
        print("wrapper      %s" % wrapper_shape(docs))
        return 0
    os.makedirs(os.path.dirname(out), exist_ok=True)
    old = open(out).read() if os.path.exists(out) else None
    if old != src:
        open(out, "w").write(src)
    print("lockshape: %d methods -> %s%s" % (len(table), out, "" if old != src else " (unchanged)"))
    return 0


if __name__ == "__main__":
    sys.exit(main())
