"""Script generators for the correspondence harness (DESIGN.md section 4.4).

Every random choice comes from the `random.Random` instance handed in, so a run is replayable from
its seed.  A script is a list of text lines: one `cfg` line, `op` lines, `end`.
"""
import random

KINDS = ["lru", "mru", "fifo", "lfu", "lfuda", "rr", "tlru", "utlru", "utmap", "utset"]
TTL_KINDS = ("tlru", "utlru", "utmap", "utset")
PEEK_KINDS = ("lru", "mru", "tlru", "utlru", "lfu", "lfuda")
MS = 1000000
T0 = 1000000000


class Ctx:
    """Mutable generation state for one script."""

    def __init__(self, rng, kind, cap=None, nkeys=None, ttl=None):
        self.rng = rng
        self.kind = kind
        bounded = kind not in ("utmap", "utset")
        if cap is None:
            cap = rng.choice([1, 2, 2, 3, 3, 4, 4, 7]) if bounded else 0
        self.cap = cap
        base = cap if bounded else rng.choice([2, 3, 5])
        self.nkeys = nkeys if nkeys is not None else base + rng.randint(1, base + 3)
        # ttl = 0 makes a just-written entry already expired (known finding K1 for ut_map/ut_set);
        # the ordinary stream keeps it positive there, and exercises it for utlru.
        if ttl is None:
            if kind in ("utmap", "utset"):
                ttl = rng.choice([1, 2, 3, 10])
            elif kind == "utlru":
                ttl = rng.choice([0, 1, 2, 3, 10])
            else:
                ttl = 0
        self.ttl = ttl
        # a share of tlru/utlru scripts keeps every entry alive throughout, so that recency (not expiry)
        # decides the victims
        self.long = kind in ("tlru", "utlru") and rng.random() < 0.35
        if self.long and kind == "utlru":
            self.ttl = 1000000
        self.tick = rng.choice([1, 2, 5]) if kind == "lfuda" else 0
        self.num, self.den = rng.choice([(1, 2), (1, 2), (1, 4), (3, 4), (1, 1), (0, 1)]) if kind == "lfuda" else (1, 2)
        self.now = T0
        self.val = 100
        self.marks = []  # interesting future instants: deadlines, stamp + tick
        self.lines = []
        self.maybe = set()  # keys that were written at some point (rough)
        self.cur_ttl = self.ttl
        self.nops = 0

    def fresh_val(self):
        self.val += 1
        return 1 if self.kind == "utset" else self.val

    def advance(self):
        """Move the clock; aim at boundary instants on purpose."""
        r = self.rng
        x = r.random()
        if self.kind not in TTL_KINDS and self.kind != "lfuda":
            if x < 0.1:
                self.now += r.choice([1, MS, 5 * MS])
            return
        if x < 0.45:
            return
        if getattr(self, "long", False):
            self.now += r.choice([1, MS, 5 * MS])
            return
        future = [m for m in self.marks if m >= self.now - 1]
        if future and x < 0.85:
            m = r.choice(future)
            t = m + r.choice([-1, 0, 0, 1])
            if t >= self.now:
                self.now = t
                return
        self.now += r.choice([1, MS - 1, MS, MS + 1, 2 * MS, 5 * MS, 7 * MS + 1, 50 * MS])

    def key(self):
        r = self.rng
        if self.maybe and r.random() < 0.5:
            return r.choice(sorted(self.maybe))
        return r.randrange(self.nkeys)

    def keys(self, n):
        return [self.key() for _ in range(n)]

    def ttl_arg(self):
        if self.kind != "tlru":
            return 0
        if self.long:
            return self.rng.choice([1000000, 2000000])
        return self.rng.choice([0, 1, 1, 2, 5, 10])

    def note_write(self, k, ttl_ms):
        self.maybe.add(k)
        if self.kind == "tlru":
            self.marks.append(self.now + ttl_ms * MS)
        elif self.kind in TTL_KINDS:
            self.marks.append(self.now + self.cur_ttl * MS)
        elif self.kind == "lfuda":
            self.marks.append(self.now + self.tick * MS)
            self.marks.append(self.now + self.tick * MS + 1)
        if len(self.marks) > 12:
            self.marks = self.marks[-12:]

    def emit(self, inst, toks, tag=None):
        t = "@%s " % tag if tag else ""
        self.lines.append("op %d %d %s%s" % (inst, self.now, t, " ".join(str(x) for x in toks)))
        self.nops += 1

    def allow(self):
        return self.rng.choice(["iu", "iu", "iu", "i", "i", "u"])

    def peek(self):
        if self.kind in PEEK_KINDS:
            return self.rng.choice([0, 0, 1])
        return 0


def fmt_list(xs):
    return ",".join(str(x) for x in xs) if xs else "_"


def range_len(rng, cap):
    x = rng.random()
    if x < 0.08:
        return 0
    if x < 0.8:
        return rng.randint(1, 3)
    return rng.randint(cap + 1, cap + 3) if cap else rng.randint(3, 6)


def gen_op(c, insts=(0,), tag=None):
    """One random call, emitted identically on every instance in `insts`. Returns the op tokens."""
    r = c.rng
    kind = c.kind
    choices = [("ins", 30), ("find", 22), ("erase", 9), ("insr", 7), ("findr", 6), ("eraser", 3),
               ("obs", 3)]
    if kind in ("lfu", "lfuda"):
        choices.append(("findc", 8))
    if kind == "lfuda":
        choices.append(("age", 8))
    if kind in TTL_KINDS:
        choices.append(("clean", 6))
    if kind == "utlru":
        choices += [("uttl", 9), ("clear", 2)]
    if kind == "utmap":
        choices.append(("clear", 2))
    total = sum(w for _, w in choices)
    x = r.randrange(total)
    for name, w in choices:
        if x < w:
            break
        x -= w
    c.advance()
    if name == "ins":
        k, v, a, t = c.key(), c.fresh_val(), c.allow(), c.ttl_arg()
        toks = ["ins", k, v, a, t]
        c.note_write(k, t)
    elif name == "insr":
        n = range_len(r, c.cap)
        xs = []
        for _ in range(n):
            k, v, t = c.key(), c.fresh_val(), c.ttl_arg()
            xs.append("%d:%d:%d" % (k, v, t))
            c.note_write(k, t)
        nm = "insi" if kind == "fifo" and r.random() < 0.5 else "insr"
        toks = [nm, c.allow(), fmt_list(xs)]
    elif name == "find":
        toks = ["find", c.key(), c.peek()]
    elif name == "findc":
        toks = ["findc", c.key(), c.peek()]
    elif name == "findr":
        ks = c.keys(range_len(r, c.cap))
        names = ["findr", "findf"]
        if kind == "fifo":
            names += ["findi", "findfi"]
        toks = [r.choice(names), c.peek(), fmt_list(ks)]
    elif name == "erase":
        toks = ["erase", c.key()]
    elif name == "eraser":
        ks = c.keys(range_len(r, c.cap))
        nm = "erasei" if kind == "fifo" and r.random() < 0.5 else "eraser"
        toks = [nm, fmt_list(ks)]
    elif name == "obs":
        toks = [r.choice(["size", "empty", "cap"])]
    elif name == "age":
        toks = ["age"]
    elif name == "clean":
        toks = ["clean"]
    elif name == "clear":
        toks = ["clear"]
    elif name == "uttl":
        if c.long:
            c.cur_ttl = r.choice([1000000, 2000000, 3000000])
        else:
            c.cur_ttl = r.choice([0, 1, 2, 3, 5, 10, 20, c.cur_ttl, c.cur_ttl + 1])
        toks = ["uttl", c.cur_ttl]
    for i in insts:
        c.emit(i, toks, tag)
    return toks


def drain(c, insts=(0,)):
    """Frozen clock; `cap` fresh keys one at a time: forces out the complete internal order."""
    n = c.cap if c.cap else 0
    for j in range(n):
        k = c.nkeys + j
        toks = ["ins", k, c.fresh_val(), "i", 10 if c.kind == "tlru" else 0]
        for i in insts:
            c.emit(i, toks)


def cfg_line(c, mode, ts, lf, val, seed):
    universe = c.nkeys + (c.cap if c.cap else 0)
    return "cfg %s %d %d %d %d %d %d %s ts=%d lf=%s val=%s seed=%d%s" % (
        c.kind, c.cap, c.ttl, c.tick, c.num, c.den, universe, mode, ts, lf, val, seed, skew_of(c.kind, ts, seed))


def skew_of(kind, ts, seed):
    """ut_map/ut_set, thread_safe::yes, half of the scripts: lock-entry clock skew (harness/main.cpp) - each call
    is entered with the clock still at the previous call's reading; the clock reaches the call's own reading
    when the container's mutex is acquired, as if the caller had been blocked that long.  These two
    containers read the clock under the lock, so nothing observable changes on the unchanged tree."""
    return " skew=1" if kind in ("utmap", "utset") and ts == 1 and seed % 2 == 0 else ""


def variant(rng):
    ts = rng.choice([0, 1])
    lf = rng.choice(["1.0", "1.0", "0.05", "0.25", "0.5", "4.0", "64.0"])
    val = rng.choice(["u", "c"])
    seed = rng.randrange(1, 1 << 30)
    return ts, lf, val, seed


def ttl_order_prefix(c):
    """Template for tlru/utlru: entries written under different TTLs, so that write order and deadline
    order differ, then the clock is put just past the earliest deadline and the expired-first paths
    (clean_expired_values, an insert into the full cache, size) are taken."""
    r = c.rng
    big = r.choice([8, 10, 20])
    if c.kind == "utlru":
        c.emit(0, ["uttl", big])
        c.cur_ttl = big
    nfill = r.randint(1, max(1, c.cap - 1))
    for _ in range(nfill):
        k, v = c.key(), c.fresh_val()
        c.emit(0, ["ins", k, v, "iu", big])
        c.note_write(k, big)
        if r.random() < 0.5:
            c.now += r.choice([0, 1, MS])
    for _ in range(r.randint(1, 3)):
        small = r.choice([1, 2, 3, big, big + 1, c.cur_ttl if c.kind == "utlru" else 2])
        if c.kind == "utlru":
            c.emit(0, ["uttl", small])
            c.cur_ttl = small
        if r.random() < 0.8:
            k = c.key() if r.random() < 0.6 else r.randrange(c.nkeys)
            v = c.fresh_val()
            c.emit(0, ["ins", k, v, r.choice(["iu", "iu", "u", "i"]), small])
            c.note_write(k, small)
    future = sorted(m for m in c.marks if m > c.now)
    if future:
        c.now = future[0] + r.choice([0, 0, 1])
    for _ in range(r.randint(1, 3)):
        x = r.random()
        if x < 0.4:
            c.emit(0, ["clean"])
        elif x < 0.8:
            k, v = r.randrange(c.nkeys), c.fresh_val()
            c.emit(0, ["ins", k, v, "iu", big])
            c.note_write(k, big)
        else:
            c.emit(0, ["size"])


def gen_bulk(rng, kind):
    """A short script over a large key universe (70-200 keys): long ranges, many entries expiring at once.
    Reaches thresholds that small scripts cannot (batching, per-call limits)."""
    bounded = kind not in ("utmap", "utset")
    n = rng.choice([70, 100, 130, 200])
    c = Ctx(rng, kind, cap=(rng.choice([n // 2, n, n + 7]) if bounded else 0), nkeys=n, ttl=(2 if kind in ("utlru", "utmap", "utset") else 0))
    c.long = False
    c.cur_ttl = c.ttl
    keys = list(range(n))
    rng.shuffle(keys)
    xs = []
    for k in keys:
        xs.append("%d:%d:%d" % (k, c.fresh_val(), 2 if kind == "tlru" else 0))
        c.note_write(k, 2)
    c.emit(0, ["insr", "iu", ",".join(xs)])
    for _ in range(rng.randint(3, 7)):
        x = rng.random()
        if x < 0.3 and (kind in TTL_KINDS or kind == "lfuda"):
            c.now += rng.choice([MS, 2 * MS, 2 * MS + 1, 3 * MS])
        y = rng.random()
        if y < 0.3:
            c.emit(0, ["find", rng.randrange(n), c.peek()])
        elif y < 0.5:
            c.emit(0, [rng.choice(["findr", "findf"]), c.peek(), fmt_list([rng.randrange(n) for _ in range(rng.choice([3, 80, 150]))])])
        elif y < 0.6:
            c.emit(0, ["eraser", fmt_list([rng.randrange(n) for _ in range(rng.choice([3, 80]))])])
        elif y < 0.75:
            c.emit(0, ["size"])
        elif y < 0.85 and kind in TTL_KINDS:
            c.emit(0, ["clean"])
        elif y < 0.9 and kind == "lfuda":
            c.emit(0, ["age"])
        else:
            k, v = rng.randrange(n), c.fresh_val()
            c.emit(0, ["ins", k, v, c.allow(), 2])
    ts, lf, val, seed = variant(rng)
    universe = n
    return ["cfg %s %d %d %d %d %d %d single ts=%d lf=%s val=%s seed=%d%s" % (
        kind, c.cap, c.ttl, c.tick, c.num, c.den, universe, ts, lf, val, seed, skew_of(kind, ts, seed))] + c.lines + ["end"]


# ---------------------------------------------------------------------------------------------
# Extremes: inputs far from what the repo's tests (and the ordinary generators above) use
# ---------------------------------------------------------------------------------------------

EXTREME_FAMILIES = ("hot", "bigttl", "longcap", "longrun", "bigtick")

BIG_TTLS_MS = [59999, 60000, 3600000, 86400000, 2147483, 2147484, 2147483647, 2147483648, 4294967295, 4294967296,
               4294968, 10 ** 10, 10 ** 12, 2 * 10 ** 12, 4 * 10 ** 12]
LIMIT_NS = 1 << 62  # 'TTLs representable on the clock': every deadline now + ttl stays below 2^62 ns


def extreme_applicable(kind, fam):
    if fam == "bigttl":
        return kind in TTL_KINDS
    if fam == "bigtick":
        return kind == "lfuda"
    if fam == "longcap":
        return kind not in ("utmap", "utset")
    if fam == "longrun":
        return kind not in TTL_KINDS
    return True


def gen_extreme(rng, kind, fam=None, huge=False, lf=None):
    """One script of an 'unusual input' family:
    hot      one key used hundreds (rarely: tens of thousands) of times - counts past 127/255/32767/65535
    bigttl   TTLs of minutes ... 146 years (ms counts past 2^31, 2^32; ns counts past 2^53, 2^62/… ) with the
             clock aimed at the deadlines +-1 ns
    longcap  capacities 16..64 with a few hundred operations (slot recycling far from the list ends)
    longrun  hundreds to thousands of calls on a small cache (non-TTL kinds: sweeps are cheap there)
    bigtick  lfuda with ticks of minutes..2^32 ms, ratios 7/8, 15/16, counts in the hundreds"""
    fams = [f for f in EXTREME_FAMILIES if extreme_applicable(kind, f)]
    if fam is None or fam not in fams:
        fam = rng.choice(fams)
    r = rng
    if fam == "hot":
        c = Ctx(r, kind, cap=(r.choice([1, 2, 3, 4]) if kind not in ("utmap", "utset") else None))
        if kind == "lfuda":
            c.num, c.den = r.choice([(1, 1), (1, 2), (3, 4), (7, 8)])
        if kind in ("utlru", "utmap", "utset"):
            c.ttl = c.cur_ttl = 1000000
        c.long = True
        n = r.choice([130, 260, 300]) if not huge else r.choice([33000, 66000])
        hot = r.randrange(c.nkeys)
        for _ in range(r.randint(0, 3)):
            gen_op(c)
        c.emit(0, ["ins", hot, c.fresh_val(), "iu", 1000000])
        c.maybe.add(hot)
        done = 0
        while done < n:
            x = r.random()
            if x < 0.7:
                m = min(n - done, r.choice([50, 100, 127, 128]))
                c.emit(0, [r.choice(["findr", "findf"]), 0, fmt_list([hot] * m)])
                done += m
            elif x < 0.8:
                m = min(n - done, r.choice([20, 64]))
                xs = ["%d:%d:%d" % (hot, c.fresh_val(), 1000000) for _ in range(m)]
                c.emit(0, ["insr", r.choice(["iu", "u"]), ",".join(xs)])
                done += m
            elif x < 0.9:
                c.emit(0, ["findc" if kind in ("lfu", "lfuda") else "find", hot, 0])
                done += 1
            else:
                gen_op(c)
        for _ in range(r.randint(2, 8)):
            gen_op(c)
        if kind in ("lfu", "lfuda"):
            c.emit(0, ["findc", hot, 1])
        drain(c)
    elif fam == "bigttl":
        fixed = kind in ("utmap", "utset")
        big = r.choice([t for t in BIG_TTLS_MS if not fixed or t <= 2 * 10 ** 12])
        c = Ctx(r, kind, ttl=(big if kind != "tlru" else 0))
        c.long = False
        c.cur_ttl = c.ttl
        ttls = [big, r.choice(BIG_TTLS_MS), r.choice([1, 2, 5])]

        def fits(t_ms, now=None):
            return (c.now if now is None else now) + t_ms * MS < LIMIT_NS

        def t_arg():
            if kind != "tlru":
                return 0
            ok = [t for t in ttls if fits(t)]
            return r.choice(ok)

        def before_write():
            # utlru: the configured TTL must still fit at this clock reading
            if kind == "utlru" and not fits(c.cur_ttl):
                c.cur_ttl = r.choice([t for t in BIG_TTLS_MS + [1, 2] if fits(t)])
                c.emit(0, ["uttl", c.cur_ttl])
        for _ in range(r.randint(10, 30)):
            x = r.random()
            # clock: stay, or jump right next to a pending deadline
            future = sorted(m for m in c.marks if m >= c.now - 1)
            if future and x < 0.35:
                t = r.choice(future[:3]) + r.choice([-1, 0, 0, 1])
                if t >= c.now and (not fixed or fits(c.ttl, t + 3600 * 1000 * MS)):
                    c.now = t
            elif x < 0.45:
                d = r.choice([1, MS, 1000 * MS, 3600 * 1000 * MS])
                if not fixed or fits(c.ttl, c.now + d):
                    c.now += d
            y = r.random()
            if y < 0.4:
                before_write()
                k, v, t = c.key(), c.fresh_val(), t_arg()
                c.emit(0, ["ins", k, v, c.allow(), t])
                c.note_write(k, t)
            elif y < 0.5:
                before_write()
                xs = []
                for _ in range(r.randint(1, 3)):
                    k, v, t = c.key(), c.fresh_val(), t_arg()
                    xs.append("%d:%d:%d" % (k, v, t))
                    c.note_write(k, t)
                c.emit(0, ["insr", c.allow(), ",".join(xs)])
            elif y < 0.75:
                c.emit(0, ["find", c.key(), c.peek()])
            elif y < 0.85:
                c.emit(0, ["clean"])
            elif y < 0.9:
                c.emit(0, ["size"])
            elif y < 0.95 and kind == "utlru":
                c.cur_ttl = r.choice([t for t in BIG_TTLS_MS + [1, 2] if fits(t)])
                c.emit(0, ["uttl", c.cur_ttl])
            else:
                c.emit(0, ["erase", c.key()])
        if kind == "utlru":
            before_write()
        drain(c)
    elif fam == "longcap":
        cap = r.choice([16, 31, 32, 33, 64])
        c = Ctx(r, kind, cap=cap, nkeys=cap + r.randint(1, 6))
        n = r.randint(120, 300)
        if kind in TTL_KINDS:
            n = 60
        for _ in range(n):
            gen_op(c)
        drain(c)
    elif fam == "longrun":
        c = Ctx(r, kind)
        for _ in range(r.randint(300, 1500) if not huge else 6000):
            gen_op(c)
        drain(c)
    else:  # bigtick
        c = Ctx(r, kind, cap=r.choice([2, 3, 4, 7]))
        c.tick = r.choice([1000, 60000, 3600000, 2147483648, 4294967296, 10 ** 10])
        c.num, c.den = r.choice([(7, 8), (15, 16), (1, 2), (3, 4), (1, 1)])
        step = c.tick * MS
        for _ in range(r.randint(20, 60)):
            x = r.random()
            if x < 0.25:
                c.now += r.choice([step - 1, step, step + 1, 2 * step + 1, step // 2, 5 * step])
            elif x < 0.35:
                c.now += r.choice([1, MS])
            y = r.random()
            if y < 0.3:
                k = c.key()
                c.emit(0, ["findr", 0, fmt_list([k] * r.choice([3, 17, 40, 130]))])
            elif y < 0.45:
                c.emit(0, ["age"])
            elif y < 0.6:
                c.emit(0, ["findc", c.key(), r.choice([0, 1])])
            else:
                k = c.key()
                c.emit(0, ["ins", k, c.fresh_val(), c.allow(), 0])
                c.maybe.add(k)
        drain(c)
    ts, lf0, val, seed = variant(r)
    return [cfg_line(c, "single", ts, lf if lf is not None else lf0, val, seed)] + c.lines + ["end"]


def extremes_fixed(rng, kind):
    """One script of every applicable family (run by every check whose modes include `single`); bounded kinds get
    the capacity-16..64 family once more with a load factor below 1 (a hash index sized in buckets instead of
    elements rehashes only then, and only once more than a dozen entries are resident: seeds V-C08, X-C08)."""
    out = [gen_extreme(rng, kind, fam) for fam in EXTREME_FAMILIES if extreme_applicable(kind, fam)]
    if extreme_applicable(kind, "longcap"):
        out.append(gen_extreme(rng, kind, "longcap", lf=rng.choice(["0.05", "0.25", "0.5"])))
    return out


def gen_single(rng, kind, maxops=60):
    x = rng.random()
    if x < 0.04:
        return gen_bulk(rng, kind)
    if x < 0.07:
        return gen_extreme(rng, kind)
    c = Ctx(rng, kind)
    n = rng.randint(8, maxops)
    if kind in TTL_KINDS:
        n = min(n, 40)  # sweeps of TTL containers replay the prefix: quadratic
    if kind in ("tlru", "utlru") and not c.long and rng.random() < 0.4:
        ttl_order_prefix(c)
        n = max(4, n - c.nops)
    for _ in range(n):
        gen_op(c)
    drain(c)
    ts, lf, val, seed = variant(rng)
    return [cfg_line(c, "single", ts, lf, val, seed)] + c.lines + ["end"]


def expand_range(toks):
    """The single calls a range call stands for, in iteration order."""
    nm = toks[0]
    out = []
    if nm in ("insr", "insi"):
        a = toks[1]
        if toks[2] != "_":
            for e in toks[2].split(","):
                k, v, t = e.split(":")
                out.append(["ins", k, v, a, t])
    elif nm in ("findr", "findf", "findi", "findfi"):
        if toks[2] != "_":
            for k in toks[2].split(","):
                out.append(["find", k, toks[1]])
    elif nm in ("eraser", "erasei"):
        if toks[1] != "_":
            for k in toks[1].split(","):
                out.append(["erase", k])
    return out


RANGE_NAMES = ("insr", "insi", "findr", "findf", "findi", "findfi", "eraser", "erasei")


def gen_c18(rng, kind, maxops=40):
    """Instance 0 gets range calls, instance 1 the same elements as single calls at the same instant."""
    c = Ctx(rng, kind)
    n = rng.randint(6, maxops if kind not in TTL_KINDS else 24)
    g = 0
    for _ in range(n):
        before = len(c.lines)
        toks = gen_op(c, insts=(0,))
        if toks[0] in RANGE_NAMES:
            # retag the range call and emit the singles on the twin
            line = c.lines.pop()
            c.nops -= 1
            g += 1
            c.emit(0, toks, tag="g%d" % g)
            for s in expand_range(toks):
                c.emit(1, s, tag="g%d" % g)
        else:
            c.emit(1, toks)
        assert len(c.lines) > before
    drain(c, insts=(0, 1))
    ts, lf, val, seed = variant(rng)
    return [cfg_line(c, "c18", ts, lf, val, seed)] + c.lines + ["end"]


def gen_noeffect(c):
    """A call that is expected to have no effect (the driver classifies it by its result)."""
    r = c.rng
    kind = c.kind
    opts = ["miss", "rej", "erase_absent"]
    if kind in PEEK_KINDS:
        opts += ["peek", "peek", "peekr"]
    if kind in ("lfu", "lfuda"):
        opts += ["peekc"]
    o = r.choice(opts)
    if o == "peek":
        return ["find", c.key(), 1]
    if o == "peekc":
        return ["findc", c.key(), 1]
    if o == "peekr":
        return [r.choice(["findr", "findf"]), 1, fmt_list(c.keys(r.randint(0, 3)))]
    if o == "miss":
        return ["find", r.randrange(c.nkeys), 0]
    if o == "rej":
        return ["ins", c.key(), c.fresh_val(), r.choice(["i", "u"]), c.ttl_arg()]
    return ["erase", r.randrange(c.nkeys)]


def gen_c19(rng, kind, maxops=40):
    """Instance 0 runs H, instance 1 runs H with no-effect calls (tag x) spliced in."""
    c = Ctx(rng, kind)
    n = rng.randint(6, maxops if kind not in TTL_KINDS else 24)
    for _ in range(n):
        gen_op(c, insts=(0, 1))
        if rng.random() < 0.4:
            c.advance()
            c.emit(1, gen_noeffect(c), tag="x")
    drain(c, insts=(0, 1))
    ts, lf, val, seed = variant(rng)
    return [cfg_line(c, "c19", ts, lf, val, seed)] + c.lines + ["end"]


def gen_c20(rng, kind, maxops=30):
    """Instance 0: H1, clear, H2.  Instance 1: fresh (configured TTL brought up to date), H2."""
    assert kind in ("utlru", "utmap")
    c = Ctx(rng, kind)
    n1 = rng.randint(0, maxops // 2)
    for _ in range(n1):
        gen_op(c, insts=(0,), tag="pre")
    c.emit(0, ["clear"], tag="pre")
    if kind == "utlru":
        c.emit(1, ["uttl", c.cur_ttl], tag="pre")
    else:
        c.emit(1, ["size"], tag="pre")
    n2 = rng.randint(3, maxops // 2)
    for _ in range(n2):
        gen_op(c, insts=(0, 1))
    drain(c, insts=(0, 1))
    ts, lf, val, seed = variant(rng)
    return [cfg_line(c, "c20", ts, lf, val, seed)] + c.lines + ["end"]


def exhaustive(kind, length, cap=2, nkeys=3):
    """Every script of exactly `length` steps over a small alphabet (small-scope support for the
    correspondence; thorough tier).  TTL containers: the pseudo-step `tick` advances the clock by 1 ms
    (TTL 1 ms / 2 ms), so deadlines are hit exactly."""
    import itertools
    bounded = kind not in ("utmap", "utset")
    cap = cap if bounded else 0
    alpha = []
    for k in range(nkeys):
        ttl = 1 + (k % 2)
        alpha += [["ins", k, "V", "iu", ttl], ["ins", k, "V", "i", ttl], ["ins", k, "V", "u", ttl], ["find", k, 0], ["erase", k]]
        if kind in PEEK_KINDS:
            alpha.append(["find", k, 1])
    if kind in TTL_KINDS or kind == "lfuda":
        alpha.append(["tick"])
    if kind in TTL_KINDS:
        alpha.append(["clean"])
    if kind == "lfuda":
        alpha.append(["age"])
    if kind == "utlru":
        alpha += [["uttl", 1], ["uttl", 3], ["clear"]]
    if kind == "utmap":
        alpha.append(["clear"])
    universe = nkeys + cap
    head = "cfg %s %d %d %d 1 2 %d single ts=0 lf=1.0 val=u seed=7" % (kind, cap, 2 if kind in TTL_KINDS else 0, 1 if kind == "lfuda" else 0, universe)
    for combo in itertools.product(alpha, repeat=length):
        now = T0
        val = 100
        lines = [head]
        for t in combo:
            if t[0] == "tick":
                now += MS
                continue
            toks = list(t)
            if toks[0] == "ins":
                val += 1
                toks[2] = 1 if kind == "utset" else val
            lines.append("op 0 %d %s" % (now, " ".join(str(x) for x in toks)))
        for j in range(cap):
            val += 1
            lines.append("op 0 %d ins %d %d i 2" % (now, nkeys + j, 1 if kind == "utset" else val))
        if len(lines) > 1:
            lines.append("end")
            yield lines


def gen(rng, kind, mode):
    if mode == "single":
        return gen_single(rng, kind)
    if mode == "c18":
        return gen_c18(rng, kind)
    if mode == "c19":
        return gen_c19(rng, kind)
    if mode == "c20":
        return gen_c20(rng, kind)
    raise ValueError(mode)


if __name__ == "__main__":
    import sys
    seed = int(sys.argv[1]) if len(sys.argv) > 1 else 1
    kind = sys.argv[2] if len(sys.argv) > 2 else "lru"
    mode = sys.argv[3] if len(sys.argv) > 3 else "single"
    n = int(sys.argv[4]) if len(sys.argv) > 4 else 1
    rng = random.Random(seed)
    for _ in range(n):
        print("\n".join(gen(rng, kind, mode)))
