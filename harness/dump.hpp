// Structural tier (C08): canonical text of a container's private structure, read through the guarded friend
// hook.  Only slots that are in use are touched (iterators stored in free slots are stale by design).
// The format is the one `dump` of the corresponding L2 Lean model prints (lean/Verif/Concrete/*.lean).
#pragma once
#include <algorithm>

namespace cappuccino_verif
{
struct access
{
    template<class V> static uint64_t id(const V& v) { return hv::idof(v); }

    static std::string join(const std::vector<std::string>& xs)
    {
        std::string s;
        for (size_t i = 0; i < xs.size(); ++i) { if (i) s += ","; s += xs[i]; }
        return s;
    }

#if defined(HK_rr)
    template<class C> static std::string dump(C& c)
    {
        std::vector<std::pair<uint64_t, size_t>> ks;
        for (auto& [k, idx] : c.m_keyed_elements) ks.emplace_back(k, idx);
        std::sort(ks.begin(), ks.end());
        std::vector<std::string> open, used;
        for (auto x : c.m_open_list) open.push_back(std::to_string(x));
        for (auto& [k, idx] : ks)
        {
            auto& e = c.m_elements[idx];
            used.push_back(std::to_string(idx) + ":" + std::to_string(id(e.m_value)) + ":" +
                           std::to_string(e.m_open_list_position) + ":" + std::to_string(e.m_keyed_position->first));
        }
        return "end=" + std::to_string(c.m_open_list_end) + " open=" + join(open) + " used=" + join(used);
    }
#elif defined(HK_lru) || defined(HK_mru)
    template<class C> static std::string dump(C& c)
    {
#if defined(HK_lru)
        auto& list = c.m_lru_list;
        auto  end  = c.m_lru_end;
#else
        auto& list = c.m_mru_list;
        auto  end  = c.m_mru_end;
#endif
        std::vector<std::pair<uint64_t, size_t>> ks;
        for (auto& [k, idx] : c.m_keyed_elements) ks.emplace_back(k, idx);
        std::sort(ks.begin(), ks.end());
        std::vector<std::string> l, used;
        for (auto x : list) l.push_back(std::to_string(x));
        for (auto& [k, idx] : ks)
        {
            auto& e = c.m_elements[idx];
#if defined(HK_lru)
            auto pos = *e.m_lru_position;
#else
            auto pos = *e.m_mru_position;
#endif
            used.push_back(std::to_string(idx) + ":" + std::to_string(id(e.m_value)) + ":" + std::to_string(pos) + ":" +
                           std::to_string(e.m_keyed_position->first));
        }
        return "end=" + (end == list.end() ? std::string("-") : std::to_string(*end)) + " list=" + join(l) +
               " size=" + std::to_string(c.m_used_size) + " used=" + join(used);
    }
#elif defined(HK_tlru) || defined(HK_utlru)
    template<class C> static std::string dump(C& c)
    {
        auto& list = c.m_lru_list;
        auto  end  = c.m_lru_end;
        std::vector<std::pair<uint64_t, size_t>> ks;
        for (auto& [k, idx] : c.m_keyed_elements) ks.emplace_back(k, idx);
        std::sort(ks.begin(), ks.end());
        std::vector<std::string> l, used, tq;
        for (auto x : list) l.push_back(std::to_string(x));
        auto ns = [](std::chrono::steady_clock::time_point t) { return std::to_string(t.time_since_epoch().count()); };
#if defined(HK_tlru)
        for (auto& [t, idx] : c.m_ttl_list) tq.push_back(ns(t) + ":" + std::to_string(idx));
#else
        for (auto idx : c.m_ttl_list) tq.push_back(ns(c.m_elements[idx].m_expire_time) + ":" + std::to_string(idx));
#endif
        for (auto& [k, idx] : ks)
        {
            auto& e = c.m_elements[idx];
#if defined(HK_tlru)
            size_t tslot = e.m_ttl_position->second;
#else
            size_t tslot = *e.m_ttl_position;
#endif
            used.push_back(std::to_string(idx) + ":" + std::to_string(id(e.m_value)) + ":" + std::to_string(*e.m_lru_position) +
                           ":" + std::to_string(e.m_keyed_position->first) + ":" + ns(e.m_expire_time) + ":" + std::to_string(tslot));
        }
        return "end=" + (end == list.end() ? std::string("-") : std::to_string(*end)) + " list=" + join(l) +
               " size=" + std::to_string(c.m_used_size) + " ttl=" + join(tq) + " used=" + join(used);
    }
#elif defined(HK_fifo)
    template<class C> static std::string dump(C& c)
    {
        std::vector<std::string> l;
        for (auto& e : c.m_fifo_list)
        {
            if (e.m_keyed_position.has_value())
                l.push_back(std::to_string(e.m_keyed_position.value()->first) + ":" + std::to_string(id(e.m_value)));
            else
                l.push_back("-");
        }
        return "list=" + join(l) + " size=" + std::to_string(c.m_used_size);
    }
#elif defined(HK_lfu) || defined(HK_lfuda)
    template<class C> static std::string dump(C& c)
    {
#if defined(HK_lfu)
        auto& list = c.m_open_list;
#else
        auto& list = c.m_dynamic_age_list;
#endif
        std::vector<std::string> l, lq;
        size_t n = 0;
        for (auto it = list.begin(); it != c.m_open_list_end; ++it, ++n)
        {
            auto& e = *it;
#if defined(HK_lfuda)
            std::string stamp = std::to_string(e.m_dynamic_age.time_since_epoch().count());
#else
            std::string stamp = "0";
#endif
            l.push_back(std::to_string(e.m_keyed_position->first) + ":" + std::to_string(id(e.m_value)) + ":" +
                        std::to_string(e.m_lfu_position->first) + ":" + stamp);
        }
        for (auto& [cnt, it] : c.m_lfu_list) lq.push_back(std::to_string(cnt) + ":" + std::to_string(it->m_keyed_position->first));
        return "end=" + std::to_string(n) + " list=" + join(l) + " lfu=" + join(lq) + " size=" + std::to_string(c.m_used_size);
    }
#elif defined(HK_utmap) || defined(HK_utset)
    template<class C> static std::string dump(C& c)
    {
        auto ns = [](std::chrono::steady_clock::time_point t) { return std::to_string(t.time_since_epoch().count()); };
        std::vector<std::string> tq, ms;
        for (auto& u : c.m_ttl_list) tq.push_back(ns(u.m_expire_time) + ":" + std::to_string(u.m_keyed_elements_position->first));
        for (auto& [k, e] : c.m_keyed_elements)
        {
#if defined(HK_utmap)
            std::string v = std::to_string(id(e.m_value));
#else
            std::string v = "1";
#endif
            ms.push_back(std::to_string(k) + ":" + v + ":" + ns(e.m_ttl_position->m_expire_time));
        }
        return "ttl=" + join(tq) + " map=" + join(ms);
    }
#else
    template<class C> static std::string dump(C&) { return "-"; }
#endif
};
} // namespace cappuccino_verif

namespace hv
{
namespace
{
template<class C> std::string dump_of(C& c) { return cappuccino_verif::access::dump(c); }
} // namespace
} // namespace hv
