// Structural tier (C08): canonical text of a container's private structure, read through the guarded friend
// hook.  Only slots that are in use are touched (iterators stored in free slots are stale by design).
// The format is the one `dump` of the corresponding L2 Lean model prints (lean/Verif/Concrete/*.lean).
#pragma once
#include <algorithm>

namespace cappuccino_verif
{
struct access
{
    template<class V> static uint64_t id(const V& v) { return hv::idof(v); }

    static std::string join(const std::vector<std::string>& xs)
    {
        std::string s;
        for (size_t i = 0; i < xs.size(); ++i) { if (i) s += ","; s += xs[i]; }
        return s;
    }

#if defined(HK_rr)
    template<class C> static std::string dump(C& c)
    {
        std::vector<std::pair<uint64_t, size_t>> ks;
        for (auto& [k, idx] : c.m_keyed_elements) ks.emplace_back(k, idx);
        std::sort(ks.begin(), ks.end());
        std::vector<std::string> open, used;
        for (auto x : c.m_open_list) open.push_back(std::to_string(x));
        for (auto& [k, idx] : ks)
        {
            auto& e = c.m_elements[idx];
            used.push_back(std::to_string(idx) + ":" + std::to_string(id(e.m_value)) + ":" +
                           std::to_string(e.m_open_list_position) + ":" + std::to_string(e.m_keyed_position->first));
        }
        return "end=" + std::to_string(c.m_open_list_end) + " open=" + join(open) + " used=" + join(used);
    }
#elif defined(HK_lru) || defined(HK_mru)
    template<class C> static std::string dump(C& c)
    {
#if defined(HK_lru)
        auto& list = c.m_lru_list;
        auto  end  = c.m_lru_end;
#else
        auto& list = c.m_mru_list;
        auto  end  = c.m_mru_end;
#endif
        std::vector<std::pair<uint64_t, size_t>> ks;
        for (auto& [k, idx] : c.m_keyed_elements) ks.emplace_back(k, idx);
        std::sort(ks.begin(), ks.end());
        std::vector<std::string> l, used;
        for (auto x : list) l.push_back(std::to_string(x));
        for (auto& [k, idx] : ks)
        {
            auto& e = c.m_elements[idx];
#if defined(HK_lru)
            auto pos = *e.m_lru_position;
#else
            auto pos = *e.m_mru_position;
#endif
            used.push_back(std::to_string(idx) + ":" + std::to_string(id(e.m_value)) + ":" + std::to_string(pos) + ":" +
                           std::to_string(e.m_keyed_position->first));
        }
        return "end=" + (end == list.end() ? std::string("-") : std::to_string(*end)) + " list=" + join(l) +
               " size=" + std::to_string(c.m_used_size) + " used=" + join(used);
    }
#else
    template<class C> static std::string dump(C&) { return "-"; }
#endif
};
} // namespace cappuccino_verif

namespace hv
{
namespace
{
template<class C> std::string dump_of(C& c) { return cappuccino_verif::access::dump(c); }
} // namespace
} // namespace hv
