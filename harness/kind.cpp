// One adapter per container kind; compiled once per kind with -DHK=<kind> -DHK_<kind>.
// Includes the headers of /repo's current working tree.
#include "iface.hpp"

#ifdef CAPPUCCINO_VERIF_HOOKS
namespace cappuccino_verif { struct access; }
#endif

#include <cappuccino/cappuccino.hpp>

#include <map>
#include <sstream>

namespace hv
{
namespace
{ // every kind's TU defines its own Impl: keep them apart
#ifdef CAPPUCCINO_VERIF_HOOKS
template<class C> std::string dump_of(C& c); // defined in dump.hpp, needs the friend hook
#endif
using namespace cappuccino;
using ms = std::chrono::milliseconds;

/// heap-owning, instance-counted value: every construction allocates, every destruction frees
struct Counted
{
    uint64_t* p;
    Counted() : p(new uint64_t(0)) { ++g_live; }
    explicit Counted(uint64_t v) : p(new uint64_t(v)) { ++g_live; }
    Counted(const Counted& o) : p(new uint64_t(*o.p)) { ++g_live; }
    Counted(Counted&& o) noexcept : p(o.p) { o.p = new uint64_t(0); ++g_live; }
    Counted& operator=(const Counted& o)
    {
        if (this != &o) { *p = *o.p; }
        return *this;
    }
    Counted& operator=(Counted&& o) noexcept
    {
        if (this != &o) { std::swap(p, o.p); }
        return *this;
    }
    ~Counted()
    {
        delete p;
        p = nullptr;
        --g_live;
        if (g_live < g_live_min) g_live_min = g_live;
    }
};

/// 768-byte trivially copyable value, every word equal to the id: a copy that overlaps a write shows as a torn value
struct Wide
{
    static constexpr size_t   N    = 96;
    static constexpr uint64_t torn = ~uint64_t{0};
    uint64_t                  w[N];
    Wide() { for (auto& x : w) x = 0; }
    explicit Wide(uint64_t v) { for (auto& x : w) x = v; }
};

template<class V> V mk(uint64_t v);
template<> uint64_t mk<uint64_t>(uint64_t v) { return v; }
template<> Counted  mk<Counted>(uint64_t v) { return Counted(v); }
template<> Wide     mk<Wide>(uint64_t v) { return Wide(v); }
inline uint64_t idof(uint64_t v) { return v; }
inline uint64_t idof(const Counted& v) { return *v.p; }
inline uint64_t idof(const Wide& v)
{
    for (size_t i = 1; i < Wide::N; ++i)
        if (v.w[i] != v.w[0]) return Wide::torn;
    return v.w[0];
}

inline allow to_allow(int a) { return a == 1 ? allow::insert : (a == 2 ? allow::update : allow::insert_or_update); }

template<class V> std::optional<uint64_t> cv(const std::optional<V>& o)
{
    if (o.has_value()) return idof(*o);
    return std::nullopt;
}

#if defined(HK_lru) || defined(HK_mru) || defined(HK_tlru) || defined(HK_utlru)
#define HV_PEEK_ENUM 1
#endif
#if defined(HK_lfu) || defined(HK_lfuda)
#define HV_PEEK_BOOL 1
#endif

template<class V, thread_safe TS> struct Impl final : IC
{
#if defined(HK_lru)
    lru_cache<K, V, TS> c;
    explicit Impl(const Cfg& g) : c(g.cap, g.lf) {}
#elif defined(HK_mru)
    mru_cache<K, V, TS> c;
    explicit Impl(const Cfg& g) : c(g.cap, g.lf) {}
#elif defined(HK_fifo)
    fifo_cache<K, V, TS> c;
    explicit Impl(const Cfg& g) : c(g.cap, g.lf) {}
#elif defined(HK_lfu)
    lfu_cache<K, V, TS> c;
    explicit Impl(const Cfg& g) : c(g.cap, g.lf) {}
#elif defined(HK_lfuda)
    lfuda_cache<K, V, TS> c;
    explicit Impl(const Cfg& g) : c(g.cap, ms{(long)g.tick_ms}, (float)g.num / (float)g.den, g.lf) {}
#elif defined(HK_rr)
    rr_cache<K, V, TS> c;
    explicit Impl(const Cfg& g) : c(g.cap, g.lf) {}
#elif defined(HK_tlru)
    tlru_cache<K, V, TS> c;
    explicit Impl(const Cfg& g) : c(g.cap, g.lf) {}
#elif defined(HK_utlru)
    utlru_cache<K, V, TS> c;
    explicit Impl(const Cfg& g) : c(ms{(long)g.ttl_ms}, g.cap, g.lf) {}
#elif defined(HK_utmap)
    ut_map<K, V, TS> c;
    explicit Impl(const Cfg& g) : c(ms{(long)g.ttl_ms}) {}
#elif defined(HK_utset)
    ut_set<K, TS> c;
    explicit Impl(const Cfg& g) : c(ms{(long)g.ttl_ms}) {}
#endif

    bool insert(K k, uint64_t v, int a, uint64_t ttl_ms) override
    {
        (void)ttl_ms; (void)v;
#if defined(HK_tlru)
        return c.insert(ms{(long)ttl_ms}, k, mk<V>(v), to_allow(a));
#elif defined(HK_utset)
        return c.insert(k, to_allow(a));
#else
        return c.insert(k, mk<V>(v), to_allow(a));
#endif
    }

    size_t insert_range(const std::vector<std::tuple<K, uint64_t, uint64_t>>& xs, int a, bool iter) override
    {
        (void)iter;
#if defined(HK_tlru)
        std::vector<std::tuple<ms, K, V>> r;
        for (auto& [k, v, t] : xs) r.emplace_back(ms{(long)t}, k, mk<V>(v));
        return c.insert_range(std::move(r), to_allow(a));
#elif defined(HK_utset)
        std::vector<K> r;
        for (auto& [k, v, t] : xs) { (void)v; (void)t; r.push_back(k); }
        return c.insert_range(std::move(r), to_allow(a));
#else
        std::vector<std::pair<K, V>> r;
        for (auto& [k, v, t] : xs) { (void)t; r.emplace_back(k, mk<V>(v)); }
#if defined(HK_fifo)
        if (iter) return c.insert(r.begin(), r.end(), to_allow(a));
#endif
        return c.insert_range(std::move(r), to_allow(a));
#endif
    }

    std::optional<uint64_t> find(K k, bool peek) override
    {
        (void)peek;
#if defined(HV_PEEK_ENUM)
        return cv(c.find(k, peek ? cappuccino::peek::yes : cappuccino::peek::no));
#elif defined(HV_PEEK_BOOL)
        return cv(c.find(k, peek));
#elif defined(HK_utset)
        return c.find(k) ? std::optional<uint64_t>{1} : std::nullopt;
#else
        return cv(c.find(k));
#endif
    }

    std::vector<std::optional<uint64_t>> find_range(const std::vector<K>& ks, bool peek, int variant) override
    {
        (void)peek;
        std::vector<std::optional<uint64_t>> out;
#if defined(HK_utset)
        if (variant == 1)
        {
            std::vector<std::pair<K, bool>> fill;
            for (auto k : ks) fill.emplace_back(k, false);
            c.find_range_fill(fill);
            for (auto& [k, b] : fill) { (void)k; out.push_back(b ? std::optional<uint64_t>{1} : std::nullopt); }
        }
        else
        {
            auto r = c.find_range(ks);
            for (auto& [k, b] : r) { (void)k; out.push_back(b ? std::optional<uint64_t>{1} : std::nullopt); }
        }
        return out;
#else
        if (variant == 1 || variant == 3)
        {
            std::vector<std::pair<K, std::optional<V>>> fill;
            for (auto k : ks) fill.emplace_back(k, std::nullopt);
#if defined(HV_PEEK_ENUM)
            c.find_range_fill(fill, peek ? cappuccino::peek::yes : cappuccino::peek::no);
#elif defined(HV_PEEK_BOOL)
            c.find_range_fill(fill, peek);
#elif defined(HK_fifo)
            if (variant == 3) c.find_range_fill(fill.begin(), fill.end());
            else c.find_range_fill(fill);
#else
            c.find_range_fill(fill);
#endif
            for (auto& [k, o] : fill) { (void)k; out.push_back(cv(o)); }
            return out;
        }
#if defined(HV_PEEK_ENUM)
        auto r = c.find_range(ks, peek ? cappuccino::peek::yes : cappuccino::peek::no);
#elif defined(HV_PEEK_BOOL)
        auto r = c.find_range(ks, peek);
#elif defined(HK_fifo)
        auto r = (variant == 2) ? c.find(ks.begin(), ks.end(), 0) : c.find_range(ks);
#else
        auto r = c.find_range(ks);
#endif
        size_t i = 0;
        for (auto& [k, o] : r)
        {
            // the returned key must be the requested one, in input order
            if (i >= ks.size() || k != ks[i]) out.push_back(std::optional<uint64_t>{uint64_t(-1)});
            else out.push_back(cv(o));
            ++i;
        }
        return out;
#endif
    }

    std::optional<std::pair<uint64_t, size_t>> findc(K k, bool peek) override
    {
        (void)k; (void)peek;
#if defined(HV_PEEK_BOOL)
        auto r = c.find_with_use_count(k, peek);
        if (r.has_value()) return std::make_pair(idof(r->first), r->second);
#endif
        return std::nullopt;
    }

    bool erase(K k) override { return c.erase(k); }

    size_t erase_range(const std::vector<K>& ks, bool iter) override
    {
        (void)iter;
#if defined(HK_fifo)
        if (iter) return c.erase(ks.begin(), ks.end());
#endif
        return c.erase_range(ks);
    }

    void clear() override
    {
#if defined(HK_utlru) || defined(HK_utmap)
        c.clear();
#endif
    }
    size_t clean() override
    {
#if defined(HK_tlru) || defined(HK_utlru) || defined(HK_utmap) || defined(HK_utset)
        return c.clean_expired_values();
#else
        return 0;
#endif
    }
    size_t age() override
    {
#if defined(HK_lfuda)
        return c.dynamically_age();
#else
        return 0;
#endif
    }
    void uttl(uint64_t t) override
    {
        (void)t;
#if defined(HK_utlru)
        c.update_ttl(ms{(long)t});
#endif
    }
    size_t size() override { return c.size(); }
    std::pair<const void*, size_t> extent() const override { return {static_cast<const void*>(&c), sizeof(c)}; }
    bool   empty() override { return c.empty(); }
    size_t capacity() override
    {
#if defined(HK_utmap) || defined(HK_utset)
        return 0;
#else
        return c.capacity();
#endif
    }

    std::optional<std::pair<uint64_t, size_t>> look(K k) override
    {
#if defined(HV_PEEK_BOOL)
        return findc(k, true);
#else
        auto r = find(k, true);
        if (r.has_value()) return std::make_pair(*r, size_t{0});
        return std::nullopt;
#endif
    }

#ifdef CAPPUCCINO_VERIF_HOOKS
    std::string dump() override { return dump_of(c); }
#endif
};
} // namespace
} // namespace hv

#ifdef CAPPUCCINO_VERIF_HOOKS
#include "dump.hpp"
#endif

namespace hv
{

#define HV_CAT2(a, b) a##b
#define HV_CAT(a, b) HV_CAT2(a, b)

std::unique_ptr<IC> HV_CAT(make_, HK)(const Cfg& g)
{
    if (g.val == 'c')
    {
        if (g.ts) return std::make_unique<Impl<Counted, thread_safe::yes>>(g);
        return std::make_unique<Impl<Counted, thread_safe::no>>(g);
    }
#ifdef HV_WIDE
    if (g.val == 'w' && g.ts) return std::make_unique<Impl<Wide, thread_safe::yes>>(g);
#endif
    if (g.ts) return std::make_unique<Impl<uint64_t, thread_safe::yes>>(g);
    return std::make_unique<Impl<uint64_t, thread_safe::no>>(g);
}

} // namespace hv
