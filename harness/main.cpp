// Script runner: executes operation scripts on the real containers (current /repo working tree),
// under a virtual steady clock, and prints one event line per call (DESIGN.md §4.3).
//
//   cfg <kind> <cap> <ttl_ms> <tick_ms> <num> <den> <nkeys> <mode> ts=<0|1> lf=<float> val=<u|c> seed=<n>
//   op <inst> <now_ns> [@tag] <op tokens>
//   end
#include "iface.hpp"

#include <cstdio>
#include <cstdlib>
#include <cstring>
#include <iostream>
#include <map>
#include <random>
#include <sstream>

#include <dlfcn.h>
#include <pthread.h>

namespace hv
{
long    g_live     = 0;
long    g_live_min = 0;
int64_t g_now      = 0;
/// lock-entry skew (cfg option skew=1): a call is entered with the clock still at the previous call's
/// reading and the clock jumps to the call's own reading when the container's mutex is acquired, as if
/// the calling thread had been blocked on the lock for that long
bool    g_skew_armed = false;
int64_t g_lock_now   = 0;
long    g_skew_fired = 0;
long    g_lock_calls = 0; // acquisitions of a pthread mutex lying inside the active container object
const char* g_obj_lo = nullptr; // address range of the container the current call is made on
const char* g_obj_hi = nullptr;
static unsigned g_seed = 12345;
} // namespace hv

// Link-time substitutions (none of this is in /repo): the virtual clock and a pinned random_device.
namespace std
{
namespace chrono
{
inline namespace _V2
{
steady_clock::time_point steady_clock::now() noexcept
{
    return steady_clock::time_point(std::chrono::nanoseconds(hv::g_now));
}
} // namespace _V2
} // namespace chrono
random_device::result_type random_device::_M_getval() { return hv::g_seed; }
} // namespace std

extern "C" int pthread_mutex_lock(pthread_mutex_t* m)
{
    using fn_t        = int (*)(pthread_mutex_t*);
    static fn_t real = reinterpret_cast<fn_t>(dlsym(RTLD_NEXT, "pthread_mutex_lock"));
    int         rc   = real(m);
    // only the container's own mutex counts (libstdc++'s debug mode locks a registry mutex around iterators)
    const char* a = reinterpret_cast<const char*>(m);
    if (!(hv::g_obj_lo && a >= hv::g_obj_lo && a < hv::g_obj_hi)) return rc;
    ++hv::g_lock_calls;
    if (hv::g_skew_armed)
    {
        if (hv::g_now != hv::g_lock_now) ++hv::g_skew_fired;
        hv::g_now = hv::g_lock_now;
    }
    return rc;
}

namespace hv
{
static std::vector<std::string> split(const std::string& s, char sep)
{
    std::vector<std::string> out;
    std::string              cur;
    for (char ch : s)
    {
        if (ch == sep) { if (!cur.empty()) out.push_back(cur); cur.clear(); }
        else cur.push_back(ch);
    }
    if (!cur.empty()) out.push_back(cur);
    return out;
}

static std::vector<std::string> list_of(const std::string& s)
{
    if (s == "_") return {};
    return split(s, ',');
}

static uint64_t u64(const std::string& s) { return std::strtoull(s.c_str(), nullptr, 10); }

static int allow_of(const std::string& s) { return s == "i" ? 1 : (s == "u" ? 2 : 3); }

static std::unique_ptr<IC> make(const Cfg& g)
{
    if (g.kind == "lru") return make_lru(g);
    if (g.kind == "mru") return make_mru(g);
    if (g.kind == "fifo") return make_fifo(g);
    if (g.kind == "lfu") return make_lfu(g);
    if (g.kind == "lfuda") return make_lfuda(g);
    if (g.kind == "rr") return make_rr(g);
    if (g.kind == "tlru") return make_tlru(g);
    if (g.kind == "utlru") return make_utlru(g);
    if (g.kind == "utmap") return make_utmap(g);
    if (g.kind == "utset") return make_utset(g);
    std::fprintf(stderr, "harness: unknown kind %s\n", g.kind.c_str());
    std::exit(2);
}

/// c19 scripts (no-effect calls spliced into one of two instances): sweep a replayed twin for *every* kind, so that the
/// harness's own peek lookups cannot mask (or cause) a difference between the two instances
static bool g_twin_all = false;
static bool needs_twin(const std::string& k) { return g_twin_all || k == "tlru" || k == "utlru" || k == "utmap" || k == "utset"; }

static std::string show_opt(const std::optional<uint64_t>& o) { return o.has_value() ? std::to_string(*o) : "-"; }

struct Rec
{
    int64_t                  now;
    int64_t                  entry = -1; // clock reading at call entry when skewed (-1: same as now)
    std::vector<std::string> t; // op tokens
};

/// execute one call, return the output token
static std::string exec(IC& c, const Rec& r)
{
    const auto& t = r.t;
    {
        auto ext = c.extent();
        g_obj_lo = static_cast<const char*>(ext.first);
        g_obj_hi = g_obj_lo + ext.second;
    }
    g_now         = r.entry >= 0 ? r.entry : r.now;
    g_lock_now    = r.now;
    g_skew_armed  = r.entry >= 0;
    struct Disarm { ~Disarm() { g_skew_armed = false; g_now = g_lock_now; } } disarm;
    const auto& o = t[0];
    if (o == "ins") return c.insert(u64(t[1]), u64(t[2]), allow_of(t[3]), u64(t[4])) ? "b1" : "b0";
    if (o == "insr" || o == "insi")
    {
        std::vector<std::tuple<K, uint64_t, uint64_t>> xs;
        for (auto& e : list_of(t[2]))
        {
            auto p = split(e, ':');
            xs.emplace_back(u64(p[0]), u64(p[1]), u64(p[2]));
        }
        return "n" + std::to_string(c.insert_range(xs, allow_of(t[1]), o == "insi"));
    }
    if (o == "find") return "o" + show_opt(c.find(u64(t[1]), t[2] == "1"));
    if (o == "findc")
    {
        auto r2 = c.findc(u64(t[1]), t[2] == "1");
        if (!r2.has_value()) return "c-";
        return "c" + std::to_string(r2->first) + ":" + std::to_string(r2->second);
    }
    if (o == "findr" || o == "findf" || o == "findi" || o == "findfi")
    {
        std::vector<K> ks;
        for (auto& e : list_of(t[2])) ks.push_back(u64(e));
        int  variant = o == "findr" ? 0 : (o == "findf" ? 1 : (o == "findi" ? 2 : 3));
        auto r2      = c.find_range(ks, t[1] == "1", variant);
        if (r2.empty()) return "l_";
        std::string s = "l";
        for (size_t i = 0; i < r2.size(); ++i) { if (i) s += ","; s += show_opt(r2[i]); }
        return s;
    }
    if (o == "erase") return c.erase(u64(t[1])) ? "b1" : "b0";
    if (o == "eraser" || o == "erasei")
    {
        std::vector<K> ks;
        for (auto& e : list_of(t[1])) ks.push_back(u64(e));
        return "n" + std::to_string(c.erase_range(ks, o == "erasei"));
    }
    if (o == "clear") { c.clear(); return "u"; }
    if (o == "clean") return "n" + std::to_string(c.clean());
    if (o == "age") return "n" + std::to_string(c.age());
    if (o == "uttl") { c.uttl(u64(t[1])); return "u"; }
    if (o == "size") return "n" + std::to_string(c.size());
    if (o == "empty") return c.empty() ? "b1" : "b0";
    if (o == "cap") return "n" + std::to_string(c.capacity());
    std::fprintf(stderr, "harness: unknown op %s\n", o.c_str());
    std::exit(2);
}

static std::string sweep_of(IC& c, size_t nkeys)
{
    std::string s;
    for (K k = 0; k < nkeys; ++k)
    {
        auto r = c.look(k);
        if (r.has_value())
        {
            if (!s.empty()) s += " ";
            s += std::to_string(k) + ":" + std::to_string(r->first) + ":" + std::to_string(r->second);
        }
    }
    return s;
}

struct Inst
{
    std::unique_ptr<IC> c;
    std::vector<Rec>    hist;
};

} // namespace hv

int main(int argc, char** argv)
{
    using namespace hv;
    bool structural = false;
    for (int i = 1; i < argc; ++i)
        if (!std::strcmp(argv[i], "--struct")) structural = true;
    (void)structural;

    std::ios::sync_with_stdio(false);
    std::string        line;
    Cfg                cfg;
    std::map<int, Inst> insts;
    std::string        out;
    out.reserve(1 << 20);
    size_t script_no = 0;

    while (std::getline(std::cin, line))
    {
        auto t = split(line, ' ');
        if (t.empty() || t[0] == "#") continue;
        if (t[0] == "cfg")
        {
            insts.clear();
            g_live = 0; g_live_min = 0;
            cfg       = Cfg{};
            cfg.kind  = t[1];
            cfg.cap   = u64(t[2]);
            cfg.ttl_ms = u64(t[3]);
            cfg.tick_ms = u64(t[4]);
            cfg.num   = u64(t[5]);
            cfg.den   = u64(t[6]);
            cfg.nkeys = u64(t[7]);
            std::string mode = t.size() > 8 ? t[8] : "single";
            g_twin_all       = (mode == "c19");
            g_seed    = 12345;
            for (size_t i = 9; i < t.size(); ++i)
            {
                if (t[i].rfind("ts=", 0) == 0) cfg.ts = t[i][3] == '1';
                else if (t[i].rfind("lf=", 0) == 0) cfg.lf = std::strtof(t[i].c_str() + 3, nullptr);
                else if (t[i].rfind("val=", 0) == 0) cfg.val = t[i][4];
                else if (t[i].rfind("seed=", 0) == 0) g_seed = (unsigned)u64(t[i].substr(5));
                else if (t[i].rfind("skew=", 0) == 0) cfg.skew = t[i][5] == '1';
            }
            // the outcomes rr's do_prune will draw: a fresh distribution over [0, cap-1] per eviction,
            // from an mt19937 seeded with the pinned random_device value
            std::string rnd = "_";
            if (cfg.kind == "rr")
            {
                std::mt19937 mirror(g_seed);
                rnd.clear();
                for (int i = 0; i < 1024; ++i)
                {
                    std::uniform_int_distribution<size_t> dist{0, cfg.cap - 1};
                    if (i) rnd += ",";
                    rnd += std::to_string(dist(mirror));
                }
            }
            if (cfg.skew && cfg.ts)
            {
                // the skew is only meaningful if the container's lock goes through pthread_mutex_lock (std::mutex):
                // probe it; otherwise run the script unskewed
                long before;
                {
                    auto probe = make(cfg);
                    auto ext   = probe->extent();
                    g_obj_lo   = static_cast<const char*>(ext.first);
                    g_obj_hi   = g_obj_lo + ext.second;
                    before     = g_lock_calls;
                    (void)probe->size();
                    g_obj_lo = g_obj_hi = nullptr;
                }
                if (g_lock_calls == before)
                {
                    cfg.skew = false;
                    std::fprintf(stderr, "@noskew\n");
                }
                g_live = 0; g_live_min = 0;
            }
            out += "cfg " + cfg.kind + " " + std::to_string(cfg.cap) + " " + std::to_string(cfg.ttl_ms) + " " +
                   std::to_string(cfg.tick_ms) + " " + std::to_string(cfg.num) + " " + std::to_string(cfg.den) + " " +
                   std::to_string(cfg.nkeys) + " " + mode + " " + rnd + "\n";
            std::fprintf(stderr, "@script %zu\n", script_no);
        }
        else if (t[0] == "op")
        {
            int  id = (int)u64(t[1]);
            Rec  r;
            r.now = (int64_t)u64(t[2]);
            std::string tag = "@";
            size_t      first = 3;
            if (t.size() > 3 && t[3][0] == '@') { tag = t[3]; first = 4; }
            r.t.assign(t.begin() + first, t.end());
            auto& in = insts[id];
            if (!in.c)
            {
                g_now = r.now;
                in.c  = make(cfg);
            }
            if (cfg.skew && cfg.ts && !in.hist.empty()) r.entry = in.hist.back().now;
            std::string res = exec(*in.c, r);
            in.hist.push_back(r);
            size_t sz = in.c->size();
            bool   em = in.c->empty();
            size_t cp = in.c->capacity();
            std::string sw;
            if (needs_twin(cfg.kind))
            {
                // sweeping would disturb a TTL container: replay the prefix on a fresh twin, sweep that
                auto twin = make(cfg);
                for (auto& h : in.hist) exec(*twin, h);
                g_now = r.now;
                sw    = sweep_of(*twin, cfg.nkeys);
            }
            else
            {
                sw = sweep_of(*in.c, cfg.nkeys);
            }
            out += "ev " + t[1] + " " + t[2] + " " + tag;
            for (auto& tok : r.t) { out += " "; out += tok; }
            out += " => " + res + " | " + std::to_string(sz) + " " + (em ? "1" : "0") + " " + std::to_string(cp) + " |";
            if (!sw.empty()) { out += " "; out += sw; }
            out += "\n";
#ifdef CAPPUCCINO_VERIF_HOOKS
            if (structural) out += "st " + t[1] + " " + in.c->dump() + "\n";
#endif
        }
        else if (t[0] == "end")
        {
            insts.clear();
            out += "x live " + std::to_string(g_live) + " " + std::to_string(g_live_min) + "\n";
            if (g_skew_fired) { std::fprintf(stderr, "@skew %ld\n", g_skew_fired); g_skew_fired = 0; }
            out += "end\n";
            std::fwrite(out.data(), 1, out.size(), stdout);
            out.clear();
            ++script_no;
        }
    }
    std::fwrite(out.data(), 1, out.size(), stdout);
    return 0;
}
