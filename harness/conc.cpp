// (TSan build: -O0 so that no access of the C++ abstract machine is optimised away, e.g. the size++/size--
//  pair of a same-list std::list::splice)
// Multi-threaded driver for C06 / C07 (DESIGN.md section 4.6), on the real containers with thread_safe::yes.
//
//   conc tsan <kind> <iters>            every ordered pair of public methods hammered by two threads on one
//                                       instance (build with -fsanitize=thread; markers "@pair a b" on stderr)
//   conc hist <kind> <seed> <n> <threads> <ops> <cap> <scenario>
//                                       n recorded histories: per call (thread, invocation stamp, response stamp,
//                                       op, result) from one global atomic counter; frozen virtual clock
//
// Compiled once per container kind (-DHK=<kind> -DHK_<kind>) like kind.cpp, linked with this file's main
// through the same IC interface.
#include "iface.hpp"

#include <atomic>
#include <cstdio>
#include <cstdlib>
#include <cstring>
#include <functional>
#include <random>
#include <string>
#include <thread>

namespace hv
{
long    g_live     = 0;
long    g_live_min = 0;
int64_t g_now      = 1000000000;
// tsan mode: every clock reading advances the virtual clock by a quarter of a millisecond (relaxed atomic: adds no
// happens-before edge between the threads), so that entries (TTL 1-3 ms) expire while the two methods run and
// the expiry paths - reaping inside lookups, clean_expired_values with real work, expired-first eviction - are
// exercised under ThreadSanitizer too
std::atomic<int64_t> g_tick{0};
bool                 g_ticking = false;
static unsigned g_seed = 12345;
} // namespace hv

#ifdef HV_VIRTUAL_CLOCK
namespace std
{
namespace chrono
{
inline namespace _V2
{
steady_clock::time_point steady_clock::now() noexcept
{
    int64_t t = hv::g_now;
    if (hv::g_ticking) t += hv::g_tick.fetch_add(250000, std::memory_order_relaxed);
    return steady_clock::time_point(std::chrono::nanoseconds(t));
}
} // namespace _V2
} // namespace chrono
random_device::result_type random_device::_M_getval() { return hv::g_seed; }
} // namespace std
#endif

namespace hv
{
static std::unique_ptr<IC> make(const Cfg& g)
{
    if (g.kind == "lru") return make_lru(g);
    if (g.kind == "mru") return make_mru(g);
    if (g.kind == "fifo") return make_fifo(g);
    if (g.kind == "lfu") return make_lfu(g);
    if (g.kind == "lfuda") return make_lfuda(g);
    if (g.kind == "rr") return make_rr(g);
    if (g.kind == "tlru") return make_tlru(g);
    if (g.kind == "utlru") return make_utlru(g);
    if (g.kind == "utmap") return make_utmap(g);
    if (g.kind == "utset") return make_utset(g);
    std::fprintf(stderr, "conc: unknown kind %s\n", g.kind.c_str());
    std::exit(2);
}

// keeps the result of an observer alive so that the optimiser cannot drop its (possibly unlocked) reads;
// no shared variable is involved, so no synchronisation is added between the threads
template<class T> static inline void keep(T v) { asm volatile("" : : "r"(v) : "memory"); }

struct Meth
{
    const char*                          name;
    std::function<void(IC&, unsigned)>   call;
};

static std::vector<Meth> methods(const std::string& k)
{
    std::vector<Meth> m;
    auto ttl = [](unsigned i) { return (uint64_t)(1 + i % 3); };
    m.push_back({"insert", [=](IC& c, unsigned i) { c.insert(i % 5, i, 3, ttl(i)); }});
    m.push_back({"insert_range", [=](IC& c, unsigned i) { c.insert_range({{i % 5, i, ttl(i)}, {(i + 1) % 5, i, ttl(i)}, {(i + 2) % 7, i, ttl(i)}}, 3, false); }});
    m.push_back({"erase", [](IC& c, unsigned i) { c.erase(i % 5); }});
    m.push_back({"erase_range", [](IC& c, unsigned i) { c.erase_range({i % 5, (i + 3) % 5}, false); }});
    m.push_back({"find", [](IC& c, unsigned i) { c.find(i % 5, false); }});
    m.push_back({"find_range", [](IC& c, unsigned i) { c.find_range({i % 5, (i + 1) % 5}, false, 0); }});
    m.push_back({"find_range_fill", [](IC& c, unsigned i) { c.find_range({i % 5, (i + 1) % 5}, false, 1); }});
    m.push_back({"size", [](IC& c, unsigned) { keep(c.size()); }});
    m.push_back({"empty", [](IC& c, unsigned) { keep((int)c.empty()); }});
    if (k != "utmap" && k != "utset") m.push_back({"capacity", [](IC& c, unsigned) { keep(c.capacity()); }});
    if (k == "fifo")
    {
        m.push_back({"insert_iter", [=](IC& c, unsigned i) { c.insert_range({{i % 5, i, 0}, {(i + 1) % 5, i, 0}}, 3, true); }});
        m.push_back({"erase_iter", [](IC& c, unsigned i) { c.erase_range({i % 5, (i + 3) % 5}, true); }});
        m.push_back({"find_iter", [](IC& c, unsigned i) { c.find_range({i % 5, (i + 1) % 5}, false, 2); }});
        m.push_back({"find_fill_iter", [](IC& c, unsigned i) { c.find_range({i % 5, (i + 1) % 5}, false, 3); }});
    }
    if (k == "lfu" || k == "lfuda") m.push_back({"find_with_use_count", [](IC& c, unsigned i) { c.findc(i % 5, false); }});
    if (k == "lfuda") m.push_back({"dynamically_age", [](IC& c, unsigned) { c.age(); }});
    if (k == "tlru" || k == "utlru" || k == "utmap" || k == "utset") m.push_back({"clean_expired_values", [](IC& c, unsigned) { c.clean(); }});
    if (k == "utlru" || k == "utmap") m.push_back({"clear", [](IC& c, unsigned) { c.clear(); }});
    if (k == "utlru") m.push_back({"update_ttl", [](IC& c, unsigned i) { c.uttl(1 + i % 4); }});
    if (k == "lru" || k == "mru" || k == "tlru" || k == "utlru" || k == "lfu" || k == "lfuda")
        m.push_back({"find_peek", [](IC& c, unsigned i) { c.find(i % 5, true); }});
    return m;
}

static int run_tsan(const std::string& kind, int iters)
{
    Cfg g;
    g.kind    = kind;
    g.cap     = 3;
    g.ttl_ms  = 1;
    g.tick_ms = 1;
    g.ts      = true;
    g_ticking = true;
    auto ms   = methods(kind);
    for (auto& a : ms)
    {
        for (auto& b : ms)
        {
            std::fprintf(stderr, "@pair %s %s\n", a.name, b.name);
            auto c = make(g);
            // several rounds, each starting from a populated container (entries that expire while the round runs,
            // since the clock ticks): lookups, erases and reaping then have something to work on even in pairs in
            // which neither method inserts
            const int rounds = 5;
            for (int rd = 0; rd < rounds; ++rd)
            {
                for (unsigned k = 0; k < 5; ++k) c->insert(k, k, 3, 1 + k % 2);
                std::atomic<int> go{0};
                auto             body = [&](const Meth& m, unsigned base) {
                    go.fetch_add(1);
                    while (go.load() < 2) {}
                    for (int i = 0; i < iters / rounds + 1; ++i) m.call(*c, base + (unsigned)(rd * 131 + i));
                };
                std::thread t1(body, std::cref(a), 0u);
                std::thread t2(body, std::cref(b), 1000u);
                t1.join();
                t2.join();
            }
        }
    }
    std::fprintf(stderr, "@done\n");
    return 0;
}

// ---------------------------------------------------------------------------------------------
// recorded histories
// ---------------------------------------------------------------------------------------------

static std::atomic<uint64_t> g_stamp{1};

struct HRec
{
    int         tid;
    uint64_t    inv, res;
    std::string op;
    std::string out;
};

static std::string show_opt(const std::optional<uint64_t>& o) { return o.has_value() ? std::to_string(*o) : "-"; }

static std::string gen_op(std::mt19937& r, const Cfg& g, int tid, int i, const std::string& scenario)
{
    auto k   = [&]() { return std::to_string(r() % (g.cap + 2)); };
    auto val = [&]() { return g.kind == "utset" ? std::string("1") : std::to_string(1000 * (tid + 1) + i); };
    if (scenario == "poll")
    {
        // thread 0 keeps evicting (fresh keys into a full cache), the others observe
        if (tid == 0) return "ins " + std::to_string(100 + i) + " " + val() + " iu 50";
        return (r() % 2) ? std::string("size") : std::string("empty");
    }
    if (scenario == "bigclean")
    {
        // 200 expired entries are pending; thread 0 reaps them in one call, the others watch size()
        if (tid == 0) return i == 0 ? std::string("clean") : std::string("size");
        return "size";
    }
    if (scenario == "bigrange")
    {
        // thread 0 reads keys 0..199 in one range call; thread 1 rewrites the first and the last of them in
        // one range call: an atomic find_range sees both old or both new
        if (tid == 0)
        {
            std::string s = "findr 0 ";
            for (int j = 0; j < 200; ++j) { if (j) s += ","; s += std::to_string(j); }
            return s;
        }
        return "insr iu 0:" + val() + ":50,199:" + val() + ":50";
    }
    std::vector<std::string> kinds = {"ins", "ins", "find", "find", "erase", "insr", "findr", "eraser", "size", "empty"};
    if (g.kind == "lfu" || g.kind == "lfuda") kinds.push_back("findc");
    if (g.kind == "lfuda") kinds.push_back("age");
    if (g.kind == "tlru" || g.kind == "utlru" || g.kind == "utmap" || g.kind == "utset") kinds.push_back("clean");
    if (g.kind == "utlru") { kinds.push_back("uttl"); kinds.push_back("clear"); }
    if (g.kind == "utmap") kinds.push_back("clear");
    std::string o  = kinds[r() % kinds.size()];
    std::string al = std::vector<std::string>{"iu", "iu", "i", "u"}[r() % 4];
    std::string pk = (g.kind == "lru" || g.kind == "mru" || g.kind == "tlru" || g.kind == "utlru" || g.kind == "lfu" || g.kind == "lfuda") ? std::to_string(r() % 2) : "0";
    if (o == "ins") return "ins " + k() + " " + val() + " " + al + " 50";
    if (o == "insr") return "insr " + al + " " + k() + ":" + val() + ":50," + k() + ":" + val() + ":50," + k() + ":" + val() + ":50";
    if (o == "find") return "find " + k() + " " + pk;
    if (o == "findc") return "findc " + k() + " " + pk;
    if (o == "findr") return "findr " + pk + " " + k() + "," + k();
    if (o == "erase") return "erase " + k();
    if (o == "eraser") return "eraser " + k() + "," + k();
    if (o == "uttl") return "uttl " + std::to_string(20 + r() % 50);
    return o;
}

static std::vector<std::string> split(const std::string& s, char sep)
{
    std::vector<std::string> out;
    std::string              cur;
    for (char ch : s)
    {
        if (ch == sep) { if (!cur.empty()) out.push_back(cur); cur.clear(); }
        else cur.push_back(ch);
    }
    if (!cur.empty()) out.push_back(cur);
    return out;
}
static uint64_t u64(const std::string& s) { return std::strtoull(s.c_str(), nullptr, 10); }
static int allow_of(const std::string& s) { return s == "i" ? 1 : (s == "u" ? 2 : 3); }

static std::string exec(IC& c, const std::string& line)
{
    auto        t = split(line, ' ');
    const auto& o = t[0];
    if (o == "ins") return c.insert(u64(t[1]), u64(t[2]), allow_of(t[3]), u64(t[4])) ? "b1" : "b0";
    if (o == "insr")
    {
        std::vector<std::tuple<K, uint64_t, uint64_t>> xs;
        for (auto& e : split(t[2], ',')) { auto p = split(e, ':'); xs.emplace_back(u64(p[0]), u64(p[1]), u64(p[2])); }
        return "n" + std::to_string(c.insert_range(xs, allow_of(t[1]), false));
    }
    if (o == "find") return "o" + show_opt(c.find(u64(t[1]), t[2] == "1"));
    if (o == "findc")
    {
        auto r = c.findc(u64(t[1]), t[2] == "1");
        return r.has_value() ? "c" + std::to_string(r->first) + ":" + std::to_string(r->second) : std::string("c-");
    }
    if (o == "findr")
    {
        std::vector<K> ks;
        for (auto& e : split(t[2], ',')) ks.push_back(u64(e));
        auto        r = c.find_range(ks, t[1] == "1", 0);
        std::string s = "l";
        for (size_t i = 0; i < r.size(); ++i) { if (i) s += ","; s += show_opt(r[i]); }
        return s;
    }
    if (o == "erase") return c.erase(u64(t[1])) ? "b1" : "b0";
    if (o == "eraser")
    {
        std::vector<K> ks;
        for (auto& e : split(t[1], ',')) ks.push_back(u64(e));
        return "n" + std::to_string(c.erase_range(ks, false));
    }
    if (o == "clear") { c.clear(); return "u"; }
    if (o == "clean") return "n" + std::to_string(c.clean());
    if (o == "age") return "n" + std::to_string(c.age());
    if (o == "uttl") { c.uttl(u64(t[1])); return "u"; }
    if (o == "size") return "n" + std::to_string(c.size());
    if (o == "empty") return c.empty() ? "b1" : "b0";
    return "u";
}

static int run_hist(const std::string& kind, unsigned seed, int n, int threads, int ops, size_t cap, const std::string& scenario)
{
    for (int h = 0; h < n; ++h)
    {
        Cfg g;
        g.kind    = kind;
        g.cap     = (kind == "utmap" || kind == "utset") ? 0 : cap;
        g.ttl_ms  = 50;
        g.tick_ms = 5;
        g.ts      = true;
        g_seed    = seed + h;
        g_now     = 1000000000;
        std::string rnd = "_";
        if (kind == "rr")
        {
            std::mt19937 mirror(g_seed);
            rnd.clear();
            for (int i = 0; i < 512; ++i)
            {
                std::uniform_int_distribution<size_t> dist{0, g.cap - 1};
                if (i) rnd += ",";
                rnd += std::to_string(dist(mirror));
            }
        }
        auto c = make(g);
        if (scenario == "poll")
            for (size_t i = 0; i < g.cap; ++i) c->insert(i, i, 3, 50);
        if (scenario == "bigrange")
            for (size_t i = 0; i < 200; ++i) c->insert(i, 7, 3, 50);
        int64_t t_fill = g_now;
        if (scenario == "bigclean")
        {
            for (size_t i = 0; i < 200; ++i) c->insert(i, 7, 3, 50);
            g_now += 60 * 1000000; // past every deadline (ttl 50 ms)
        }
        std::vector<std::vector<HRec>> recs(threads);
        std::atomic<int>               go{0};
        g_stamp = 100000;
        auto body = [&](int tid) {
            std::mt19937 r(seed * 7919u + h * 104729u + tid);
            go.fetch_add(1);
            while (go.load() < threads) {}
            for (int i = 0; i < ops; ++i)
            {
                HRec rec;
                rec.tid = tid;
                rec.op  = gen_op(r, g, tid, i, scenario);
                rec.inv = g_stamp.fetch_add(1);
                rec.out = exec(*c, rec.op);
                rec.res = g_stamp.fetch_add(1);
                recs[tid].push_back(rec);
                if (r() % 4 == 0) std::this_thread::yield();
            }
        };
        std::vector<std::thread> ts;
        for (int t = 0; t < threads; ++t) ts.emplace_back(body, t);
        for (auto& t : ts) t.join();
        std::printf("cfg %s %zu %lu %lu 1 2 0 hist %s\n", kind.c_str(), g.cap, (unsigned long)g.ttl_ms, (unsigned long)g.tick_ms, rnd.c_str());
        if (scenario == "poll")
            for (size_t i = 0; i < g.cap; ++i)
                std::printf("h 99 %zu %zu %ld ins %zu %zu iu 50 => b1\n", 2 * i + 1, 2 * i + 2, (long)g_now, i, i);
        if (scenario == "bigrange")
            for (size_t i = 0; i < 200; ++i)
                std::printf("h 99 %zu %zu %ld ins %zu 7 iu 50 => b1\n", 2 * i + 1, 2 * i + 2, (long)g_now, i);
        if (scenario == "bigclean")
            for (size_t i = 0; i < 200; ++i)
                std::printf("h 99 %zu %zu %ld ins %zu %d iu 50 => b1\n", 2 * i + 1, 2 * i + 2, (long)t_fill, i, kind == "utset" ? 1 : 7);
        for (auto& v : recs)
            for (auto& r : v)
                std::printf("h %d %lu %lu %ld %s => %s\n", r.tid, (unsigned long)r.inv, (unsigned long)r.res, (long)g_now, r.op.c_str(), r.out.c_str());
        std::printf("end\n");
    }
    return 0;
}


// ---------------------------------------------------------------------------------------------
// tear: writers rewrite 16 keys of a capacity-4 container with self-identifying 768-byte values (every word =
// key << 32 | sequence number) while readers look the keys up.  Whatever the interleaving, a lookup of k may only
// report a value that was written under k, in one piece: anything else (a torn value, another key's value) is a
// result no sequential order of the calls can produce.  Public API only, no clock dependence (TTL far away).
// ---------------------------------------------------------------------------------------------
static int run_tear(const std::string& kind, int n)
{
    Cfg g;
    g.kind    = kind;
    g.cap     = 4;
    g.ttl_ms  = 1000000;
    g.tick_ms = 1;
    g.ts      = true;
    g.val     = 'w';
    auto                  c = make(g);
    std::atomic<int>      go{0};
    std::atomic<uint64_t> finds{0}, hits{0}, torn{0}, foreign{0};
    std::atomic<uint64_t> ex_key{0}, ex_val{0};
    const int             writers = 3, readers = 3;
    auto writer = [&](int tid) {
        go.fetch_add(1);
        while (go.load() < writers + readers) {}
        std::mt19937 r(77u + tid);
        for (int i = 0; i < n; ++i)
        {
            uint64_t k = r() % 16;
            if (r() % 8 == 0) c->erase(k);
            else c->insert(k, (k << 32) | (uint64_t)(i & 0x7fffffff), 3, 1000000);
        }
    };
    auto reader = [&](int tid) {
        go.fetch_add(1);
        while (go.load() < writers + readers) {}
        std::mt19937 r(991u + tid);
        uint64_t     f = 0, h = 0;
        for (int i = 0; i < n; ++i)
        {
            uint64_t k = r() % 16;
            auto     v = c->find(k, (r() % 2) == 0);
            ++f;
            if (!v.has_value()) continue;
            ++h;
            if (*v == ~uint64_t{0}) { torn.fetch_add(1); ex_key = k; ex_val = *v; }
            else if ((*v >> 32) != k) { foreign.fetch_add(1); ex_key = k; ex_val = *v; }
        }
        finds += f;
        hits += h;
    };
    std::vector<std::thread> ts;
    for (int i = 0; i < writers; ++i) ts.emplace_back(writer, i);
    for (int i = 0; i < readers; ++i) ts.emplace_back(reader, i);
    for (auto& t : ts) t.join();
    std::printf("tear %s finds %lu hits %lu torn %lu foreign %lu example_key %lu example_value %lu\n", kind.c_str(),
                (unsigned long)finds.load(), (unsigned long)hits.load(), (unsigned long)torn.load(), (unsigned long)foreign.load(),
                (unsigned long)ex_key.load(), (unsigned long)ex_val.load());
    return 0;
}

} // namespace hv

int main(int argc, char** argv)
{
    if (argc >= 4 && !std::strcmp(argv[1], "tsan")) return hv::run_tsan(argv[2], std::atoi(argv[3]));
    if (argc >= 4 && !std::strcmp(argv[1], "tear")) return hv::run_tear(argv[2], std::atoi(argv[3]));
    if (argc >= 9 && !std::strcmp(argv[1], "hist"))
        return hv::run_hist(argv[2], (unsigned)std::atoi(argv[3]), std::atoi(argv[4]), std::atoi(argv[5]), std::atoi(argv[6]), (size_t)std::atoi(argv[7]), argv[8]);
    std::fprintf(stderr, "usage: conc tsan <kind> <iters> | conc hist <kind> <seed> <n> <threads> <ops> <cap> <scenario>\n");
    return 2;
}
