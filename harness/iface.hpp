// Interface between the script runner (main.cpp) and the per-container adapters (kind.cpp).
#pragma once
#include <chrono>
#include <cstdint>
#include <memory>
#include <optional>
#include <string>
#include <tuple>
#include <utility>
#include <vector>

namespace hv
{
using K = uint64_t;

struct Cfg
{
    std::string kind;
    size_t      cap{1};
    uint64_t    ttl_ms{0};
    uint64_t    tick_ms{0};
    uint64_t    num{1}, den{2};
    size_t      nkeys{4};
    bool        ts{false};
    float       lf{1.0f};
    bool        skew{false}; // lock-entry clock skew (see main.cpp)
    char        val{'u'}; // 'u' = uint64_t, 'c' = heap-owning instance-counted value
};

// allow: 1 = insert, 2 = update, 3 = insert_or_update
struct IC
{
    virtual ~IC() = default;
    virtual bool   insert(K k, uint64_t v, int a, uint64_t ttl_ms)                                     = 0;
    virtual size_t insert_range(const std::vector<std::tuple<K, uint64_t, uint64_t>>& xs, int a, bool iter) = 0;
    virtual std::optional<uint64_t>              find(K k, bool peek)                                  = 0;
    virtual std::vector<std::optional<uint64_t>> find_range(const std::vector<K>& ks, bool peek, int variant) = 0;
    virtual std::optional<std::pair<uint64_t, size_t>> findc(K k, bool peek)                           = 0;
    virtual bool   erase(K k)                                                                          = 0;
    virtual size_t erase_range(const std::vector<K>& ks, bool iter)                                    = 0;
    virtual void   clear()                                                                             = 0;
    virtual size_t clean()                                                                             = 0;
    virtual size_t age()                                                                               = 0;
    virtual void   uttl(uint64_t ms)                                                                   = 0;
    virtual size_t size()                                                                              = 0;
    virtual bool   empty()                                                                             = 0;
    virtual size_t capacity()                                                                          = 0;
    /// side-effect-free lookup where the container has one (see needs_twin): value, use count
    virtual std::optional<std::pair<uint64_t, size_t>> look(K k) = 0;
    /// address range of the container object itself (its mutex is a member): lets the harness tell the
    /// container's lock from other pthread mutexes (libstdc++'s debug-mode iterator registry)
    virtual std::pair<const void*, size_t> extent() const = 0;
#ifdef CAPPUCCINO_VERIF_HOOKS
    /// private structure, canonical text (structural tier)
    virtual std::string dump() = 0;
#endif
};

/// live instances of the counted value type
extern long g_live;
extern long g_live_min;

/// virtual steady clock (ns)
extern int64_t g_now;

using Factory = std::unique_ptr<IC> (*)(const Cfg&);
#define HV_DECL(kind) std::unique_ptr<IC> make_##kind(const Cfg&);
HV_DECL(lru) HV_DECL(mru) HV_DECL(fifo) HV_DECL(lfu) HV_DECL(lfuda) HV_DECL(rr) HV_DECL(tlru) HV_DECL(utlru) HV_DECL(utmap) HV_DECL(utset)
#undef HV_DECL

} // namespace hv
