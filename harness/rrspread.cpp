// Spread probe for C15 ("over many evictions no resident position is immune and no fixed position is
// always chosen").  Public API only.  The value type records the address of every *live* value that is
// overwritten or destroyed while recording is on: when rr_cache evicts, the victim's slot is the one whose
// value is replaced by the value of the key being inserted, and slots live in one array, so the address is
// the resident position.  For each capacity: fill, then 40 x capacity evicting inserts of fresh keys.
//   usage: rrspread <cap> [<cap> ...]     output per capacity:
//   cap <cap> evictions <n> records <r> positions <distinct> min <least hits> max <most hits> missing <keys lost in total>
// std::random_device is pinned (link-time substitution, nothing in /repo), so a run is reproducible.
#include <cappuccino/cappuccino.hpp>

#include <algorithm>
#include <cstdint>
#include <cstdio>
#include <cstdlib>
#include <map>
#include <random>
#include <vector>

namespace
{
bool                      g_rec = false;
std::vector<const void*>  g_hits;

struct probe
{
    uint64_t id{0}; // 0 = empty / moved-from
    probe() = default;
    explicit probe(uint64_t i) : id(i) {}
    probe(const probe& o) : id(o.id) {}
    probe(probe&& o) noexcept : id(o.id) { o.id = 0; }
    auto operator=(const probe& o) -> probe&
    {
        lost();
        id = o.id;
        return *this;
    }
    auto operator=(probe&& o) noexcept -> probe&
    {
        lost();
        id   = o.id;
        o.id = 0;
        return *this;
    }
    ~probe() { lost(); }
    void lost() const
    {
        if (g_rec && id != 0)
        {
            g_hits.push_back(this);
        }
    }
};

unsigned g_seed = 20260929u;
} // namespace

namespace std
{
random_device::result_type random_device::_M_getval() { return g_seed; }
} // namespace std

int main(int argc, char** argv)
{
    int bad = 0;
    for (int a = 1; a < argc; ++a)
    {
        size_t cap = std::strtoull(argv[a], nullptr, 10);
        if (cap == 0)
        {
            continue;
        }
        g_seed = 20260929u + static_cast<unsigned>(cap);
        size_t n = 40 * cap;
        g_hits.clear();
        size_t missing = 0;
        {
            cappuccino::rr_cache<uint64_t, probe> c{cap};
            for (uint64_t k = 0; k < cap; ++k)
            {
                c.insert(k, probe{k + 1});
            }
            g_hits.reserve(n + 16);
            for (uint64_t j = 0; j < n; ++j)
            {
                uint64_t k = cap + j;
                g_rec      = true;
                bool ok    = c.insert(k, probe{k + 1});
                g_rec      = false;
                if (!ok || c.size() != cap)
                {
                    ++missing;
                }
            }
        }
        std::map<const void*, size_t> hist;
        for (auto* p : g_hits)
        {
            ++hist[p];
        }
        size_t mn = n, mx = 0;
        for (auto& [p, cnt] : hist)
        {
            mn = std::min(mn, cnt);
            mx = std::max(mx, cnt);
        }
        if (hist.size() < cap)
        {
            mn = 0;
        }
        std::printf("cap %zu evictions %zu records %zu positions %zu min %zu max %zu missing %zu\n", cap, n,
                    g_hits.size(), hist.size(), mn, mx, missing);
    }
    return bad;
}
