import Verif.Model.All
import Verif.Proto
/-!
# Executable linearizability check of a recorded concurrent history against a container model

Wing–Gong search: repeatedly pick an operation that no other remaining operation strictly precedes in
real time (its invocation stamp is not after another's response stamp), apply it to the model,
require the recorded result, recurse.  Search machinery for C06 (executed, not proved about); the
theorem is `Conc.locked_object_linearizable`.
-/
namespace Verif.Lin
open Verif Verif.Proto

structure HOp where
  tid : Nat
  inv : Nat
  res : Nat
  now : Time
  op : Op
  out : Out
  deriving Repr, Inhabited

/-- tokens after `h` -/
def parseH (toks : List String) : Option HOp :=
  match toks with
  | tid :: inv :: res :: now :: rest =>
    let opToks := rest.takeWhile (· ≠ "=>")
    match (rest.dropWhile (· ≠ "=>")).drop 1 with
    | [out] => do
      pure { tid := ← tid.toNat?, inv := ← inv.toNat?, res := ← res.toNat?, now := ← now.toNat?,
             op := ← parseOp opToks, out := ← parseOut out }
    | _ => none
  | _ => none

/-- may `o` (at index `i`) be linearized first among `rem`? -/
def minimal (rem : List HOp) (i : Nat) (o : HOp) : Bool :=
  (rem.zipIdx).all (fun (o', j) => j == i || decide (o.inv ≤ o'.res))

def removeAt {α : Type} : List α → Nat → List α
  | [], _ => []
  | _ :: xs, 0 => xs
  | x :: xs, n + 1 => x :: removeAt xs n

structure Budget where
  nodes : Nat
  deriving Repr

/-- returns (found, nodes used); `none` for found = budget exhausted -/
def search : Nat → MState → List HOp → Nat → Option Bool × Nat
  | _, _, [], used => (some true, used)
  | 0, _, _, used => (none, used)
  | fuel + 1, m, rem, used =>
    let cands := (rem.zipIdx).filter (fun (o, i) => minimal rem i o)
    let rec tryAll (cs : List (HOp × Nat)) (used : Nat) : Option Bool × Nat :=
      match cs with
      | [] => (some false, used)
      | (o, i) :: rest =>
        if used > 3000000 then (none, used) else
        let r := m.step o.now o.op
        if r.2 == o.out then
          match search fuel r.1 (removeAt rem i) (used + 1) with
          | (some true, u) => (some true, u)
          | (none, u) => (none, u)
          | (some false, u) => tryAll rest u
        else tryAll rest (used + 1)
    tryAll cands used

def check (cfg : Cfg) (hs : List HOp) : Option Bool × Nat :=
  search (hs.length + 1) (MState.init cfg) hs 0

end Verif.Lin
