import Verif.Concrete.Slot
import Verif.Concrete.Ttl
import Verif.Concrete.Node
import Verif.Concrete.UtMap
import Verif.Proto
/-!
# Structural tier (C08): replay the implementation's events on the L2 models, compare the private structure
-/
namespace Verif.CheckL2
open Verif Verif.Proto Verif.L2

inductive L2S
  | rr (s : RrState)
  | slot (s : LState)
  | tlru (s : TState)
  | utlru (s : TState)
  | fifo (s : FState)
  | cnt (s : CState)
  | ut (s : UState)

def L2S.init (c : Cfg) : Option L2S :=
  match c.kind with
  | .rr => some (.rr (Rr.init c.cap c.rnd))
  | .lru => some (.slot (Slot.init .lru c.cap))
  | .mru => some (.slot (Slot.init .mru c.cap))
  | .tlru => some (.tlru (Ttl.init .tlru c.cap 0))
  | .utlru => some (.utlru (Ttl.init .utlru c.cap c.ttl))
  | .fifo => some (.fifo (Fifo.init c.cap))
  | .lfu => some (.cnt (Cnt.init false c.cap 0 1 2))
  | .lfuda => some (.cnt (Cnt.init true c.cap c.tick c.num c.den))
  | .utmap => some (.ut (UtMap.init c.ttl))
  | .utset => some (.ut (UtMap.init c.ttl))

def L2S.step (m : L2S) (now : Time) (op : Op) : L2S × Out :=
  match m with
  | .rr s => let r := Rr.core.step s now op; (.rr r.1, r.2)
  | .slot s => let r := Slot.core.step s now op; (.slot r.1, r.2)
  | .tlru s => let r := (Ttl.coreOf .tlru).step s now op; (.tlru r.1, r.2)
  | .utlru s => let r := (Ttl.coreOf .utlru).step s now op; (.utlru r.1, r.2)
  | .fifo s => let r := Fifo.core.step s now op; (.fifo r.1, r.2)
  | .cnt s => let r := Cnt.core.step s now op; (.cnt r.1, r.2)
  | .ut s => let r := UtMap.core.step s now op; (.ut r.1, r.2)

def L2S.dump : L2S → String
  | .rr s => Rr.dump s
  | .slot s => Slot.dump s
  | .tlru s => Ttl.dump s
  | .utlru s => Ttl.dump s
  | .fifo s => Fifo.dump s
  | .cnt s => Cnt.dump s
  | .ut s => UtMap.dump s

def L2S.ub : L2S → Bool
  | .rr s => s.ub
  | .slot s => s.ub
  | .tlru s => s.ub
  | .utlru s => s.ub
  | .fifo s => s.ub
  | .cnt s => s.ub
  | .ut s => s.ub

/-- events of instance 0 (with their index among all events of the script) and the structure dump the
harness printed after each (if any) -/
def loop : L2S → List (Event × Nat × Option String) → Option String
  | _, [] => none
  | m, (e, idx, st) :: rest =>
    let r := m.step e.now e.op
    if r.1.ub then some s!"ev={idx} the L2 model reaches undefined behaviour here"
    else if r.2 ≠ e.out then some s!"ev={idx} field=out model=[{showOut r.2}] impl=[{showOut e.out}]"
    else match st with
      | some d =>
        if d == r.1.dump then loop r.1 rest
        else some s!"ev={idx} field=structure model=[{r.1.dump}] impl=[{d}]"
      | none => loop r.1 rest

/-- `sts`: (index of the event among all events of the script, dump) -/
def check (cfg : Cfg) (evs : List Event) (sts : List (Nat × String)) : Option (Option String × Nat) :=
  match L2S.init cfg with
  | none => none
  | some m =>
    let tagged := (evs.zipIdx).filterMap (fun (e, i) =>
      if e.inst == 0 then some (e, i, (sts.find? (fun x => x.1 == i)).map (·.2)) else none)
    some (loop m tagged, (tagged.filter (fun x => x.2.2.isSome)).length)

end Verif.CheckL2
