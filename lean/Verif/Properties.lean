import Verif.Spec.Props
import Verif.Proofs.Refine.Rec
import Verif.Proofs.Refine.Fifo
import Verif.Proofs.Refine.Rr
import Verif.Proofs.Refine.Lfu
import Verif.Proofs.Refine.Lfuda
import Verif.Proofs.Refine.Tlru
import Verif.Proofs.Refine.UtMap
/-!
# The property theorems

Only statements and one-line appeals to the lemmas proved elsewhere live here, so that a statement
is never quietly weakened to make a proof pass.  Every theorem is about the models that the driver
executes against the implementation (`Model/*.lean`); `Audit` prints the axioms of each.

A `Verified` bundles one container model with its proof of refinement to the reference semantics.
`history V ops` is the timed atom trace of the history `ops` from the freshly constructed container.
-/
namespace Verif
open Verif.Spec

structure Verified (σ : Type) where
  c : Core σ
  fl : Flavor
  cap : Nat
  Inv : Time → σ → Prop
  abs : σ → A
  R : Refines c fl cap Inv abs
  s0 : σ
  inv0 : ∀ t, Inv t s0
  abs0 : abs s0 = A.empty

namespace Verified
variable {σ : Type} (V : Verified σ)

/-- the atoms of a history from the fresh container -/
def history (ops : List (Time × Op)) : List (Time × Atom) := (V.c.runA V.s0 ops).2.2

/-- the outputs of a history from the fresh container: exactly what `Core.run` returns -/
theorem outputs_eq (ops : List (Time × Op)) : (V.c.runA V.s0 ops).2.1 = (V.c.run V.s0 ops).2 :=
  (V.c.runA_eq V.s0 ops).2

/-- **Refinement.** Every history with non-decreasing clock readings is a run of the reference
semantics from the empty store. -/
theorem history_is_run (ops : List (Time × Op)) (t0 : Time) (ht : TimesFrom t0 ops) :
    ARun V.fl V.cap A.empty (V.history ops) (V.abs (V.c.runA V.s0 ops).1) := by
  have := (V.R.runA V.s0 t0 ops (V.inv0 t0) ht).2
  rw [V.abs0] at this
  exact this

/-- **C01 (and C04 for tlru/utlru).** A lookup that reports `v` for `k` reports the value of the
latest successful write of `k` not since undone by a successful erase of `k` or a clear — and, in
the lazy-TTL caches, does so strictly before that write's deadline. -/
theorem C01 (ops : List (Time × Op)) (t0 : Time) (ht : TimesFrom t0 ops)
    (p q : List (Time × Atom)) (now : Time) (k : Key) (pk : Bool) (v : Val) (n : Nat)
    (hsplit : V.history ops = p ++ (now, .look k pk (some (v, n))) :: q) :
    ∃ d, lastWrite p k = some (v, d) ∧ (V.fl = .lazy → now < d) := by
  have h := V.history_is_run ops t0 ht
  rw [hsplit] at h
  exact lookup_hit_is_last_write h

/-- **C02 (capacity bound).** After every history the number of resident entries is at most the
capacity (bounded containers). -/
theorem C02_bound (hfl : V.fl ≠ .eager) (ops : List (Time × Op)) (t0 : Time) (ht : TimesFrom t0 ops) :
    (V.abs (V.c.runA V.s0 ops).1).size ≤ V.cap :=
  size_le_cap_run hfl (by simp [A.empty]) (V.history_is_run ops t0 ht)

/-- every step of a history, with the reference states around it -/
theorem step_of_history (ops : List (Time × Op)) (t0 : Time) (ht : TimesFrom t0 ops)
    (p q : List (Time × Atom)) (now : Time) (x : Atom) (hsplit : V.history ops = p ++ (now, x) :: q) :
    ∃ a a', ARun V.fl V.cap A.empty p a ∧ AStep V.fl V.cap a now x a' ∧ Coupled a (lastWrite p) ∧
      (V.fl ≠ .eager → a.size ≤ V.cap) := by
  have h := V.history_is_run ops t0 ht
  rw [hsplit] at h
  obtain ⟨a, h1, h2⟩ := h.split
  cases h2 with
  | cons hs _ =>
    exact ⟨a, _, h1, hs, coupled_run coupled_empty h1, fun hfl => size_le_cap_run hfl (by simp [A.empty]) h1⟩

/-- **C03 (retention).** At every step of every history except `clear()`: a resident entry that is
live at that instant is still resident afterwards with the same value and deadline, unless its key
is the key erased by a successful erase, the key being written, or the single victim of an accepted
insert of a new key into a full container — and then exactly one entry goes and the size stays at
capacity. -/
theorem C03 (ops : List (Time × Op)) (t0 : Time) (ht : TimesFrom t0 ops)
    (p q : List (Time × Atom)) (now : Time) (x : Atom) (hsplit : V.history ops = p ++ (now, x) :: q)
    (hx : x ≠ .clear) :
    ∃ a a' ks, ARun V.fl V.cap A.empty p a ∧ AStep V.fl V.cap a now x a' ∧ allowedLoss a x a' ks ∧
      ∀ k' y, a.get k' = some y → liveAt V.fl now y → k' ∉ ks →
        (∀ k v al d, x = .ins k v al d true → k' ≠ k) → a'.get k' = some y := by
  obtain ⟨a, a', h1, hs, _, _⟩ := V.step_of_history ops t0 ht p q now x hsplit
  obtain ⟨ks, hk, hr⟩ := retention_step hs hx
  exact ⟨a, a', ks, h1, hs, hk, hr⟩

/-- **C05 (TTL retention).** At every lookup of every history: if the key's resident entry — which
by `C01`'s coupling is its latest successful write, with the deadline that write carried — has not
reached its deadline, the lookup reports its value and removes nothing. -/
theorem C05 (ops : List (Time × Op)) (t0 : Time) (ht : TimesFrom t0 ops)
    (p q : List (Time × Atom)) (now : Time) (k : Key) (pk : Bool) (r : Option (Val × Nat))
    (hsplit : V.history ops = p ++ (now, .look k pk r) :: q) :
    ∃ a a', ARun V.fl V.cap A.empty p a ∧ Coupled a (lastWrite p) ∧
      ∀ y, a.get k = some y → now < y.2 → r.map (·.1) = some y.1 ∧ a' = a := by
  obtain ⟨a, a', h1, hs, hc, _⟩ := V.step_of_history ops t0 ht p q now _ hsplit
  exact ⟨a, a', h1, hc, fun y hy hl => live_is_served hs hy (Or.inl hl)⟩

/-- **C09 (allow modes).** At every single insert/update of every history (each element of a range
included): the verdict by allow mode and residency, no effect on rejection, value and deadline
written on success. -/
theorem C09 (ops : List (Time × Op)) (t0 : Time) (ht : TimesFrom t0 ops)
    (p q : List (Time × Atom)) (now : Time) (k : Key) (v : Val) (al : Allow) (d : Time) (ok : Bool)
    (hsplit : V.history ops = p ++ (now, .ins k v al d ok) :: q) :
    ∃ a a', ARun V.fl V.cap A.empty p a ∧
      (al = .insertOrUpdate → ok = true) ∧
      (al = .insert → (ok = true ↔ (a.get k = none ∨ (V.fl = .lazy ∧ ∃ y, a.get k = some y ∧ y.2 ≤ now)))) ∧
      (al = .update → (ok = true ↔ a.get k ≠ none)) ∧
      (ok = false → a' = a) ∧ (ok = true → a'.get k = some (v, d)) := by
  obtain ⟨a, a', h1, hs, _, _⟩ := V.step_of_history ops t0 ht p q now _ hsplit
  exact ⟨a, a', h1, allow_verdict hs⟩

/-- **C17 (clean_expired_values).** At every `clean_expired_values()` of every history of a TTL
container: exactly the expired entries go, every live entry stays with its value and deadline, and
the returned count is the drop in `size()`. -/
theorem C17 (hfl : V.fl ≠ .plain) (ops : List (Time × Op)) (t0 : Time) (ht : TimesFrom t0 ops)
    (p q : List (Time × Atom)) (now : Time) (n : Nat)
    (hsplit : V.history ops = p ++ (now, .reap n) :: q) :
    ∃ a a', ARun V.fl V.cap A.empty p a ∧ AStep V.fl V.cap a now (.reap n) a' ∧
      a'.size + n = a.size ∧
      (∀ k y, a.get k = some y → now < y.2 → a'.get k = some y) ∧
      (∀ k y, a'.get k = some y → now < y.2 ∧ a.get k = some y) := by
  obtain ⟨a, a', h1, hs, _, _⟩ := V.step_of_history ops t0 ht p q now _ hsplit
  exact ⟨a, a', h1, hs, reap_exact hfl hs⟩

end Verified

/-! ## the ten containers -/

def lruV (cap : Nat) (h : 0 < cap) : Verified RecState :=
  { c := Lru.core, fl := .plain, cap, Inv := fun _ => Rec.Inv cap, abs := Rec.abs, R := Rec.refines .oldest cap,
    s0 := Rec.init cap, inv0 := fun _ => Rec.inv_init h, abs0 := rfl }

def mruV (cap : Nat) (h : 0 < cap) : Verified RecState :=
  { c := Mru.core, fl := .plain, cap, Inv := fun _ => Rec.Inv cap, abs := Rec.abs, R := Rec.refines .newest cap,
    s0 := Rec.init cap, inv0 := fun _ => Rec.inv_init h, abs0 := rfl }

def fifoV (cap : Nat) (h : 0 < cap) : Verified FifoState :=
  { c := Fifo.core, fl := .plain, cap, Inv := fun _ => Fifo.Inv cap, abs := Fifo.abs, R := Fifo.refines cap,
    s0 := Fifo.init cap, inv0 := fun _ => Fifo.inv_init h, abs0 := rfl }

def rrV (cap : Nat) (h : 0 < cap) (rnd : List Nat) (hr : ∀ r ∈ rnd, r < cap) : Verified RrState :=
  { c := Rr.core, fl := .plain, cap, Inv := fun _ => Rr.Inv cap, abs := Rr.abs, R := Rr.refines cap,
    s0 := Rr.init cap rnd, inv0 := fun _ => Rr.inv_init h rnd hr, abs0 := rfl }

def lfuV (cap : Nat) (h : 0 < cap) : Verified LfuState :=
  { c := Lfu.core, fl := .plain, cap, Inv := fun _ => Lfu.Inv cap, abs := Lfu.abs, R := Lfu.refines cap,
    s0 := Lfu.init cap, inv0 := fun _ => Lfu.inv_init h, abs0 := rfl }

def lfudaV (cap : Nat) (h : 0 < cap) (tickMs num den : Nat) : Verified LfudaState :=
  { c := Lfuda.core, fl := .plain, cap, Inv := fun _ => Lfuda.Inv cap, abs := Lfuda.abs, R := Lfuda.refines cap,
    s0 := Lfuda.init cap tickMs num den, inv0 := fun _ => Lfuda.inv_init h tickMs num den, abs0 := rfl }

def tlruV (cap : Nat) (h : 0 < cap) : Verified TlruState :=
  { c := Tlru.core, fl := .lazy, cap, Inv := fun _ => Tlru.Inv cap, abs := Tlru.abs, R := Tlru.refines cap,
    s0 := Tlru.init cap, inv0 := fun _ => Tlru.inv_init h, abs0 := rfl }

def utlruV (cap : Nat) (h : 0 < cap) (ttlMs : Nat) : Verified TlruState :=
  { c := Utlru.core, fl := .lazy, cap, Inv := fun _ => Tlru.Inv cap, abs := Tlru.abs, R := Utlru.refines cap,
    s0 := Utlru.init cap ttlMs, inv0 := fun _ => Utlru.inv_init h ttlMs, abs0 := rfl }

/-- ut_map, and ut_set (= ut_map whose values are all 1) -/
def utmapV (ttlMs : Nat) : Verified UtMapState :=
  { c := UtMap.core, fl := .eager, cap := 0, Inv := UtMap.Inv, abs := UtMap.abs, R := UtMap.refines 0,
    s0 := UtMap.init ttlMs, inv0 := fun t => UtMap.inv_init ttlMs t, abs0 := rfl }

end Verif
