import Verif.Spec.Abstract
/-!
# Lemmas about `getE` / `delE` / `keys` over `List Entry`, and the abstraction `absOf`
-/
namespace Verif
open Verif.Spec

/-- abstraction of a list of resident entries -/
def absOf (l : List Entry) : A := ⟨fun k => (getE l k).map (fun e => (e.val, e.dl)), l.length⟩

@[simp] theorem absOf_size (l : List Entry) : (absOf l).size = l.length := rfl
theorem absOf_get (l : List Entry) (k : Key) : (absOf l).get k = (getE l k).map (fun e => (e.val, e.dl)) := rfl

@[simp] theorem getE_nil (k : Key) : getE [] k = none := rfl

theorem getE_cons (e : Entry) (l : List Entry) (k : Key) :
    getE (e :: l) k = if e.key = k then some e else getE l k := by
  simp only [getE, List.find?_cons]
  by_cases h : e.key = k <;> simp [h]

theorem getE_key {l : List Entry} {k : Key} {e : Entry} (h : getE l k = some e) : e.key = k := by
  have := List.find?_some h
  simpa using this

theorem getE_mem {l : List Entry} {k : Key} {e : Entry} (h : getE l k = some e) : e ∈ l :=
  List.mem_of_find?_eq_some h

theorem getE_eq_none_iff {l : List Entry} {k : Key} : getE l k = none ↔ k ∉ keys l := by
  induction l with
  | nil => simp [keys]
  | cons e l ih =>
    rw [getE_cons]
    by_cases h : e.key = k
    · simp [h, keys]
    · simp only [h, if_false, ih, keys, List.map_cons, List.mem_cons, not_or]
      exact ⟨fun hh => ⟨fun e' => h e'.symm, hh⟩, fun hh => hh.2⟩

theorem getE_isSome_iff {l : List Entry} {k : Key} : (getE l k).isSome = true ↔ k ∈ keys l := by
  have := getE_eq_none_iff (l := l) (k := k)
  cases h : getE l k <;> simp_all

theorem getE_append (l₁ l₂ : List Entry) (k : Key) :
    getE (l₁ ++ l₂) k = (getE l₁ k).or (getE l₂ k) := by
  simp [getE, List.find?_append]

theorem getE_append_single (l : List Entry) (e : Entry) (k : Key) :
    getE (l ++ [e]) k = (getE l k).or (if e.key = k then some e else none) := by
  rw [getE_append, getE_cons, getE_nil]

theorem getE_delE_self (l : List Entry) (k : Key) : getE (delE l k) k = none := by
  rw [getE_eq_none_iff]
  simp [keys, delE]

theorem getE_delE_ne (l : List Entry) {k k' : Key} (h : k' ≠ k) : getE (delE l k) k' = getE l k' := by
  induction l with
  | nil => rfl
  | cons e l ih =>
    simp only [delE, List.filter_cons]
    by_cases he : e.key = k
    · simp only [he, decide_true, Bool.not_true, Bool.false_eq_true, if_false]
      rw [getE_cons, if_neg (by rw [he]; exact fun h' => h h'.symm)]
      exact ih
    · simp only [he, decide_false, Bool.not_false, if_true]
      rw [getE_cons, getE_cons]
      by_cases hk : e.key = k'
      · simp [hk]
      · simp only [hk, if_false]; exact ih

theorem keys_delE (l : List Entry) (k : Key) : keys (delE l k) = (keys l).filter (fun x => !decide (x = k)) := by
  induction l with
  | nil => rfl
  | cons e l ih =>
    simp only [delE, keys, List.filter_cons, List.map_cons] at ih ⊢
    by_cases h : e.key = k <;> simp [h, ih]

theorem mem_keys_delE {l : List Entry} {k x : Key} : x ∈ keys (delE l k) ↔ x ∈ keys l ∧ x ≠ k := by
  rw [keys_delE]; simp

theorem nodup_keys_delE {l : List Entry} (h : (keys l).Nodup) (k : Key) : (keys (delE l k)).Nodup := by
  rw [keys_delE]; exact h.filter _

theorem delE_eq_self_of_not_mem {l : List Entry} {k : Key} (h : k ∉ keys l) : delE l k = l := by
  unfold delE
  rw [List.filter_eq_self]
  intro e he
  have : e.key ≠ k := fun hh => h (hh ▸ List.mem_map_of_mem (f := (·.key)) he)
  simp [this]

theorem length_delE_of_mem {l : List Entry} (hn : (keys l).Nodup) {k : Key} (hk : k ∈ keys l) :
    (delE l k).length + 1 = l.length := by
  induction l with
  | nil => cases hk
  | cons e l ih =>
    simp only [keys, List.map_cons, List.nodup_cons, List.mem_cons] at hn hk
    simp only [delE, List.filter_cons]
    by_cases h : e.key = k
    · have hnot : k ∉ keys l := by rw [← h]; exact hn.1
      have := delE_eq_self_of_not_mem hnot
      simp only [delE] at this
      simp [h, this]
    · have hk' : k ∈ keys l := by
        rcases hk with hk | hk
        · exact absurd hk.symm h
        · exact hk
      have := ih hn.2 hk'
      simp only [delE] at this
      simp [h]; omega

theorem length_delE_le (l : List Entry) (k : Key) : (delE l k).length ≤ l.length :=
  List.length_filter_le _ _

theorem length_delE_of_getE {l : List Entry} (hn : (keys l).Nodup) {k : Key} {e : Entry}
    (h : getE l k = some e) : (delE l k).length + 1 = l.length :=
  length_delE_of_mem hn (getE_isSome_iff.mp (by simp [h]))

theorem keys_append (l₁ l₂ : List Entry) : keys (l₁ ++ l₂) = keys l₁ ++ keys l₂ := by simp [keys]

theorem nodup_keys_snoc {l : List Entry} (hn : (keys l).Nodup) {e : Entry} (he : e.key ∉ keys l) :
    (keys (l ++ [e])).Nodup := by
  rw [keys_append]
  simp only [keys, List.map_cons, List.map_nil]
  rw [List.nodup_append]
  refine ⟨hn, by simp, ?_⟩
  intro a ha b hb
  simp only [List.mem_cons, List.not_mem_nil, or_false] at hb
  subst hb
  intro h; subst h; exact he ha

/-- dropping the head of a duplicate-free list removes exactly its key -/
theorem getE_tail {e : Entry} {t : List Entry} (hn : (keys (e :: t)).Nodup) (k : Key) :
    getE t k = if k = e.key then none else getE (e :: t) k := by
  simp only [keys, List.map_cons, List.nodup_cons] at hn
  by_cases h : k = e.key
  · subst h; simp only [if_true]; exact getE_eq_none_iff.mpr hn.1
  · rw [if_neg h, getE_cons, if_neg (fun h' => h h'.symm)]

theorem getE_dropLast_concat {t : List Entry} {e : Entry} (hn : (keys (t ++ [e])).Nodup) (k : Key) :
    getE t k = if k = e.key then none else getE (t ++ [e]) k := by
  rw [keys_append] at hn
  have hd : e.key ∉ keys t := by
    intro hm
    have := (List.nodup_append.mp hn).2.2 _ hm e.key (by simp [keys])
    exact this rfl
  by_cases h : k = e.key
  · subst h; simp only [if_true]; exact getE_eq_none_iff.mpr hd
  · rw [if_neg h, getE_append_single, if_neg (fun h' => h h'.symm)]
    cases getE t k <;> rfl

/-- pointwise equality of abstract states -/
theorem A.ext' {a b : A} (h1 : a.get = b.get) (h2 : a.size = b.size) : a = b := by
  cases a; cases b; simp_all

end Verif
