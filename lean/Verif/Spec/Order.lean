import Verif.Spec.Concrete
/-!
# History variables for the replacement-policy properties (C10–C14), defined from the atoms

Each is a fold over the (annotated) history so far.  Where the English property distinguishes an
insert that *creates* an entry from one that updates it (fifo rank, lfu count), the fold is told
which keys were resident when the atom started (`rk`, read off the annotation); residency itself is
what C01–C03 are about.
-/
namespace Verif.Spec
open Verif

def dropKey (g : List Key) (k : Key) : List Key := g.filter (fun x => !decide (x = k))

/-- **recency** (C10, C13): keys in order of their most recent use, least recent first.
A use is an accepted insert/update or a successful non-peek lookup. -/
def useStep (g : List Key) : Atom → List Key
  | .ins k _ _ _ true => dropKey g k ++ [k]
  | .look k false (some _) => dropKey g k ++ [k]
  | .del k true => dropKey g k
  | .clear => []
  | _ => g

def useOrder {σ : Type} (tr : STrace σ) : List Key := tr.foldl (fun g x => useStep g x.2.2) []

/-- **insertion rank** (C12): keys in order of the insert that created their current entry, earliest
first; updates and lookups do not move a key; a key erased or evicted and inserted again re-enters
at the end. `rk` = keys resident when the atom started. -/
def bornStep (rk : List Key) (g : List Key) : Atom → List Key
  | .ins k _ _ _ true => if k ∈ rk then g else dropKey g k ++ [k]
  | .del k true => dropKey g k
  | .clear => []
  | _ => g

def bornOrder {σ : Type} (keysOf : σ → List Key) (tr : STrace σ) : List Key :=
  tr.foldl (fun g x => bornStep (keysOf x.1) g x.2.2) []

/-- **use count** (C11): 1 when the entry is created, +1 for each accepted update and each successful
non-peek lookup, unaffected by anything else. -/
def cntStep (rk : List Key) (g : Key → Nat) : Atom → Key → Nat
  | .ins k _ _ _ true => fun x => if x = k then (if k ∈ rk then g k + 1 else 1) else g x
  | .look k false (some _) => fun x => if x = k then g k + 1 else g x
  | _ => g

def useCount {σ : Type} (keysOf : σ → List Key) (tr : STrace σ) : Key → Nat :=
  tr.foldl (fun g x => cntStep (keysOf x.1) g x.2.2) (fun _ => 0)

/-- going from resident keys `before` to `after`, the atom that wrote `k` removed exactly the resident
key `w` (and `w` is not the key written) -/
def Evicts (before after : List Key) (k w : Key) : Prop :=
  w ∈ before ∧ w ≠ k ∧ w ∉ after ∧ ∀ u ∈ before, u ≠ w → u ∈ after

/-- the first key of `g` that is in `rk` -/
def firstIn (g rk : List Key) : Option Key := g.find? (fun k => decide (k ∈ rk))

/-- the last key of `g` that is in `rk` -/
def lastIn (g rk : List Key) : Option Key := (g.filter (fun k => decide (k ∈ rk))).getLast?

/-! ## LFUDA (C14): counts with dynamic aging -/

structure DA where
  cnt : Key → Nat
  stamp : Key → Time

/-- one aging point at `now`: every resident key idle for strictly longer than `tick` has its count
scaled by `num/den` (rounded down) and its idle timer restarted; returns how many were aged -/
def DA.ageAt (g : DA) (rk : List Key) (tick num den : Nat) (now : Time) : DA × Nat :=
  let idle := fun k => decide (g.stamp k + tick < now)
  ({ cnt := fun k => if k ∈ rk ∧ idle k = true then g.cnt k * num / den else g.cnt k,
     stamp := fun k => if k ∈ rk ∧ idle k = true then now else g.stamp k },
   (rk.filter idle).length)

def DA.use (g : DA) (k : Key) (now : Time) : DA :=
  { cnt := fun x => if x = k then g.cnt k + 1 else g.cnt x,
    stamp := fun x => if x = k then now else g.stamp x }

def DA.create (g : DA) (k : Key) (now : Time) : DA :=
  { cnt := fun x => if x = k then 1 else g.cnt x,
    stamp := fun x => if x = k then now else g.stamp x }

/-- `rk` = keys resident when the atom started; an accepted insert of a new key into a full cache is
an aging point (before the victim is chosen), as is `dynamically_age()` -/
def daStep (cap tick num den : Nat) (rk : List Key) (now : Time) (g : DA) : Atom → DA
  | .ins k _ _ _ true =>
    if k ∈ rk then g.use k now
    else if cap ≤ rk.length then ((g.ageAt rk tick num den now).1).create k now
    else g.create k now
  | .look k false (some _) => g.use k now
  | .age _ => (g.ageAt rk tick num den now).1
  | _ => g

def daGhost {σ : Type} (cap tick num den : Nat) (keysOf : σ → List Key) (tr : STrace σ) : DA :=
  tr.foldl (fun g x => daStep cap tick num den (keysOf x.1) x.2.1 g x.2.2) ⟨fun _ => 0, fun _ => 0⟩

/-- clock readings of an annotated trace never decrease -/
def STrace.monotone {σ : Type} (tr : STrace σ) : Prop := tr.Pairwise (fun x y => x.2.1 ≤ y.2.1)

end Verif.Spec
