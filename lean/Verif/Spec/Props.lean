import Verif.Spec.Lift
/-!
# Facts about every run of the reference semantics (policy-independent halves of C01–C05, C09, C17)

Nothing here mentions a container: these hold for every victim choice.  `Properties.lean`
instantiates them at each container through its `Refines` instance.
-/
namespace Verif.Spec
open Verif

/-- what is resident is the latest successful write (value and deadline) of its key -/
def Coupled (a : A) (g : AMap) : Prop := ∀ k x, a.get k = some x → g k = some x

theorem coupled_empty : Coupled A.empty AMap.empty := by
  intro k x h; simp [A.empty, AMap.empty] at h

theorem AMap.set_eq (m : AMap) (k : Key) (x : Val × Time) : m.set k x k = some x := by simp [AMap.set]
theorem AMap.set_ne (m : AMap) {k k' : Key} (x : Val × Time) (h : k' ≠ k) : m.set k x k' = m k' := by
  simp [AMap.set, h]
theorem AMap.del_eq (m : AMap) (k : Key) : m.del k k = none := by simp [AMap.del]
theorem AMap.del_ne (m : AMap) {k k' : Key} (h : k' ≠ k) : m.del k k' = m k' := by simp [AMap.del, h]

theorem coupled_set {a : AMap} {g : AMap} (h : ∀ k x, a k = some x → g k = some x) (k : Key) (y : Val × Time) :
    ∀ k' x, a.set k y k' = some x → g.set k y k' = some x := by
  intro k' x hx
  by_cases hk : k' = k
  · subst hk; simpa [AMap.set] using hx
  · rw [AMap.set_ne _ _ hk] at hx ⊢; exact h _ _ hx

theorem coupled_del_left {a : AMap} {g : AMap} (h : ∀ k x, a k = some x → g k = some x) (w : Key) :
    ∀ k' x, a.del w k' = some x → g k' = some x := by
  intro k' x hx
  by_cases hk : k' = w
  · subst hk; simp [AMap.del] at hx
  · rw [AMap.del_ne _ hk] at hx; exact h _ _ hx

theorem coupled_del_both {a : AMap} {g : AMap} (h : ∀ k x, a k = some x → g k = some x) (w : Key) :
    ∀ k' x, a.del w k' = some x → g.del w k' = some x := by
  intro k' x hx
  by_cases hk : k' = w
  · subst hk; simp [AMap.del] at hx
  · rw [AMap.del_ne _ hk] at hx ⊢; exact h _ _ hx

theorem coupled_reap {a : AMap} {g : AMap} (h : ∀ k x, a k = some x → g k = some x) (now : Time) :
    ∀ k' x, a.reap now k' = some x → g k' = some x := by
  intro k' x hx
  simp only [AMap.reap] at hx
  cases hk : a k' with
  | none => simp [hk] at hx
  | some y =>
    simp only [hk, Option.filter] at hx
    split at hx
    · cases hx; exact h _ _ hk
    · cases hx

/-- one atom keeps the coupling -/
theorem coupled_step {fl : Flavor} {cap : Nat} {a a' : A} {g : AMap} {now : Time} {x : Atom}
    (hc : Coupled a g) (hs : AStep fl cap a now x a') : Coupled a' (ghost g x) := by
  unfold Coupled at *
  cases x with
  | ins k v al d ok =>
    simp only [AStep] at hs
    cases hk : a.get k with
    | some y =>
      simp only [hk] at hs
      split at hs
      · obtain ⟨rfl, hg, _⟩ := hs
        simp only [ghost]; rw [hg]; exact coupled_set hc k (v, d)
      · obtain ⟨rfl, rfl⟩ := hs
        simpa [ghost] using hc
    | none =>
      simp only [hk] at hs
      split at hs
      · obtain ⟨rfl, hs⟩ := hs
        simp only [ghost]
        split at hs
        · obtain ⟨w, _, hg, _⟩ := hs
          rw [hg]
          intro k' x hx
          by_cases hkk : k' = k
          · subst hkk; simpa [AMap.set] using hx
          · rw [AMap.set_ne _ _ hkk] at hx ⊢
            exact coupled_del_left hc w _ _ hx
        · obtain ⟨hg, _⟩ := hs
          rw [hg]; exact coupled_set hc k (v, d)
      · obtain ⟨rfl, rfl⟩ := hs
        simpa [ghost] using hc
  | look k pk r =>
    simp only [AStep] at hs
    simp only [ghost]
    cases hk : a.get k with
    | some y =>
      simp only [hk] at hs
      split at hs
      · obtain ⟨_, hg, _⟩ := hs
        rw [hg]; exact coupled_del_left hc k
      · obtain ⟨_, rfl⟩ := hs; exact hc
    | none =>
      simp only [hk] at hs
      obtain ⟨_, rfl⟩ := hs; exact hc
  | del k ok =>
    simp only [AStep] at hs
    cases hk : a.get k with
    | some y =>
      simp only [hk] at hs
      obtain ⟨rfl, hg, _⟩ := hs
      simp only [ghost]; rw [hg]; exact coupled_del_both hc k
    | none =>
      simp only [hk] at hs
      obtain ⟨rfl, rfl⟩ := hs
      simpa [ghost] using hc
  | clear =>
    simp only [AStep] at hs
    intro k x hx; rw [hs.1] at hx; simp [AMap.empty] at hx
  | reap n =>
    simp only [AStep] at hs
    simp only [ghost]
    split at hs
    · obtain ⟨_, rfl⟩ := hs; exact hc
    · rw [hs.1]; exact coupled_reap hc now
  | pre =>
    simp only [AStep] at hs
    simp only [ghost]
    split at hs
    · rw [hs.1]; exact coupled_reap hc now
    · subst hs; exact hc
  | age n => simp only [AStep] at hs; subst hs; simpa [ghost] using hc
  | setTtl t => simp only [AStep] at hs; subst hs; simpa [ghost] using hc
  | obsSize n => simp only [AStep] at hs; obtain ⟨_, rfl⟩ := hs; simpa [ghost] using hc
  | obsEmpty b => simp only [AStep] at hs; obtain ⟨_, rfl⟩ := hs; simpa [ghost] using hc
  | obsCap n => simp only [AStep] at hs; obtain ⟨_, rfl⟩ := hs; simpa [ghost] using hc

theorem coupled_run {fl : Flavor} {cap : Nat} {a b : A} {g : AMap} {tr : List (Time × Atom)}
    (hc : Coupled a g) (hr : ARun fl cap a tr b) : Coupled b (tr.foldl (fun g x => ghost g x.2) g) := by
  induction hr generalizing g with
  | nil => simpa using hc
  | cons hs _ ih => simp only [List.foldl_cons]; exact ih (coupled_step hc hs)

/-- **C01, reference level.** In every run from the empty store, a lookup that reports `v` for `k`
reports the value of the latest successful write of `k` not since undone by a successful erase of
`k` or a clear; in the lazy-TTL flavor, moreover, strictly before that write's deadline (C04). -/
theorem lookup_hit_is_last_write {fl : Flavor} {cap : Nat} {b : A} {p q : List (Time × Atom)}
    {now : Time} {k : Key} {pk : Bool} {v : Val} {n : Nat}
    (hr : ARun fl cap A.empty (p ++ (now, .look k pk (some (v, n))) :: q) b) :
    ∃ d, lastWrite p k = some (v, d) ∧ (fl = .lazy → now < d) := by
  obtain ⟨am, h1, h2⟩ := hr.split
  cases h2 with
  | cons hs _ =>
    have hc := coupled_run coupled_empty h1
    simp only [AStep] at hs
    cases hk : am.get k with
    | none => simp [hk] at hs
    | some y =>
      simp only [hk] at hs
      split at hs
      · simp at hs
      · rename_i hne
        obtain ⟨hv, _⟩ := hs
        simp only [Option.map_some, Option.some.injEq] at hv
        refine ⟨y.2, ?_, ?_⟩
        · have := hc k y hk
          unfold lastWrite; rw [this, hv]
        · intro hfl
          simp only [hfl, true_and, Nat.not_le] at hne
          exact hne

/-- **C02, reference level**: the capacity bound is kept by every atom (bounded flavors). -/
theorem size_le_cap_step {fl : Flavor} {cap : Nat} {a a' : A} {now : Time} {x : Atom}
    (hfl : fl ≠ .eager) (hb : a.size ≤ cap) (hs : AStep fl cap a now x a') :
    a'.size ≤ cap := by
  cases x with
  | ins k v al d ok =>
    simp only [AStep] at hs
    cases hk : a.get k with
    | some y =>
      simp only [hk] at hs
      split at hs
      · omega
      · obtain ⟨_, rfl⟩ := hs; exact hb
    | none =>
      simp only [hk] at hs
      split at hs
      · obtain ⟨_, hs⟩ := hs
        split at hs
        · obtain ⟨w, _, _, h⟩ := hs; omega
        · rename_i hnf
          simp only [ne_eq, hfl, not_false_eq_true, true_and, Nat.not_le] at hnf
          omega
      · obtain ⟨_, rfl⟩ := hs; exact hb
  | look k pk r =>
    simp only [AStep] at hs
    cases hk : a.get k with
    | some y =>
      simp only [hk] at hs
      split at hs
      · omega
      · obtain ⟨_, rfl⟩ := hs; exact hb
    | none => simp only [hk] at hs; obtain ⟨_, rfl⟩ := hs; exact hb
  | del k ok =>
    simp only [AStep] at hs
    cases hk : a.get k with
    | some y => simp only [hk] at hs; omega
    | none => simp only [hk] at hs; obtain ⟨_, rfl⟩ := hs; exact hb
  | clear => simp only [AStep] at hs; omega
  | reap n =>
    simp only [AStep] at hs
    split at hs
    · obtain ⟨_, rfl⟩ := hs; exact hb
    · omega
  | pre =>
    simp only [AStep] at hs
    split at hs
    · omega
    · subst hs; exact hb
  | age n => simp only [AStep] at hs; subst hs; exact hb
  | setTtl t => simp only [AStep] at hs; subst hs; exact hb
  | obsSize n => simp only [AStep] at hs; obtain ⟨_, rfl⟩ := hs; exact hb
  | obsEmpty b => simp only [AStep] at hs; obtain ⟨_, rfl⟩ := hs; exact hb
  | obsCap n => simp only [AStep] at hs; obtain ⟨_, rfl⟩ := hs; exact hb

theorem size_le_cap_run {fl : Flavor} {cap : Nat} {a b : A} {tr : List (Time × Atom)}
    (hfl : fl ≠ .eager) (hb : a.size ≤ cap) (hr : ARun fl cap a tr b) : b.size ≤ cap := by
  induction hr with
  | nil => exact hb
  | cons hs _ ih => exact ih (size_le_cap_step hfl hb hs)

/-- is the entry `x` served at `now`? (plain flavor: always; TTL flavors: strictly before the deadline) -/
def liveAt (fl : Flavor) (now : Time) (x : Val × Time) : Prop := fl = .plain ∨ now < x.2

/-- **C03, reference level**: what an atom may take away from the resident *live* entries.
`none` = nothing; `some ks` = at most the keys in `ks`. -/
def allowedLoss (a : A) : Atom → A → List Key → Prop
  | .del k true, _, ks => ks = [k]
  | .ins k _ _ _ true, a', ks =>
    -- an accepted insert of a new key into a full store: exactly one victim, and the store stays full
    (a.get k = none ∧ a'.size = a.size ∧ ∃ w, ks = [w] ∧ w ≠ k ∧ (a.get w).isSome = true) ∨
    -- any other accepted write: nothing (the written key itself is replaced, not lost)
    ((a.get k ≠ none ∨ a'.size = a.size + 1) ∧ ks = [])
  | _, _, ks => ks = []

/-- Every atom except `clear`: a resident entry that is live at `now` is still resident with the same
value and deadline afterwards, unless its key is the erased key, the single victim of an insert of
a new key into a full store, or the key being (re)written. -/
theorem retention_step {fl : Flavor} {cap : Nat} {a a' : A} {now : Time} {x : Atom}
    (hs : AStep fl cap a now x a') (hx : x ≠ .clear) :
    ∃ ks, allowedLoss a x a' ks ∧
      ∀ k' y, a.get k' = some y → liveAt fl now y → k' ∉ ks →
        (∀ k v al d, x = .ins k v al d true → k' ≠ k) → a'.get k' = some y := by
  cases x with
  | clear => exact absurd rfl hx
  | ins k v al d ok =>
    simp only [AStep] at hs
    cases hk : a.get k with
    | some y0 =>
      simp only [hk] at hs
      split at hs
      · obtain ⟨rfl, hg, hsz⟩ := hs
        refine ⟨[], Or.inr ⟨Or.inl (by simp [hk]), rfl⟩, ?_⟩
        intro k' y hy _ _ hne
        have : k' ≠ k := hne k v al d rfl
        rw [hg, AMap.set_ne _ _ this]; exact hy
      · obtain ⟨rfl, rfl⟩ := hs
        exact ⟨[], rfl, fun k' y hy _ _ _ => hy⟩
    | none =>
      simp only [hk] at hs
      split at hs
      · obtain ⟨rfl, hs⟩ := hs
        split at hs
        · obtain ⟨w, hw, hg, hsz⟩ := hs
          have hwk : w ≠ k := by intro h; subst h; simp [hk] at hw
          refine ⟨[w], Or.inl ⟨hk, hsz, w, rfl, hwk, hw⟩, ?_⟩
          intro k' y hy _ hnotin hne
          have h1 : k' ≠ k := hne k v al d rfl
          have h2 : k' ≠ w := by simpa using hnotin
          rw [hg, AMap.set_ne _ _ h1, AMap.del_ne _ h2]; exact hy
        · obtain ⟨hg, hsz⟩ := hs
          refine ⟨[], Or.inr ⟨Or.inr hsz, rfl⟩, ?_⟩
          intro k' y hy _ _ hne
          have h1 : k' ≠ k := hne k v al d rfl
          rw [hg, AMap.set_ne _ _ h1]; exact hy
      · obtain ⟨rfl, rfl⟩ := hs
        exact ⟨[], rfl, fun k' y hy _ _ _ => hy⟩
  | look k pk r =>
    refine ⟨[], rfl, ?_⟩
    intro k' y hy hlive _ _
    simp only [AStep] at hs
    cases hk : a.get k with
    | some y0 =>
      simp only [hk] at hs
      split at hs
      · rename_i hexp
        obtain ⟨_, hg, _⟩ := hs
        by_cases hkk : k' = k
        · subst hkk
          rw [hk] at hy; cases hy
          rcases hlive with h | h
          · rw [h] at hexp; simp at hexp
          · exact absurd h (Nat.not_lt.mpr hexp.2)
        · rw [hg, AMap.del_ne _ hkk]; exact hy
      · obtain ⟨_, rfl⟩ := hs; exact hy
    | none => simp only [hk] at hs; obtain ⟨_, rfl⟩ := hs; exact hy
  | del k ok =>
    simp only [AStep] at hs
    cases hk : a.get k with
    | some y0 =>
      simp only [hk] at hs
      obtain ⟨rfl, hg, _⟩ := hs
      refine ⟨[k], rfl, ?_⟩
      intro k' y hy _ hnotin _
      have : k' ≠ k := by simpa using hnotin
      rw [hg, AMap.del_ne _ this]; exact hy
    | none =>
      simp only [hk] at hs
      obtain ⟨rfl, rfl⟩ := hs
      exact ⟨[], rfl, fun k' y hy _ _ _ => hy⟩
  | reap n =>
    refine ⟨[], rfl, ?_⟩
    intro k' y hy hlive _ _
    simp only [AStep] at hs
    split at hs
    · obtain ⟨_, rfl⟩ := hs; exact hy
    · rename_i hfl
      rw [hs.1]
      simp only [AMap.reap, hy, Option.filter]
      rcases hlive with h | h
      · exact absurd h hfl
      · simp [h]
  | pre =>
    refine ⟨[], rfl, ?_⟩
    intro k' y hy hlive _ _
    simp only [AStep] at hs
    split at hs
    · rename_i hfl
      rw [hs.1]
      simp only [AMap.reap, hy, Option.filter]
      rcases hlive with h | h
      · rw [h] at hfl; cases hfl
      · simp [h]
    · subst hs; exact hy
  | age n => simp only [AStep] at hs; subst hs; exact ⟨[], rfl, fun k' y hy _ _ _ => hy⟩
  | setTtl t => simp only [AStep] at hs; subst hs; exact ⟨[], rfl, fun k' y hy _ _ _ => hy⟩
  | obsSize n => simp only [AStep] at hs; obtain ⟨_, rfl⟩ := hs; exact ⟨[], rfl, fun k' y hy _ _ _ => hy⟩
  | obsEmpty b => simp only [AStep] at hs; obtain ⟨_, rfl⟩ := hs; exact ⟨[], rfl, fun k' y hy _ _ _ => hy⟩
  | obsCap n => simp only [AStep] at hs; obtain ⟨_, rfl⟩ := hs; exact ⟨[], rfl, fun k' y hy _ _ _ => hy⟩

/-- **C05, reference level**: a resident entry is served, with its value, by every lookup strictly
before its deadline (whatever the peek flag). -/
theorem live_is_served {fl : Flavor} {cap : Nat} {a a' : A} {now : Time} {k : Key} {pk : Bool}
    {r : Option (Val × Nat)} {y : Val × Time}
    (hs : AStep fl cap a now (.look k pk r) a') (hy : a.get k = some y) (hl : now < y.2 ∨ fl ≠ .lazy) :
    r.map (·.1) = some y.1 ∧ a' = a := by
  simp only [AStep, hy] at hs
  split at hs
  · rename_i h
    rcases hl with hl | hl
    · exact absurd hl (Nat.not_lt.mpr h.2)
    · exact absurd h.1 hl
  · exact hs

/-- **C04, eager flavor**: right after the prologue every resident entry is strictly before its deadline. -/
theorem pre_fresh {cap : Nat} {a a' : A} {now : Time} (hs : AStep .eager cap a now .pre a') :
    ∀ k y, a'.get k = some y → now < y.2 := by
  intro k y hy
  simp only [AStep, if_true] at hs
  rw [hs.1] at hy
  simp only [AMap.reap] at hy
  cases hk : a.get k with
  | none => simp [hk] at hy
  | some z =>
    simp only [hk, Option.filter] at hy
    split at hy
    · cases hy; rename_i h; simpa using h
    · cases hy

/-- **C17, reference level**: `clean_expired_values` (and the eager prologue) removes exactly the
expired entries, keeps every live one with its value and deadline, and the count it returns is the
drop in `size`. -/
theorem reap_exact {fl : Flavor} {cap : Nat} {a a' : A} {now : Time} {n : Nat}
    (hfl : fl ≠ .plain) (hs : AStep fl cap a now (.reap n) a') :
    a'.size + n = a.size ∧
    (∀ k y, a.get k = some y → now < y.2 → a'.get k = some y) ∧
    (∀ k y, a'.get k = some y → now < y.2 ∧ a.get k = some y) := by
  simp only [AStep, hfl, if_false] at hs
  refine ⟨hs.2, ?_, ?_⟩
  · intro k y hy hl
    rw [hs.1]; simp [AMap.reap, hy, Option.filter, hl]
  · intro k y hy
    rw [hs.1] at hy
    simp only [AMap.reap] at hy
    cases hk : a.get k with
    | none => simp [hk] at hy
    | some z =>
      simp only [hk, Option.filter] at hy
      split at hy
      · cases hy; rename_i h; exact ⟨by simpa using h, rfl⟩
      · cases hy

/-- **C09, reference level**: the verdict of a single insert/update, by allow mode and by what is
resident at the call. -/
theorem allow_verdict {fl : Flavor} {cap : Nat} {a a' : A} {now : Time} {k : Key} {v : Val}
    {al : Allow} {d : Time} {ok : Bool} (hs : AStep fl cap a now (.ins k v al d ok) a') :
    -- insert_or_update always succeeds
    (al = .insertOrUpdate → ok = true) ∧
    -- allow::insert succeeds exactly when no live entry is resident (lazy flavor: an expired one does not count)
    (al = .insert → (ok = true ↔ (a.get k = none ∨ (fl = .lazy ∧ ∃ y, a.get k = some y ∧ y.2 ≤ now)))) ∧
    -- allow::update succeeds exactly when an entry is resident, and never creates one
    (al = .update → (ok = true ↔ a.get k ≠ none)) ∧
    -- a rejected call changes nothing
    (ok = false → a' = a) ∧
    -- an accepted call writes the value and the deadline
    (ok = true → a'.get k = some (v, d)) := by
  simp only [AStep] at hs
  cases hk : a.get k with
  | some y =>
    simp only [hk] at hs
    cases al <;> simp only [Allow.upd, Allow.ins] at hs <;> split at hs <;>
      (first | (obtain ⟨rfl, hg, _⟩ := hs; simp_all [AMap.set]) | (obtain ⟨rfl, rfl⟩ := hs; simp_all))
  | none =>
    simp only [hk] at hs
    cases al <;> simp only [Allow.upd, Allow.ins] at hs
    · simp only [if_true] at hs
      obtain ⟨rfl, hs⟩ := hs
      split at hs
      · obtain ⟨w, _, hg, _⟩ := hs; simp [hg, AMap.set]
      · simp [hs.1, AMap.set]
    · simp at hs; obtain ⟨rfl, rfl⟩ := hs; simp
    · simp only [if_true] at hs
      obtain ⟨rfl, hs⟩ := hs
      split at hs
      · obtain ⟨w, _, hg, _⟩ := hs; simp [hg, AMap.set]
      · simp [hs.1, AMap.set]

end Verif.Spec
