import Verif.Basic
/-!
# The reference semantics (L0): a finite map with a capacity; the eviction victim is not determined

This is the specification the policy-independent properties (C01–C05, C09, C17) are stated and
proved against, once, for every victim choice.  A state is the map `key ↦ (value, deadline)` of
resident entries and their number.  A public call is decomposed into *atoms* — single-key primitive
steps with their results — by `Core.stepA` (`Spec/Atoms.lean`); `AStep` says what each atom may do
to the abstract state.  Three flavors:

* `plain`  — fifo, lfu, lfuda, lru, mru, rr: no deadlines;
* `lazy`   — tlru, utlru: an expired entry stays resident until a lookup of its key, a
             `clean_expired_values`, or an eviction removes it; `allow::insert` over it overwrites;
* `eager`  — ut_map, ut_set: unbounded; every public call starts by reaping every expired entry.
-/
namespace Verif.Spec
open Verif

abbrev AMap := Key → Option (Val × Time)

def AMap.empty : AMap := fun _ => none
def AMap.set (m : AMap) (k : Key) (x : Val × Time) : AMap := fun k' => if k' = k then some x else m k'
def AMap.del (m : AMap) (k : Key) : AMap := fun k' => if k' = k then none else m k'
/-- drop every entry whose deadline has passed at `now` (boundary inclusive: `d ≤ now` is expired) -/
def AMap.reap (m : AMap) (now : Time) : AMap := fun k => (m k).filter (fun x => decide (now < x.2))

inductive Flavor
  | plain | lazy | eager
  deriving DecidableEq, Repr

structure A where
  get : AMap
  /-- number of resident entries (expired-but-unreaped ones included) -/
  size : Nat

def A.empty : A := ⟨AMap.empty, 0⟩

/-- single-key primitive steps with their results -/
inductive Atom
  /-- `do_insert_update(k, v, a)` carrying deadline `d`; `ok` = its return value -/
  | ins (k : Key) (v : Val) (a : Allow) (d : Time) (ok : Bool)
  /-- `do_find` / `do_find_with_use_count`; `r` = value and use count reported -/
  | look (k : Key) (peek : Bool) (r : Option (Val × Nat))
  /-- erase by key; `ok` = found and erased -/
  | del (k : Key) (ok : Bool)
  | clear
  /-- `clean_expired_values`; `n` = its return value -/
  | reap (n : Nat)
  /-- per-call prologue (`do_prune(now)` in ut_map/ut_set, nothing elsewhere) -/
  | pre
  | age (n : Nat)
  | setTtl (t : Nat)
  | obsSize (n : Nat)
  | obsEmpty (b : Bool)
  | obsCap (n : Nat)
  deriving DecidableEq, Repr

/-- what one atom, executed at clock reading `now`, may do to the abstract state -/
def AStep (fl : Flavor) (cap : Nat) (a : A) (now : Time) : Atom → A → Prop
  | .ins k v al d ok, a' =>
    match a.get k with
    | some x =>
      if al.upd = true ∨ (fl = .lazy ∧ al.ins = true ∧ x.2 ≤ now) then
        ok = true ∧ a'.get = a.get.set k (v, d) ∧ a'.size = a.size
      else ok = false ∧ a' = a
    | none =>
      if al.ins = true then
        ok = true ∧
          (if fl ≠ .eager ∧ cap ≤ a.size then
            -- full: exactly one resident entry, any one, makes room
            ∃ w, (a.get w).isSome = true ∧ a'.get = (a.get.del w).set k (v, d) ∧ a'.size = a.size
          else a'.get = a.get.set k (v, d) ∧ a'.size = a.size + 1)
      else ok = false ∧ a' = a
  | .look k _ r, a' =>
    match a.get k with
    | some x =>
      if fl = .lazy ∧ x.2 ≤ now then r = none ∧ a'.get = a.get.del k ∧ a'.size + 1 = a.size
      else r.map (·.1) = some x.1 ∧ a' = a
    | none => r = none ∧ a' = a
  | .del k ok, a' =>
    match a.get k with
    | some _ => ok = true ∧ a'.get = a.get.del k ∧ a'.size + 1 = a.size
    | none => ok = false ∧ a' = a
  | .clear, a' => a'.get = AMap.empty ∧ a'.size = 0
  | .reap n, a' =>
    if fl = .plain then n = 0 ∧ a' = a
    else a'.get = a.get.reap now ∧ a'.size + n = a.size
  | .pre, a' =>
    if fl = .eager then a'.get = a.get.reap now ∧ a'.size ≤ a.size
    else a' = a
  | .age _, a' => a' = a
  | .setTtl _, a' => a' = a
  | .obsSize n, a' => n = a.size ∧ a' = a
  | .obsEmpty b, a' => b = (a.size == 0) ∧ a' = a
  | .obsCap n, a' => (fl ≠ .eager → n = cap) ∧ a' = a

/-- a run of timed atoms -/
inductive ARun (fl : Flavor) (cap : Nat) : A → List (Time × Atom) → A → Prop
  | nil (a : A) : ARun fl cap a [] a
  | cons {a a1 a2 : A} {now : Time} {at_ : Atom} {tr : List (Time × Atom)} :
      AStep fl cap a now at_ a1 → ARun fl cap a1 tr a2 → ARun fl cap a ((now, at_) :: tr) a2

/-! ## history variable, defined from the atoms alone -/

/-- The latest successful write of each key not since undone by a successful erase of that key or a
clear: value and deadline.  Eviction and expiry are not recorded: they can only make a lookup miss,
which the lookup clauses permit. -/
def ghost (g : AMap) : Atom → AMap
  | .ins k v _ d true => g.set k (v, d)
  | .del k true => g.del k
  | .clear => AMap.empty
  | _ => g

/-- `ghost` along a history (oldest first) -/
def lastWrite (tr : List (Time × Atom)) : AMap := tr.foldl (fun g x => ghost g x.2) AMap.empty

end Verif.Spec
