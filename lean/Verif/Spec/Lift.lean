import Verif.Spec.Atoms
/-!
# Generic lifting: primitives refine ⇒ every public call and every history is a run of the reference semantics
-/
namespace Verif
open Verif.Spec

namespace Core
variable {σ : Type} (c : Core σ)

theorem insertManyA_eq (s : σ) (now : Time) (a : Allow) (xs : List (Key × Val × Nat)) :
    (c.insertManyA s now a xs).1 = (c.insertMany s now a xs).1 ∧
    (c.insertManyA s now a xs).2.1 = (c.insertMany s now a xs).2 := by
  induction xs generalizing s with
  | nil => exact ⟨rfl, rfl⟩
  | cons x xs ih =>
    obtain ⟨k, v, ttl⟩ := x
    simp only [insertManyA, insertMany]
    have := ih (c.insert1 s now k v a ttl).1
    exact ⟨this.1, by rw [this.2]⟩

theorem findManyA_eq (s : σ) (now : Time) (peek : Bool) (ks : List Key) :
    (c.findManyA s now peek ks).1 = (c.findMany s now peek ks).1 ∧
    (c.findManyA s now peek ks).2.1 = (c.findMany s now peek ks).2 := by
  induction ks generalizing s with
  | nil => exact ⟨rfl, rfl⟩
  | cons k ks ih =>
    simp only [findManyA, findMany]
    have := ih (c.find1 s now k peek).1
    exact ⟨this.1, by rw [this.2]⟩

theorem eraseManyA_eq (s : σ) (ks : List Key) :
    (c.eraseManyA s ks).1 = (c.eraseMany s ks).1 ∧
    (c.eraseManyA s ks).2.1 = (c.eraseMany s ks).2 := by
  induction ks generalizing s with
  | nil => exact ⟨rfl, rfl⟩
  | cons k ks ih =>
    simp only [eraseManyA, eraseMany]
    have := ih (c.erase1 s k).1
    exact ⟨this.1, by rw [this.2]⟩

/-- the instrumented step is the step -/
theorem stepA_eq (s : σ) (now : Time) (op : Op) :
    (c.stepA s now op).1 = (c.step s now op).1 ∧ (c.stepA s now op).2.1 = (c.step s now op).2 := by
  cases op with
  | insertRange xs a =>
    have h := c.insertManyA_eq (c.pre s now) now a xs
    simp only [stepA, step]; exact ⟨h.1, by rw [h.2]⟩
  | findRange ks peek =>
    have h := c.findManyA_eq (c.pre s now) now peek ks
    simp only [stepA, step]; exact ⟨h.1, by rw [h.2]⟩
  | eraseRange ks =>
    have h := c.eraseManyA_eq (c.pre s now) ks
    simp only [stepA, step]; exact ⟨h.1, by rw [h.2]⟩
  | clear => simp only [stepA, step]; split <;> exact ⟨rfl, rfl⟩
  | _ => exact ⟨rfl, rfl⟩

theorem runA_eq (s : σ) (ops : List (Time × Op)) :
    (c.runA s ops).1 = (c.run s ops).1 ∧ (c.runA s ops).2.1 = (c.run s ops).2 := by
  induction ops generalizing s with
  | nil => exact ⟨rfl, rfl⟩
  | cons x rest ih =>
    obtain ⟨t, op⟩ := x
    simp only [runA, run]
    have h := c.stepA_eq s t op
    rw [h.1, h.2]
    have h2 := ih (c.step s t op).1
    exact ⟨h2.1, by rw [h2.2]⟩

end Core

namespace Spec

theorem ARun.append {fl : Flavor} {cap : Nat} {a b c : A} {p q : List (Time × Atom)}
    (h1 : ARun fl cap a p b) (h2 : ARun fl cap b q c) : ARun fl cap a (p ++ q) c := by
  induction h1 with
  | nil => simpa using h2
  | cons hs _ ih => exact .cons hs (ih h2)

theorem ARun.split {fl : Flavor} {cap : Nat} {a c : A} {p q : List (Time × Atom)}
    (h : ARun fl cap a (p ++ q) c) : ∃ b, ARun fl cap a p b ∧ ARun fl cap b q c := by
  induction p generalizing a with
  | nil => exact ⟨a, .nil a, by simpa using h⟩
  | cons x p ih =>
    cases h with
    | cons hs hr =>
      obtain ⟨b, h1, h2⟩ := ih hr
      exact ⟨b, .cons hs h1, h2⟩

theorem ARun.single {fl : Flavor} {cap : Nat} {a b : A} {now : Time} {x : Atom}
    (h : AStep fl cap a now x b) : ARun fl cap a [(now, x)] b := .cons h (.nil b)

end Spec

section lift
variable {σ : Type} {c : Core σ} {fl : Flavor} {cap : Nat} {Inv : Time → σ → Prop} {abs : σ → A}

theorem Refines.insertManyA (R : Refines c fl cap Inv abs) (s : σ) (now : Time) (a : Allow)
    (xs : List (Key × Val × Nat)) (h : Inv now s) :
    Inv now (c.insertManyA s now a xs).1 ∧
    ARun fl cap (abs s) ((c.insertManyA s now a xs).2.2.map (fun x => (now, x))) (abs (c.insertManyA s now a xs).1) := by
  induction xs generalizing s with
  | nil => exact ⟨h, .nil _⟩
  | cons x xs ih =>
    obtain ⟨k, v, ttl⟩ := x
    have h1 := R.insert1 s now k v a ttl h
    have h2 := ih (c.insert1 s now k v a ttl).1 h1.1
    simp only [Core.insertManyA, List.map_cons]
    exact ⟨h2.1, .cons h1.2 h2.2⟩

theorem Refines.findManyA (R : Refines c fl cap Inv abs) (s : σ) (now : Time) (peek : Bool)
    (ks : List Key) (h : Inv now s) :
    Inv now (c.findManyA s now peek ks).1 ∧
    ARun fl cap (abs s) ((c.findManyA s now peek ks).2.2.map (fun x => (now, x))) (abs (c.findManyA s now peek ks).1) := by
  induction ks generalizing s with
  | nil => exact ⟨h, .nil _⟩
  | cons k ks ih =>
    have h1 := R.find1 s now k peek h
    have h2 := ih (c.find1 s now k peek).1 h1.1
    simp only [Core.findManyA, List.map_cons]
    exact ⟨h2.1, .cons h1.2 h2.2⟩

theorem Refines.eraseManyA (R : Refines c fl cap Inv abs) (s : σ) (now : Time)
    (ks : List Key) (h : Inv now s) :
    Inv now (c.eraseManyA s ks).1 ∧
    ARun fl cap (abs s) ((c.eraseManyA s ks).2.2.map (fun x => (now, x))) (abs (c.eraseManyA s ks).1) := by
  induction ks generalizing s with
  | nil => exact ⟨h, .nil _⟩
  | cons k ks ih =>
    have h1 := R.erase1 s now k h
    have h2 := ih (c.erase1 s k).1 h1.1
    simp only [Core.eraseManyA, List.map_cons]
    exact ⟨h2.1, .cons h1.2 h2.2⟩

/-- every public call is a run of the reference semantics and keeps the invariant -/
theorem Refines.stepA (R : Refines c fl cap Inv abs) (s : σ) (now : Time) (op : Op) (h : Inv now s) :
    Inv now (c.stepA s now op).1 ∧
    ARun fl cap (abs s) ((c.stepA s now op).2.2.map (fun x => (now, x))) (abs (c.stepA s now op).1) := by
  have hp := R.pre s now h
  cases op with
  | insert k v a ttl =>
    have h1 := R.insert1 (c.pre s now) now k v a ttl hp.1
    exact ⟨h1.1, .cons hp.2 (.single h1.2)⟩
  | insertRange xs a =>
    have h1 := R.insertManyA (c.pre s now) now a xs hp.1
    exact ⟨h1.1, .cons hp.2 h1.2⟩
  | find k peek =>
    have h1 := R.find1 (c.pre s now) now k peek hp.1
    exact ⟨h1.1, .cons hp.2 (.single h1.2)⟩
  | findRange ks peek =>
    have h1 := R.findManyA (c.pre s now) now peek ks hp.1
    exact ⟨h1.1, .cons hp.2 h1.2⟩
  | findCount k peek =>
    have h1 := R.find1 (c.pre s now) now k peek hp.1
    exact ⟨h1.1, .cons hp.2 (.single h1.2)⟩
  | erase k =>
    have h1 := R.erase1 (c.pre s now) now k hp.1
    exact ⟨h1.1, .cons hp.2 (.single h1.2)⟩
  | eraseRange ks =>
    have h1 := R.eraseManyA (c.pre s now) now ks hp.1
    exact ⟨h1.1, .cons hp.2 h1.2⟩
  | clear =>
    simp only [Core.stepA]
    by_cases hc : c.hasClear = true
    · have h1 := R.clear s now hc h
      simp only [hc, if_true]
      exact ⟨h1.1, .single h1.2⟩
    · simp only [hc, Bool.false_eq_true, if_false]
      exact ⟨h, .nil _⟩
  | clean =>
    have h1 := R.clean s now h
    exact ⟨h1.1, .single h1.2⟩
  | age =>
    have h1 := R.age s now h
    refine ⟨h1.1, .single ?_⟩
    simp only [Core.stepA, AStep]; exact h1.2
  | updateTtl t =>
    have h1 := R.updateTtl s now t h
    refine ⟨h1.1, .single ?_⟩
    simp only [Core.stepA, AStep]; exact h1.2
  | size =>
    refine ⟨h, .single ?_⟩
    simp only [Core.stepA, AStep, and_true]; exact R.size s now h
  | empty =>
    refine ⟨h, .single ?_⟩
    simp only [Core.stepA, AStep, and_true]; rw [R.size s now h]
  | capacity =>
    refine ⟨h, .single ?_⟩
    simp only [Core.stepA, AStep, and_true]; exact fun hne => R.capacity s now h hne

/-- every history (clock readings non-decreasing) is a run of the reference semantics -/
theorem Refines.runA (R : Refines c fl cap Inv abs) (s : σ) (t : Time) (ops : List (Time × Op))
    (h : Inv t s) (ht : TimesFrom t ops) :
    (∃ t', Inv t' (c.runA s ops).1) ∧ ARun fl cap (abs s) (c.runA s ops).2.2 (abs (c.runA s ops).1) := by
  induction ops generalizing s t with
  | nil => exact ⟨⟨t, h⟩, .nil _⟩
  | cons x rest ih =>
    obtain ⟨t1, op⟩ := x
    simp only [TimesFrom] at ht
    have h1 := R.stepA s t1 op (R.mono s t t1 h ht.1)
    have h2 := ih (c.stepA s t1 op).1 t1 h1.1 ht.2
    simp only [Core.runA]
    exact ⟨h2.1, h1.2.append h2.2⟩

end lift
end Verif
