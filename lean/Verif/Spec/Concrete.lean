import Verif.Spec.Lift
/-!
# Atom-level runs of a container model (concrete states), and their link to the reference semantics

`CStep c s now x s'`: the model `c` performs the single atom `x` at clock reading `now`, going from
`s` to `s'`.  `CRun` chains them.  `runA_crun`: the atom trace `Core.runA` attaches to a history is
such a run — this is what lets a per-primitive invariant be lifted to every point of every history
(`CRun.invariant`), with the concrete states in hand.  `Refines.cstep`: each `CStep` is an `AStep`
on the abstraction.
-/
namespace Verif
open Verif.Spec

inductive CStep {σ : Type} (c : Core σ) : σ → Time → Atom → σ → Prop
  | pre (s : σ) (now : Time) : CStep c s now .pre (c.pre s now)
  | ins (s : σ) (now : Time) (k : Key) (v : Val) (a : Allow) (ttl : Nat) :
      CStep c s now (.ins k v a (c.dlOf s now ttl) (c.insert1 s now k v a ttl).2) (c.insert1 s now k v a ttl).1
  | look (s : σ) (now : Time) (k : Key) (peek : Bool) :
      CStep c s now (.look k peek (c.find1 s now k peek).2) (c.find1 s now k peek).1
  | del (s : σ) (now : Time) (k : Key) : CStep c s now (.del k (c.erase1 s k).2) (c.erase1 s k).1
  | clear (s : σ) (now : Time) (h : c.hasClear = true) : CStep c s now .clear (c.clear s)
  | reap (s : σ) (now : Time) : CStep c s now (.reap (c.clean s now).2) (c.clean s now).1
  | age (s : σ) (now : Time) : CStep c s now (.age (c.age s now).2) (c.age s now).1
  | setTtl (s : σ) (now : Time) (t : Nat) : CStep c s now (.setTtl t) (c.updateTtl s t)
  | obsSize (s : σ) (now : Time) : CStep c s now (.obsSize (c.size s)) s
  | obsEmpty (s : σ) (now : Time) : CStep c s now (.obsEmpty (c.size s == 0)) s
  | obsCap (s : σ) (now : Time) : CStep c s now (.obsCap (c.capacity s)) s

/-- a trace annotated with the model state each atom started from -/
abbrev STrace (σ : Type) := List (σ × Time × Atom)

/-- the plain timed atoms of an annotated trace -/
def STrace.atoms {σ : Type} (tr : STrace σ) : List (Time × Atom) := tr.map (·.2)

@[simp] theorem STrace.atoms_nil {σ : Type} : STrace.atoms ([] : STrace σ) = [] := rfl
@[simp] theorem STrace.atoms_cons {σ : Type} (x : σ × Time × Atom) (tr : STrace σ) :
    STrace.atoms (x :: tr) = x.2 :: STrace.atoms tr := rfl
@[simp] theorem STrace.atoms_append {σ : Type} (p q : STrace σ) :
    STrace.atoms (p ++ q) = STrace.atoms p ++ STrace.atoms q := by simp [STrace.atoms]

inductive CRun {σ : Type} (c : Core σ) : σ → STrace σ → σ → Prop
  | nil (s : σ) : CRun c s [] s
  | cons {s s1 s2 : σ} {now : Time} {x : Atom} {tr : STrace σ} :
      CStep c s now x s1 → CRun c s1 tr s2 → CRun c s ((s, now, x) :: tr) s2

namespace CRun
variable {σ : Type} {c : Core σ}

theorem append {s1 s2 s3 : σ} {p q : STrace σ} (h1 : CRun c s1 p s2) (h2 : CRun c s2 q s3) :
    CRun c s1 (p ++ q) s3 := by
  induction h1 with
  | nil => simpa using h2
  | cons hs _ ih => exact .cons hs (ih h2)

theorem split {s1 s3 : σ} {p q : STrace σ} (h : CRun c s1 (p ++ q) s3) :
    ∃ s2, CRun c s1 p s2 ∧ CRun c s2 q s3 := by
  induction p generalizing s1 with
  | nil => exact ⟨s1, .nil s1, by simpa using h⟩
  | cons x p ih =>
    cases h with
    | cons hs hr =>
      obtain ⟨s2, h1, h2⟩ := ih hr
      exact ⟨s2, .cons hs h1, h2⟩

theorem single {s s' : σ} {now : Time} {x : Atom} (h : CStep c s now x s') : CRun c s [(s, now, x)] s' :=
  .cons h (.nil s')

/-- the step at a split point: the annotation is the state the run had reached -/
theorem step_at {s0 s3 : σ} {p q : STrace σ} {s : σ} {now : Time} {x : Atom}
    (h : CRun c s0 (p ++ (s, now, x) :: q) s3) :
    CRun c s0 p s ∧ ∃ s', CStep c s now x s' ∧ CRun c s' q s3 := by
  obtain ⟨s2, h1, h2⟩ := h.split
  cases h2 with
  | cons hs hr => exact ⟨h1, _, hs, hr⟩

/-- A predicate on (annotated history so far, state) that every atom preserves holds along every run. -/
theorem invariant {P : STrace σ → σ → Prop} {s0 s : σ} {pre tr : STrace σ}
    (hstep : ∀ p s now x s', P p s → CStep c s now x s' → P (p ++ [(s, now, x)]) s')
    (h0 : P pre s0) (hr : CRun c s0 tr s) : P (pre ++ tr) s := by
  induction hr generalizing pre with
  | nil => simpa using h0
  | cons hs _ ih =>
    have := ih (hstep _ _ _ _ _ h0 hs)
    simpa [List.append_assoc] using this

end CRun

namespace Core
variable {σ : Type} (c : Core σ)

theorem insertManyA_crun (s : σ) (now : Time) (a : Allow) (xs : List (Key × Val × Nat)) :
    ∃ tr, CRun c s tr (c.insertManyA s now a xs).1 ∧
      tr.atoms = (c.insertManyA s now a xs).2.2.map (fun x => (now, x)) := by
  induction xs generalizing s with
  | nil => exact ⟨[], .nil _, rfl⟩
  | cons x xs ih =>
    obtain ⟨k, v, ttl⟩ := x
    obtain ⟨tr, h1, h2⟩ := ih (c.insert1 s now k v a ttl).1
    refine ⟨(s, now, _) :: tr, .cons (.ins s now k v a ttl) h1, ?_⟩
    simp only [insertManyA, List.map_cons, STrace.atoms_cons, h2]

theorem findManyA_crun (s : σ) (now : Time) (peek : Bool) (ks : List Key) :
    ∃ tr, CRun c s tr (c.findManyA s now peek ks).1 ∧
      tr.atoms = (c.findManyA s now peek ks).2.2.map (fun x => (now, x)) := by
  induction ks generalizing s with
  | nil => exact ⟨[], .nil _, rfl⟩
  | cons k ks ih =>
    obtain ⟨tr, h1, h2⟩ := ih (c.find1 s now k peek).1
    refine ⟨(s, now, _) :: tr, .cons (.look s now k peek) h1, ?_⟩
    simp only [findManyA, List.map_cons, STrace.atoms_cons, h2]

theorem eraseManyA_crun (s : σ) (now : Time) (ks : List Key) :
    ∃ tr, CRun c s tr (c.eraseManyA s ks).1 ∧
      tr.atoms = (c.eraseManyA s ks).2.2.map (fun x => (now, x)) := by
  induction ks generalizing s with
  | nil => exact ⟨[], .nil _, rfl⟩
  | cons k ks ih =>
    obtain ⟨tr, h1, h2⟩ := ih (c.erase1 s k).1
    refine ⟨(s, now, _) :: tr, .cons (.del s now k) h1, ?_⟩
    simp only [eraseManyA, List.map_cons, STrace.atoms_cons, h2]

theorem stepA_crun (s : σ) (now : Time) (op : Op) :
    ∃ tr, CRun c s tr (c.stepA s now op).1 ∧ tr.atoms = (c.stepA s now op).2.2.map (fun x => (now, x)) := by
  cases op with
  | insert k v a ttl =>
    exact ⟨_, .cons (.pre s now) (.single (.ins _ now k v a ttl)), rfl⟩
  | insertRange xs a =>
    obtain ⟨tr, h1, h2⟩ := c.insertManyA_crun (c.pre s now) now a xs
    exact ⟨_, .cons (.pre s now) h1, by simp only [stepA, List.map_cons, STrace.atoms_cons, h2]⟩
  | find k peek => exact ⟨_, .cons (.pre s now) (.single (.look _ now k peek)), rfl⟩
  | findRange ks peek =>
    obtain ⟨tr, h1, h2⟩ := c.findManyA_crun (c.pre s now) now peek ks
    exact ⟨_, .cons (.pre s now) h1, by simp only [stepA, List.map_cons, STrace.atoms_cons, h2]⟩
  | findCount k peek => exact ⟨_, .cons (.pre s now) (.single (.look _ now k peek)), rfl⟩
  | erase k => exact ⟨_, .cons (.pre s now) (.single (.del _ now k)), rfl⟩
  | eraseRange ks =>
    obtain ⟨tr, h1, h2⟩ := c.eraseManyA_crun (c.pre s now) now ks
    exact ⟨_, .cons (.pre s now) h1, by simp only [stepA, List.map_cons, STrace.atoms_cons, h2]⟩
  | clear =>
    simp only [stepA]
    by_cases hc : c.hasClear = true
    · simp only [hc, if_true]; exact ⟨_, .single (.clear s now hc), rfl⟩
    · simp only [hc, Bool.false_eq_true, if_false]; exact ⟨[], .nil _, rfl⟩
  | clean => exact ⟨_, .single (.reap s now), rfl⟩
  | age => exact ⟨_, .single (.age s now), rfl⟩
  | updateTtl t => exact ⟨_, .single (.setTtl s now t), rfl⟩
  | size => exact ⟨_, .single (.obsSize s now), rfl⟩
  | empty => exact ⟨_, .single (.obsEmpty s now), rfl⟩
  | capacity => exact ⟨_, .single (.obsCap s now), rfl⟩

/-- the atom trace of a history is an atom-level run of the model -/
theorem runA_crun (s : σ) (ops : List (Time × Op)) :
    ∃ tr, CRun c s tr (c.runA s ops).1 ∧ tr.atoms = (c.runA s ops).2.2 := by
  induction ops generalizing s with
  | nil => exact ⟨[], .nil _, rfl⟩
  | cons x rest ih =>
    obtain ⟨t, op⟩ := x
    obtain ⟨tr1, h1, e1⟩ := c.stepA_crun s t op
    obtain ⟨tr2, h2, e2⟩ := ih (c.stepA s t op).1
    exact ⟨tr1 ++ tr2, h1.append h2, by simp only [runA, STrace.atoms_append, e1, e2]⟩

/-- the clock readings of the atoms of a history are those of its calls: non-decreasing if they are -/
theorem runA_times_from (s : σ) (ops : List (Time × Op)) (t0 : Time) (ht : TimesFrom t0 ops) :
    ∀ x ∈ (c.runA s ops).2.2, t0 ≤ x.1 := by
  induction ops generalizing s t0 with
  | nil => intro x hx; simp [runA] at hx
  | cons y rest ih =>
    obtain ⟨t, op⟩ := y
    simp only [TimesFrom] at ht
    intro x hx
    simp only [runA, List.mem_append, List.mem_map] at hx
    rcases hx with ⟨a, _, rfl⟩ | hx
    · exact ht.1
    · exact Nat.le_trans ht.1 (ih _ t ht.2 x hx)

end Core

section
variable {σ : Type} {c : Core σ} {fl : Flavor} {cap : Nat} {Inv : Time → σ → Prop} {abs : σ → A}

/-- each atom-level step of the model is a step of the reference semantics on the abstraction -/
theorem Refines.cstep (R : Refines c fl cap Inv abs) {s s' : σ} {now : Time} {x : Atom}
    (h : Inv now s) (hs : CStep c s now x s') : Inv now s' ∧ AStep fl cap (abs s) now x (abs s') := by
  cases hs with
  | pre => exact R.pre s now h
  | ins k v a ttl => exact R.insert1 s now k v a ttl h
  | look k peek => exact R.find1 s now k peek h
  | del k => exact R.erase1 s now k h
  | clear hc => exact R.clear s now hc h
  | reap => exact R.clean s now h
  | age =>
    have := R.age s now h
    exact ⟨this.1, by simp only [AStep]; exact this.2⟩
  | setTtl t =>
    have := R.updateTtl s now t h
    exact ⟨this.1, by simp only [AStep]; exact this.2⟩
  | obsSize => exact ⟨h, by simp only [AStep, and_true]; exact R.size s now h⟩
  | obsEmpty => exact ⟨h, by simp only [AStep, and_true]; rw [R.size s now h]⟩
  | obsCap => exact ⟨h, by simp only [AStep, and_true]; exact fun hne => R.capacity s now h hne⟩

end
end Verif
