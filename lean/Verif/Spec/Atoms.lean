import Verif.Spec.Abstract
/-!
# Instrumented public step: the atoms a call performs, and refinement of a model to the reference semantics

`Core.stepA` is `Core.step` that also returns the atoms the call performed (`stepA_eq` : same state,
same output).  `Refines` bundles, for one container model, the per-primitive facts "this primitive
is an `AStep` on the abstraction and keeps the invariant"; `stepA_arun` / `runA_arun` lift them to
every public call and every history.
-/
namespace Verif
open Verif.Spec

namespace Core
variable {σ : Type} (c : Core σ)

def insertManyA (s : σ) (now : Time) (a : Allow) : List (Key × Val × Nat) → σ × Nat × List Atom
  | [] => (s, 0, [])
  | (k, v, ttl) :: xs =>
    let r := c.insert1 s now k v a ttl
    let r' := insertManyA r.1 now a xs
    (r'.1, (if r.2 then 1 else 0) + r'.2.1, .ins k v a (c.dlOf s now ttl) r.2 :: r'.2.2)

def findManyA (s : σ) (now : Time) (peek : Bool) : List Key → σ × List (Option Val) × List Atom
  | [] => (s, [], [])
  | k :: ks =>
    let r := c.find1 s now k peek
    let r' := findManyA r.1 now peek ks
    (r'.1, r.2.map (·.1) :: r'.2.1, .look k peek r.2 :: r'.2.2)

def eraseManyA (s : σ) : List Key → σ × Nat × List Atom
  | [] => (s, 0, [])
  | k :: ks =>
    let r := c.erase1 s k
    let r' := eraseManyA r.1 ks
    (r'.1, (if r.2 then 1 else 0) + r'.2.1, .del k r.2 :: r'.2.2)

/-- `step`, also returning the atoms performed -/
def stepA (s : σ) (now : Time) : Op → σ × Out × List Atom
  | .insert k v a ttl =>
    let s0 := c.pre s now
    let r := c.insert1 s0 now k v a ttl
    (r.1, .bool r.2, [.pre, .ins k v a (c.dlOf s0 now ttl) r.2])
  | .insertRange xs a =>
    let r := c.insertManyA (c.pre s now) now a xs
    (r.1, .nat r.2.1, .pre :: r.2.2)
  | .find k peek =>
    let r := c.find1 (c.pre s now) now k peek
    (r.1, .opt (r.2.map (·.1)), [.pre, .look k peek r.2])
  | .findRange ks peek =>
    let r := c.findManyA (c.pre s now) now peek ks
    (r.1, .opts r.2.1, .pre :: r.2.2)
  | .findCount k peek =>
    let r := c.find1 (c.pre s now) now k peek
    (r.1, .optc r.2, [.pre, .look k peek r.2])
  | .erase k =>
    let r := c.erase1 (c.pre s now) k
    (r.1, .bool r.2, [.pre, .del k r.2])
  | .eraseRange ks =>
    let r := c.eraseManyA (c.pre s now) ks
    (r.1, .nat r.2.1, .pre :: r.2.2)
  | .clear => if c.hasClear then (c.clear s, .unit, [.clear]) else (s, .unit, [])
  | .clean =>
    let r := c.clean s now
    (r.1, .nat r.2, [.reap r.2])
  | .age =>
    let r := c.age s now
    (r.1, .nat r.2, [.age r.2])
  | .updateTtl t => (c.updateTtl s t, .unit, [.setTtl t])
  | .size => (s, .nat (c.size s), [.obsSize (c.size s)])
  | .empty => (s, .bool (c.size s == 0), [.obsEmpty (c.size s == 0)])
  | .capacity => (s, .nat (c.capacity s), [.obsCap (c.capacity s)])

/-- a history with its timed atoms -/
def runA (s : σ) : List (Time × Op) → σ × List Out × List (Time × Atom)
  | [] => (s, [], [])
  | (t, op) :: rest =>
    let r := c.stepA s t op
    let r' := runA r.1 rest
    (r'.1, r.2.1 :: r'.2.1, r.2.2.map (fun a => (t, a)) ++ r'.2.2)

end Core

/-- clock readings along a history never decrease (`steady_clock`), starting no earlier than `t` -/
def TimesFrom (t : Time) : List (Time × Op) → Prop
  | [] => True
  | (t', _) :: rest => t ≤ t' ∧ TimesFrom t' rest

/-- One container model refines the reference semantics of flavor `fl`:
every primitive, executed at a clock reading `now` for which the invariant holds, is an `AStep` on
`abs` and keeps the invariant.  The invariant is indexed by the latest clock reading so far
(`mono`: it survives the clock moving forward); only ut_map/ut_set use the index (their ttl list is
sorted by deadline because the clock never goes back).  `cap` is the (constant) capacity. -/
structure Refines {σ : Type} (c : Core σ) (fl : Flavor) (cap : Nat) (Inv : Time → σ → Prop) (abs : σ → A) : Prop where
  mono : ∀ s t t', Inv t s → t ≤ t' → Inv t' s
  pre : ∀ s now, Inv now s → Inv now (c.pre s now) ∧ AStep fl cap (abs s) now .pre (abs (c.pre s now))
  insert1 : ∀ s now k v a ttl, Inv now s →
    Inv now (c.insert1 s now k v a ttl).1 ∧
    AStep fl cap (abs s) now (.ins k v a (c.dlOf s now ttl) (c.insert1 s now k v a ttl).2)
      (abs (c.insert1 s now k v a ttl).1)
  find1 : ∀ s now k peek, Inv now s →
    Inv now (c.find1 s now k peek).1 ∧
    AStep fl cap (abs s) now (.look k peek (c.find1 s now k peek).2) (abs (c.find1 s now k peek).1)
  erase1 : ∀ s now k, Inv now s →
    Inv now (c.erase1 s k).1 ∧ AStep fl cap (abs s) now (.del k (c.erase1 s k).2) (abs (c.erase1 s k).1)
  clear : ∀ s now, c.hasClear = true → Inv now s →
    Inv now (c.clear s) ∧ AStep fl cap (abs s) now .clear (abs (c.clear s))
  clean : ∀ s now, Inv now s →
    Inv now (c.clean s now).1 ∧ AStep fl cap (abs s) now (.reap (c.clean s now).2) (abs (c.clean s now).1)
  age : ∀ s now, Inv now s → Inv now (c.age s now).1 ∧ abs (c.age s now).1 = abs s
  updateTtl : ∀ s now t, Inv now s → Inv now (c.updateTtl s t) ∧ abs (c.updateTtl s t) = abs s
  size : ∀ s now, Inv now s → c.size s = (abs s).size
  capacity : ∀ s now, Inv now s → fl ≠ .eager → c.capacity s = cap

end Verif
