import Verif.Conc.Guarded
import Verif.Conc.Atomic
import Verif.Generated.LockShape
import Verif.Conc.WrapperTable
/-!
# C07 at the generated table: every public method is `guarded`, hence no data race

`guarded` is weaker than `wellLocked` (several critical sections, locks taken inside loops are fine as
long as every access to mutable state is inside one), so a change that only splits a critical section
breaks C06's obligation (`Table.lean`) and not this one.  The table is `Generated.race`: the generated
table without the accesses to members of `std::atomic` type (`Conc/Atomic.lean`), which cannot race by
definition.
-/
namespace Verif.Conc

/-- the generated table without the accesses to `std::atomic` members -/
def Generated.race : List Method := raceTable Generated.table Generated.atomicComps

/-- re-checked on every run against the table regenerated from /repo's current headers -/
theorem table_guarded : ∀ m ∈ Generated.race, m.guarded Generated.race = true := by decide +kernel

theorem table_guarded_classes :
    ((List.range 10).all (fun c => Generated.race.any (fun m => m.cls == c))) = true ∧
    Generated.race.length = Generated.table.length := by decide +kernel

theorem generated_guarded (cls : Nat) : ∀ m ∈ Generated.race, m.cls = cls → m.guarded Generated.race = true :=
  fun m hm _ => table_guarded m hm

/-- for every class: an access to mutable state is made by the lock holder -/
theorem generated_guarded_access_under_lock (cls : Nat) {s : State} (hr : Reachable Generated.race cls s)
    {t : Tid} {c : Nat} (hnext : s.next t = some (.rd c) ∨ s.next t = some (.wr c))
    (hc : c ∈ mutableOf Generated.race cls) : s.lock = some t :=
  guarded_access_under_lock (generated_guarded cls) hr hnext hc

/-- for every class: no reachable state has two threads with conflicting enabled accesses -/
theorem generated_guarded_race_free (cls : Nat) {s : State} (hr : Reachable Generated.race cls s)
    {t u : Tid} (htu : t ≠ u) {a b : Tok} (ha : s.next t = some a) (hb : s.next u = some b) :
    ¬ conflict a b :=
  guarded_race_free (generated_guarded cls) hr htu ha hb

/-- for every class: conflicting accesses of different threads are ordered by release/acquire -/
theorem generated_guarded_happens_before (cls : Nat) {s : State} {tr1 tr2 tr3 : List (Tid × Ev)}
    {t u : Tid} {a b : Tok}
    (hex : Exec Generated.race cls State.init (tr1 ++ (t, .tok a) :: (tr2 ++ (u, .tok b) :: tr3)) s)
    (htu : t ≠ u) (hab : conflict a b) :
    ∃ p q r, tr2 = p ++ (t, .tok .rel) :: (q ++ (u, .tok .acq) :: r) :=
  guarded_happens_before (generated_guarded cls) hex htu hab

end Verif.Conc
