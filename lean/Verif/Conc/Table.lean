import Verif.Conc.Shape
import Verif.Generated.LockShape
import Verif.Conc.WrapperTable
/-!
# The proof obligation over the generated table: every public method of every container is WellLocked
-/
namespace Verif.Conc

/-- re-checked on every run against the table regenerated from /repo's current headers -/
theorem table_wellLocked : ∀ m ∈ Generated.table, m.wellLocked Generated.table = true := by decide +kernel

/-- the table is not empty: all ten classes are present -/
theorem table_classes :
    ((List.range 10).all (fun c => Generated.table.any (fun m => m.cls == c))) = true ∧
    Generated.clsNames.length = 10 := by
  decide +kernel

end Verif.Conc
