import Verif.Conc.RaceFree
/-!
# Clock readings under the lock (ut_map / ut_set)

The sequential theorems about ut_map / ut_set assume that the clock readings of successive calls never
decrease (their ttl list is sorted by deadline only because of that).  With `thread_safe::yes` the
"successive calls" are the critical sections in lock order, so the assumption is met iff each call
samples `steady_clock::now()` *while holding the lock*: then the order of the readings is the order of
the critical sections and `steady_clock` is monotone.  (tlru / utlru / lfuda sample the clock before
taking the lock; their theorems do not need monotone readings, see `Properties.lean`.)

`Method.clockInside`: a well-locked method none of whose clock readings lies before the acquire or
after the release.  `clock_under_lock`: in every reachable state of the machine of `RaceFree.lean`, a
thread about to read the clock holds the lock.  `clock_order`: two clock readings by different threads
are separated by a release of the first and an acquire of the second.
-/
namespace Verif.Conc

mutual
def hasClock : List Tok → Bool
  | [] => false
  | t :: ts => hasClockTok t || hasClock ts
def hasClockTok : Tok → Bool
  | .clock => true
  | .loop b => hasClock b
  | _ => false
end

/-- the method is well locked and reads the clock, if at all, inside its critical section only -/
def Method.clockInside (table : List Method) (m : Method) : Bool :=
  m.wellLocked table &&
  (match splitCS m.body with
   | some (pre, _, post) => !hasClock pre && !hasClock post
   | none => !hasClock m.body)

/-! ## Equation lemmas for `hasClock` -/

theorem hasClock_nil : hasClock [] = false := by simp only [hasClock]
theorem hasClock_cons (x : Tok) (k : List Tok) :
    hasClock (x :: k) = (hasClockTok x || hasClock k) := by simp only [hasClock]
theorem hasClockTok_loop (b : List Tok) : hasClockTok (.loop b) = hasClock b := by
  simp only [hasClockTok]
theorem hasClockTok_clock : hasClockTok .clock = true := by simp only [hasClockTok]

theorem hasClock_append (a b : List Tok) : hasClock (a ++ b) = (hasClock a || hasClock b) := by
  induction a with
  | nil => simp [hasClock_nil]
  | cons x a ih => simp [hasClock_cons, ih, Bool.or_assoc]

/-! ## A second, lock-independent invariant: where the clock readings of a continuation may be -/

/-- the continuation of a running thread: clock-free (a method without critical section, or the part
after the release); or before its acquire with no clock reading before the acquire or after the
release; or inside its critical section (next lock operation is the release) with no clock reading
after the release -/
inductive CPhase : List Tok → Prop
  | free {k : List Tok} (h : hasClock k = false) : CPhase k
  | before {k pre body post : List Tok} (heq : k = pre ++ .acq :: (body ++ .rel :: post))
      (hpl : hasLock pre = false) (hpc : hasClock pre = false) (hbl : hasLock body = false)
      (hpost : hasClock post = false) : CPhase k
  | inside {k body post : List Tok} (heq : k = body ++ .rel :: post) (hbl : hasLock body = false)
      (hpost : hasClock post = false) : CPhase k

/-- executing any token, or leaving a loop -/
theorem CPhase.tail {x : Tok} {k : List Tok} (h : CPhase (x :: k)) : CPhase k := by
  cases h with
  | free h => rw [hasClock_cons, Bool.or_eq_false_iff] at h; exact .free h.2
  | before heq hpl hpc hbl hpost =>
    rename_i pre body post
    cases pre with
    | nil => simp at heq; exact .inside heq.2 hbl hpost
    | cons a pre' =>
      simp at heq
      obtain ⟨rfl, rfl⟩ := heq
      rw [hasLock_cons, Bool.or_eq_false_iff] at hpl
      rw [hasClock_cons, Bool.or_eq_false_iff] at hpc
      exact .before rfl hpl.2 hpc.2 hbl hpost
  | inside heq hbl hpost =>
    rename_i body post
    cases body with
    | nil => simp at heq; obtain ⟨_, rfl⟩ := heq; exact .free hpost
    | cons a body' =>
      simp at heq
      obtain ⟨rfl, rfl⟩ := heq
      rw [hasLock_cons, Bool.or_eq_false_iff] at hbl
      exact .inside rfl hbl.2 hpost

/-- unfolding a loop once -/
theorem CPhase.iter {b k : List Tok} (h : CPhase (.loop b :: k)) :
    CPhase (b ++ .loop b :: k) := by
  cases h with
  | free h =>
    have h' := h
    rw [hasClock_cons, Bool.or_eq_false_iff, hasClockTok_loop] at h'
    refine .free ?_
    rw [hasClock_append, h'.1, h]; rfl
  | before heq hpl hpc hbl hpost =>
    rename_i pre body post
    cases pre with
    | nil => simp at heq
    | cons a pre' =>
      simp at heq
      obtain ⟨rfl, rfl⟩ := heq
      have hpl' := hpl
      have hpc' := hpc
      rw [hasLock_cons, Bool.or_eq_false_iff, hasLockTok_loop] at hpl'
      rw [hasClock_cons, Bool.or_eq_false_iff, hasClockTok_loop] at hpc'
      refine .before (pre := b ++ .loop b :: pre') (by simp) ?_ ?_ hbl hpost
      · rw [hasLock_append, hpl'.1, hpl]; rfl
      · rw [hasClock_append, hpc'.1, hpc]; rfl
  | inside heq hbl hpost =>
    rename_i body post
    cases body with
    | nil => simp at heq
    | cons a body' =>
      simp at heq
      obtain ⟨rfl, rfl⟩ := heq
      have hbl' := hbl
      rw [hasLock_cons, Bool.or_eq_false_iff, hasLockTok_loop] at hbl'
      refine .inside (body := b ++ .loop b :: body') (by simp) ?_ hpost
      rw [hasLock_append, hbl'.1, hbl]; rfl

theorem Method.clockInside_wellLocked {table : List Method} {m : Method}
    (h : m.clockInside table = true) : m.wellLocked table = true := by
  unfold Method.clockInside at h
  rw [Bool.and_eq_true] at h
  exact h.1

/-- a freshly called `clockInside` method -/
theorem CPhase.ofClockInside {table : List Method} {m : Method}
    (h : m.clockInside table = true) : CPhase m.body := by
  have hwl := Method.clockInside_wellLocked h
  unfold Method.clockInside at h
  rw [Bool.and_eq_true] at h
  have h2 := h.2
  unfold Method.wellLocked at hwl
  simp only [Bool.or_eq_true] at hwl
  split at h2
  · rename_i pre body post hs
    have heq := splitCS_eq hs
    simp only [Bool.and_eq_true, Bool.not_eq_true'] at h2
    rcases hwl with hq | hq
    · have := quiet_hasLock hq
      rw [heq, hasLock_append, hasLock_cons, hasLockTok_acq] at this
      simp at this
    · rw [hs] at hq
      simp only [Bool.and_eq_true, Bool.not_eq_true'] at hq
      exact .before heq (quiet_hasLock hq.1.1.1) h2.1 hq.1.2 h2.2
  · simp only [Bool.not_eq_true'] at h2
    exact .free h2

/-- every running thread is in one of the three clock phases -/
def InvC (s : State) : Prop := ∀ t k, s.cont t = some k → CPhase k

theorem InvC.init : InvC State.init := by
  intro t k h; cases h

theorem InvC.update {s : State} {t : Tid} {v : Option (List Tok)} {l : Option Tid} (hinv : InvC s)
    (hv : ∀ k, v = some k → CPhase k) : InvC ⟨l, upd s.cont t v⟩ := by
  intro u k hk
  by_cases hut : u = t
  · subst hut; simp only [upd_same] at hk; exact hv k hk
  · simp only [upd_other _ _ hut] at hk; exact hinv u k hk

theorem InvC.advance {s : State} {t : Tid} {x : Tok} {k : List Tok} {l : Option Tid}
    (hinv : InvC s) (h : s.cont t = some (x :: k)) : InvC ⟨l, upd s.cont t (some k)⟩ := by
  refine hinv.update ?_
  intro k' hk'; cases hk'; exact (hinv t _ h).tail

theorem Step.invC {table : List Method} {cls : Nat}
    (hci : ∀ m ∈ table, m.cls = cls → m.clockInside table = true)
    {s s' : State} {t : Tid} {e : Ev} (hinv : InvC s) (hs : Step table cls s t e s') :
    InvC s' := by
  cases hs with
  | call m hidle hm hcls =>
    refine hinv.update ?_
    intro k hk; cases hk; exact CPhase.ofClockInside (hci m hm hcls)
  | ret h =>
    refine hinv.update ?_
    intro k hk; cases hk
  | clock h => exact hinv.advance h
  | rd h => exact hinv.advance h
  | wr h => exact hinv.advance h
  | unknown h => exact hinv.advance h
  | loopExit h => exact hinv.advance h
  | acq h hfree => exact hinv.advance h
  | rel h => exact hinv.advance h
  | loopIter h =>
    refine hinv.update ?_
    intro k' hk'; cases hk'; exact (hinv t _ h).iter

theorem Reachable.invC {table : List Method} {cls : Nat}
    (hci : ∀ m ∈ table, m.cls = cls → m.clockInside table = true)
    {s : State} (hr : Reachable table cls s) : InvC s := by
  induction hr with
  | init => exact InvC.init
  | step _ hs ih => exact Step.invC hci ih hs

/-- a continuation about to read the clock, in one of the three clock phases, is in a critical
section -/
theorem CPhase.clock_inCS {k : List Tok} (h : CPhase (.clock :: k)) : InCS (.clock :: k) := by
  cases h with
  | free h => rw [hasClock_cons, hasClockTok_clock] at h; cases h
  | before heq hpl hpc hbl hpost =>
    rename_i pre body post
    cases pre with
    | nil => simp at heq
    | cons a pre' =>
      simp at heq
      obtain ⟨rfl, rfl⟩ := heq
      rw [hasClock_cons, hasClockTok_clock] at hpc; cases hpc
  | inside heq hbl hpost => exact ⟨_, _, heq, hbl⟩

section
variable {table : List Method} {cls : Nat}

/-- **A thread about to read the clock holds the lock.** -/
theorem clock_under_lock (hci : ∀ m ∈ table, m.cls = cls → m.clockInside table = true)
    {s : State} (hr : Reachable table cls s) {t : Tid}
    (hnext : s.next t = some .clock) : s.lock = some t := by
  have hwl : ∀ m ∈ table, m.cls = cls → m.wellLocked table = true :=
    fun m hm hc => Method.clockInside_wellLocked (hci m hm hc)
  obtain ⟨k, hk⟩ := State.next_eq_some hnext
  exact (lock_iff_inCS hwl hr t).2 ⟨_, hk, (hr.invC hci t _ hk).clock_inCS⟩

/-- **Clock readings of different threads are ordered like their critical sections**: between a
reading by `t` and a later reading by `u ≠ t` there is a release by `t` and, after it, an acquire by
`u`. -/
theorem clock_order (hci : ∀ m ∈ table, m.cls = cls → m.clockInside table = true)
    {s : State} {tr1 tr2 tr3 : List (Tid × Ev)} {t u : Tid}
    (hex : Exec table cls State.init (tr1 ++ (t, .tok .clock) :: (tr2 ++ (u, .tok .clock) :: tr3)) s)
    (htu : t ≠ u) :
    ∃ p q r, tr2 = p ++ (t, .tok .rel) :: (q ++ (u, .tok .acq) :: r) := by
  have hwl : ∀ m ∈ table, m.cls = cls → m.wellLocked table = true :=
    fun m hm hc => Method.clockInside_wellLocked (hci m hm hc)
  obtain ⟨s1, h1, hrest⟩ := hex.split
  cases hrest with
  | cons hsa hrest =>
    rename_i s2
    obtain ⟨s3, h2, hrest⟩ := hrest.split
    cases hrest with
    | cons hsb hrest =>
      have hr1 : Reachable table cls s1 := h1.reachable .init
      have hr2 : Reachable table cls s2 := .step hr1 hsa
      have hr3 : Reachable table cls s3 := h2.reachable hr2
      have hl1 : s1.lock = some t := clock_under_lock hci hr1 hsa.tok_next
      have hl2 : s2.lock = some t := by
        rcases hsa.lock_cases with h | ⟨he, _⟩ | ⟨he, _⟩
        · exact h.trans hl1
        · cases he
        · cases he
      have hl3 : s3.lock = some u := clock_under_lock hci hr3 hsb.tok_next
      exact h2.handover hwl (hr2.inv hwl) htu hl2 hl3

end

/-- non-vacuity: a method shaped like `ut_map::insert` qualifies, one shaped like `tlru_cache::insert`
(clock before the acquire) does not -/
example :
    let tbl : List Method := [⟨0, "insert", [.acq, .clock, .rd 2, .wr 0, .loop [.wr 1], .rel]⟩,
                              ⟨0, "size", [.acq, .rd 0, .rel]⟩]
    (tbl.all (fun m => m.clockInside tbl)) = true := by decide
example :
    let tbl : List Method := [⟨0, "insert", [.clock, .acq, .wr 0, .rel]⟩]
    (tbl.all (fun m => m.clockInside tbl)) = false := by decide

end Verif.Conc
