import Verif.Conc.Shape
/-!
# Members of `std::atomic` type do not take part in data races (C07)

A data race, in the C++ memory model, is a pair of conflicting accesses to a *non-atomic* object that are
not ordered by happens-before.  The translator lists the components whose declared type is a `std::atomic`
(`Generated.atomicComps`); for C07 their accesses are taken out of the method shapes before the
`guarded` obligation is checked.  C06 keeps them: an atomic read of shared state outside the critical
section cannot race, but it can still observe a half-applied range.
-/
namespace Verif.Conc

mutual
/-- the token list without the accesses to the components `cs` -/
def dropComps (cs : List Nat) : List Tok → List Tok
  | [] => []
  | t :: ts => dropTok cs t ++ dropComps cs ts
def dropTok (cs : List Nat) : Tok → List Tok
  | .rd c => if cs.contains c then [] else [.rd c]
  | .wr c => if cs.contains c then [] else [.wr c]
  | .loop b => [.loop (dropComps cs b)]
  | t => [t]
end

def Method.dropComps (cs : List Nat) (m : Method) : Method := { m with body := Conc.dropComps cs m.body }

/-- the table C07 is decided on -/
def raceTable (table : List Method) (cs : List Nat) : List Method := table.map (Method.dropComps cs)

end Verif.Conc
