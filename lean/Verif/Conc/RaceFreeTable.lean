import Verif.Conc.RaceFree
import Verif.Conc.Table
/-!
# Data-race freedom of the ten containers: `RaceFree.lean` instantiated at the generated table

`table_wellLocked` (re-checked by `decide` against the regenerated table on every run) is the only
fact about the generated table that is used.
-/
namespace Verif.Conc

theorem generated_wellLocked (cls : Nat) :
    ∀ m ∈ Generated.table, m.cls = cls → m.wellLocked Generated.table = true :=
  fun m hm _ => table_wellLocked m hm

/-- for every class: an access to a mutable component is performed by the holder of the lock -/
theorem generated_access_under_lock (cls : Nat) {s : State}
    (hr : Reachable Generated.table cls s) {t : Tid} {c : Nat}
    (hnext : s.next t = some (.rd c) ∨ s.next t = some (.wr c))
    (hc : c ∈ mutableOf Generated.table cls) : s.lock = some t :=
  access_under_lock (generated_wellLocked cls) hr hnext hc

/-- for every class: no reachable state has two distinct threads about to perform conflicting
accesses (same component, at least one a write) -/
theorem generated_race_free (cls : Nat) {s : State} (hr : Reachable Generated.table cls s)
    {t u : Tid} (htu : t ≠ u) {a b : Tok} (ha : s.next t = some a) (hb : s.next u = some b) :
    ¬ conflict a b :=
  race_free (generated_wellLocked cls) hr htu ha hb

/-- for every class: critical sections do not overlap -/
theorem generated_cs_no_overlap (cls : Nat) {s : State} (hr : Reachable Generated.table cls s)
    {t u : Tid} (ht : s.inCS t) (hu : s.inCS u) : t = u :=
  cs_no_overlap (generated_wellLocked cls) hr ht hu

/-- for every class: a release is executed by the holder only -/
theorem generated_rel_by_holder (cls : Nat) {s : State} (hr : Reachable Generated.table cls s)
    {t : Tid} (hnext : s.next t = some .rel) : s.lock = some t :=
  rel_by_holder (generated_wellLocked cls) hr hnext

/-- for every class: conflicting accesses of different threads are ordered by release/acquire -/
theorem generated_happens_before (cls : Nat) {s : State} {tr1 tr2 tr3 : List (Tid × Ev)}
    {t u : Tid} {a b : Tok}
    (hex : Exec Generated.table cls State.init
      (tr1 ++ (t, .tok a) :: (tr2 ++ (u, .tok b) :: tr3)) s)
    (htu : t ≠ u) (hab : conflict a b) :
    ∃ p q r, tr2 = p ++ (t, .tok .rel) :: (q ++ (u, .tok .acq) :: r) :=
  happens_before (generated_wellLocked cls) hex htu hab

/-- each of the ten classes has methods in the table, so each instance talks about real calls -/
theorem generated_classes_nonempty :
    ((List.range 10).all (fun c => Generated.table.any (fun m => m.cls == c))) = true :=
  table_classes.1

end Verif.Conc
