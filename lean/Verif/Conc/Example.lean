import Verif.Conc.Linearizable
import Verif.Conc.WellFormed
/-! Non-vacuity: a concrete counter, a concrete overlapping two-thread execution of the
lock-protected implementation, and a concrete history that is *not* linearizable (so the
definition is not trivially true). -/
namespace Conc.Example
open Conc

inductive COp
  | incr   -- fetch-and-increment: returns the old value
  | read   -- returns the current value
  deriving DecidableEq

/-- sequential specification of a counter -/
def cstep (s : Nat) : COp → Nat × Nat
  | .incr => (s + 1, s)
  | .read => (s, s)

/-- the history of the run below: the two operations overlap -/
def hist : List (Ev COp Nat) := [.inv 0 .incr, .inv 1 .read, .res 1 1, .res 0 0]

/-- A concrete run of the implementation machine with two threads:
`inv 0 incr; inv 1 read; acquire 0; scribble 42; finish 0; release 0; acquire 1; finish 1;
release 1; res 1 1; res 0 0`.  Thread 1's `read` is invoked while thread 0 is active, waits
for the lock, sees the incremented counter and returns *before* thread 0 returns. -/
theorem hist_impl : ImplHistory cstep 0 hist := by
  have e0 : Exec (IStep cstep) (iInit 0) [] _ := Exec.refl
  have e1 := Exec.snoc e0 (IStep.inv _ 0 COp.incr rfl)
  have e2 := Exec.snoc e1 (IStep.inv _ 1 COp.read rfl)
  have e3 := Exec.snoc e2 (IStep.acquire _ 0 COp.incr rfl rfl)
  have e4 := Exec.snoc e3 (IStep.scribble _ 0 COp.incr 42 rfl rfl)
  have e5 := Exec.snoc e4 (IStep.finish _ 0 COp.incr rfl rfl)
  have e6 := Exec.snoc e5 (IStep.release _ 0 0 rfl rfl)
  have e7 := Exec.snoc e6 (IStep.acquire _ 1 COp.read rfl rfl)
  have e8 := Exec.snoc e7 (IStep.finish _ 1 COp.read rfl rfl)
  have e9 := Exec.snoc e8 (IStep.release _ 1 1 rfl rfl)
  have e10 := Exec.snoc e9 (IStep.res _ 1 1 rfl)
  have e11 := Exec.snoc e10 (IStep.res _ 0 0 rfl)
  exact ⟨_, e11⟩

/-- the main theorem applies to it -/
example : Linearizable cstep 0 hist := locked_object_linearizable hist_impl

example : WellFormed hist := impl_wellFormed hist_impl

/-- and here is an explicit linearization: `incr` (invoked at position 0) then `read`
(invoked at position 1) -/
example : IsLinearization cstep 0 hist [⟨0, 0, .incr, 0⟩, ⟨1, 1, .read, 1⟩] := by
  refine ⟨by simp [Legal, cstep], ?_, by simp, ?_, ?_, ?_⟩
  · intro x hx
    simp at hx
    rcases hx with rfl | rfl <;> rfl
  · intro i j t op out hi hr
    obtain ⟨hij, hj, _⟩ := hr
    have hjl := lt_length_of_getElem? hj
    simp [hist] at hjl
    have hj4 : j = 0 ∨ j = 1 ∨ j = 2 ∨ j = 3 := by omega
    rcases hj4 with rfl | rfl | rfl | rfl
    · omega
    · simp [hist] at hj
    · simp [hist] at hj
      obtain ⟨rfl, rfl⟩ := hj
      have hi3 : i = 0 ∨ i = 1 := by omega
      rcases hi3 with rfl | rfl <;> simp [hist] at hi
      obtain ⟨rfl⟩ := hi
      simp
    · simp [hist] at hj
      obtain ⟨rfl, rfl⟩ := hj
      have hi3 : i = 0 ∨ i = 1 ∨ i = 2 := by omega
      rcases hi3 with rfl | rfl | rfl <;> simp [hist] at hi
      obtain ⟨rfl⟩ := hi
      simp
  · intro a b ha hb htid hpos
    simp at ha hb
    rcases ha with rfl | rfl <;> rcases hb with rfl | rfl <;> simp at htid hpos
  · intro a b j out ha hb hr hjb
    simp at ha hb
    obtain ⟨hij, hj, _⟩ := hr
    rcases ha with rfl | rfl <;> rcases hb with rfl | rfl <;> simp at hij hjb <;> omega

/-! ### A history that is not linearizable

`incr` by thread 0 completes (returning 0) strictly before thread 1 invokes `read`, yet the
`read` returns 0.  Real-time order forces `incr` before `read`, and then `read` must see 1. -/
def badHist : List (Ev COp Nat) := [.inv 0 .incr, .res 0 0, .inv 1 .read, .res 1 0]

theorem badHist_not_linearizable : ¬ Linearizable cstep 0 badHist := by
  rintro ⟨lin, hlegal, hisInv, hnodup, hcomplete, _, hreal⟩
  let a : LinOp COp Nat := ⟨0, 0, .incr, 0⟩
  let b : LinOp COp Nat := ⟨2, 1, .read, 0⟩
  have hra : IsResponseOf badHist 0 1 0 0 := by
    refine ⟨by omega, rfl, ?_⟩
    intro k e h1 h2; omega
  have hrb : IsResponseOf badHist 2 3 1 0 := by
    refine ⟨by omega, rfl, ?_⟩
    intro k e h1 h2; omega
  have ha : a ∈ lin := hcomplete 0 1 0 .incr 0 rfl hra
  have hb : b ∈ lin := hcomplete 2 3 1 .read 0 rfl hrb
  obtain ⟨l1, l2, l3, rfl⟩ := hreal a b 1 0 ha hb hra (by show 1 < 2; omega)
  -- every entry of the linearization is `a` or `b` (positions 0 and 2 are the only invocations)
  have hpos : ∀ x ∈ l1 ++ a :: (l2 ++ b :: l3), x.pos = 0 ∨ x.pos = 2 := by
    intro x hx
    have h1 := hisInv x hx
    have hl := lt_length_of_getElem? h1
    simp [badHist] at hl
    have : x.pos = 0 ∨ x.pos = 1 ∨ x.pos = 2 ∨ x.pos = 3 := by omega
    rcases this with h | h | h | h
    · exact .inl h
    · rw [h] at h1; simp [badHist] at h1
    · exact .inr h
    · rw [h] at h1; simp [badHist] at h1
  have hnil : ∀ l : List (LinOp COp Nat),
      (∀ x ∈ l, x.pos = 0 ∨ x.pos = 2) → (∀ x ∈ l, x.pos ≠ 0 ∧ x.pos ≠ 2) → l = [] := by
    intro l h1 h2
    cases l with
    | nil => rfl
    | cons x r =>
      have := h1 x (by simp); have := h2 x (by simp); omega
  simp only [List.map_append, List.map_cons, List.nodup_append, List.nodup_cons,
    List.mem_append, List.mem_cons, List.mem_map] at hnodup
  have h1 : l1 = [] := by
    apply hnil l1 (fun x hx => hpos x (by simp [hx]))
    intro x hx
    have := hnodup.2.2 x.pos ⟨x, hx, rfl⟩
    exact ⟨fun h => this 0 (.inl rfl) h, fun h => this 2 (.inr (.inr (.inl rfl))) h⟩
  have h2 : l2 = [] := by
    apply hnil l2 (fun x hx => hpos x (by simp [hx]))
    intro x hx
    refine ⟨fun h => ?_, fun h => ?_⟩
    · exact hnodup.2.1.1 (.inl ⟨x, hx, h⟩)
    · exact hnodup.2.1.2.2.2 x.pos ⟨x, hx, rfl⟩ 2 (.inl rfl) h
  subst h1; subst h2
  simp [Legal, cstep, a, b] at hlegal

end Conc.Example

open Conc in
#print axioms impl_refines_spec
open Conc in
#print axioms spec_linearizable
open Conc in
#print axioms locked_object_linearizable
open Conc in
#print axioms impl_wellFormed
#print axioms Conc.Example.hist_impl
#print axioms Conc.Example.badHist_not_linearizable
