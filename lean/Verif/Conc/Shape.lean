/-!
# Lock shapes of public methods (what `tools/lockshape.py` extracts from the headers) and `WellLocked`

A method body is a sequence of tokens in source order (private helpers and calls of other public
methods of the same object inlined):

* `clock`     — a call of `steady_clock::now()`
* `acq`/`rel` — construction of a `std::lock_guard` on the object's mutex / end of its scope
* `rd c`/`wr c` — read / possible write of member component number `c` of `*this`
* `loop b`    — a loop whose body is `b`
* `unknown s` — something the translator did not understand
-/
namespace Verif.Conc

inductive Tok
  | clock
  | acq
  | rel
  | rd (c : Nat)
  | wr (c : Nat)
  | loop (body : List Tok)
  | unknown (s : String)
  deriving Repr, Inhabited

/-- `cls` and the component numbers inside `body` are indices into `clsNames` / `compNames` of the
generated file (numbers keep the `decide` cheap; the names are there for the reader) -/
structure Method where
  cls : Nat
  name : String
  body : List Tok
  deriving Repr, Inhabited

mutual
/-- components written anywhere in a token list -/
def written : List Tok → List Nat
  | [] => []
  | t :: ts => writtenTok t ++ written ts
def writtenTok : Tok → List Nat
  | .wr c => [c]
  | .loop b => written b
  | _ => []
end

mutual
/-- components accessed (read or written) -/
def accessed : List Tok → List Nat
  | [] => []
  | t :: ts => accessedTok t ++ accessed ts
def accessedTok : Tok → List Nat
  | .wr c => [c]
  | .rd c => [c]
  | .loop b => accessed b
  | _ => []
end

mutual
def hasLock : List Tok → Bool
  | [] => false
  | t :: ts => hasLockTok t || hasLock ts
def hasLockTok : Tok → Bool
  | .acq => true
  | .rel => true
  | .loop b => hasLock b
  | _ => false
end

mutual
def hasUnknown : List Tok → Bool
  | [] => false
  | t :: ts => hasUnknownTok t || hasUnknown ts
def hasUnknownTok : Tok → Bool
  | .unknown _ => true
  | .loop b => hasUnknown b
  | _ => false
end

/-- the components some method of class `cls` may write: the mutable shared state of that class -/
def mutableOf (table : List Method) (cls : Nat) : List Nat :=
  (table.filter (fun m => m.cls == cls)).flatMap (fun m => written m.body)

/-- a token list touches no mutable component and takes no lock (clock readings and reads of
construction-time constants only) -/
def quiet (mutc : List Nat) (ts : List Tok) : Bool :=
  !hasLock ts && !hasUnknown ts && (accessed ts).all (fun c => !mutc.contains c)

/-- Split at the first `acq` and the last `rel` on the top level: `pre ; acq ; body ; rel ; post`. -/
def splitCS (ts : List Tok) : Option (List Tok × List Tok × List Tok) :=
  let pre := ts.takeWhile (fun t => match t with | .acq => false | _ => true)
  let rest := ts.dropWhile (fun t => match t with | .acq => false | _ => true)
  match rest with
  | [] => none
  | _ :: afterAcq =>
    let rev := afterAcq.reverse
    let postR := rev.takeWhile (fun t => match t with | .rel => false | _ => true)
    let restR := rev.dropWhile (fun t => match t with | .rel => false | _ => true)
    match restR with
    | [] => none
    | _ :: bodyR => some (pre, bodyR.reverse, postR.reverse)

/-- **WellLocked**: either the method touches no mutable shared state at all, or it is
`quiet* ; acquire ; body ; release ; quiet*` with no lock operation and nothing unknown inside the
body — one critical section that contains every access to mutable shared state. -/
def Method.wellLocked (table : List Method) (m : Method) : Bool :=
  let mutc := mutableOf table m.cls
  quiet mutc m.body ||
  (match splitCS m.body with
   | some (pre, body, post) => quiet mutc pre && quiet mutc post && !hasLock body && !hasUnknown body
   | none => false)

end Verif.Conc
