import Verif.Conc.Shape
import Verif.Generated.LockShape
/-!
# The lock wrapper of `lock.hpp`, as read from the current headers (an obligation of C02, C06 and C07)
-/
namespace Verif.Conc

/-- `lock.hpp` as read from the current headers: `cappuccino::mutex<thread_safe::yes>::lock()` is exactly one
`lock()` on the wrapped `std::mutex`, `unlock()` exactly one `unlock()` on it, and each of the ten classes
declares `m_lock` as that wrapper — so `acq` / `rel` in the table mean what `RaceFree.lean` takes them to
mean (mutual exclusion and release→acquire ordering of `std::mutex`, which is trusted). -/
theorem wrapper_faithful :
    Generated.wrapperLock = [1] ∧ Generated.wrapperUnlock = [2] ∧
    Generated.wrapperUnderlyingIsStdMutex = true ∧ Generated.lockFieldsAreWrapper = true := by
  decide

end Verif.Conc
