import Verif.Conc.Basic
namespace Conc
variable {σ Op Out : Type} {step : σ → Op → σ × Out}

theorem sim_step {i i' : IState σ Op Out} {s : SState σ Op Out} {e : Option (Ev Op Out)}
    (h : Sim i s) (hs : IStep step i e i') : ∃ s', SStepOpt step s e s' ∧ Sim i' s' := by
  cases hs with
  | inv t op hi =>
    refine ⟨_, .one (.inv s t op (by rw [h.ph t, hi]; rfl)), ⟨?_, ?_, ?_⟩⟩
    · intro u; by_cases hu : u = t <;> simp [hu, absPh, h.ph]
    · intro u
      by_cases hu : u = t
      · subst hu
        have := h.holder u
        simp [hi] at this ⊢; exact this
      · simpa [hu] using h.holder u
    · have ho := h.obj
      simp only
      cases hl : i.lock with
      | none => simpa [hl] using ho
      | some u =>
        have hne : u ≠ t := by
          intro heq; subst heq
          have := (h.holder u).mp hl
          simp [hi] at this
        simpa [hl, hne] using ho
  | acquire t op hi hl =>
    refine ⟨s, .stutter s, ⟨?_, ?_, ?_⟩⟩
    · intro u; by_cases hu : u = t <;> simp [hu, absPh, h.ph, hi]
    · intro u
      by_cases hu : u = t
      · subst hu; simp
      · have := h.holder u
        simp [hl] at this
        simp [hu, this]
        intro heq; exact absurd heq.symm hu
    · have ho := h.obj; simp [hl] at ho; simp [ho]
  | scribble t op x hi hl =>
    refine ⟨s, .stutter s, ⟨h.ph, h.holder, ?_⟩⟩
    have ho := h.obj; simp [hl, hi] at ho; simp [hl, hi, ho]
  | finish t op hi hl =>
    have hobj : s.obj = i.saved := by have ho := h.obj; simpa [hl, hi] using ho
    refine ⟨_, .one (.perform s t op (by rw [h.ph t, hi]; rfl)), ⟨?_, ?_, ?_⟩⟩
    · intro u; by_cases hu : u = t <;> simp [hu, absPh, h.ph, hobj]
    · intro u
      by_cases hu : u = t
      · subst hu; simp [hl]
      · simpa [hu] using h.holder u
    · simp [hl, hobj]
  | release t out hi hl =>
    refine ⟨s, .stutter s, ⟨?_, ?_, ?_⟩⟩
    · intro u; by_cases hu : u = t <;> simp [hu, absPh, h.ph, hi]
    · intro u
      by_cases hu : u = t
      · subst hu; simp
      · have := h.holder u
        have hne : i.lock ≠ some u := by rw [hl]; intro heq; exact hu (Option.some.inj heq).symm
        simp [hne] at this
        simp [hu, this]
    · have ho := h.obj; simp [hl, hi] at ho; simp [ho]
  | res t out hi =>
    refine ⟨_, .one (.res s t out (by rw [h.ph t, hi]; rfl)), ⟨?_, ?_, ?_⟩⟩
    · intro u; by_cases hu : u = t <;> simp [hu, absPh, h.ph]
    · intro u
      by_cases hu : u = t
      · subst hu
        have := h.holder u
        simp [hi] at this ⊢; exact this
      · simpa [hu] using h.holder u
    · have ho := h.obj
      simp only
      cases hl : i.lock with
      | none => simpa [hl] using ho
      | some u =>
        have hne : u ≠ t := by
          intro heq; subst heq
          have := (h.holder u).mp hl
          simp [hi] at this
        simpa [hl, hne] using ho
end Conc
