import Verif.Conc.Sim
/-! Executions (finite runs) of the implementation and specification machines, their
histories, and the lifting of the one-step simulation `sim_step` to whole executions. -/
namespace Conc
variable {σ Op Out : Type}

/-- `Exec R s h s'`: the labelled transition relation `R` can go from `s` to `s'` in finitely
many steps; `h` is the list of the *visible* labels (`some e`) in the order they occurred
(silent `none` steps contribute nothing).  Steps are appended at the end. -/
inductive Exec {S E : Type} (R : S → Option E → S → Prop) (s : S) : List E → S → Prop
  | refl : Exec R s [] s
  | snoc {h : List E} {s' : S} {e : Option E} {s'' : S} :
      Exec R s h s' → R s' e s'' → Exec R s (h ++ e.toList) s''

/-- initial state of the specification machine: object value `s0`, all threads idle -/
def sInit (s0 : σ) : SState σ Op Out := { obj := s0, ph := fun _ => .idle }

/-- initial state of the implementation machine: memory `s0`, lock free, all threads idle -/
def iInit (s0 : σ) : IState σ Op Out :=
  { shared := s0, saved := s0, lock := none, ph := fun _ => .idle }

/-- `h` is a history of the canonical atomic object started with value `s0` -/
def SpecHistory (step : σ → Op → σ × Out) (s0 : σ) (h : List (Ev Op Out)) : Prop :=
  ∃ s, Exec (SStep step) (sInit s0) h s

/-- `h` is a history of the lock-protected implementation started with memory `s0`
(any number of threads, any interleaving: `Exec` quantifies over all schedules) -/
def ImplHistory (step : σ → Op → σ × Out) (s0 : σ) (h : List (Ev Op Out)) : Prop :=
  ∃ i, Exec (IStep step) (iInit s0) h i

theorem sim_init (s0 : σ) : Sim (iInit s0 : IState σ Op Out) (sInit s0) := by
  refine ⟨fun _ => rfl, ?_, rfl⟩
  intro t
  simp [iInit]

/-- forward simulation lifted to executions -/
theorem impl_exec_sim {step : σ → Op → σ × Out} {s0 : σ} {h : List (Ev Op Out)}
    {i : IState σ Op Out} (hx : Exec (IStep step) (iInit s0) h i) :
    ∃ s, Exec (SStep step) (sInit s0) h s ∧ Sim i s := by
  induction hx with
  | refl => exact ⟨_, .refl, sim_init s0⟩
  | snoc _ hs ih =>
    obtain ⟨s, hsx, hsim⟩ := ih
    obtain ⟨s', hopt, hsim'⟩ := sim_step hsim hs
    cases hopt with
    | stutter => exact ⟨s, by simpa using hsx, hsim'⟩
    | one h1 => exact ⟨s', .snoc hsx h1, hsim'⟩

/-- Every history of the lock-protected implementation is a history of the atomic object. -/
theorem impl_refines_spec {step : σ → Op → σ × Out} {s0 : σ} {h : List (Ev Op Out)}
    (hi : ImplHistory step s0 h) : SpecHistory step s0 h := by
  obtain ⟨i, hx⟩ := hi
  obtain ⟨s, hsx, _⟩ := impl_exec_sim hx
  exact ⟨s, hsx⟩

end Conc
