import Verif.Conc.RaceFree
/-!
# Data-race freedom under a weaker shape condition: `guarded`

`Method.wellLocked` (one critical section per method, containing every access to mutable state) is
what LINEARIZABILITY needs. For DATA-RACE FREEDOM alone it is enough that every access to a mutable
component happens inside SOME critical section: a method may have several critical sections and may
take and release the lock inside a loop body, e.g. `[loop [acq, rd 3, wr 4, rel]]` or
`[acq, wr 1, rel, clock, acq, rd 1, rel]`.

`guarded mutc h ts` scans `ts` with the flag `h` = "the lock is held" and returns the flag at the
end, or `none` if `ts` is ill-formed. For tables all of whose methods (of the class) are
`Method.guarded`, on the machine of `RaceFree.lean`:

* `guarded_access_under_lock`, `guarded_race_free`, `guarded_rel_by_holder`, `guarded_no_unknown`,
  `guarded_acq_not_holder` (no self-deadlock: a thread about to acquire does not hold the lock),
* `guarded_happens_before`,
* `wellLocked_guarded`: the old condition implies the new one.
-/
namespace Verif.Conc

/-! ## The scan -/

mutual
/-- scan a token list with the flag "lock held"; the flag at the end, or `none` if ill-formed -/
def guarded (mutc : List Nat) : Bool → List Tok → Option Bool
  | h, [] => some h
  | h, t :: ts => (guardedTok mutc h t).bind (fun h' => guarded mutc h' ts)
/-- one token: `acq` only when not held, `rel` only when held, accesses to mutable components only
when held, `unknown` never, a loop body must leave the flag as it found it -/
def guardedTok (mutc : List Nat) : Bool → Tok → Option Bool
  | h, .clock => some h
  | h, .acq => if h then none else some true
  | h, .rel => if h then some false else none
  | h, .rd c => if h || !mutc.contains c then some h else none
  | h, .wr c => if h || !mutc.contains c then some h else none
  | h, .loop b => if guarded mutc h b == some h then some h else none
  | _, .unknown _ => none
end

/-- **Guarded**: scanning the body from "not held" is well formed and ends "not held": every access
to a mutable component of the class is inside some critical section. -/
def Method.guarded (table : List Method) (m : Method) : Bool :=
  Verif.Conc.guarded (mutableOf table m.cls) false m.body == some false

/-! ## Equation lemmas -/

section Eqns
variable (mutc : List Nat)

theorem guarded_nil (h : Bool) : guarded mutc h [] = some h := by simp only [guarded]
theorem guarded_cons (h : Bool) (x : Tok) (k : List Tok) :
    guarded mutc h (x :: k) = (guardedTok mutc h x).bind (fun h' => guarded mutc h' k) := by
  simp only [guarded]
theorem guardedTok_clock (h : Bool) : guardedTok mutc h .clock = some h := by
  simp only [guardedTok]
theorem guardedTok_acq (h : Bool) : guardedTok mutc h .acq = if h then none else some true := by
  simp only [guardedTok]
theorem guardedTok_rel (h : Bool) : guardedTok mutc h .rel = if h then some false else none := by
  simp only [guardedTok]
theorem guardedTok_rd (h : Bool) (c : Nat) :
    guardedTok mutc h (.rd c) = if h || !mutc.contains c then some h else none := by
  simp only [guardedTok]
theorem guardedTok_wr (h : Bool) (c : Nat) :
    guardedTok mutc h (.wr c) = if h || !mutc.contains c then some h else none := by
  simp only [guardedTok]
theorem guardedTok_loop (h : Bool) (b : List Tok) :
    guardedTok mutc h (.loop b) = if guarded mutc h b == some h then some h else none := by
  simp only [guardedTok]
theorem guardedTok_unknown (h : Bool) (s : String) : guardedTok mutc h (.unknown s) = none := by
  simp only [guardedTok]

end Eqns

theorem guarded_append (mutc : List Nat) (h : Bool) (a b : List Tok) :
    guarded mutc h (a ++ b) = (guarded mutc h a).bind (fun h' => guarded mutc h' b) := by
  induction a generalizing h with
  | nil => simp [guarded_nil]
  | cons x a ih =>
    rw [List.cons_append, guarded_cons, guarded_cons]
    cases guardedTok mutc h x with
    | none => rfl
    | some h' => simp [ih]

theorem guarded_cons_eq_some {mutc : List Nat} {h r : Bool} {x : Tok} {k : List Tok}
    (hg : guarded mutc h (x :: k) = some r) :
    ∃ h', guardedTok mutc h x = some h' ∧ guarded mutc h' k = some r := by
  rw [guarded_cons] at hg
  cases hx : guardedTok mutc h x with
  | none => rw [hx] at hg; cases hg
  | some h' => rw [hx] at hg; exact ⟨h', rfl, hg⟩

/-- tokens other than `acq`/`rel` do not change the flag -/
theorem guardedTok_keep {mutc : List Nat} {h h' : Bool} {x : Tok} (h1 : x ≠ .acq) (h2 : x ≠ .rel)
    (hx : guardedTok mutc h x = some h') : h' = h := by
  cases x with
  | clock => rw [guardedTok_clock] at hx; exact (Option.some.inj hx).symm
  | acq => exact (h1 rfl).elim
  | rel => exact (h2 rfl).elim
  | rd c =>
    rw [guardedTok_rd] at hx
    split at hx
    · exact (Option.some.inj hx).symm
    · cases hx
  | wr c =>
    rw [guardedTok_wr] at hx
    split at hx
    · exact (Option.some.inj hx).symm
    · cases hx
  | loop b =>
    rw [guardedTok_loop] at hx
    split at hx
    · exact (Option.some.inj hx).symm
    · cases hx
  | unknown s => rw [guardedTok_unknown] at hx; cases hx

theorem guardedTok_loop_body {mutc : List Nat} {h h' : Bool} {b : List Tok}
    (hx : guardedTok mutc h (.loop b) = some h') : guarded mutc h b = some h := by
  rw [guardedTok_loop] at hx
  split at hx
  · rename_i hb; exact beq_iff_eq.1 hb
  · cases hx

theorem guardedTok_acq_some {mutc : List Nat} {h h' : Bool}
    (hx : guardedTok mutc h .acq = some h') : h = false ∧ h' = true := by
  rw [guardedTok_acq] at hx
  cases h with
  | true => cases hx
  | false => exact ⟨rfl, (Option.some.inj hx).symm⟩

theorem guardedTok_rel_some {mutc : List Nat} {h h' : Bool}
    (hx : guardedTok mutc h .rel = some h') : h = true ∧ h' = false := by
  rw [guardedTok_rel] at hx
  cases h with
  | true => exact ⟨rfl, (Option.some.inj hx).symm⟩
  | false => cases hx

/-- an access that passes the scan without the lock is to a non-mutable component -/
theorem guardedTok_access {mutc : List Nat} {h h' : Bool} {x : Tok} {c : Nat}
    (hx : x = .rd c ∨ x = .wr c) (hg : guardedTok mutc h x = some h') (hc : c ∈ mutc) :
    h = true := by
  have key : (if (h || !mutc.contains c) = true then some h else none) = some h' → h = true := by
    intro hg
    split at hg
    · rename_i hh
      simpa [hc] using hh
    · cases hg
  rcases hx with rfl | rfl
  · rw [guardedTok_rd] at hg; exact key hg
  · rw [guardedTok_wr] at hg; exact key hg

/-! ## `wellLocked` implies `guarded` -/

mutual
/-- a token list without lock operations and unknowns, whose accesses to mutable components (if
any) happen with the flag set, passes the scan and leaves the flag unchanged -/
theorem guarded_of_lockfree (mutc : List Nat) : ∀ (k : List Tok) (h : Bool),
    hasLock k = false → hasUnknown k = false →
    (h = false → ∀ c ∈ accessed k, c ∉ mutc) → guarded mutc h k = some h
  | [], h, _, _, _ => guarded_nil mutc h
  | x :: k, h, hl, hu, ha => by
    rw [hasLock_cons, Bool.or_eq_false_iff] at hl
    rw [hasUnknown_cons, Bool.or_eq_false_iff] at hu
    rw [guarded_cons,
      guardedTok_of_lockfree mutc x h hl.1 hu.1
        (fun hh c hc => ha hh c (by rw [accessed_cons]; exact List.mem_append_left _ hc))]
    exact guarded_of_lockfree mutc k h hl.2 hu.2
      (fun hh c hc => ha hh c (by rw [accessed_cons]; exact List.mem_append_right _ hc))
theorem guardedTok_of_lockfree (mutc : List Nat) : ∀ (x : Tok) (h : Bool),
    hasLockTok x = false → hasUnknownTok x = false →
    (h = false → ∀ c ∈ accessedTok x, c ∉ mutc) → guardedTok mutc h x = some h
  | .clock, h, _, _, _ => guardedTok_clock mutc h
  | .acq, _, hl, _, _ => by rw [hasLockTok_acq] at hl; cases hl
  | .rel, _, hl, _, _ => by rw [hasLockTok_rel] at hl; cases hl
  | .rd c, h, _, _, ha => by
    rw [guardedTok_rd]
    cases h with
    | true => rfl
    | false =>
      have hnm : c ∉ mutc :=
        ha rfl c (by rw [accessedTok_rd]; exact List.mem_singleton.2 rfl)
      simp [hnm]
  | .wr c, h, _, _, ha => by
    rw [guardedTok_wr]
    cases h with
    | true => rfl
    | false =>
      have hnm : c ∉ mutc :=
        ha rfl c (by rw [accessedTok_wr]; exact List.mem_singleton.2 rfl)
      simp [hnm]
  | .loop b, h, hl, hu, ha => by
    rw [hasLockTok_loop] at hl
    rw [hasUnknownTok_loop] at hu
    rw [guardedTok_loop,
      guarded_of_lockfree mutc b h hl hu (fun hh c hc => ha hh c (by rw [accessedTok_loop]; exact hc))]
    simp
  | .unknown s, _, _, hu, _ => by rw [hasUnknownTok_unknown] at hu; cases hu
end

/-- quiet tokens pass the scan with any flag -/
theorem guarded_of_quiet {mutc : List Nat} {k : List Tok} (hq : quiet mutc k = true) (h : Bool) :
    guarded mutc h k = some h := by
  refine guarded_of_lockfree mutc k h (quiet_hasLock hq) (quiet_hasUnknown hq) ?_
  intro _ c hc
  simp only [quiet, Bool.and_eq_true, List.all_eq_true, Bool.not_eq_true'] at hq
  have := hq.2 c hc
  intro hm
  rw [List.contains_iff_mem.2 hm] at this
  cases this

/-- **The old condition implies the new one.** -/
theorem wellLocked_guarded {table : List Method} {m : Method}
    (h : m.wellLocked table = true) : m.guarded table = true := by
  unfold Method.wellLocked at h
  unfold Method.guarded
  simp only [Bool.or_eq_true] at h
  rw [beq_iff_eq]
  rcases h with h | h
  · exact guarded_of_quiet h false
  · split at h
    · rename_i pre body post hs
      simp only [Bool.and_eq_true, Bool.not_eq_true'] at h
      obtain ⟨⟨⟨hpre, hpost⟩, hl⟩, hu⟩ := h
      rw [splitCS_eq hs, guarded_append, guarded_of_quiet hpre, Option.bind_some, guarded_cons,
        guardedTok_acq]
      simp only [Bool.false_eq_true, if_false, Option.bind_some]
      rw [guarded_append, guarded_of_lockfree _ body true hl hu (by intro hh; cases hh),
        Option.bind_some, guarded_cons, guardedTok_rel]
      simp only [if_true, Option.bind_some]
      exact guarded_of_quiet hpost false
    · cases h

/-! ## The invariant -/

/-- for every running thread, scanning the REST of its method from the current "holds the lock"
flag is well formed and ends unlocked; an idle thread does not hold the lock; a continuation
writes only components that are mutable for the class -/
structure GInv (table : List Method) (cls : Nat) (s : State) : Prop where
  scan : ∀ t k, s.cont t = some k →
    guarded (mutableOf table cls) (decide (s.lock = some t)) k = some false
  idle : ∀ t, s.cont t = none → s.lock ≠ some t
  wr : ∀ t k, s.cont t = some k → ∀ c ∈ written k, c ∈ mutableOf table cls

theorem GInv.init (table : List Method) (cls : Nat) : GInv table cls State.init where
  scan := by intro t k h; cases h
  idle := by intro t _ h; cases h
  wr := by intro t k h; cases h

/-- a step of `t` that does not touch the lock -/
theorem GInv.update {table : List Method} {cls : Nat} {s : State} {t : Tid}
    {v : Option (List Tok)} (hinv : GInv table cls s)
    (hscan : ∀ k, v = some k →
      guarded (mutableOf table cls) (decide (s.lock = some t)) k = some false)
    (hidle : v = none → s.lock ≠ some t)
    (hwr : ∀ k, v = some k → ∀ c ∈ written k, c ∈ mutableOf table cls) :
    GInv table cls ⟨s.lock, upd s.cont t v⟩ where
  scan := by
    intro u k hk
    by_cases hut : u = t
    · subst hut; simp only [upd_same] at hk; exact hscan k hk
    · simp only [upd_other _ _ hut] at hk; exact hinv.scan u k hk
  idle := by
    intro u hk
    by_cases hut : u = t
    · subst hut; simp only [upd_same] at hk; exact hidle hk
    · simp only [upd_other _ _ hut] at hk; exact hinv.idle u hk
  wr := by
    intro u k hk
    by_cases hut : u = t
    · subst hut; simp only [upd_same] at hk; exact hwr k hk
    · simp only [upd_other _ _ hut] at hk; exact hinv.wr u k hk

/-- executing a token other than `acq`/`rel`, or leaving a loop -/
theorem GInv.advance {table : List Method} {cls : Nat} {s : State} {t : Tid} {x : Tok}
    {k : List Tok} (hinv : GInv table cls s) (h : s.cont t = some (x :: k)) (h1 : x ≠ .acq)
    (h2 : x ≠ .rel) : GInv table cls ⟨s.lock, upd s.cont t (some k)⟩ := by
  refine hinv.update ?_ ?_ ?_
  · intro k' hk'; cases hk'
    obtain ⟨h', hx, hk⟩ := guarded_cons_eq_some (hinv.scan t _ h)
    rw [guardedTok_keep h1 h2 hx] at hk
    exact hk
  · intro hk; cases hk
  · intro k' hk' c hc; cases hk'; exact hinv.wr t _ h c (written_tail_sub hc)

/-- a thread about to release holds the lock -/
theorem GInv.rel_holder {table : List Method} {cls : Nat} {s : State} {t : Tid} {k : List Tok}
    (hinv : GInv table cls s) (h : s.cont t = some (.rel :: k)) : s.lock = some t := by
  obtain ⟨h', hx, _⟩ := guarded_cons_eq_some (hinv.scan t _ h)
  exact of_decide_eq_true (guardedTok_rel_some hx).1

/-- a thread about to acquire does not hold the lock -/
theorem GInv.acq_not_holder {table : List Method} {cls : Nat} {s : State} {t : Tid}
    {k : List Tok} (hinv : GInv table cls s) (h : s.cont t = some (.acq :: k)) :
    s.lock ≠ some t := by
  obtain ⟨h', hx, _⟩ := guarded_cons_eq_some (hinv.scan t _ h)
  exact of_decide_eq_false (guardedTok_acq_some hx).1

theorem Step.ginv {table : List Method} {cls : Nat}
    (hg : ∀ m ∈ table, m.cls = cls → m.guarded table = true)
    {s s' : State} {t : Tid} {e : Ev} (hinv : GInv table cls s) (hs : Step table cls s t e s') :
    GInv table cls s' := by
  cases hs with
  | call m hidle hm hcls =>
    refine hinv.update ?_ ?_ ?_
    · intro k hk; cases hk
      rw [decide_eq_false (hinv.idle t hidle)]
      have := hg m hm hcls
      subst hcls
      exact beq_iff_eq.1 this
    · intro hk; cases hk
    · intro k hk c hc; cases hk; exact written_mem_mutableOf hm hcls hc
  | ret h =>
    refine hinv.update ?_ ?_ ?_
    · intro k hk; cases hk
    · intro _
      have := hinv.scan t _ h
      rw [guarded_nil] at this
      exact of_decide_eq_false (Option.some.inj this)
    · intro k hk; cases hk
  | clock h => exact hinv.advance h (by simp) (by simp)
  | rd h => exact hinv.advance h (by simp) (by simp)
  | wr h => exact hinv.advance h (by simp) (by simp)
  | unknown h => exact hinv.advance h (by simp) (by simp)
  | loopExit h => exact hinv.advance h (by simp) (by simp)
  | loopIter h =>
    refine hinv.update ?_ ?_ ?_
    · intro k' hk'; cases hk'
      have hsc := hinv.scan t _ h
      obtain ⟨h', hx, _⟩ := guarded_cons_eq_some hsc
      rw [guarded_append, guardedTok_loop_body hx, Option.bind_some]
      exact hsc
    · intro hk; cases hk
    · intro k' hk' c hc; cases hk'; exact hinv.wr t _ h c (written_iter_sub hc)
  | acq h hfree =>
    rename_i k
    obtain ⟨h', hx, hk⟩ := guarded_cons_eq_some (hinv.scan t _ h)
    rw [(guardedTok_acq_some hx).2] at hk
    refine ⟨?_, ?_, ?_⟩
    · intro u k' hk'
      by_cases hut : u = t
      · subst hut; simp only [upd_same] at hk'; cases hk'
        simpa using hk
      · simp only [upd_other _ _ hut] at hk'
        have := hinv.scan u k' hk'
        rw [hfree] at this
        have hne : (some t : Option Tid) ≠ some u := fun e => hut (Option.some.inj e).symm
        simpa [hne] using this
    · intro u hk'
      by_cases hut : u = t
      · subst hut; simp only [upd_same] at hk'; cases hk'
      · intro e; exact hut (Option.some.inj e).symm
    · intro u k' hk'
      by_cases hut : u = t
      · subst hut; simp only [upd_same] at hk'; cases hk'
        intro c hc; exact hinv.wr u _ h c (written_tail_sub hc)
      · simp only [upd_other _ _ hut] at hk'; exact hinv.wr u k' hk'
  | rel h =>
    rename_i k
    have hlock : s.lock = some t := hinv.rel_holder h
    obtain ⟨h', hx, hk⟩ := guarded_cons_eq_some (hinv.scan t _ h)
    rw [(guardedTok_rel_some hx).2] at hk
    refine ⟨?_, ?_, ?_⟩
    · intro u k' hk'
      by_cases hut : u = t
      · subst hut; simp only [upd_same] at hk'; cases hk'
        simpa using hk
      · simp only [upd_other _ _ hut] at hk'
        have := hinv.scan u k' hk'
        rw [hlock] at this
        have hne : (some t : Option Tid) ≠ some u := fun e => hut (Option.some.inj e).symm
        simpa [hne] using this
    · intro u _ e; cases e
    · intro u k' hk'
      by_cases hut : u = t
      · subst hut; simp only [upd_same] at hk'; cases hk'
        intro c hc; exact hinv.wr u _ h c (written_tail_sub hc)
      · simp only [upd_other _ _ hut] at hk'; exact hinv.wr u k' hk'

theorem Reachable.ginv {table : List Method} {cls : Nat}
    (hg : ∀ m ∈ table, m.cls = cls → m.guarded table = true)
    {s : State} (hr : Reachable table cls s) : GInv table cls s := by
  induction hr with
  | init => exact GInv.init table cls
  | step _ hs ih => exact Step.ginv hg ih hs

/-! ## Main theorems about reachable states -/

section Main
variable {table : List Method} {cls : Nat}

/-- **The invariant, as one statement**: in every reachable state, scanning the rest of the method
of every running thread from the current "holds the lock" flag is well formed and ends unlocked. -/
theorem guarded_invariant (hg : ∀ m ∈ table, m.cls = cls → m.guarded table = true)
    {s : State} (hr : Reachable table cls s) {t : Tid} {k : List Tok} (hk : s.cont t = some k) :
    guarded (mutableOf table cls) (decide (s.lock = some t)) k = some false :=
  (hr.ginv hg).scan t k hk

/-- an idle thread does not hold the lock -/
theorem guarded_idle_not_holder (hg : ∀ m ∈ table, m.cls = cls → m.guarded table = true)
    {s : State} (hr : Reachable table cls s) {t : Tid} (hk : s.cont t = none) :
    s.lock ≠ some t :=
  (hr.ginv hg).idle t hk

/-- **Every access to a mutable component happens under the lock.** -/
theorem guarded_access_under_lock (hg : ∀ m ∈ table, m.cls = cls → m.guarded table = true)
    {s : State} (hr : Reachable table cls s) {t : Tid} {c : Nat}
    (hnext : s.next t = some (.rd c) ∨ s.next t = some (.wr c))
    (hc : c ∈ mutableOf table cls) : s.lock = some t := by
  have hinv := hr.ginv hg
  rcases hnext with h | h
  · obtain ⟨k, hk⟩ := State.next_eq_some h
    obtain ⟨h', hx, _⟩ := guarded_cons_eq_some (hinv.scan t _ hk)
    exact of_decide_eq_true (guardedTok_access (.inl rfl) hx hc)
  · obtain ⟨k, hk⟩ := State.next_eq_some h
    obtain ⟨h', hx, _⟩ := guarded_cons_eq_some (hinv.scan t _ hk)
    exact of_decide_eq_true (guardedTok_access (.inr rfl) hx hc)

/-- a component some running thread is about to write is mutable for the class -/
theorem guarded_write_mutable (hg : ∀ m ∈ table, m.cls = cls → m.guarded table = true)
    {s : State} (hr : Reachable table cls s) {t : Tid} {c : Nat}
    (hnext : s.next t = some (.wr c)) : c ∈ mutableOf table cls := by
  obtain ⟨k, hk⟩ := State.next_eq_some hnext
  refine (hr.ginv hg).wr t _ hk c ?_
  rw [written_cons, writtenTok_wr]; simp

/-- **Data-race freedom**: in no reachable state are two distinct threads about to perform
conflicting accesses. -/
theorem guarded_race_free (hg : ∀ m ∈ table, m.cls = cls → m.guarded table = true)
    {s : State} (hr : Reachable table cls s) {t u : Tid} (htu : t ≠ u) {a b : Tok}
    (ha : s.next t = some a) (hb : s.next u = some b) : ¬ conflict a b := by
  rintro ⟨c, ⟨rfl, hb'⟩ | ⟨rfl, rfl⟩⟩
  · have hc := guarded_write_mutable hg hr ha
    have h1 := guarded_access_under_lock hg hr (t := t) (.inr ha) hc
    have h2 : s.lock = some u := by
      rcases hb' with rfl | rfl
      · exact guarded_access_under_lock hg hr (.inl hb) hc
      · exact guarded_access_under_lock hg hr (.inr hb) hc
    exact htu (holder_unique h1 h2)
  · have hc := guarded_write_mutable hg hr hb
    have h1 := guarded_access_under_lock hg hr (t := t) (.inl ha) hc
    have h2 := guarded_access_under_lock hg hr (t := u) (.inr hb) hc
    exact htu (holder_unique h1 h2)

/-- a thread about to release holds the lock -/
theorem guarded_rel_by_holder (hg : ∀ m ∈ table, m.cls = cls → m.guarded table = true)
    {s : State} (hr : Reachable table cls s) {t : Tid} (hnext : s.next t = some .rel) :
    s.lock = some t := by
  obtain ⟨k, hk⟩ := State.next_eq_some hnext
  exact (hr.ginv hg).rel_holder hk

/-- a thread about to acquire does not already hold the (non-recursive) lock: no self-deadlock -/
theorem guarded_acq_not_holder (hg : ∀ m ∈ table, m.cls = cls → m.guarded table = true)
    {s : State} (hr : Reachable table cls s) {t : Tid} (hnext : s.next t = some .acq) :
    s.lock ≠ some t := by
  obtain ⟨k, hk⟩ := State.next_eq_some hnext
  exact (hr.ginv hg).acq_not_holder hk

/-- no thread ever reaches an `unknown` token -/
theorem guarded_no_unknown (hg : ∀ m ∈ table, m.cls = cls → m.guarded table = true)
    {s : State} (hr : Reachable table cls s) (t : Tid) (str : String) :
    s.next t ≠ some (.unknown str) := by
  intro hnext
  obtain ⟨k, hk⟩ := State.next_eq_some hnext
  obtain ⟨h', hx, _⟩ := guarded_cons_eq_some ((hr.ginv hg).scan t _ hk)
  rw [guardedTok_unknown] at hx; cases hx

end Main

/-! ## Happens-before -/

section HB
variable {table : List Method} {cls : Nat}

/-- if the lock passes from `t` to `u ≠ t`, then `t` released it and afterwards `u` acquired it -/
theorem Exec.ghandover (hg : ∀ m ∈ table, m.cls = cls → m.guarded table = true)
    {s s' : State} {tr : List (Tid × Ev)} (h : Exec table cls s tr s')
    (hinv : GInv table cls s) {t u : Tid} (htu : t ≠ u) (hbeg : s.lock = some t)
    (hend : s'.lock = some u) :
    ∃ p q r, tr = p ++ (t, .tok .rel) :: (q ++ (u, .tok .acq) :: r) := by
  induction h with
  | nil => rw [hbeg] at hend; exact (htu (Option.some.inj hend)).elim
  | @cons s s1 s2 x e tr hs hrest ih =>
    rcases hs.lock_cases with h | ⟨he, h⟩ | ⟨he, h, k, hk⟩
    · obtain ⟨p, q, r, hpqr⟩ := ih (hs.ginv hg hinv) (h.trans hbeg) hend
      exact ⟨(x, e) :: p, q, r, by rw [hpqr]; rfl⟩
    · subst he
      cases hs with
      | acq _ hfree => rw [hbeg] at hfree; cases hfree
    · subst he
      have hx : s.lock = some x := hinv.rel_holder hk
      have : t = x := holder_unique hbeg hx
      subst this
      obtain ⟨q, r, hqr⟩ := hrest.acquired hend (by rw [h]; simp)
      exact ⟨[], q, r, by rw [hqr]; rfl⟩

/-- **Happens-before** for accesses to a mutable component: in any execution from the initial
state, if `t` accesses `c` and later another thread `u` accesses `c`, then in between `t`
releases the lock and afterwards `u` acquires it. -/
theorem guarded_happens_before_mutable
    (hg : ∀ m ∈ table, m.cls = cls → m.guarded table = true)
    {s : State} {tr1 tr2 tr3 : List (Tid × Ev)} {t u : Tid} {a b : Tok} {c : Nat}
    (hex : Exec table cls State.init (tr1 ++ (t, .tok a) :: (tr2 ++ (u, .tok b) :: tr3)) s)
    (htu : t ≠ u) (ha : a = .rd c ∨ a = .wr c) (hb : b = .rd c ∨ b = .wr c)
    (hc : c ∈ mutableOf table cls) :
    ∃ p q r, tr2 = p ++ (t, .tok .rel) :: (q ++ (u, .tok .acq) :: r) := by
  obtain ⟨s1, h1, hrest⟩ := hex.split
  cases hrest with
  | cons hsa hrest =>
    rename_i s2
    obtain ⟨s3, h2, hrest⟩ := hrest.split
    cases hrest with
    | cons hsb hrest =>
      have hr1 : Reachable table cls s1 := h1.reachable .init
      have hr2 : Reachable table cls s2 := .step hr1 hsa
      have hr3 : Reachable table cls s3 := h2.reachable hr2
      have hl1 : s1.lock = some t := by
        refine guarded_access_under_lock hg hr1 ?_ hc
        rcases ha with rfl | rfl
        · exact .inl hsa.tok_next
        · exact .inr hsa.tok_next
      have hl2 : s2.lock = some t := by
        rcases hsa.lock_cases with h | ⟨he, _⟩ | ⟨he, _⟩
        · exact h.trans hl1
        · rcases ha with rfl | rfl <;> cases he
        · rcases ha with rfl | rfl <;> cases he
      have hl3 : s3.lock = some u := by
        refine guarded_access_under_lock hg hr3 ?_ hc
        rcases hb with rfl | rfl
        · exact .inl hsb.tok_next
        · exact .inr hsb.tok_next
      exact h2.ghandover hg (hr2.ginv hg) htu hl2 hl3

/-- **Happens-before** for conflicting accesses. -/
theorem guarded_happens_before (hg : ∀ m ∈ table, m.cls = cls → m.guarded table = true)
    {s : State} {tr1 tr2 tr3 : List (Tid × Ev)} {t u : Tid} {a b : Tok}
    (hex : Exec table cls State.init (tr1 ++ (t, .tok a) :: (tr2 ++ (u, .tok b) :: tr3)) s)
    (htu : t ≠ u) (hab : conflict a b) :
    ∃ p q r, tr2 = p ++ (t, .tok .rel) :: (q ++ (u, .tok .acq) :: r) := by
  obtain ⟨s1, h1, hrest⟩ := hex.split
  have hex' := hex
  cases hrest with
  | cons hsa hrest =>
    rename_i s2
    obtain ⟨s3, h2, hrest⟩ := hrest.split
    cases hrest with
    | cons hsb hrest =>
      have hr1 : Reachable table cls s1 := h1.reachable .init
      have hr3 : Reachable table cls s3 := h2.reachable (.step hr1 hsa)
      obtain ⟨c, ⟨rfl, hb⟩ | ⟨rfl, rfl⟩⟩ := hab
      · exact guarded_happens_before_mutable hg hex' htu (.inr rfl) hb
          (guarded_write_mutable hg hr1 hsa.tok_next)
      · exact guarded_happens_before_mutable hg hex' htu (.inl rfl) (.inr rfl)
          (guarded_write_mutable hg hr3 hsb.tok_next)

end HB

/-! ## Non-vacuity -/

/-- a two-method class: `spin` takes and releases the lock inside a loop body, `twice` has two
critical sections -/
def guardedDemo : List Method :=
  [⟨0, "spin", [.loop [.acq, .rd 0, .wr 0, .rel]]⟩,
   ⟨0, "twice", [.acq, .wr 1, .rel, .clock, .acq, .rd 1, .rd 0, .rel]⟩]

/-- both methods are guarded, neither is wellLocked; both components are mutable -/
example :
    guardedDemo.all (fun m => m.guarded guardedDemo) = true ∧
    guardedDemo.any (fun m => m.wellLocked guardedDemo) = false ∧
    mutableOf guardedDemo 0 = [0, 1] := by decide

/-- the scan rejects: an unprotected access, a double acquire, a loop body that leaks the lock, a
method that returns with the lock held -/
example :
    guarded [0] false [.rd 0] = none ∧
    guarded [0] false [.acq, .acq] = none ∧
    guarded [0] false [.loop [.acq, .wr 0]] = none ∧
    guarded [0] false [.acq, .wr 0] = some true ∧
    guarded [0] false [.rd 7, .clock] = some false := by decide

theorem guardedDemo_guarded : ∀ m ∈ guardedDemo, m.cls = 0 → m.guarded guardedDemo = true := by
  decide

/-- so the theorems apply to it -/
example {s : State} (hr : Reachable guardedDemo 0 s) {t u : Tid} (htu : t ≠ u) {a b : Tok}
    (ha : s.next t = some a) (hb : s.next u = some b) : ¬ conflict a b :=
  guarded_race_free guardedDemo_guarded hr htu ha hb

/-- and the machine does run: thread 0, in the second iteration of `spin`, holds the lock and is
about to write component 0 while thread 1 waits at the first `acq` of `twice` -/
example :
    ∃ s, Reachable guardedDemo 0 s ∧ s.lock = some 0 ∧ s.next 0 = some (.wr 0) ∧
      s.next 1 = some .acq := by
  let b : List Tok := [.acq, .rd 0, .wr 0, .rel]
  let spin : Method := ⟨0, "spin", [.loop b]⟩
  let twice : Method := ⟨0, "twice", [.acq, .wr 1, .rel, .clock, .acq, .rd 1, .rd 0, .rel]⟩
  let s1 : State := ⟨none, upd State.init.cont 0 (some spin.body)⟩
  let s2 : State := ⟨none, upd s1.cont 1 (some twice.body)⟩
  let s3 : State := ⟨none, upd s2.cont 0 (some (b ++ [.loop b]))⟩
  let s4 : State := ⟨some 0, upd s3.cont 0 (some [.rd 0, .wr 0, .rel, .loop b])⟩
  let s5 : State := ⟨some 0, upd s4.cont 0 (some [.wr 0, .rel, .loop b])⟩
  let s6 : State := ⟨some 0, upd s5.cont 0 (some [.rel, .loop b])⟩
  let s7 : State := ⟨none, upd s6.cont 0 (some [.loop b])⟩
  let s8 : State := ⟨none, upd s7.cont 0 (some (b ++ [.loop b]))⟩
  let s9 : State := ⟨some 0, upd s8.cont 0 (some [.rd 0, .wr 0, .rel, .loop b])⟩
  let s10 : State := ⟨some 0, upd s9.cont 0 (some [.wr 0, .rel, .loop b])⟩
  have h1 : Step guardedDemo 0 State.init 0 (.call spin) s1 :=
    Step.call spin rfl (by simp [guardedDemo, spin, b]) rfl
  have h2 : Step guardedDemo 0 s1 1 (.call twice) s2 :=
    Step.call (s := s1) twice rfl (by simp [guardedDemo, twice]) rfl
  have h3 : Step guardedDemo 0 s2 0 (.iter b) s3 := Step.loopIter (s := s2) (k := []) rfl
  have h4 : Step guardedDemo 0 s3 0 (.tok .acq) s4 :=
    Step.acq (s := s3) (k := [.rd 0, .wr 0, .rel, .loop b]) rfl rfl
  have h5 : Step guardedDemo 0 s4 0 (.tok (.rd 0)) s5 :=
    Step.rd (s := s4) (k := [.wr 0, .rel, .loop b]) rfl
  have h6 : Step guardedDemo 0 s5 0 (.tok (.wr 0)) s6 :=
    Step.wr (s := s5) (k := [.rel, .loop b]) rfl
  have h7 : Step guardedDemo 0 s6 0 (.tok .rel) s7 := Step.rel (s := s6) (k := [.loop b]) rfl
  have h8 : Step guardedDemo 0 s7 0 (.iter b) s8 := Step.loopIter (s := s7) (k := []) rfl
  have h9 : Step guardedDemo 0 s8 0 (.tok .acq) s9 :=
    Step.acq (s := s8) (k := [.rd 0, .wr 0, .rel, .loop b]) rfl rfl
  have h10 : Step guardedDemo 0 s9 0 (.tok (.rd 0)) s10 :=
    Step.rd (s := s9) (k := [.wr 0, .rel, .loop b]) rfl
  exact ⟨s10, .step (.step (.step (.step (.step (.step (.step (.step (.step (.step .init
    h1) h2) h3) h4) h5) h6) h7) h8) h9) h10, rfl, rfl, rfl⟩

end Verif.Conc
