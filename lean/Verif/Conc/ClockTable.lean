import Verif.Conc.ClockHeld
import Verif.Generated.LockShape
import Verif.Conc.WrapperTable
/-!
# ut_map / ut_set read the clock under the lock: `ClockHeld.lean` instantiated at the generated table

`table_clockInside` is re-checked by `decide` against the table regenerated from /repo's current headers
on every run of the C02 check.  It is what makes the hypothesis "clock readings never decrease along a
history" of the ut_map / ut_set theorems hold for concurrent use: the readings are taken inside the
critical sections, so their order is the lock order (`generated_clock_order`) and `steady_clock` is
monotone.  A change that samples the clock before taking the lock (seeded change S-C02) makes
`table_clockInside` false.
-/
namespace Verif.Conc

/-- positions of ut_map and ut_set in `Generated.clsNames` -/
def clockClasses : List Nat := [8, 9]

theorem clockClasses_names :
    clockClasses.map (fun i => Generated.clsNames[i]?) = [some "ut_map", some "ut_set"] := by decide

/-- every public method of ut_map / ut_set is well locked and reads the clock only inside its critical
section — re-checked on every run against the regenerated table -/
theorem table_clockInside :
    ∀ m ∈ Generated.table, m.cls ∈ clockClasses → m.clockInside Generated.table = true := by
  decide +kernel

/-- the obligation is about real methods: both classes have methods that read the clock -/
theorem table_clock_nonvacuous :
    clockClasses.all (fun c => Generated.table.any (fun m => m.cls == c && hasClock m.body)) = true := by
  decide +kernel

theorem generated_clockInside {cls : Nat} (hc : cls ∈ clockClasses) :
    ∀ m ∈ Generated.table, m.cls = cls → m.clockInside Generated.table = true :=
  fun m hm hcls => table_clockInside m hm (hcls ▸ hc)

/-- ut_map / ut_set: a thread about to read the clock holds the lock -/
theorem generated_clock_under_lock {cls : Nat} (hc : cls ∈ clockClasses) {s : State}
    (hr : Reachable Generated.table cls s) {t : Tid} (hnext : s.next t = some .clock) :
    s.lock = some t :=
  clock_under_lock (generated_clockInside hc) hr hnext

/-- ut_map / ut_set: clock readings of different threads are ordered like their critical sections -/
theorem generated_clock_order {cls : Nat} (hc : cls ∈ clockClasses) {s : State}
    {tr1 tr2 tr3 : List (Tid × Ev)} {t u : Tid}
    (hex : Exec Generated.table cls State.init
      (tr1 ++ (t, .tok .clock) :: (tr2 ++ (u, .tok .clock) :: tr3)) s)
    (htu : t ≠ u) :
    ∃ p q r, tr2 = p ++ (t, .tok .rel) :: (q ++ (u, .tok .acq) :: r) :=
  clock_order (generated_clockInside hc) hex htu

end Verif.Conc
