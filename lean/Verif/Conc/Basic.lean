/-! Prototype: a lock-protected object forward-simulates the canonical atomic object. -/
namespace Conc

variable {σ Op Out : Type}

abbrev Tid := Nat

inductive Ev (Op Out : Type)
  | inv (t : Tid) (op : Op)
  | res (t : Tid) (out : Out)

/-! ## Specification: canonical atomic object -/
inductive SPhase (Op Out : Type)
  | idle
  | pending (op : Op)
  | performed (out : Out)

structure SState (σ Op Out : Type) where
  obj : σ
  ph : Tid → SPhase Op Out

inductive SStep (step : σ → Op → σ × Out) : SState σ Op Out → Option (Ev Op Out) → SState σ Op Out → Prop
  | inv (s t op) (h : s.ph t = .idle) :
      SStep step s (some (.inv t op)) { s with ph := fun u => if u = t then .pending op else s.ph u }
  | perform (s t op) (h : s.ph t = .pending op) :
      SStep step s none { obj := (step s.obj op).1,
                          ph := fun u => if u = t then .performed (step s.obj op).2 else s.ph u }
  | res (s t out) (h : s.ph t = .performed out) :
      SStep step s (some (.res t out)) { s with ph := fun u => if u = t then .idle else s.ph u }

/-! ## Implementation: every method is `acquire; (arbitrary scribbling on the shared state); finish; release` -/
inductive IPhase (Op Out : Type)
  | idle
  | waiting (op : Op)            -- invoked, has not got the lock yet
  | inside (op : Op)             -- holds the lock, body running
  | finished (out : Out)         -- body complete, still holds the lock
  | released (out : Out)         -- lock released, not yet returned

structure IState (σ Op Out : Type) where
  shared : σ                      -- the real memory, may be mid-update
  saved : σ                       -- ghost: value of `shared` when the current holder acquired
  lock : Option Tid
  ph : Tid → IPhase Op Out

inductive IStep (step : σ → Op → σ × Out) : IState σ Op Out → Option (Ev Op Out) → IState σ Op Out → Prop
  | inv (s t op) (h : s.ph t = .idle) :
      IStep step s (some (.inv t op)) { s with ph := fun u => if u = t then .waiting op else s.ph u }
  | acquire (s t op) (h : s.ph t = .waiting op) (hl : s.lock = none) :
      IStep step s none { s with lock := some t, saved := s.shared,
                                 ph := fun u => if u = t then .inside op else s.ph u }
  | scribble (s t op x) (h : s.ph t = .inside op) (hl : s.lock = some t) :
      IStep step s none { s with shared := x }
  | finish (s t op) (h : s.ph t = .inside op) (hl : s.lock = some t) :
      IStep step s none { s with shared := (step s.saved op).1,
                                 ph := fun u => if u = t then .finished (step s.saved op).2 else s.ph u }
  | release (s t out) (h : s.ph t = .finished out) (hl : s.lock = some t) :
      IStep step s none { s with lock := none,
                                 ph := fun u => if u = t then .released out else s.ph u }
  | res (s t out) (h : s.ph t = .released out) :
      IStep step s (some (.res t out)) { s with ph := fun u => if u = t then .idle else s.ph u }

/-- simulation relation -/
def absPh : IPhase Op Out → SPhase Op Out
  | .idle => .idle
  | .waiting op => .pending op
  | .inside op => .pending op
  | .finished out => .performed out
  | .released out => .performed out

structure Sim (i : IState σ Op Out) (s : SState σ Op Out) : Prop where
  ph : ∀ t, s.ph t = absPh (i.ph t)
  /-- lock discipline: the holder is exactly the thread that is inside/finished -/
  holder : ∀ t, (i.lock = some t) ↔ (∃ op, i.ph t = .inside op) ∨ (∃ o, i.ph t = .finished o)
  /-- abstract object value: the saved one while a body is running, else the real memory -/
  obj : s.obj = (match i.lock with
                 | some t => (match i.ph t with | .inside _ => i.saved | _ => i.shared)
                 | none => i.shared)

/-- zero or one spec steps with the same label -/
inductive SStepOpt (step : σ → Op → σ × Out) : SState σ Op Out → Option (Ev Op Out) → SState σ Op Out → Prop
  | stutter (s) : SStepOpt step s none s
  | one {s e s'} : SStep step s e s' → SStepOpt step s e s'

end Conc
