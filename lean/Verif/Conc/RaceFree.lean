import Verif.Conc.Shape
/-!
# Data-race freedom of well-locked method tables

A token-level small-step machine for any number of threads calling the public methods of ONE object
of class `cls`, and the proof that, when every method of the class is `Method.wellLocked`,

* every access to a mutable component is performed by the thread holding the lock
  (`access_under_lock`),
* no reachable state has two distinct threads with conflicting enabled accesses (`race_free`),
* critical sections do not overlap (`cs_no_overlap`), every `rel` is executed by the holder
  (`rel_by_holder`), no `unknown` token is ever reached (`no_unknown`),
* two conflicting accesses by different threads in one execution are separated by a release of the
  first thread followed by an acquire of the second (`happens_before`).
-/
namespace Verif.Conc

/-! ## Equation lemmas for the functions of `Shape.lean` -/

theorem hasLock_nil : hasLock [] = false := by simp only [hasLock]
theorem hasLock_cons (x : Tok) (k : List Tok) : hasLock (x :: k) = (hasLockTok x || hasLock k) := by
  simp only [hasLock]
theorem hasLockTok_loop (b : List Tok) : hasLockTok (.loop b) = hasLock b := by simp only [hasLockTok]
theorem hasLockTok_acq : hasLockTok .acq = true := by simp only [hasLockTok]
theorem hasLockTok_rel : hasLockTok .rel = true := by simp only [hasLockTok]

theorem hasUnknown_nil : hasUnknown [] = false := by simp only [hasUnknown]
theorem hasUnknown_cons (x : Tok) (k : List Tok) :
    hasUnknown (x :: k) = (hasUnknownTok x || hasUnknown k) := by simp only [hasUnknown]
theorem hasUnknownTok_loop (b : List Tok) : hasUnknownTok (.loop b) = hasUnknown b := by
  simp only [hasUnknownTok]
theorem hasUnknownTok_unknown (s : String) : hasUnknownTok (.unknown s) = true := by
  simp only [hasUnknownTok]

theorem accessed_nil : accessed [] = [] := by simp only [accessed]
theorem accessed_cons (x : Tok) (k : List Tok) : accessed (x :: k) = accessedTok x ++ accessed k := by
  simp only [accessed]
theorem accessedTok_loop (b : List Tok) : accessedTok (.loop b) = accessed b := by
  simp only [accessedTok]
theorem accessedTok_rd (c : Nat) : accessedTok (.rd c) = [c] := by simp only [accessedTok]
theorem accessedTok_wr (c : Nat) : accessedTok (.wr c) = [c] := by simp only [accessedTok]

theorem written_nil : written [] = [] := by simp only [written]
theorem written_cons (x : Tok) (k : List Tok) : written (x :: k) = writtenTok x ++ written k := by
  simp only [written]
theorem writtenTok_loop (b : List Tok) : writtenTok (.loop b) = written b := by simp only [writtenTok]
theorem writtenTok_wr (c : Nat) : writtenTok (.wr c) = [c] := by simp only [writtenTok]

theorem hasLock_append (a b : List Tok) : hasLock (a ++ b) = (hasLock a || hasLock b) := by
  induction a with
  | nil => simp [hasLock_nil]
  | cons x a ih => simp [hasLock_cons, ih, Bool.or_assoc]

theorem hasUnknown_append (a b : List Tok) :
    hasUnknown (a ++ b) = (hasUnknown a || hasUnknown b) := by
  induction a with
  | nil => simp [hasUnknown_nil]
  | cons x a ih => simp [hasUnknown_cons, ih, Bool.or_assoc]

theorem accessed_append (a b : List Tok) : accessed (a ++ b) = accessed a ++ accessed b := by
  induction a with
  | nil => simp [accessed_nil]
  | cons x a ih => simp [accessed_cons, ih]

theorem written_append (a b : List Tok) : written (a ++ b) = written a ++ written b := by
  induction a with
  | nil => simp [written_nil]
  | cons x a ih => simp [written_cons, ih]

/-! ## `quiet` -/

/-- a single token is quiet -/
def quietTok (mutc : List Nat) (x : Tok) : Bool :=
  !hasLockTok x && !hasUnknownTok x && (accessedTok x).all (fun c => !mutc.contains c)

theorem quiet_nil (mutc : List Nat) : quiet mutc [] = true := by
  simp [quiet, hasLock_nil, hasUnknown_nil, accessed_nil]

theorem quiet_cons_iff {mutc : List Nat} {x : Tok} {k : List Tok} :
    quiet mutc (x :: k) = true ↔ quietTok mutc x = true ∧ quiet mutc k = true := by
  simp only [quiet, quietTok, hasLock_cons, hasUnknown_cons, accessed_cons, List.all_append,
    Bool.and_eq_true, Bool.not_eq_true', Bool.or_eq_false_iff]
  constructor
  · rintro ⟨⟨⟨h1, h2⟩, h3, h4⟩, h5, h6⟩; exact ⟨⟨⟨h1, h3⟩, h5⟩, ⟨h2, h4⟩, h6⟩
  · rintro ⟨⟨⟨h1, h3⟩, h5⟩, ⟨h2, h4⟩, h6⟩; exact ⟨⟨⟨h1, h2⟩, h3, h4⟩, h5, h6⟩

theorem quiet_append_iff {mutc : List Nat} {a b : List Tok} :
    quiet mutc (a ++ b) = true ↔ quiet mutc a = true ∧ quiet mutc b = true := by
  induction a with
  | nil => simp [quiet_nil]
  | cons x a ih => rw [List.cons_append, quiet_cons_iff, quiet_cons_iff, ih, and_assoc]

theorem quietTok_loop (mutc : List Nat) (b : List Tok) : quietTok mutc (.loop b) = quiet mutc b := by
  simp only [quietTok, quiet, hasLockTok_loop, hasUnknownTok_loop, accessedTok_loop]

theorem quietTok_acq (mutc : List Nat) : quietTok mutc .acq = false := by
  simp [quietTok, hasLockTok_acq]
theorem quietTok_rel (mutc : List Nat) : quietTok mutc .rel = false := by
  simp [quietTok, hasLockTok_rel]
theorem quietTok_unknown (mutc : List Nat) (s : String) : quietTok mutc (.unknown s) = false := by
  simp [quietTok, hasUnknownTok_unknown]
theorem quietTok_rd {mutc : List Nat} {c : Nat} (h : quietTok mutc (.rd c) = true) : c ∉ mutc := by
  simp [quietTok, accessedTok_rd] at h; exact h.2
theorem quietTok_wr {mutc : List Nat} {c : Nat} (h : quietTok mutc (.wr c) = true) : c ∉ mutc := by
  simp [quietTok, accessedTok_wr] at h; exact h.2

theorem quiet_hasLock {mutc : List Nat} {k : List Tok} (h : quiet mutc k = true) :
    hasLock k = false := by
  simp only [quiet, Bool.and_eq_true, Bool.not_eq_true'] at h; exact h.1.1

theorem quiet_hasUnknown {mutc : List Nat} {k : List Tok} (h : quiet mutc k = true) :
    hasUnknown k = false := by
  simp only [quiet, Bool.and_eq_true, Bool.not_eq_true'] at h; exact h.1.2

/-! ## `splitCS` really splits -/

theorem dropWhile_eq_cons {α : Type} {p : α → Bool} {l : List α} {x : α} {r : List α}
    (h : l.dropWhile p = x :: r) : p x = false ∧ l = l.takeWhile p ++ x :: r := by
  refine ⟨?_, by rw [← h, List.takeWhile_append_dropWhile]⟩
  induction l with
  | nil => simp at h
  | cons a l ih =>
    rw [List.dropWhile_cons] at h
    split at h
    · exact ih h
    · rename_i hp
      injection h with h1 h2
      subst h1
      simpa using hp

theorem splitCS_eq {ts pre body post : List Tok} (h : splitCS ts = some (pre, body, post)) :
    ts = pre ++ .acq :: (body ++ .rel :: post) := by
  unfold splitCS at h
  simp only at h
  split at h
  · cases h
  · rename_i x afterAcq hd
    split at h
    · cases h
    · rename_i y bodyR hr
      obtain ⟨hx, hts⟩ := dropWhile_eq_cons hd
      obtain ⟨hy, hrev⟩ := dropWhile_eq_cons hr
      have hx' : x = .acq := by cases x <;> simp at hx ⊢
      have hy' : y = .rel := by cases y <;> simp at hy ⊢
      subst hx' hy'
      simp only [Option.some.injEq, Prod.mk.injEq] at h
      obtain ⟨h1, h2, h3⟩ := h
      subst h1 h2 h3
      refine hts.trans ?_
      congr 2
      simpa using congrArg List.reverse hrev

/-! ## The machine -/

abbrev Tid := Nat

/-- `lock`: the holder of the object's mutex; `cont t`: `none` if thread `t` is idle, otherwise the
tokens it still has to execute in its current method call -/
structure State where
  lock : Option Tid
  cont : Tid → Option (List Tok)

/-- all threads idle, the lock free -/
def State.init : State := ⟨none, fun _ => none⟩

def upd (f : Tid → Option (List Tok)) (t : Tid) (v : Option (List Tok)) : Tid → Option (List Tok) :=
  fun u => if u = t then v else f u

theorem upd_same (f : Tid → Option (List Tok)) (t : Tid) (v : Option (List Tok)) :
    upd f t v t = v := by simp [upd]
theorem upd_other (f : Tid → Option (List Tok)) {t u : Tid} (v : Option (List Tok)) (h : u ≠ t) :
    upd f t v u = f u := by simp [upd, h]

/-- the token thread `t` is about to execute -/
def State.next (s : State) (t : Tid) : Option Tok :=
  match s.cont t with
  | some (x :: _) => some x
  | _ => none

theorem State.next_eq_some {s : State} {t : Tid} {x : Tok} (h : s.next t = some x) :
    ∃ k, s.cont t = some (x :: k) := by
  unfold State.next at h
  split at h
  · rename_i y k hk; cases h; exact ⟨k, hk⟩
  · cases h

/-- what a step does (the label of a transition) -/
inductive Ev
  | call (m : Method)
  | ret
  | tok (x : Tok)
  | iter (b : List Tok)
  | exit (b : List Tok)

/-- One step of thread `t`. Any idle thread may call any method of class `cls`; a running thread
executes the first token of its continuation; `acq` blocks unless the lock is free; `rel` frees the
lock unconditionally; a loop is either left or unfolded once. -/
inductive Step (table : List Method) (cls : Nat) : State → Tid → Ev → State → Prop
  | call {s : State} {t : Tid} (m : Method) (hidle : s.cont t = none) (hm : m ∈ table)
      (hcls : m.cls = cls) :
      Step table cls s t (.call m) ⟨s.lock, upd s.cont t (some m.body)⟩
  | ret {s : State} {t : Tid} (h : s.cont t = some []) :
      Step table cls s t .ret ⟨s.lock, upd s.cont t none⟩
  | clock {s : State} {t : Tid} {k : List Tok} (h : s.cont t = some (.clock :: k)) :
      Step table cls s t (.tok .clock) ⟨s.lock, upd s.cont t (some k)⟩
  | rd {s : State} {t : Tid} {c : Nat} {k : List Tok} (h : s.cont t = some (.rd c :: k)) :
      Step table cls s t (.tok (.rd c)) ⟨s.lock, upd s.cont t (some k)⟩
  | wr {s : State} {t : Tid} {c : Nat} {k : List Tok} (h : s.cont t = some (.wr c :: k)) :
      Step table cls s t (.tok (.wr c)) ⟨s.lock, upd s.cont t (some k)⟩
  | unknown {s : State} {t : Tid} {str : String} {k : List Tok}
      (h : s.cont t = some (.unknown str :: k)) :
      Step table cls s t (.tok (.unknown str)) ⟨s.lock, upd s.cont t (some k)⟩
  | acq {s : State} {t : Tid} {k : List Tok} (h : s.cont t = some (.acq :: k))
      (hfree : s.lock = none) :
      Step table cls s t (.tok .acq) ⟨some t, upd s.cont t (some k)⟩
  | rel {s : State} {t : Tid} {k : List Tok} (h : s.cont t = some (.rel :: k)) :
      Step table cls s t (.tok .rel) ⟨none, upd s.cont t (some k)⟩
  | loopExit {s : State} {t : Tid} {b k : List Tok} (h : s.cont t = some (.loop b :: k)) :
      Step table cls s t (.exit b) ⟨s.lock, upd s.cont t (some k)⟩
  | loopIter {s : State} {t : Tid} {b k : List Tok} (h : s.cont t = some (.loop b :: k)) :
      Step table cls s t (.iter b) ⟨s.lock, upd s.cont t (some (b ++ .loop b :: k))⟩

/-- states reachable from `State.init` -/
inductive Reachable (table : List Method) (cls : Nat) : State → Prop
  | init : Reachable table cls State.init
  | step {s s' : State} {t : Tid} {e : Ev} :
      Reachable table cls s → Step table cls s t e s' → Reachable table cls s'

/-! ## Phases of a thread -/

/-- phases in which a thread does not hold the lock: idle; running quiet tokens only (a method
without critical section, or the part after the release); before the acquire of its method -/
inductive Outside (mutc : List Nat) : Option (List Tok) → Prop
  | idle : Outside mutc none
  | quiet {k : List Tok} (h : quiet mutc k = true) : Outside mutc (some k)
  | before {k pre body post : List Tok} (heq : k = pre ++ .acq :: (body ++ .rel :: post))
      (hpre : Verif.Conc.quiet mutc pre = true) (hl : hasLock body = false)
      (hu : hasUnknown body = false) (hpost : Verif.Conc.quiet mutc post = true) :
      Outside mutc (some k)

/-- the phase in which a thread holds the lock: the rest of the body of its critical section (loops
possibly unfolded), then the release, then quiet tokens -/
inductive Inside (mutc : List Nat) : Option (List Tok) → Prop
  | mk {k body post : List Tok} (heq : k = body ++ .rel :: post) (hl : hasLock body = false)
      (hu : hasUnknown body = false) (hpost : quiet mutc post = true) : Inside mutc (some k)

theorem Outside.tail {mutc : List Nat} {x : Tok} {k : List Tok}
    (h : Outside mutc (some (x :: k))) (hx : x ≠ .acq) : Outside mutc (some k) := by
  cases h with
  | quiet hq => exact .quiet (quiet_cons_iff.1 hq).2
  | before heq hpre hl hu hpost =>
    rename_i pre body post
    cases pre with
    | nil => simp at heq; exact absurd heq.1 hx
    | cons a pre' =>
      simp at heq
      obtain ⟨rfl, rfl⟩ := heq
      exact .before rfl (quiet_cons_iff.1 hpre).2 hl hu hpost

theorem Outside.iter {mutc : List Nat} {b k : List Tok}
    (h : Outside mutc (some (.loop b :: k))) : Outside mutc (some (b ++ .loop b :: k)) := by
  cases h with
  | quiet hq =>
    have hb : Verif.Conc.quiet mutc b = true := by
      rw [← quietTok_loop]; exact (quiet_cons_iff.1 hq).1
    exact .quiet (quiet_append_iff.2 ⟨hb, hq⟩)
  | before heq hpre hl hu hpost =>
    rename_i pre body post
    cases pre with
    | nil => simp at heq
    | cons a pre' =>
      simp at heq
      obtain ⟨rfl, rfl⟩ := heq
      have hb : Verif.Conc.quiet mutc b = true := by
        rw [← quietTok_loop]; exact (quiet_cons_iff.1 hpre).1
      exact .before (pre := b ++ .loop b :: pre') (by simp) (quiet_append_iff.2 ⟨hb, hpre⟩)
        hl hu hpost

theorem Outside.acq {mutc : List Nat} {k : List Tok}
    (h : Outside mutc (some (.acq :: k))) : Inside mutc (some k) := by
  cases h with
  | quiet hq =>
    have := (quiet_cons_iff.1 hq).1
    rw [quietTok_acq] at this; cases this
  | before heq hpre hl hu hpost =>
    rename_i pre body post
    cases pre with
    | nil => simp at heq; exact .mk heq hl hu hpost
    | cons a pre' =>
      simp at heq
      obtain ⟨rfl, rfl⟩ := heq
      have := (quiet_cons_iff.1 hpre).1
      rw [quietTok_acq] at this; cases this

theorem Outside.not_rel {mutc : List Nat} {k : List Tok}
    (h : Outside mutc (some (.rel :: k))) : False := by
  cases h with
  | quiet hq =>
    have := (quiet_cons_iff.1 hq).1
    rw [quietTok_rel] at this; cases this
  | before heq hpre hl hu hpost =>
    rename_i pre body post
    cases pre with
    | nil => simp at heq
    | cons a pre' =>
      simp at heq
      obtain ⟨rfl, rfl⟩ := heq
      have := (quiet_cons_iff.1 hpre).1
      rw [quietTok_rel] at this; cases this

theorem Outside.not_unknown {mutc : List Nat} {str : String} {k : List Tok}
    (h : Outside mutc (some (.unknown str :: k))) : False := by
  cases h with
  | quiet hq =>
    have := (quiet_cons_iff.1 hq).1
    rw [quietTok_unknown] at this; cases this
  | before heq hpre hl hu hpost =>
    rename_i pre body post
    cases pre with
    | nil => simp at heq
    | cons a pre' =>
      simp at heq
      obtain ⟨rfl, rfl⟩ := heq
      have := (quiet_cons_iff.1 hpre).1
      rw [quietTok_unknown] at this; cases this

/-- a thread outside its critical section is not about to access a mutable component -/
theorem Outside.no_access {mutc : List Nat} {x : Tok} {k : List Tok} {c : Nat}
    (h : Outside mutc (some (x :: k))) (hx : x = .rd c ∨ x = .wr c) : c ∉ mutc := by
  have key : ∀ {l : List Tok}, Verif.Conc.quiet mutc (x :: l) = true → c ∉ mutc := by
    intro l hq
    have := (quiet_cons_iff.1 hq).1
    rcases hx with rfl | rfl
    · exact quietTok_rd this
    · exact quietTok_wr this
  cases h with
  | quiet hq => exact key hq
  | before heq hpre hl hu hpost =>
    rename_i pre body post
    cases pre with
    | nil => simp at heq; rcases hx with rfl | rfl <;> simp at heq
    | cons a pre' =>
      simp at heq
      obtain ⟨rfl, rfl⟩ := heq
      exact key hpre

theorem Inside.not_none {mutc : List Nat} (h : Inside mutc none) : False := by cases h

theorem Inside.not_nil {mutc : List Nat} (h : Inside mutc (some [])) : False := by
  cases h with
  | mk heq hl hu hpost => simp at heq

theorem Inside.tail {mutc : List Nat} {x : Tok} {k : List Tok}
    (h : Inside mutc (some (x :: k))) (hx : x ≠ .rel) : Inside mutc (some k) := by
  cases h with
  | mk heq hl hu hpost =>
    rename_i body post
    cases body with
    | nil => simp at heq; exact absurd heq.1 hx
    | cons a body' =>
      simp at heq
      obtain ⟨rfl, rfl⟩ := heq
      rw [hasLock_cons, Bool.or_eq_false_iff] at hl
      rw [hasUnknown_cons, Bool.or_eq_false_iff] at hu
      exact .mk rfl hl.2 hu.2 hpost

theorem Inside.iter {mutc : List Nat} {b k : List Tok}
    (h : Inside mutc (some (.loop b :: k))) : Inside mutc (some (b ++ .loop b :: k)) := by
  cases h with
  | mk heq hl hu hpost =>
    rename_i body post
    cases body with
    | nil => simp at heq
    | cons a body' =>
      simp at heq
      obtain ⟨rfl, rfl⟩ := heq
      have hl' := hl
      have hu' := hu
      rw [hasLock_cons, Bool.or_eq_false_iff, hasLockTok_loop] at hl'
      rw [hasUnknown_cons, Bool.or_eq_false_iff, hasUnknownTok_loop] at hu'
      refine .mk (body := b ++ .loop b :: body') (by simp) ?_ ?_ hpost
      · rw [hasLock_append, hl'.1, hl]; rfl
      · rw [hasUnknown_append, hu'.1, hu]; rfl

theorem Inside.rel {mutc : List Nat} {k : List Tok}
    (h : Inside mutc (some (.rel :: k))) : Outside mutc (some k) := by
  cases h with
  | mk heq hl hu hpost =>
    rename_i body post
    cases body with
    | nil => simp at heq; subst heq; exact .quiet hpost
    | cons a body' =>
      simp at heq
      obtain ⟨rfl, rfl⟩ := heq
      rw [hasLock_cons, hasLockTok_rel] at hl; cases hl

theorem Inside.not_unknown {mutc : List Nat} {str : String} {k : List Tok}
    (h : Inside mutc (some (.unknown str :: k))) : False := by
  cases h with
  | mk heq hl hu hpost =>
    rename_i body post
    cases body with
    | nil => simp at heq
    | cons a body' =>
      simp at heq
      obtain ⟨rfl, rfl⟩ := heq
      rw [hasUnknown_cons, hasUnknownTok_unknown] at hu; cases hu

/-- a freshly called well-locked method is outside -/
theorem Outside.ofWellLocked {table : List Method} {m : Method}
    (h : m.wellLocked table = true) : Outside (mutableOf table m.cls) (some m.body) := by
  unfold Method.wellLocked at h
  simp only [Bool.or_eq_true] at h
  rcases h with h | h
  · exact .quiet h
  · split at h
    · rename_i pre body post hs
      simp only [Bool.and_eq_true, Bool.not_eq_true'] at h
      exact .before (splitCS_eq hs) h.1.1.1 h.1.2 h.2 h.1.1.2
    · cases h

theorem written_mem_mutableOf {table : List Method} {m : Method} {cls c : Nat}
    (hm : m ∈ table) (hcls : m.cls = cls) (hc : c ∈ written m.body) : c ∈ mutableOf table cls := by
  simp only [mutableOf, List.mem_flatMap, List.mem_filter]
  exact ⟨m, ⟨hm, by simp [hcls]⟩, hc⟩

/-- the two ways in which two lock-free prefixes followed by a lock token can coincide -/
theorem first_lock_unique {a a' r r' : List Tok} {x y : Tok}
    (h : a ++ x :: r = a' ++ y :: r') (ha : hasLock a = false) (ha' : hasLock a' = false)
    (hx : hasLockTok x = true) (hy : hasLockTok y = true) : x = y := by
  induction a generalizing a' with
  | nil =>
    cases a' with
    | nil => simp at h; exact h.1
    | cons b a' =>
      simp at h
      rw [hasLock_cons, ← h.1, hx] at ha'; cases ha'
  | cons b a ih =>
    cases a' with
    | nil =>
      simp at h
      rw [hasLock_cons, h.1, hy] at ha; cases ha
    | cons b' a' =>
      simp at h
      rw [hasLock_cons, Bool.or_eq_false_iff] at ha ha'
      exact ih h.2 ha.2 ha'.2

/-! ## The invariant -/

/-- the lock is held exactly by the thread in the `Inside` phase; every other thread is `Outside`;
a continuation writes only components that are mutable for the class -/
structure Inv (table : List Method) (cls : Nat) (s : State) : Prop where
  inside : ∀ t, s.lock = some t → Inside (mutableOf table cls) (s.cont t)
  outside : ∀ t, s.lock ≠ some t → Outside (mutableOf table cls) (s.cont t)
  wr : ∀ t k, s.cont t = some k → ∀ c ∈ written k, c ∈ mutableOf table cls

theorem Inv.init (table : List Method) (cls : Nat) : Inv table cls State.init where
  inside := by intro t h; cases h
  outside := by intro t _; exact .idle
  wr := by intro t k h; cases h

/-- a step of `t` that does not touch the lock -/
theorem Inv.update {table : List Method} {cls : Nat} {s : State} {t : Tid}
    {v : Option (List Tok)} (hinv : Inv table cls s)
    (hin : s.lock = some t → Inside (mutableOf table cls) (s.cont t) →
      Inside (mutableOf table cls) v)
    (hout : s.lock ≠ some t → Outside (mutableOf table cls) (s.cont t) →
      Outside (mutableOf table cls) v)
    (hwr : ∀ k, v = some k → ∀ c ∈ written k, c ∈ mutableOf table cls) :
    Inv table cls ⟨s.lock, upd s.cont t v⟩ where
  inside := by
    intro u hu
    by_cases hut : u = t
    · subst hut; simp only [upd_same]; exact hin hu (hinv.inside u hu)
    · simp only [upd_other _ _ hut]; exact hinv.inside u hu
  outside := by
    intro u hu
    by_cases hut : u = t
    · subst hut; simp only [upd_same]; exact hout hu (hinv.outside u hu)
    · simp only [upd_other _ _ hut]; exact hinv.outside u hu
  wr := by
    intro u k hk
    by_cases hut : u = t
    · subst hut; simp only [upd_same] at hk; exact hwr k hk
    · simp only [upd_other _ _ hut] at hk; exact hinv.wr u k hk

theorem written_tail_sub {x : Tok} {k : List Tok} {c : Nat} (h : c ∈ written k) :
    c ∈ written (x :: k) := by
  rw [written_cons]; exact List.mem_append_right _ h

theorem written_iter_sub {b k : List Tok} {c : Nat} (h : c ∈ written (b ++ .loop b :: k)) :
    c ∈ written (.loop b :: k) := by
  rw [written_append, written_cons, writtenTok_loop] at h
  rw [written_cons, writtenTok_loop]
  simp only [List.mem_append] at h ⊢
  rcases h with h | h | h
  · exact .inl h
  · exact .inl h
  · exact .inr h

/-- executing a token other than `acq`/`rel`, or leaving a loop -/
theorem Inv.advance {table : List Method} {cls : Nat} {s : State} {t : Tid} {x : Tok}
    {k : List Tok} (hinv : Inv table cls s) (h : s.cont t = some (x :: k)) (h1 : x ≠ .acq)
    (h2 : x ≠ .rel) : Inv table cls ⟨s.lock, upd s.cont t (some k)⟩ := by
  refine hinv.update ?_ ?_ ?_
  · intro _ hi; rw [h] at hi; exact hi.tail h2
  · intro _ ho; rw [h] at ho; exact ho.tail h1
  · intro k' hk' c hc; cases hk'; exact hinv.wr t _ h c (written_tail_sub hc)

/-- in a state satisfying the invariant, a thread about to release holds the lock -/
theorem Inv.rel_holder {table : List Method} {cls : Nat} {s : State} {t : Tid} {k : List Tok}
    (hinv : Inv table cls s) (h : s.cont t = some (.rel :: k)) : s.lock = some t := by
  apply Classical.byContradiction
  intro hne
  have := hinv.outside t hne
  rw [h] at this
  exact this.not_rel

theorem Step.inv {table : List Method} {cls : Nat}
    (hwl : ∀ m ∈ table, m.cls = cls → m.wellLocked table = true)
    {s s' : State} {t : Tid} {e : Ev} (hinv : Inv table cls s) (hs : Step table cls s t e s') :
    Inv table cls s' := by
  cases hs with
  | call m hidle hm hcls =>
    refine hinv.update ?_ ?_ ?_
    · intro _ hi; rw [hidle] at hi; exact hi.not_none.elim
    · intro _ _; subst hcls; exact Outside.ofWellLocked (hwl m hm rfl)
    · intro k hk c hc; cases hk; exact written_mem_mutableOf hm hcls hc
  | ret h =>
    refine hinv.update ?_ ?_ ?_
    · intro _ hi; rw [h] at hi; exact hi.not_nil.elim
    · intro _ _; exact .idle
    · intro k hk; cases hk
  | clock h => exact hinv.advance h (by simp) (by simp)
  | rd h => exact hinv.advance h (by simp) (by simp)
  | wr h => exact hinv.advance h (by simp) (by simp)
  | unknown h => exact hinv.advance h (by simp) (by simp)
  | loopExit h => exact hinv.advance h (by simp) (by simp)
  | loopIter h =>
    refine hinv.update ?_ ?_ ?_
    · intro _ hi; rw [h] at hi; exact hi.iter
    · intro _ ho; rw [h] at ho; exact ho.iter
    · intro k' hk' c hc; cases hk'; exact hinv.wr t _ h c (written_iter_sub hc)
  | acq h hfree =>
    have hot : Outside (mutableOf table cls) (s.cont t) := hinv.outside t (by rw [hfree]; simp)
    rw [h] at hot
    refine ⟨?_, ?_, ?_⟩
    · intro u hu
      have : t = u := by simpa using hu
      subst this
      simp only [upd_same]; exact hot.acq
    · intro u hu
      have hut : u ≠ t := by intro e; subst e; exact hu rfl
      simp only [upd_other _ _ hut]
      exact hinv.outside u (by rw [hfree]; simp)
    · intro u k' hk'
      by_cases hut : u = t
      · subst hut; simp only [upd_same] at hk'; cases hk'
        intro c hc; exact hinv.wr u _ h c (written_tail_sub hc)
      · simp only [upd_other _ _ hut] at hk'; exact hinv.wr u k' hk'
  | rel h =>
    have hlock : s.lock = some t := hinv.rel_holder h
    have hit := hinv.inside t hlock
    rw [h] at hit
    refine ⟨?_, ?_, ?_⟩
    · intro u hu; cases hu
    · intro u _
      by_cases hut : u = t
      · subst hut; simp only [upd_same]; exact hit.rel
      · simp only [upd_other _ _ hut]
        exact hinv.outside u (by rw [hlock]; intro e; exact hut (Option.some.inj e).symm)
    · intro u k' hk'
      by_cases hut : u = t
      · subst hut; simp only [upd_same] at hk'; cases hk'
        intro c hc; exact hinv.wr u _ h c (written_tail_sub hc)
      · simp only [upd_other _ _ hut] at hk'; exact hinv.wr u k' hk'

theorem Reachable.inv {table : List Method} {cls : Nat}
    (hwl : ∀ m ∈ table, m.cls = cls → m.wellLocked table = true)
    {s : State} (hr : Reachable table cls s) : Inv table cls s := by
  induction hr with
  | init => exact Inv.init table cls
  | step _ hs ih => exact Step.inv hwl ih hs

/-! ## Main theorems about reachable states -/

section Main
variable {table : List Method} {cls : Nat}

/-- **Every access to a mutable component happens under the lock.** -/
theorem access_under_lock (hwl : ∀ m ∈ table, m.cls = cls → m.wellLocked table = true)
    {s : State} (hr : Reachable table cls s) {t : Tid} {c : Nat}
    (hnext : s.next t = some (.rd c) ∨ s.next t = some (.wr c))
    (hc : c ∈ mutableOf table cls) : s.lock = some t := by
  have hinv := hr.inv hwl
  apply Classical.byContradiction
  intro hne
  have ho := hinv.outside t hne
  rcases hnext with h | h
  · obtain ⟨k, hk⟩ := State.next_eq_some h
    rw [hk] at ho
    exact ho.no_access (.inl rfl) hc
  · obtain ⟨k, hk⟩ := State.next_eq_some h
    rw [hk] at ho
    exact ho.no_access (.inr rfl) hc

/-- a component some running thread is about to write is mutable for the class -/
theorem write_mutable (hwl : ∀ m ∈ table, m.cls = cls → m.wellLocked table = true)
    {s : State} (hr : Reachable table cls s) {t : Tid} {c : Nat}
    (hnext : s.next t = some (.wr c)) : c ∈ mutableOf table cls := by
  obtain ⟨k, hk⟩ := State.next_eq_some hnext
  refine (hr.inv hwl).wr t _ hk c ?_
  rw [written_cons, writtenTok_wr]; simp

/-- the lock has at most one holder (immediate from the shape of the state) -/
theorem holder_unique {s : State} {t u : Tid} (ht : s.lock = some t) (hu : s.lock = some u) :
    t = u := by
  rw [ht] at hu; exact Option.some.inj hu

/-- two accesses conflict: same component, at least one is a write -/
def conflict (a b : Tok) : Prop :=
  ∃ c, (a = .wr c ∧ (b = .rd c ∨ b = .wr c)) ∨ (a = .rd c ∧ b = .wr c)

/-- **Data-race freedom**: in no reachable state are two distinct threads about to perform
conflicting accesses. -/
theorem race_free (hwl : ∀ m ∈ table, m.cls = cls → m.wellLocked table = true)
    {s : State} (hr : Reachable table cls s) {t u : Tid} (htu : t ≠ u) {a b : Tok}
    (ha : s.next t = some a) (hb : s.next u = some b) : ¬ conflict a b := by
  rintro ⟨c, ⟨rfl, hb'⟩ | ⟨rfl, rfl⟩⟩
  · have hc := write_mutable hwl hr ha
    have h1 := access_under_lock hwl hr (t := t) (.inr ha) hc
    have h2 : s.lock = some u := by
      rcases hb' with rfl | rfl
      · exact access_under_lock hwl hr (.inl hb) hc
      · exact access_under_lock hwl hr (.inr hb) hc
    exact htu (holder_unique h1 h2)
  · have hc := write_mutable hwl hr hb
    have h1 := access_under_lock hwl hr (t := t) (.inl ha) hc
    have h2 := access_under_lock hwl hr (t := u) (.inr hb) hc
    exact htu (holder_unique h1 h2)

/-- a thread about to release holds the lock (so the unconditional `rel` step of the machine only
ever frees the lock of the thread executing it) -/
theorem rel_by_holder (hwl : ∀ m ∈ table, m.cls = cls → m.wellLocked table = true)
    {s : State} (hr : Reachable table cls s) {t : Tid} (hnext : s.next t = some .rel) :
    s.lock = some t := by
  obtain ⟨k, hk⟩ := State.next_eq_some hnext
  exact (hr.inv hwl).rel_holder hk

/-- no thread ever reaches an `unknown` token -/
theorem no_unknown (hwl : ∀ m ∈ table, m.cls = cls → m.wellLocked table = true)
    {s : State} (hr : Reachable table cls s) (t : Tid) (str : String) :
    s.next t ≠ some (.unknown str) := by
  intro hnext
  obtain ⟨k, hk⟩ := State.next_eq_some hnext
  have hinv := hr.inv hwl
  by_cases hl : s.lock = some t
  · have := hinv.inside t hl; rw [hk] at this; exact this.not_unknown
  · have := hinv.outside t hl; rw [hk] at this; exact this.not_unknown

/-- a continuation is in a critical section: its next lock operation is a release -/
def InCS (k : List Tok) : Prop :=
  ∃ body post, k = body ++ .rel :: post ∧ hasLock body = false

/-- thread `t` is inside a critical section -/
def State.inCS (s : State) (t : Tid) : Prop := ∃ k, s.cont t = some k ∧ InCS k

/-- the holder of the lock is exactly the thread inside its critical section -/
theorem lock_iff_inCS (hwl : ∀ m ∈ table, m.cls = cls → m.wellLocked table = true)
    {s : State} (hr : Reachable table cls s) (t : Tid) : s.lock = some t ↔ s.inCS t := by
  have hinv := hr.inv hwl
  constructor
  · intro hl
    have hi := hinv.inside t hl
    generalize ho : s.cont t = o at hi
    cases hi with
    | mk heq hl' hu hpost => exact ⟨_, ho, _, _, heq, hl'⟩
  · rintro ⟨k, hk, body, post, heq, hbody⟩
    apply Classical.byContradiction
    intro hne
    have ho := hinv.outside t hne
    rw [hk] at ho
    cases ho with
    | quiet hq =>
      have := quiet_hasLock hq
      rw [heq, hasLock_append, hasLock_cons, hasLockTok_rel] at this
      simp at this
    | before heq' hpre hl' hu hpost =>
      rw [heq] at heq'
      have := first_lock_unique heq' hbody (quiet_hasLock hpre) hasLockTok_rel hasLockTok_acq
      cases this

/-- **Critical sections do not overlap**: at most one thread is inside. -/
theorem cs_no_overlap (hwl : ∀ m ∈ table, m.cls = cls → m.wellLocked table = true)
    {s : State} (hr : Reachable table cls s) {t u : Tid} (ht : s.inCS t) (hu : s.inCS u) :
    t = u :=
  holder_unique ((lock_iff_inCS hwl hr t).2 ht) ((lock_iff_inCS hwl hr u).2 hu)

end Main

/-! ## Executions and happens-before -/

/-- a finite execution with its trace of (thread, event) labels -/
inductive Exec (table : List Method) (cls : Nat) : State → List (Tid × Ev) → State → Prop
  | nil {s : State} : Exec table cls s [] s
  | cons {s s1 s2 : State} {t : Tid} {e : Ev} {tr : List (Tid × Ev)} :
      Step table cls s t e s1 → Exec table cls s1 tr s2 → Exec table cls s ((t, e) :: tr) s2

section HB
variable {table : List Method} {cls : Nat}

theorem Exec.split {s s' : State} {tr1 tr2 : List (Tid × Ev)}
    (h : Exec table cls s (tr1 ++ tr2) s') :
    ∃ m, Exec table cls s tr1 m ∧ Exec table cls m tr2 s' := by
  induction tr1 generalizing s with
  | nil => exact ⟨s, .nil, h⟩
  | cons a tr1 ih =>
    cases h with
    | cons hs hrest =>
      obtain ⟨m, h1, h2⟩ := ih hrest
      exact ⟨m, .cons hs h1, h2⟩

theorem Exec.reachable {s s' : State} {tr : List (Tid × Ev)} (h : Exec table cls s tr s')
    (hr : Reachable table cls s) : Reachable table cls s' := by
  induction h with
  | nil => exact hr
  | cons hs _ ih => exact ih (.step hr hs)

theorem Exec.snoc {s s1 s2 : State} {tr : List (Tid × Ev)} {t : Tid} {e : Ev}
    (h : Exec table cls s tr s1) (hs : Step table cls s1 t e s2) :
    Exec table cls s (tr ++ [(t, e)]) s2 := by
  induction h with
  | nil => exact .cons hs .nil
  | cons h1 _ ih => exact .cons h1 (ih hs)

/-- every reachable state is the end of an execution from the initial state, and conversely -/
theorem reachable_iff_exec {s : State} :
    Reachable table cls s ↔ ∃ tr, Exec table cls State.init tr s := by
  constructor
  · intro hr
    induction hr with
    | init => exact ⟨[], .nil⟩
    | @step s s' t e _ hs ih =>
      obtain ⟨tr, htr⟩ := ih
      exact ⟨tr ++ [(t, e)], htr.snoc hs⟩
  · rintro ⟨tr, htr⟩; exact htr.reachable .init

/-- how a step changes the lock -/
theorem Step.lock_cases {s s' : State} {t : Tid} {e : Ev} (h : Step table cls s t e s') :
    s'.lock = s.lock ∨ (e = .tok .acq ∧ s'.lock = some t) ∨
      (e = .tok .rel ∧ s'.lock = none ∧ ∃ k, s.cont t = some (.rel :: k)) := by
  cases h with
  | acq h hfree => exact .inr (.inl ⟨rfl, rfl⟩)
  | rel h => exact .inr (.inr ⟨rfl, rfl, _, h⟩)
  | _ => exact .inl rfl

/-- a token step executes the next token of the thread -/
theorem Step.tok_next {s s' : State} {t : Tid} {x : Tok} (h : Step table cls s t (.tok x) s') :
    s.next t = some x := by
  cases h <;> simp [State.next, *]

/-- if `u` holds the lock at the end but not at the beginning, it has acquired it -/
theorem Exec.acquired {s s' : State} {tr : List (Tid × Ev)} (h : Exec table cls s tr s')
    {u : Tid} (hend : s'.lock = some u) (hbeg : s.lock ≠ some u) :
    ∃ p q, tr = p ++ (u, .tok .acq) :: q := by
  induction h with
  | nil => exact (hbeg hend).elim
  | @cons s s1 s2 t e tr hs hrest ih =>
    by_cases h1 : s1.lock = some u
    · rcases hs.lock_cases with h | ⟨he, h⟩ | ⟨_, h, _⟩
      · rw [h] at h1; exact (hbeg h1).elim
      · rw [h] at h1; cases h1; subst he; exact ⟨[], tr, rfl⟩
      · rw [h] at h1; cases h1
    · obtain ⟨p, q, hpq⟩ := ih hend h1
      exact ⟨(t, e) :: p, q, by rw [hpq]; rfl⟩

/-- if the lock passes from `t` to `u ≠ t`, then `t` released it and afterwards `u` acquired it -/
theorem Exec.handover (hwl : ∀ m ∈ table, m.cls = cls → m.wellLocked table = true)
    {s s' : State} {tr : List (Tid × Ev)} (h : Exec table cls s tr s')
    (hinv : Inv table cls s) {t u : Tid} (htu : t ≠ u) (hbeg : s.lock = some t)
    (hend : s'.lock = some u) :
    ∃ p q r, tr = p ++ (t, .tok .rel) :: (q ++ (u, .tok .acq) :: r) := by
  induction h with
  | nil => rw [hbeg] at hend; exact (htu (Option.some.inj hend)).elim
  | @cons s s1 s2 x e tr hs hrest ih =>
    rcases hs.lock_cases with h | ⟨he, h⟩ | ⟨he, h, k, hk⟩
    · obtain ⟨p, q, r, hpqr⟩ := ih (hs.inv hwl hinv) (h.trans hbeg) hend
      exact ⟨(x, e) :: p, q, r, by rw [hpqr]; rfl⟩
    · subst he
      cases hs with
      | acq _ hfree => rw [hbeg] at hfree; cases hfree
    · subst he
      have hx : s.lock = some x := hinv.rel_holder hk
      have : t = x := holder_unique hbeg hx
      subst this
      obtain ⟨q, r, hqr⟩ := hrest.acquired hend (by rw [h]; simp)
      exact ⟨[], q, r, by rw [hqr]; rfl⟩

/-- **Happens-before** for accesses to a mutable component: in any execution from the initial
state, if `t` accesses `c` and later another thread `u` accesses `c`, then in between `t`
releases the lock and afterwards `u` acquires it. -/
theorem happens_before_mutable (hwl : ∀ m ∈ table, m.cls = cls → m.wellLocked table = true)
    {s : State} {tr1 tr2 tr3 : List (Tid × Ev)} {t u : Tid} {a b : Tok} {c : Nat}
    (hex : Exec table cls State.init (tr1 ++ (t, .tok a) :: (tr2 ++ (u, .tok b) :: tr3)) s)
    (htu : t ≠ u) (ha : a = .rd c ∨ a = .wr c) (hb : b = .rd c ∨ b = .wr c)
    (hc : c ∈ mutableOf table cls) :
    ∃ p q r, tr2 = p ++ (t, .tok .rel) :: (q ++ (u, .tok .acq) :: r) := by
  obtain ⟨s1, h1, hrest⟩ := hex.split
  cases hrest with
  | cons hsa hrest =>
    rename_i s2
    obtain ⟨s3, h2, hrest⟩ := hrest.split
    cases hrest with
    | cons hsb hrest =>
      have hr1 : Reachable table cls s1 := h1.reachable .init
      have hr2 : Reachable table cls s2 := .step hr1 hsa
      have hr3 : Reachable table cls s3 := h2.reachable hr2
      have hl1 : s1.lock = some t := by
        refine access_under_lock hwl hr1 ?_ hc
        rcases ha with rfl | rfl
        · exact .inl hsa.tok_next
        · exact .inr hsa.tok_next
      have hl2 : s2.lock = some t := by
        rcases hsa.lock_cases with h | ⟨he, _⟩ | ⟨he, _⟩
        · exact h.trans hl1
        · rcases ha with rfl | rfl <;> cases he
        · rcases ha with rfl | rfl <;> cases he
      have hl3 : s3.lock = some u := by
        refine access_under_lock hwl hr3 ?_ hc
        rcases hb with rfl | rfl
        · exact .inl hsb.tok_next
        · exact .inr hsb.tok_next
      exact h2.handover hwl (hr2.inv hwl) htu hl2 hl3

/-- **Happens-before** for conflicting accesses. -/
theorem happens_before (hwl : ∀ m ∈ table, m.cls = cls → m.wellLocked table = true)
    {s : State} {tr1 tr2 tr3 : List (Tid × Ev)} {t u : Tid} {a b : Tok}
    (hex : Exec table cls State.init (tr1 ++ (t, .tok a) :: (tr2 ++ (u, .tok b) :: tr3)) s)
    (htu : t ≠ u) (hab : conflict a b) :
    ∃ p q r, tr2 = p ++ (t, .tok .rel) :: (q ++ (u, .tok .acq) :: r) := by
  obtain ⟨s1, h1, hrest⟩ := hex.split
  have hex' := hex
  cases hrest with
  | cons hsa hrest =>
    rename_i s2
    obtain ⟨s3, h2, hrest⟩ := hrest.split
    cases hrest with
    | cons hsb hrest =>
      have hr1 : Reachable table cls s1 := h1.reachable .init
      have hr3 : Reachable table cls s3 := h2.reachable (.step hr1 hsa)
      obtain ⟨c, ⟨rfl, hb⟩ | ⟨rfl, rfl⟩⟩ := hab
      · exact happens_before_mutable hwl hex' htu (.inr rfl) hb
          (write_mutable hwl hr1 hsa.tok_next)
      · exact happens_before_mutable hwl hex' htu (.inl rfl) (.inr rfl)
          (write_mutable hwl hr3 hsb.tok_next)

end HB

/-! ## Non-vacuity: the machine does run -/

/-- In a one-method class `acq; wr 0; rel`, the state where thread 0 holds the lock and is about to
write while thread 1 waits at its `acq` is reachable (and thread 1 cannot move: `Step.acq` needs
`lock = none`). -/
example :
    ∃ s, Reachable [⟨0, "m", [.acq, .wr 0, .rel]⟩] 0 s ∧ s.lock = some 0 ∧
      s.next 0 = some (.wr 0) ∧ s.next 1 = some .acq := by
  let m : Method := ⟨0, "m", [.acq, .wr 0, .rel]⟩
  let s1 : State := ⟨none, upd State.init.cont 0 (some m.body)⟩
  let s2 : State := ⟨none, upd s1.cont 1 (some m.body)⟩
  let s3 : State := ⟨some 0, upd s2.cont 0 (some [.wr 0, .rel])⟩
  have h1 : Step [m] 0 State.init 0 (.call m) s1 :=
    Step.call m rfl (List.mem_singleton.2 rfl) rfl
  have h2 : Step [m] 0 s1 1 (.call m) s2 :=
    Step.call (s := s1) m rfl (List.mem_singleton.2 rfl) rfl
  have h3 : Step [m] 0 s2 0 (.tok .acq) s3 :=
    Step.acq (s := s2) (k := [.wr 0, .rel]) rfl rfl
  exact ⟨s3, .step (.step (.step .init h1) h2) h3, rfl, rfl, rfl⟩

end Verif.Conc
