import Verif.Conc.Exec
/-! Histories of both machines are well-formed (every thread's subhistory alternates
invocation / response, starting with an invocation): the standing assumption under which
Herlihy–Wing linearizability is stated. -/
namespace Conc
variable {σ Op Out : Type}

/-- `WFFrom busy h`: scanning `h` left to right, starting with the set `busy` of threads that
have an open invocation, every `inv t` finds `t` not busy and every `res t` finds `t` busy. -/
def WFFrom : (Tid → Bool) → List (Ev Op Out) → Prop
  | _, [] => True
  | p, .inv t _ :: r => p t = false ∧ WFFrom (fun u => if u = t then true else p u) r
  | p, .res t _ :: r => p t = true ∧ WFFrom (fun u => if u = t then false else p u) r

/-- the busy set after scanning `h` -/
def busyAfter : (Tid → Bool) → List (Ev Op Out) → Tid → Bool
  | p, [] => p
  | p, .inv t _ :: r => busyAfter (fun u => if u = t then true else p u) r
  | p, .res t _ :: r => busyAfter (fun u => if u = t then false else p u) r

/-- a history is well-formed: each thread alternates `inv`, `res`, `inv`, ... -/
def WellFormed (h : List (Ev Op Out)) : Prop := WFFrom (fun _ => false) h

theorem wfFrom_snoc_inv (p : Tid → Bool) (h : List (Ev Op Out)) (t : Tid) (op : Op) :
    WFFrom p (h ++ [.inv t op]) ↔ WFFrom p h ∧ busyAfter p h t = false := by
  induction h generalizing p with
  | nil => simp [WFFrom, busyAfter]
  | cons e r ih => cases e <;> simp [WFFrom, busyAfter, ih, and_assoc]

theorem wfFrom_snoc_res (p : Tid → Bool) (h : List (Ev Op Out)) (t : Tid) (out : Out) :
    WFFrom p (h ++ [.res t out]) ↔ WFFrom p h ∧ busyAfter p h t = true := by
  induction h generalizing p with
  | nil => simp [WFFrom, busyAfter]
  | cons e r ih => cases e <;> simp [WFFrom, busyAfter, ih, and_assoc]

theorem busyAfter_snoc_inv (p : Tid → Bool) (h : List (Ev Op Out)) (t : Tid) (op : Op) :
    busyAfter p (h ++ [.inv t op]) = fun u => if u = t then true else busyAfter p h u := by
  induction h generalizing p with
  | nil => simp [busyAfter]
  | cons e r ih => cases e <;> simp [busyAfter, ih]

theorem busyAfter_snoc_res (p : Tid → Bool) (h : List (Ev Op Out)) (t : Tid) (out : Out) :
    busyAfter p (h ++ [.res t out]) = fun u => if u = t then false else busyAfter p h u := by
  induction h generalizing p with
  | nil => simp [busyAfter]
  | cons e r ih => cases e <;> simp [busyAfter, ih]

theorem spec_exec_wf {step : σ → Op → σ × Out} {s0 : σ} {h : List (Ev Op Out)}
    {s : SState σ Op Out} (hx : Exec (SStep step) (sInit s0) h s) :
    WellFormed h ∧ ∀ t, busyAfter (fun _ => false) h t = false ↔ s.ph t = .idle := by
  induction hx with
  | refl => exact ⟨trivial, fun t => by simp [busyAfter, sInit]⟩
  | @snoc h' _ _ _ _ hs ih =>
    obtain ⟨hwf, hb⟩ := ih
    cases hs with
    | inv t op hi =>
      refine ⟨(wfFrom_snoc_inv _ _ t op).mpr ⟨hwf, (hb t).mpr hi⟩, fun u => ?_⟩
      show busyAfter _ (_ ++ [Ev.inv t op]) u = false ↔ _
      rw [busyAfter_snoc_inv]
      by_cases hu : u = t <;> simp [hu, hb]
    | perform t op hp =>
      refine ⟨by simpa using hwf, fun u => ?_⟩
      by_cases hu : u = t
      · subst hu; simp [hb, hp]
      · simp [hu, hb]
    | res t out hp =>
      have hbusy : busyAfter (fun _ => false) h' t = true := by
        cases hbt : busyAfter (fun _ => false) h' t with
        | true => rfl
        | false => rw [(hb t).mp hbt] at hp; cases hp
      refine ⟨(wfFrom_snoc_res _ _ t out).mpr ⟨hwf, hbusy⟩, fun u => ?_⟩
      show busyAfter _ (_ ++ [Ev.res t out]) u = false ↔ _
      rw [busyAfter_snoc_res]
      by_cases hu : u = t <;> simp [hu, hb]

/-- every history of the atomic object is well-formed -/
theorem spec_wellFormed {step : σ → Op → σ × Out} {s0 : σ} {h : List (Ev Op Out)}
    (hs : SpecHistory step s0 h) : WellFormed h := by
  obtain ⟨s, hx⟩ := hs
  exact (spec_exec_wf hx).1

/-- every history of the lock-protected implementation is well-formed -/
theorem impl_wellFormed {step : σ → Op → σ × Out} {s0 : σ} {h : List (Ev Op Out)}
    (hi : ImplHistory step s0 h) : WellFormed h :=
  spec_wellFormed (impl_refines_spec hi)

end Conc
