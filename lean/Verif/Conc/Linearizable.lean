import Verif.Conc.Exec
/-! Herlihy–Wing linearizability, and the proof that every history of the canonical atomic
object (hence, by refinement, of the lock-protected implementation) is linearizable. -/
namespace Conc
variable {σ Op Out : Type}

/-! ## Definition of linearizability -/

/-- the thread of an event -/
def Ev.tid : Ev Op Out → Tid
  | .inv t _ => t
  | .res t _ => t

/-- One entry of a linearization: the operation whose invocation event sits at position `pos`
of the history, issued by thread `tid`, with argument `op`, that took effect returning `out`.
Operations are identified by the position of their invocation event. -/
structure LinOp (Op Out : Type) where
  pos : Nat
  tid : Tid
  op : Op
  out : Out

/-- `Legal step s ops`: running the sequential specification `step` from `s` over the operations
of `ops`, in order, produces exactly the recorded outputs. -/
def Legal (step : σ → Op → σ × Out) : σ → List (Op × Out) → Prop
  | _, [] => True
  | s, (op, out) :: r => (step s op).2 = out ∧ Legal step (step s op).1 r

/-- object value after running the operations -/
def finalState (step : σ → Op → σ × Out) : σ → List (Op × Out) → σ
  | s, [] => s
  | s, (op, _) :: r => finalState step (step s op).1 r

/-- `a` occurs strictly before `b` in `l` (some occurrence of `a` precedes some occurrence of `b`;
the lists we use it on have no duplicates) -/
def Before {α : Type} (l : List α) (a b : α) : Prop :=
  ∃ l1 l2 l3, l = l1 ++ a :: (l2 ++ b :: l3)

/-- The event at position `j` of `h` is the response matching the invocation at position `i`
(by thread `t`): it is a response of `t` with output `out`, it comes after `i`, and `t` has no
event strictly in between (so it is the *first* event of `t` after its invocation). -/
def IsResponseOf (h : List (Ev Op Out)) (i j : Nat) (t : Tid) (out : Out) : Prop :=
  i < j ∧ h[j]? = some (.res t out) ∧ ∀ k e, i < k → k < j → h[k]? = some e → e.tid ≠ t

/-- `lin` is a linearization of the history `h` w.r.t. the sequential specification `step`
started at `s0` (Herlihy–Wing).  `lin` lists the operations that took effect, in the order of
their linearization points.
* `legal`     : `lin` is a legal sequential history: replaying `step` from `s0` gives the outputs.
* `isInv`     : every entry of `lin` is an operation invoked in `h`, by that thread with that
                argument (entry `x` names the invocation event `h[x.pos]`).
* `nodup`     : every invocation of `h` is linearized at most once.
* `complete`  : every operation that has a response in `h` is in `lin`, with the thread, the
                argument *and the output* seen in `h` (pending invocations of `h` may or may not
                be in `lin`: that is H–W's "extend `h` with some responses, drop the other
                pending invocations").
* `progOrder` : for each thread, its operations occur in `lin` in its program order in `h`
                (with `isInv`, `nodup`, `complete`: `lin` restricted to a thread equals that
                thread's subhistory, i.e. H–W "equivalence").
* `realTime`  : if the response of `a` precedes the invocation of `b` in `h` then `a` precedes
                `b` in `lin` (H–W: `<_H ⊆ <_S`). -/
structure IsLinearization (step : σ → Op → σ × Out) (s0 : σ) (h : List (Ev Op Out))
    (lin : List (LinOp Op Out)) : Prop where
  legal : Legal step s0 (lin.map fun x => (x.op, x.out))
  isInv : ∀ x ∈ lin, h[x.pos]? = some (.inv x.tid x.op)
  nodup : (lin.map (·.pos)).Nodup
  complete : ∀ i j t op out, h[i]? = some (.inv t op) → IsResponseOf h i j t out →
    (⟨i, t, op, out⟩ : LinOp Op Out) ∈ lin
  progOrder : ∀ a b, a ∈ lin → b ∈ lin → a.tid = b.tid → a.pos < b.pos → Before lin a b
  realTime : ∀ a b j out, a ∈ lin → b ∈ lin → IsResponseOf h a.pos j a.tid out → j < b.pos →
    Before lin a b

/-- The history `h` is linearizable w.r.t. the sequential specification `step` from `s0`. -/
def Linearizable (step : σ → Op → σ × Out) (s0 : σ) (h : List (Ev Op Out)) : Prop :=
  ∃ lin, IsLinearization step s0 h lin

/-! ## List helpers -/

theorem lt_length_of_getElem? {α : Type} {l : List α} {k : Nat} {x : α} (h : l[k]? = some x) :
    k < l.length := by
  obtain ⟨hk, _⟩ := List.getElem?_eq_some_iff.mp h
  exact hk

theorem getElem?_snoc_left {α : Type} {l : List α} {k : Nat} {x e : α} (h : l[k]? = some x) :
    (l ++ [e])[k]? = some x := by
  rw [List.getElem?_append_left (lt_length_of_getElem? h)]; exact h

theorem getElem?_snoc_cases {α : Type} {l : List α} {k : Nat} {x e : α}
    (h : (l ++ [e])[k]? = some x) : l[k]? = some x ∨ (k = l.length ∧ x = e) := by
  have hk := lt_length_of_getElem? h
  simp at hk
  rcases Nat.lt_or_ge k l.length with h1 | h1
  · left; rwa [List.getElem?_append_left h1] at h
  · right
    have hk' : k = l.length := by omega
    subst hk'
    simp at h
    exact ⟨rfl, h.symm⟩

theorem getElem?_snoc_of_lt {α : Type} {l : List α} {k : Nat} {x e : α}
    (h : (l ++ [e])[k]? = some x) (hk : k < l.length) : l[k]? = some x := by
  rwa [List.getElem?_append_left hk] at h

theorem Before.append {α : Type} {l : List α} {a b : α} (h : Before l a b) (m : List α) :
    Before (l ++ m) a b := by
  obtain ⟨l1, l2, l3, rfl⟩ := h
  exact ⟨l1, l2, l3 ++ m, by simp⟩

theorem Before.snoc_of_mem {α : Type} {l : List α} {a : α} (h : a ∈ l) (b : α) :
    Before (l ++ [b]) a b := by
  obtain ⟨l1, l2, rfl⟩ := List.append_of_mem h
  exact ⟨l1, l2, [], by simp⟩

theorem legal_snoc (step : σ → Op → σ × Out) (s : σ) (l : List (Op × Out)) (op : Op) (out : Out) :
    Legal step s (l ++ [(op, out)]) ↔
      Legal step s l ∧ (step (finalState step s l) op).2 = out := by
  induction l generalizing s with
  | nil => simp [Legal, finalState]
  | cons x r ih =>
    obtain ⟨o, u⟩ := x
    simp [Legal, finalState, ih, and_assoc]

theorem finalState_snoc (step : σ → Op → σ × Out) (s : σ) (l : List (Op × Out)) (op : Op)
    (out : Out) :
    finalState step s (l ++ [(op, out)]) = (step (finalState step s l) op).1 := by
  induction l generalizing s with
  | nil => simp [finalState]
  | cons x r ih =>
    obtain ⟨o, u⟩ := x
    simp [finalState, ih]

/-! ## Response lemmas -/

theorem IsResponseOf.lt_length {h : List (Ev Op Out)} {i j : Nat} {t : Tid} {out : Out}
    (hr : IsResponseOf h i j t out) : j < h.length :=
  lt_length_of_getElem? hr.2.1

/-- a response in `h ++ [e]` is either already one in `h`, or `e` itself -/
theorem isResponseOf_snoc {h : List (Ev Op Out)} {e : Ev Op Out} {i j : Nat} {t : Tid} {out : Out}
    (hr : IsResponseOf (h ++ [e]) i j t out) :
    IsResponseOf h i j t out ∨
      (j = h.length ∧ e = .res t out ∧ i < h.length ∧
        ∀ k e', i < k → h[k]? = some e' → e'.tid ≠ t) := by
  obtain ⟨hij, hj, hb⟩ := hr
  rcases getElem?_snoc_cases hj with hj' | ⟨hjl, he⟩
  · left
    exact ⟨hij, hj', fun k e' h1 h2 h3 => hb k e' h1 h2 (getElem?_snoc_left h3)⟩
  · right
    refine ⟨hjl, he.symm, by omega, fun k e' h1 h3 => ?_⟩
    exact hb k e' h1 (by have := lt_length_of_getElem? h3; omega) (getElem?_snoc_left h3)

/-! ## The invariant of specification executions -/

/-- thread `t` has no event after position `i` -/
def NoLater (h : List (Ev Op Out)) (t : Tid) (i : Nat) : Prop :=
  ∀ k e, i < k → h[k]? = some e → e.tid ≠ t

/-- what the phase of thread `t` says about the history and the log -/
def PhInv (h : List (Ev Op Out)) (lin : List (LinOp Op Out)) (t : Tid) : SPhase Op Out → Prop
  | .idle => True
  | .pending op => ∃ i, h[i]? = some (.inv t op) ∧ NoLater h t i ∧ ∀ x ∈ lin, x.pos ≠ i
  | .performed out => ∃ i op, h[i]? = some (.inv t op) ∧ NoLater h t i ∧
      (⟨i, t, op, out⟩ : LinOp Op Out) ∈ lin

/-- Invariant: the ghost log `lin` (the operations in the order of their `perform` steps) is a
linearization of the history so far, replaying it gives the current object value, and each
thread's phase is consistent with history and log. -/
structure SInv (step : σ → Op → σ × Out) (s0 : σ) (h : List (Ev Op Out))
    (lin : List (LinOp Op Out)) (s : SState σ Op Out) : Prop where
  isLin : IsLinearization step s0 h lin
  final : finalState step s0 (lin.map fun x => (x.op, x.out)) = s.obj
  ph : ∀ t, PhInv h lin t (s.ph t)

theorem phInv_snoc_ev {h : List (Ev Op Out)} {lin : List (LinOp Op Out)} {u : Tid}
    {p : SPhase Op Out} {e : Ev Op Out} (hp : PhInv h lin u p) (he : e.tid ≠ u) :
    PhInv (h ++ [e]) lin u p := by
  have hno : ∀ i, i < h.length → NoLater h u i → NoLater (h ++ [e]) u i := by
    intro i _ hn k e' hik hk
    rcases getElem?_snoc_cases hk with hk' | ⟨_, rfl⟩
    · exact hn k e' hik hk'
    · exact he
  cases p with
  | idle => trivial
  | pending op =>
    obtain ⟨i, hi, hn, hx⟩ := hp
    exact ⟨i, getElem?_snoc_left hi, hno i (lt_length_of_getElem? hi) hn, hx⟩
  | performed out =>
    obtain ⟨i, op, hi, hn, hx⟩ := hp
    exact ⟨i, op, getElem?_snoc_left hi, hno i (lt_length_of_getElem? hi) hn, hx⟩

theorem phInv_snoc_lin {h : List (Ev Op Out)} {lin : List (LinOp Op Out)} {u : Tid}
    {p : SPhase Op Out} {n : LinOp Op Out} (hp : PhInv h lin u p)
    (hn : h[n.pos]? = some (.inv n.tid n.op)) (hne : n.tid ≠ u) :
    PhInv h (lin ++ [n]) u p := by
  cases p with
  | idle => trivial
  | pending op =>
    obtain ⟨i, hi, hnl, hx⟩ := hp
    refine ⟨i, hi, hnl, ?_⟩
    intro x hxm
    rcases List.mem_append.mp hxm with hx1 | hx1
    · exact hx x hx1
    · have : x = n := by simpa using hx1
      subst this
      intro heq
      rw [heq, hi] at hn
      injection hn with hn
      injection hn with h1 _
      exact hne h1.symm
  | performed out =>
    obtain ⟨i, op, hi, hnl, hx⟩ := hp
    exact ⟨i, op, hi, hnl, List.mem_append_left _ hx⟩

theorem sInv_init (step : σ → Op → σ × Out) (s0 : σ) :
    SInv step s0 ([] : List (Ev Op Out)) [] (sInit s0) := by
  refine ⟨⟨trivial, ?_, ?_, ?_, ?_, ?_⟩, rfl, fun _ => trivial⟩
  · intro x hx; cases hx
  · simp
  · intro i j t op out hi; simp at hi
  · intro a b ha; cases ha
  · intro a b j out ha; cases ha

/-- preservation by an invocation -/
theorem sInv_inv {step : σ → Op → σ × Out} {s0 : σ} {h : List (Ev Op Out)}
    {lin : List (LinOp Op Out)} {s : SState σ Op Out} (I : SInv step s0 h lin s)
    (t : Tid) (op : Op) :
    SInv step s0 (h ++ [.inv t op]) lin
      { s with ph := fun u => if u = t then .pending op else s.ph u } := by
  obtain ⟨⟨hlegal, hisInv, hnodup, hcomplete, hprog, hreal⟩, hfinal, hph⟩ := I
  have hposlt : ∀ x ∈ lin, x.pos < h.length := fun x hx => lt_length_of_getElem? (hisInv x hx)
  refine ⟨⟨hlegal, ?_, hnodup, ?_, hprog, ?_⟩, hfinal, ?_⟩
  · intro x hx; exact getElem?_snoc_left (hisInv x hx)
  · intro i j t' op' out hi hr
    rcases isResponseOf_snoc hr with hr' | ⟨_, he, _, _⟩
    · have hil : i < h.length := by have := hr'.lt_length; have := hr'.1; omega
      exact hcomplete i j t' op' out (getElem?_snoc_of_lt hi hil) hr'
    · cases he
  · intro a b j out ha hb hr hjb
    rcases isResponseOf_snoc hr with hr' | ⟨hj, _, _, _⟩
    · exact hreal a b j out ha hb hr' hjb
    · have := hposlt b hb; omega
  · intro u
    by_cases hu : u = t
    · subst hu
      simp only [if_true]
      refine ⟨h.length, by simp, ?_, ?_⟩
      · intro k e hk hke
        have := lt_length_of_getElem? hke
        simp at this; omega
      · intro x hx; have := hposlt x hx; omega
    · simp only [if_neg hu]
      exact phInv_snoc_ev (hph u) (fun heq => hu heq.symm)

/-- preservation by a response -/
theorem sInv_res {step : σ → Op → σ × Out} {s0 : σ} {h : List (Ev Op Out)}
    {lin : List (LinOp Op Out)} {s : SState σ Op Out} (I : SInv step s0 h lin s)
    (t : Tid) (out : Out) (hp : s.ph t = .performed out) :
    SInv step s0 (h ++ [.res t out]) lin
      { s with ph := fun u => if u = t then .idle else s.ph u } := by
  obtain ⟨⟨hlegal, hisInv, hnodup, hcomplete, hprog, hreal⟩, hfinal, hph⟩ := I
  have hposlt : ∀ x ∈ lin, x.pos < h.length := fun x hx => lt_length_of_getElem? (hisInv x hx)
  refine ⟨⟨hlegal, ?_, hnodup, ?_, hprog, ?_⟩, hfinal, ?_⟩
  · intro x hx; exact getElem?_snoc_left (hisInv x hx)
  · intro i j t' op' out' hi hr
    rcases isResponseOf_snoc hr with hr' | ⟨_, he, hil, hnl⟩
    · have hil : i < h.length := by have := hr'.lt_length; have := hr'.1; omega
      exact hcomplete i j t' op' out' (getElem?_snoc_of_lt hi hil) hr'
    · injection he with ht ho
      subst ht; subst ho
      have hi' := getElem?_snoc_of_lt hi hil
      have hpt := hph t
      rw [hp] at hpt
      obtain ⟨i0, op0, hi0, hn0, hm0⟩ := hpt
      have hii : i = i0 := by
        rcases Nat.lt_trichotomy i i0 with hlt | heq | hgt
        · exact absurd rfl (hnl i0 _ hlt hi0)
        · exact heq
        · exact absurd rfl (hn0 i _ hgt hi')
      subst hii
      rw [hi0] at hi'
      injection hi' with hi'
      injection hi' with _ hop
      subst hop
      exact hm0
  · intro a b j out' ha hb hr hjb
    rcases isResponseOf_snoc hr with hr' | ⟨hj, _, _, _⟩
    · exact hreal a b j out' ha hb hr' hjb
    · have := hposlt b hb; omega
  · intro u
    by_cases hu : u = t
    · subst hu
      simp only [if_true]
      trivial
    · simp only [if_neg hu]
      exact phInv_snoc_ev (hph u) (fun heq => hu heq.symm)

/-- preservation by a `perform` step: the operation is appended to the log -/
theorem sInv_perform {step : σ → Op → σ × Out} {s0 : σ} {h : List (Ev Op Out)}
    {lin : List (LinOp Op Out)} {s : SState σ Op Out} (I : SInv step s0 h lin s)
    (t : Tid) (op : Op) (hp : s.ph t = .pending op) :
    ∃ lin', SInv step s0 h lin'
      { obj := (step s.obj op).1,
        ph := fun u => if u = t then .performed (step s.obj op).2 else s.ph u } := by
  obtain ⟨⟨hlegal, hisInv, hnodup, hcomplete, hprog, hreal⟩, hfinal, hph⟩ := I
  have hpt := hph t
  rw [hp] at hpt
  obtain ⟨i, hi, hnl, hfresh⟩ := hpt
  let n : LinOp Op Out := ⟨i, t, op, (step s.obj op).2⟩
  have hnoresp : ∀ j out, ¬ IsResponseOf h i j t out := by
    intro j out hr
    exact hnl j _ hr.1 hr.2.1 rfl
  refine ⟨lin ++ [n], ⟨⟨?_, ?_, ?_, ?_, ?_, ?_⟩, ?_, ?_⟩⟩
  · rw [List.map_append]
    exact (legal_snoc step s0 _ op _).mpr ⟨hlegal, by rw [hfinal]⟩
  · intro x hx
    rcases List.mem_append.mp hx with hx1 | hx1
    · exact hisInv x hx1
    · have : x = n := by simpa using hx1
      subst this; exact hi
  · rw [List.map_append, List.nodup_append]
    refine ⟨hnodup, by simp, ?_⟩
    intro a ha b hb
    have hb' : b = i := by simpa using hb
    subst hb'
    obtain ⟨x, hx, rfl⟩ := List.mem_map.mp ha
    exact hfresh x hx
  · intro i' j t' op' out hi' hr
    exact List.mem_append_left _ (hcomplete i' j t' op' out hi' hr)
  · intro a b ha hb htid hpos
    rcases List.mem_append.mp hb with hb1 | hb1
    · rcases List.mem_append.mp ha with ha1 | ha1
      · exact (hprog a b ha1 hb1 htid hpos).append _
      · have : a = n := by simpa using ha1
        subst this
        have hbe := hisInv b hb1
        rw [← htid] at hbe
        exact absurd rfl (hnl b.pos _ hpos hbe)
    · have : b = n := by simpa using hb1
      subst this
      rcases List.mem_append.mp ha with ha1 | ha1
      · exact Before.snoc_of_mem ha1 _
      · have : a = n := by simpa using ha1
        subst this
        exact absurd hpos (Nat.lt_irrefl _)
  · intro a b j out ha hb hr hjb
    rcases List.mem_append.mp ha with ha1 | ha1
    · rcases List.mem_append.mp hb with hb1 | hb1
      · exact (hreal a b j out ha1 hb1 hr hjb).append _
      · have : b = n := by simpa using hb1
        subst this
        exact Before.snoc_of_mem ha1 _
    · have : a = n := by simpa using ha1
      subst this
      exact absurd hr (hnoresp j out)
  · rw [List.map_append]
    show finalState step s0 (_ ++ [(op, (step s.obj op).2)]) = (step s.obj op).1
    rw [finalState_snoc, hfinal]
  · intro u
    by_cases hu : u = t
    · subst hu
      simp only [if_true]
      exact ⟨i, op, hi, hnl, by simp [n]⟩
    · simp only [if_neg hu]
      exact phInv_snoc_lin (hph u) hi (fun heq => hu heq.symm)

/-- the invariant holds along every execution of the specification machine -/
theorem spec_exec_inv {step : σ → Op → σ × Out} {s0 : σ} {h : List (Ev Op Out)}
    {s : SState σ Op Out} (hx : Exec (SStep step) (sInit s0) h s) :
    ∃ lin, SInv step s0 h lin s := by
  induction hx with
  | refl => exact ⟨[], sInv_init step s0⟩
  | snoc _ hs ih =>
    obtain ⟨lin, I⟩ := ih
    cases hs with
    | inv t op _ => exact ⟨lin, sInv_inv I t op⟩
    | perform t op hp =>
      obtain ⟨lin', I'⟩ := sInv_perform I t op hp
      exact ⟨lin', by simpa using I'⟩
    | res t out hp => exact ⟨lin, sInv_res I t out hp⟩

/-! ## Main theorems -/

/-- Every history of the canonical atomic object is linearizable; the linearization is the
order of the `perform` steps. -/
theorem spec_linearizable {step : σ → Op → σ × Out} {s0 : σ} {h : List (Ev Op Out)}
    (hs : SpecHistory step s0 h) : Linearizable step s0 h := by
  obtain ⟨s, hx⟩ := hs
  obtain ⟨lin, I⟩ := spec_exec_inv hx
  exact ⟨lin, I.isLin⟩

/-- **Deliverable.**  An object whose every method runs its whole body inside one critical
section of a single mutex is linearizable w.r.t. its sequential specification `step`:
every history of the implementation machine `IStep` from its initial state — any number of
threads, any schedule, arbitrary intermediate writes (`scribble`) inside the critical
sections — is linearizable. -/
theorem locked_object_linearizable {step : σ → Op → σ × Out} {s0 : σ} {h : List (Ev Op Out)}
    (hi : ImplHistory step s0 h) : Linearizable step s0 h :=
  spec_linearizable (impl_refines_spec hi)

end Conc
