import Verif.PropertiesOrder
/-!
# The property theorems without the monotone-clock hypothesis (all containers except ut_map / ut_set)

`Properties.lean` / `PropertiesOrder.lean` state every theorem for histories whose clock readings never
decrease (`TimesFrom`).  Sequentially that is `steady_clock`'s contract.  With `thread_safe::yes`,
however, tlru_cache, utlru_cache and lfuda_cache sample the clock *before* they take the lock, so in
lock order (the order in which the calls take effect) the readings can go backwards by the time a
thread waited for the lock.  This file shows that nothing depends on it: for every container whose
invariant does not mention the clock (`Verified.Timeless` — all but ut_map/ut_set, whose readings are
taken under the lock, see `Conc/ClockHeld.lean`) the policy-independent theorems and the LRU /
expired-first theorems hold for *arbitrary* sequences of clock readings.
-/
namespace Verif
open Verif.Spec

section lift
variable {σ : Type} {c : Core σ} {fl : Flavor} {cap : Nat} {Inv : Time → σ → Prop} {abs : σ → A}

/-- `Refines.runA` without the monotone-clock hypothesis, for an invariant that does not depend on
its clock index: every history is a run of the reference semantics -/
theorem Refines.runA_anyclock (R : Refines c fl cap Inv abs) (htl : ∀ s t t', Inv t s → Inv t' s)
    (s : σ) (t : Time) (ops : List (Time × Op)) (h : Inv t s) :
    (∃ t', Inv t' (c.runA s ops).1) ∧ ARun fl cap (abs s) (c.runA s ops).2.2 (abs (c.runA s ops).1) := by
  induction ops generalizing s t with
  | nil => exact ⟨⟨t, h⟩, .nil _⟩
  | cons x rest ih =>
    obtain ⟨t1, op⟩ := x
    have h1 := R.stepA s t1 op (htl s t t1 h)
    have h2 := ih (c.stepA s t1 op).1 t1 h1.1
    simp only [Core.runA]
    exact ⟨h2.1, h1.2.append h2.2⟩

end lift

namespace Verified
variable {σ : Type} (V : Verified σ)

/-- the invariant does not depend on its clock index -/
def Timeless : Prop := ∀ s t t', V.Inv t s → V.Inv t' s

/-- **Refinement.** Every history, whatever its clock readings, is a run of the reference
semantics from the empty store. -/
theorem history_is_run_anyclock (ops : List (Time × Op)) (htl : V.Timeless) :
    ARun V.fl V.cap A.empty (V.history ops) (V.abs (V.c.runA V.s0 ops).1) := by
  have := (V.R.runA_anyclock htl V.s0 0 ops (V.inv0 0)).2
  rw [V.abs0] at this
  exact this

/-- **C01 (and C04 for tlru/utlru).** A lookup that reports `v` for `k` reports the value of the
latest successful write of `k` not since undone by a successful erase of `k` or a clear — and, in
the lazy-TTL caches, does so strictly before that write's deadline. -/
theorem C01_anyclock (ops : List (Time × Op)) (htl : V.Timeless)
    (p q : List (Time × Atom)) (now : Time) (k : Key) (pk : Bool) (v : Val) (n : Nat)
    (hsplit : V.history ops = p ++ (now, .look k pk (some (v, n))) :: q) :
    ∃ d, lastWrite p k = some (v, d) ∧ (V.fl = .lazy → now < d) := by
  have h := V.history_is_run_anyclock ops htl
  rw [hsplit] at h
  exact lookup_hit_is_last_write h

/-- **C02 (capacity bound).** After every history the number of resident entries is at most the
capacity (bounded containers). -/
theorem C02_bound_anyclock (hfl : V.fl ≠ .eager) (ops : List (Time × Op)) (htl : V.Timeless) :
    (V.abs (V.c.runA V.s0 ops).1).size ≤ V.cap :=
  size_le_cap_run hfl (by simp [A.empty]) (V.history_is_run_anyclock ops htl)

/-- every step of a history, with the reference states around it -/
theorem step_of_history_anyclock (ops : List (Time × Op)) (htl : V.Timeless)
    (p q : List (Time × Atom)) (now : Time) (x : Atom) (hsplit : V.history ops = p ++ (now, x) :: q) :
    ∃ a a', ARun V.fl V.cap A.empty p a ∧ AStep V.fl V.cap a now x a' ∧ Coupled a (lastWrite p) ∧
      (V.fl ≠ .eager → a.size ≤ V.cap) := by
  have h := V.history_is_run_anyclock ops htl
  rw [hsplit] at h
  obtain ⟨a, h1, h2⟩ := h.split
  cases h2 with
  | cons hs _ =>
    exact ⟨a, _, h1, hs, coupled_run coupled_empty h1, fun hfl => size_le_cap_run hfl (by simp [A.empty]) h1⟩

/-- **C03 (retention).** At every step of every history except `clear()`: a resident entry that is
live at that instant is still resident afterwards with the same value and deadline, unless its key
is the key erased by a successful erase, the key being written, or the single victim of an accepted
insert of a new key into a full container — and then exactly one entry goes and the size stays at
capacity. -/
theorem C03_anyclock (ops : List (Time × Op)) (htl : V.Timeless)
    (p q : List (Time × Atom)) (now : Time) (x : Atom) (hsplit : V.history ops = p ++ (now, x) :: q)
    (hx : x ≠ .clear) :
    ∃ a a' ks, ARun V.fl V.cap A.empty p a ∧ AStep V.fl V.cap a now x a' ∧ allowedLoss a x a' ks ∧
      ∀ k' y, a.get k' = some y → liveAt V.fl now y → k' ∉ ks →
        (∀ k v al d, x = .ins k v al d true → k' ≠ k) → a'.get k' = some y := by
  obtain ⟨a, a', h1, hs, _, _⟩ := V.step_of_history_anyclock ops htl p q now x hsplit
  obtain ⟨ks, hk, hr⟩ := retention_step hs hx
  exact ⟨a, a', ks, h1, hs, hk, hr⟩

/-- **C05 (TTL retention).** At every lookup of every history: if the key's resident entry — which
by `C01`'s coupling is its latest successful write, with the deadline that write carried — has not
reached its deadline, the lookup reports its value and removes nothing. -/
theorem C05_anyclock (ops : List (Time × Op)) (htl : V.Timeless)
    (p q : List (Time × Atom)) (now : Time) (k : Key) (pk : Bool) (r : Option (Val × Nat))
    (hsplit : V.history ops = p ++ (now, .look k pk r) :: q) :
    ∃ a a', ARun V.fl V.cap A.empty p a ∧ Coupled a (lastWrite p) ∧
      ∀ y, a.get k = some y → now < y.2 → r.map (·.1) = some y.1 ∧ a' = a := by
  obtain ⟨a, a', h1, hs, hc, _⟩ := V.step_of_history_anyclock ops htl p q now _ hsplit
  exact ⟨a, a', h1, hc, fun y hy hl => live_is_served hs hy (Or.inl hl)⟩

/-- **C09 (allow modes).** At every single insert/update of every history (each element of a range
included): the verdict by allow mode and residency, no effect on rejection, value and deadline
written on success. -/
theorem C09_anyclock (ops : List (Time × Op)) (htl : V.Timeless)
    (p q : List (Time × Atom)) (now : Time) (k : Key) (v : Val) (al : Allow) (d : Time) (ok : Bool)
    (hsplit : V.history ops = p ++ (now, .ins k v al d ok) :: q) :
    ∃ a a', ARun V.fl V.cap A.empty p a ∧
      (al = .insertOrUpdate → ok = true) ∧
      (al = .insert → (ok = true ↔ (a.get k = none ∨ (V.fl = .lazy ∧ ∃ y, a.get k = some y ∧ y.2 ≤ now)))) ∧
      (al = .update → (ok = true ↔ a.get k ≠ none)) ∧
      (ok = false → a' = a) ∧ (ok = true → a'.get k = some (v, d)) := by
  obtain ⟨a, a', h1, hs, _, _⟩ := V.step_of_history_anyclock ops htl p q now _ hsplit
  exact ⟨a, a', h1, allow_verdict hs⟩

/-- **C17 (clean_expired_values).** At every `clean_expired_values()` of every history of a TTL
container: exactly the expired entries go, every live entry stays with its value and deadline, and
the returned count is the drop in `size()`. -/
theorem C17_anyclock (hfl : V.fl ≠ .plain) (ops : List (Time × Op)) (htl : V.Timeless)
    (p q : List (Time × Atom)) (now : Time) (n : Nat)
    (hsplit : V.history ops = p ++ (now, .reap n) :: q) :
    ∃ a a', ARun V.fl V.cap A.empty p a ∧ AStep V.fl V.cap a now (.reap n) a' ∧
      a'.size + n = a.size ∧
      (∀ k y, a.get k = some y → now < y.2 → a'.get k = some y) ∧
      (∀ k y, a'.get k = some y → now < y.2 ∧ a.get k = some y) := by
  obtain ⟨a, a', h1, hs, _, _⟩ := V.step_of_history_anyclock ops htl p q now _ hsplit
  exact ⟨a, a', h1, hs, reap_exact hfl hs⟩

end Verified

/-! ## the eight containers whose invariant does not mention the clock -/

theorem lruV_timeless (cap : Nat) (h : 0 < cap) : (lruV cap h).Timeless := fun _ _ _ h => h
theorem mruV_timeless (cap : Nat) (h : 0 < cap) : (mruV cap h).Timeless := fun _ _ _ h => h
theorem fifoV_timeless (cap : Nat) (h : 0 < cap) : (fifoV cap h).Timeless := fun _ _ _ h => h
theorem rrV_timeless (cap : Nat) (h : 0 < cap) (rnd : List Nat) (hr : ∀ r ∈ rnd, r < cap) :
    (rrV cap h rnd hr).Timeless := fun _ _ _ h => h
theorem lfuV_timeless (cap : Nat) (h : 0 < cap) : (lfuV cap h).Timeless := fun _ _ _ h => h
theorem lfudaV_timeless (cap : Nat) (h : 0 < cap) (tickMs num den : Nat) :
    (lfudaV cap h tickMs num den).Timeless := fun _ _ _ h => h
theorem tlruV_timeless (cap : Nat) (h : 0 < cap) : (tlruV cap h).Timeless := fun _ _ _ h => h
theorem utlruV_timeless (cap : Nat) (h : 0 < cap) (ttlMs : Nat) : (utlruV cap h ttlMs).Timeless :=
  fun _ _ _ h => h

/-! ## the replacement-policy theorems for arbitrary clock readings -/

namespace Core
variable {σ : Type} (c : Core σ)

/-- Every history, whatever its clock readings, is an atom-level run from the start state; the atoms of
the run are the atoms of the history. -/
theorem steps_of_history_anyclock (s : σ) (ops : List (Time × Op)) :
    ∃ tr : STrace σ, CRun c s tr (c.runA s ops).1 ∧ tr.atoms = (c.runA s ops).2.2 :=
  c.runA_crun s ops

end Core

/-- **C10 (lru_cache).** -/
theorem C10_lru_history_anyclock (cap : Nat) (hcap : 0 < cap) (ops : List (Time × Op)) :
    ∃ tr : STrace RecState, tr.atoms = (lruV cap hcap).history ops ∧
      ∀ p q s now k v al d, tr = p ++ (s, now, .ins k v al d true) :: q → k ∉ keys s.ents → cap ≤ s.ents.length →
        ∃ s' w, CStep Lru.core s now (.ins k v al d true) s' ∧
          firstIn (useOrder p) (keys s.ents) = some w ∧ Evicts (keys s.ents) (keys s'.ents) k w := by
  obtain ⟨tr, hrun, hat⟩ := Lru.core.steps_of_history_anyclock (Rec.init cap) ops
  refine ⟨tr, hat, ?_⟩
  intro p q s now k v al d heq hnew hfull
  subst heq
  obtain ⟨hp, s', hs, _⟩ := hrun.step_at
  obtain ⟨w, h1, h2⟩ := C10_lru cap hcap hp hs hnew hfull
  exact ⟨s', w, hs, h1, h2⟩

/-- **C13 (mru_cache).** -/
theorem C13_mru_history_anyclock (cap : Nat) (hcap : 0 < cap) (ops : List (Time × Op)) :
    ∃ tr : STrace RecState, tr.atoms = (mruV cap hcap).history ops ∧
      ∀ p q s now k v al d, tr = p ++ (s, now, .ins k v al d true) :: q → k ∉ keys s.ents → cap ≤ s.ents.length →
        ∃ s' w, CStep Mru.core s now (.ins k v al d true) s' ∧
          lastIn (useOrder p) (keys s.ents) = some w ∧ Evicts (keys s.ents) (keys s'.ents) k w ∧
          lastIn (useOrder (p ++ [(s, now, .ins k v al d true)])) (keys s'.ents) = some k := by
  obtain ⟨tr, hrun, hat⟩ := Mru.core.steps_of_history_anyclock (Rec.init cap) ops
  refine ⟨tr, hat, ?_⟩
  intro p q s now k v al d heq hnew hfull
  subst heq
  obtain ⟨hp, s', hs, _⟩ := hrun.step_at
  obtain ⟨w, h1, h2, h3⟩ := C13_mru cap hcap hp hs hnew hfull
  exact ⟨s', w, hs, h1, h2, h3⟩

/-- **C12 (fifo_cache).** -/
theorem C12_fifo_history_anyclock (cap : Nat) (hcap : 0 < cap) (ops : List (Time × Op)) :
    ∃ tr : STrace FifoState, tr.atoms = (fifoV cap hcap).history ops ∧
      ∀ p q s now k v al d, tr = p ++ (s, now, .ins k v al d true) :: q → k ∉ keys s.ents → cap ≤ s.ents.length →
        ∃ s' w, CStep Fifo.core s now (.ins k v al d true) s' ∧
          firstIn (bornOrder (fun s => keys s.ents) p) (keys s.ents) = some w ∧
          Evicts (keys s.ents) (keys s'.ents) k w := by
  obtain ⟨tr, hrun, hat⟩ := Fifo.core.steps_of_history_anyclock (Fifo.init cap) ops
  refine ⟨tr, hat, ?_⟩
  intro p q s now k v al d heq hnew hfull
  subst heq
  obtain ⟨hp, s', hs, _⟩ := hrun.step_at
  obtain ⟨w, h1, h2⟩ := C12_fifo cap hcap hp hs hnew hfull
  exact ⟨s', w, hs, h1, h2⟩

/-- **C11 (lfu_cache).** Reported use counts are the ghost counts; the victim's count is minimal. -/
theorem C11_lfu_history_anyclock (cap : Nat) (hcap : 0 < cap) (ops : List (Time × Op)) :
    ∃ tr : STrace LfuState, tr.atoms = (lfuV cap hcap).history ops ∧
      (∀ p q s now k pk v n, tr = p ++ (s, now, .look k pk (some (v, n))) :: q →
        n = useCount (fun s => keys s.ents) (p ++ [(s, now, .look k pk (some (v, n)))]) k) ∧
      (∀ p q s now k v al d, tr = p ++ (s, now, .ins k v al d true) :: q → k ∉ keys s.ents → cap ≤ s.ents.length →
        ∃ s' w, CStep Lfu.core s now (.ins k v al d true) s' ∧ Evicts (keys s.ents) (keys s'.ents) k w ∧
          ∀ u ∈ keys s.ents, useCount (fun s => keys s.ents) p w ≤ useCount (fun s => keys s.ents) p u) := by
  obtain ⟨tr, hrun, hat⟩ := Lfu.core.steps_of_history_anyclock (Lfu.init cap) ops
  refine ⟨tr, hat, ?_, ?_⟩
  · intro p q s now k pk v n heq
    subst heq
    obtain ⟨hp, s', hs, _⟩ := hrun.step_at
    exact C11_lfu_count cap hcap hp hs
  · intro p q s now k v al d heq hnew hfull
    subst heq
    obtain ⟨hp, s', hs, _⟩ := hrun.step_at
    obtain ⟨w, h1, h2⟩ := C11_lfu_victim cap hcap hp hs hnew hfull
    exact ⟨s', w, hs, h1, h2⟩

/-- **C15 (rr_cache).** The victim is the resident entry in the slot the random source named; in a full
cache slots and residents are in bijection. -/
theorem C15_rr_history_anyclock (cap : Nat) (hcap : 0 < cap) (rnd : List Nat) (hr : ∀ r ∈ rnd, r < cap)
    (ops : List (Time × Op)) :
    ∃ tr : STrace RrState, tr.atoms = (rrV cap hcap rnd hr).history ops ∧
      ∀ p q s now k v al d, tr = p ++ (s, now, .ins k v al d true) :: q → k ∉ keys s.ents → cap ≤ s.ents.length →
        ∃ s' e, CStep Rr.core s now (.ins k v al d true) s' ∧
          Rr.atSlot s.ents (s.rnd.headD 0) = some e ∧ Evicts (keys s.ents) (keys s'.ents) k e.key ∧
          s'.rnd = s.rnd.tail ∧ s.rnd.headD 0 < cap ∧
          (∀ r, r < cap → ∃ e, e ∈ s.ents ∧ e.slot = r ∧ ∀ e' ∈ s.ents, e'.slot = r → e' = e) ∧
          (∀ e ∈ s.ents, e.slot < cap) := by
  obtain ⟨tr, hrun, hat⟩ := Rr.core.steps_of_history_anyclock (Rr.init cap rnd) ops
  refine ⟨tr, hat, ?_⟩
  intro p q s now k v al d heq hnew hfull
  subst heq
  obtain ⟨hp, s', hs, _⟩ := hrun.step_at
  obtain ⟨e, h1, h2, h3, h4⟩ := C15_rr_victim cap hcap rnd hr hp hs hnew hfull
  obtain ⟨h5, h6⟩ := C15_rr_bijection cap hcap rnd hr hp hfull
  exact ⟨s', e, hs, h1, h2, h3, h4, h5, h6⟩

/-- **C10 and C16 (tlru_cache).** -/
theorem C10_C16_tlru_history_anyclock (cap : Nat) (hcap : 0 < cap) (ops : List (Time × Op)) :
    ∃ tr : STrace TlruState, tr.atoms = (tlruV cap hcap).history ops ∧
      ∀ p q s now k v al d, tr = p ++ (s, now, .ins k v al d true) :: q → k ∉ keys s.ents → cap ≤ s.ents.length →
        ∃ s', CStep Tlru.core s now (.ins k v al d true) s' ∧
          -- C10: nothing has expired ⇒ least recently used
          ((∀ e ∈ s.ents, now < e.dl) →
            ∃ w, firstIn (useOrder p) (keys s.ents) = some w ∧ Evicts (keys s.ents) (keys s'.ents) k w) ∧
          -- C16: something has expired ⇒ an expired entry goes, every live one stays
          ((∃ e ∈ s.ents, e.dl ≤ now) →
            ∃ w e, getE s.ents w = some e ∧ e.dl ≤ now ∧ Evicts (keys s.ents) (keys s'.ents) k w ∧
              ∀ u e', getE s.ents u = some e' → now < e'.dl → getE s'.ents u = some e') := by
  obtain ⟨tr, hrun, hat⟩ := Tlru.core.steps_of_history_anyclock (Tlru.init cap) ops
  refine ⟨tr, hat, ?_⟩
  intro p q s now k v al d heq hnew hfull
  subst heq
  obtain ⟨hp, s', hs, _⟩ := hrun.step_at
  exact ⟨s', hs, fun hl => C10_tlru cap hcap hp hs hnew hfull hl, fun he => C16_tlru cap hcap hp hs hnew hfull he⟩

/-- **C10 and C16 (utlru_cache)**, after any sequence of `update_ttl` calls. -/
theorem C10_C16_utlru_history_anyclock (cap : Nat) (hcap : 0 < cap) (ttlMs : Nat) (ops : List (Time × Op)) :
    ∃ tr : STrace TlruState, tr.atoms = (utlruV cap hcap ttlMs).history ops ∧
      ∀ p q s now k v al d, tr = p ++ (s, now, .ins k v al d true) :: q → k ∉ keys s.ents → cap ≤ s.ents.length →
        ∃ s', CStep Utlru.core s now (.ins k v al d true) s' ∧
          ((∀ e ∈ s.ents, now < e.dl) →
            ∃ w, firstIn (useOrder p) (keys s.ents) = some w ∧ Evicts (keys s.ents) (keys s'.ents) k w) ∧
          ((∃ e ∈ s.ents, e.dl ≤ now) →
            ∃ w e, getE s.ents w = some e ∧ e.dl ≤ now ∧ Evicts (keys s.ents) (keys s'.ents) k w ∧
              ∀ u e', getE s.ents u = some e' → now < e'.dl → getE s'.ents u = some e') := by
  obtain ⟨tr, hrun, hat⟩ := Utlru.core.steps_of_history_anyclock (Utlru.init cap ttlMs) ops
  refine ⟨tr, hat, ?_⟩
  intro p q s now k v al d heq hnew hfull
  subst heq
  obtain ⟨hp, s', hs, _⟩ := hrun.step_at
  exact ⟨s', hs, fun hl => C10_utlru cap hcap ttlMs hp hs hnew hfull hl,
    fun he => C16_utlru cap hcap ttlMs hp hs hnew hfull he⟩

/-! ## non-vacuity: a history whose clock readings go backwards -/

/-- an insert at 5 ms followed by a find at 3 ms: `C01_anyclock` applies … -/
example := (tlruV 2 (by decide)).C01_anyclock
  [(5 * msNs, .insert 1 10 .insertOrUpdate 100), (3 * msNs, .find 1 false)] (tlruV_timeless 2 (by decide))

/-- … whereas `C01` did not: the readings are not non-decreasing -/
example : ¬ TimesFrom 0 [(5 * msNs, Op.insert 1 10 .insertOrUpdate 100), (3 * msNs, Op.find 1 false)] := by
  simp [TimesFrom, msNs]

end Verif
