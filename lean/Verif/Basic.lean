/-!
# Vocabulary shared by every model: keys, values, time, operations, outputs, entries.

Core Lean only (no Mathlib) so that the driver links as a `lean_exe`.

Conventions (see DESIGN.md §3):
* keys and values are `Nat` (the containers only use `==`/`hash`/`<` on keys and copy/move on values);
* time is `Nat` nanoseconds of the (virtual) steady clock; TTLs and the LFUDA tick are given in
  milliseconds, as in the C++ API, and scaled by `msNs`;
* every model is a total function; configurations the library rejects (`cap = 0`, `tick = 0`) are
  excluded by `Cfg.valid`, never silently repaired.
-/
namespace Verif

abbrev Key := Nat
abbrev Val := Nat
abbrev Time := Nat

/-- nanoseconds per millisecond -/
def msNs : Nat := 1000000

/-- `cappuccino::allow` (allow.hpp): bit 0x01 = insert, bit 0x02 = update. -/
inductive Allow
  | insert
  | update
  | insertOrUpdate
  deriving DecidableEq, Repr, Inhabited

/-- `insert_allowed` (allow.hpp:24) -/
def Allow.ins : Allow → Bool
  | .update => false
  | _ => true

/-- `update_allowed` (allow.hpp:29) -/
def Allow.upd : Allow → Bool
  | .insert => false
  | _ => true

/-- The ten containers. -/
inductive Kind
  | lru | mru | fifo | lfu | lfuda | rr | tlru | utlru | utmap | utset
  deriving DecidableEq, Repr, Inhabited

/-- A public call. `ttl` (milliseconds) is meaningful for `tlru_cache` only; the iterator-pair
overloads of `fifo_cache` and `find_range_fill` are the same operations as the range forms. -/
inductive Op
  | insert (k : Key) (v : Val) (a : Allow) (ttl : Nat)
  | insertRange (xs : List (Key × Val × Nat)) (a : Allow)
  | find (k : Key) (peek : Bool)
  | findRange (ks : List Key) (peek : Bool)
  | findCount (k : Key) (peek : Bool)
  | erase (k : Key)
  | eraseRange (ks : List Key)
  | clear
  | clean
  | age
  | updateTtl (ttl : Nat)
  | size
  | empty
  | capacity
  deriving DecidableEq, Repr, Inhabited

inductive Out
  | bool (b : Bool)
  | nat (n : Nat)
  | opt (o : Option Val)
  | optc (o : Option (Val × Nat))
  | opts (l : List (Option Val))
  | unit
  deriving DecidableEq, Repr, Inhabited

/-- One resident entry. Fields a container does not have stay at their defaults. -/
structure Entry where
  key : Key
  val : Val
  /-- expiry instant (tlru, utlru, ut_map, ut_set) -/
  dl : Time := 0
  /-- use count (lfu, lfuda) -/
  cnt : Nat := 0
  /-- time of last use or aging (lfuda) -/
  stamp : Time := 0
  /-- slot id in `m_elements` (rr) -/
  slot : Nat := 0
  deriving DecidableEq, Repr, Inhabited

/-- Construction parameters. -/
structure Cfg where
  kind : Kind
  cap : Nat
  /-- uniform TTL in ms (utlru, ut_map, ut_set) -/
  ttl : Nat := 0
  /-- LFUDA tick in ms -/
  tick : Nat := 0
  /-- LFUDA ratio = `num / den` -/
  num : Nat := 1
  den : Nat := 2
  /-- outcomes of the random source, consumed one per eviction (rr) -/
  rnd : List Nat := []
  deriving Repr, Inhabited

def Kind.bounded : Kind → Bool
  | .utmap | .utset => false
  | _ => true

/-- configurations the library accepts -/
def Cfg.valid (c : Cfg) : Prop :=
  (c.kind.bounded = true → 0 < c.cap) ∧
  (c.kind = .lfuda → 0 < c.tick ∧ 0 < c.den ∧ c.num ≤ c.den) ∧
  (c.kind = .rr → ∀ r ∈ c.rnd, r < c.cap)

/-! ## association-list helpers over `List Entry` -/

def keys (l : List Entry) : List Key := l.map (·.key)

def getE (l : List Entry) (k : Key) : Option Entry := l.find? (fun e => decide (e.key = k))

def delE (l : List Entry) (k : Key) : List Entry := l.filter (fun e => !decide (e.key = k))

/-! ## the per-container core and the public step derived from it

Every header has the same outline: single-key private helpers (`do_insert_update`, `do_find`,
erase-by-key), and public methods that take the lock, read the clock once, optionally run a
prologue (`ut_map`/`ut_set`: `do_prune(now)`), and call the helper once (single forms) or in a loop
(range forms). `Core` is that outline; `Core.step` is the public API built from it.
-/

structure Core (σ : Type) where
  /-- per-call prologue, run once per public call before anything else -/
  pre : σ → Time → σ
  /-- `do_insert_update` -/
  insert1 : σ → Time → Key → Val → Allow → Nat → σ × Bool
  /-- `do_find` / `do_find_with_use_count`: value and use count (0 where there is none) -/
  find1 : σ → Time → Key → Bool → σ × Option (Val × Nat)
  /-- body of `erase` after the lock (and prologue) -/
  erase1 : σ → Key → σ × Bool
  /-- does the container have `clear()` at all (utlru_cache, ut_map)? -/
  hasClear : Bool
  clear : σ → σ
  /-- `clean_expired_values` body -/
  clean : σ → Time → σ × Nat
  /-- `dynamically_age` body -/
  age : σ → Time → σ × Nat
  updateTtl : σ → Nat → σ
  size : σ → Nat
  capacity : σ → Nat
  /-- the expiry instant a write made by a call at `now` with TTL argument `ttl` (ms) carries
  (`now + ttl` in tlru, `now + m_ttl` in utlru/ut_map/ut_set, meaningless elsewhere) -/
  dlOf : σ → Time → Nat → Time
  /-- what a lookup of `k` at `now` would report, with no effect on the state
  (the harness's sweep: `find(k, peek::yes)` / `find_with_use_count(k, true)` on the container or,
  for the TTL containers, on a replayed twin) -/
  look : σ → Time → Key → Option (Val × Nat)

namespace Core
variable {σ : Type} (c : Core σ)

def insertMany (s : σ) (now : Time) (a : Allow) : List (Key × Val × Nat) → σ × Nat
  | [] => (s, 0)
  | (k, v, ttl) :: xs =>
    let r := c.insert1 s now k v a ttl
    let r' := insertMany r.1 now a xs
    (r'.1, (if r.2 then 1 else 0) + r'.2)

def findMany (s : σ) (now : Time) (peek : Bool) : List Key → σ × List (Option Val)
  | [] => (s, [])
  | k :: ks =>
    let r := c.find1 s now k peek
    let r' := findMany r.1 now peek ks
    (r'.1, r.2.map (·.1) :: r'.2)

def eraseMany (s : σ) : List Key → σ × Nat
  | [] => (s, 0)
  | k :: ks =>
    let r := c.erase1 s k
    let r' := eraseMany r.1 ks
    (r'.1, (if r.2 then 1 else 0) + r'.2)

/-- one public call at clock reading `now` -/
def step (s : σ) (now : Time) : Op → σ × Out
  | .insert k v a ttl =>
    let r := c.insert1 (c.pre s now) now k v a ttl
    (r.1, .bool r.2)
  | .insertRange xs a =>
    let r := c.insertMany (c.pre s now) now a xs
    (r.1, .nat r.2)
  | .find k peek =>
    let r := c.find1 (c.pre s now) now k peek
    (r.1, .opt (r.2.map (·.1)))
  | .findRange ks peek =>
    let r := c.findMany (c.pre s now) now peek ks
    (r.1, .opts r.2)
  | .findCount k peek =>
    let r := c.find1 (c.pre s now) now k peek
    (r.1, .optc r.2)
  | .erase k =>
    let r := c.erase1 (c.pre s now) k
    (r.1, .bool r.2)
  | .eraseRange ks =>
    let r := c.eraseMany (c.pre s now) ks
    (r.1, .nat r.2)
  | .clear => (if c.hasClear then c.clear s else s, .unit)
  | .clean =>
    let r := c.clean s now
    (r.1, .nat r.2)
  | .age =>
    let r := c.age s now
    (r.1, .nat r.2)
  | .updateTtl t => (c.updateTtl s t, .unit)
  | .size => (s, .nat (c.size s))
  | .empty => (s, .bool (c.size s == 0))
  | .capacity => (s, .nat (c.capacity s))

/-- the sweep over the key universe `0 .. n-1`, in key order -/
def sweep (s : σ) (now : Time) (n : Nat) : List (Key × Val × Nat) :=
  (List.range n).filterMap (fun k => (c.look s now k).map (fun r => (k, r.1, r.2)))

/-- a history: clock readings paired with calls -/
def run (s : σ) : List (Time × Op) → σ × List Out
  | [] => (s, [])
  | (t, op) :: rest =>
    let r := c.step s t op
    let r' := run r.1 rest
    (r'.1, r.2 :: r'.2)

end Core

end Verif
