import Verif.Proto
import Verif.Spec.Abstract
/-!
# Executable acceptor for the reference semantics: is the implementation's event log a run of `AStep`?

On-the-fly subset construction.  A candidate is one possible reference state (the resident entries
with their deadlines, expired-but-unreaped ones included, and the configured TTL).  An event maps
each candidate to all its successors — the only nondeterminism is the victim of an insert of a new
key into a full store, where *every* resident is tried — and keeps those whose output, observers and
sweep equal what the implementation showed.  When none is left the log is not a run of the reference
semantics; the difference is classified by the property whose clause it contradicts.

This file is search machinery: it is executed, not proved about.  What is proved is that the models
only produce runs of `AStep` (`Refines.runA`) and what every such run satisfies (`Spec/Props.lean`).
-/
namespace Verif.Accept
open Verif Verif.Proto Verif.Spec

structure RState where
  /-- resident entries, sorted by key -/
  ents : List Entry
  /-- configured uniform TTL, ns -/
  ttl : Nat
  deriving DecidableEq, Repr, Inhabited

def flavorOf : Kind → Flavor
  | .tlru | .utlru => .lazy
  | .utmap | .utset => .eager
  | _ => .plain

def insSorted (e : Entry) : List Entry → List Entry
  | [] => [e]
  | x :: xs => if e.key ≤ x.key then e :: x :: xs else x :: insSorted e xs

def put (l : List Entry) (e : Entry) : List Entry := insSorted e (delE l e.key)

def dedup {α : Type} [DecidableEq α] : List α → List α
  | [] => []
  | x :: xs => if x ∈ xs then dedup xs else x :: dedup xs

structure Ctx where
  kind : Kind
  fl : Flavor
  cap : Nat
  nkeys : Nat

def expired (fl : Flavor) (now : Time) (e : Entry) : Bool := fl != .plain && decide (e.dl ≤ now)

def deadline (c : Ctx) (s : RState) (now : Time) (ttlArg : Nat) : Time :=
  match c.kind with
  | .tlru => now + ttlArg * msNs
  | .utlru | .utmap | .utset => now + s.ttl
  | _ => 0

/-- all outcomes of `do_insert_update` on one candidate.  `surv` (plain flavor only): the keys the sweep
after the call shows; when given, the victim is the first resident that is not among them — in a store
without deadlines every resident that does not survive the call must be evicted during it and the
order does not matter, so one path suffices (the caller falls back to trying every resident if that
path does not explain the observation, e.g. a range that re-inserts a key it evicted). -/
def ins1 (c : Ctx) (s : RState) (now : Time) (k : Key) (v : Val) (a : Allow) (ttlArg : Nat)
    (surv : Option (List Key) := none) : List (RState × Bool) :=
  let d := deadline c s now ttlArg
  match getE s.ents k with
  | some e =>
    if a.upd || (c.fl == .lazy && a.ins && decide (e.dl ≤ now)) then
      [({ s with ents := put s.ents { key := k, val := v, dl := d } }, true)]
    else [(s, false)]
  | none =>
    if a.ins then
      if c.fl != .eager && decide (c.cap ≤ s.ents.length) then
        let vics : List Entry := match surv with
          | some sv => (match s.ents.find? (fun (w : Entry) => !(sv.contains w.key)) with | some w => [w] | none => s.ents)
          | none => s.ents
        vics.map (fun w => ({ s with ents := put (delE s.ents w.key) { key := k, val := v, dl := d } }, true))
      else [({ s with ents := put s.ents { key := k, val := v, dl := d } }, true)]
    else [(s, false)]

def look1 (c : Ctx) (s : RState) (now : Time) (k : Key) : RState × Option Val :=
  match getE s.ents k with
  | some e =>
    if c.fl == .lazy && decide (e.dl ≤ now) then ({ s with ents := delE s.ents k }, none)
    else (s, some e.val)
  | none => (s, none)

def del1 (s : RState) (k : Key) : RState × Bool :=
  match getE s.ents k with
  | some _ => ({ s with ents := delE s.ents k }, true)
  | none => (s, false)

def reap (c : Ctx) (s : RState) (now : Time) : RState × Nat :=
  if c.fl == .plain then (s, 0)
  else
    let keep := s.ents.filter (fun e => decide (now < e.dl))
    ({ s with ents := keep }, s.ents.length - keep.length)

def pre (c : Ctx) (s : RState) (now : Time) : RState :=
  if c.fl == .eager then (reap c s now).1 else s

/-- more simultaneous candidates than this and the script is given up as undecided (never as a
failure): many expired-but-unreaped entries, or a long range into a full store, make the set of possible
victims large -/
def candLimit : Nat := 400

/-- `none` = the candidate set outgrew `candLimit` -/
def insMany (c : Ctx) (now : Time) (a : Allow) (surv : Option (List Key)) :
    List (Key × Val × Nat) → List (RState × Nat) → Option (List (RState × Nat))
  | [], acc => some acc
  | (k, v, t) :: xs, acc =>
    let raw := acc.flatMap (fun (s, n) => (ins1 c s now k v a t surv).map (fun (s', ok) => (s', n + (if ok then 1 else 0))))
    if raw.length > candLimit then none else
    insMany c now a surv xs (dedup raw)

def lookMany (c : Ctx) (now : Time) : List Key → RState → RState × List (Option Val)
  | [], s => (s, [])
  | k :: ks, s =>
    let r := look1 c s now k
    let r' := lookMany c now ks r.1
    (r'.1, r.2 :: r'.2)

def delMany : List Key → RState → RState × Nat
  | [], s => (s, 0)
  | k :: ks, s =>
    let r := del1 s k
    let r' := delMany ks r.1
    (r'.1, (if r.2 then 1 else 0) + r'.2)

/-- the expected output; `none` = the reference semantics leaves it open (use counts, aged counts) -/
abbrev XOut := Option Out

/-- all successors of one candidate under one public call -/
def succ (c : Ctx) (s : RState) (now : Time) : Op → List (RState × XOut)
  | .insert k v a t => (ins1 c (pre c s now) now k v a t).map (fun (s', ok) => (s', some (.bool ok)))
  | .insertRange _ _ => []   -- see `succ?`
  | .find k _ => let r := look1 c (pre c s now) now k; [(r.1, some (.opt r.2))]
  | .findRange ks _ => let r := lookMany c now ks (pre c s now); [(r.1, some (.opts r.2))]
  | .findCount k _ => let r := look1 c (pre c s now) now k; [(r.1, some (.opt r.2))]
  | .erase k => let r := del1 (pre c s now) k; [(r.1, some (.bool r.2))]
  | .eraseRange ks => let r := delMany ks (pre c s now); [(r.1, some (.nat r.2))]
  | .clear => if c.kind == .utlru || c.kind == .utmap then [({ s with ents := [] }, some .unit)] else [(s, some .unit)]
  | .clean => let r := reap c s now; [(r.1, some (.nat r.2))]
  | .age => [(s, none)]
  | .updateTtl t => [(if c.kind == .utlru then { s with ttl := t * msNs } else s, some .unit)]
  | .size => [(s, some (.nat s.ents.length))]
  | .empty => [(s, some (.bool (s.ents.length == 0)))]
  | .capacity => [(s, some (.nat (if c.fl == .eager then 0 else c.cap)))]

/-- `succ` with range inserts; `none` = too many candidates to enumerate -/
def succ? (c : Ctx) (s : RState) (now : Time) (surv : Option (List Key)) : Op → Option (List (RState × XOut))
  | .insertRange xs a => (insMany c now a surv xs [(pre c s now, 0)]).map (fun l => l.map (fun (s', n) => (s', some (.nat n))))
  | op => some (succ c s now op)

/-- value-level view of an implementation output (use counts dropped) -/
def stripOut : Out → Out
  | .optc o => .opt (o.map (·.1))
  | o => o

def outOk (x : XOut) (o : Out) : Bool :=
  match x with
  | none => true
  | some e => e == stripOut o

/-- what a side-effect-free lookup sweep shows of a candidate at `now` -/
def sweepOf (c : Ctx) (s : RState) (now : Time) : List (Key × Val) :=
  (s.ents.filter (fun e => !(expired c.fl now e) && decide (e.key < c.nkeys))).map (fun e => (e.key, e.val))

def obsOk (c : Ctx) (s : RState) (now : Time) (o : Obs) : Bool :=
  s.ents.length == o.size && (s.ents.length == 0) == o.empty &&
  (if c.fl == .eager then 0 else c.cap) == o.cap &&
  sweepOf c s now == o.sweep.map (fun (k, v, _) => (k, v))

structure Fail where
  ev : Nat
  props : List String
  detail : String
  deriving Repr

def ttlKind (c : Ctx) : Bool := c.fl != .plain

/-- Which properties does an unexplainable event contradict?  (`cands` = successors before filtering.)
The event is compared, field by field, with a reference candidate (one whose output matches if there is
one): a wrong output, a wrong observer and a wrong sweep each name their own properties, and all that
apply are reported. -/
def classify (c : Ctx) (e : Event) (cands : List (RState × XOut)) : List String × String :=
  let outMatch := cands.filter (fun (_, x) => outOk x e.out)
  let outProps : List String × String :=
    if outMatch.isEmpty then
      let exp := match cands with
        | (_, some o) :: _ => showOut o
        | _ => "?"
      let d := s!"out ref=[{exp}] impl=[{showOut e.out}] "
      match e.op with
      | .insert .. | .insertRange .. => (["C09"], d)
      | .find .. | .findRange .. | .findCount .. =>
        (if ttlKind c then ["C01", "C03", "C04", "C05"] else ["C01", "C03"], d)
      | .erase .. | .eraseRange .. => (["C01", "C03"], d)
      | .clean => (["C17"], d)
      | .size | .empty | .capacity => (["C02"], d)
      | _ => (["C01"], d)
    else ([], "")
  let cleanP := match e.op with
    | .clean => ["C17"]
    | _ => []
  let implSweep := e.obs.sweep.map (fun (k, v, _) => (k, v))
  let pool := if outMatch.isEmpty then cands else outMatch
  -- is the sweep explainable by some candidate of the pool?
  let sweepOkC := pool.filter (fun (s, _) => sweepOf c s e.now == implSweep)
  let sweepProps : List String × String :=
    if sweepOkC.isEmpty then
      match pool with
      | (s, _) :: _ =>
        let ref := sweepOf c s e.now
        let extra := implSweep.filter (fun x => !(ref.contains x))
        let missing := ref.filter (fun x => !(implSweep.map (·.1)).contains x.1)
        let p1 := if extra.isEmpty then [] else (if ttlKind c then ["C01", "C04"] else ["C01"])
        let p2 := if missing.isEmpty then [] else (if ttlKind c then ["C03", "C05"] else ["C03"])
        (p1 ++ p2 ++ cleanP, s!"sweep ref=[{ref}] impl=[{implSweep}] ")
      | [] => ([], "")
    else ([], "")
  let pool2 := if sweepOkC.isEmpty then pool else sweepOkC
  let obsOkC := pool2.filter (fun (s, _) =>
    s.ents.length == e.obs.size && (s.ents.length == 0) == e.obs.empty && (if c.fl == .eager then 0 else c.cap) == e.obs.cap)
  let obsProps : List String × String :=
    if obsOkC.isEmpty then (["C02"] ++ cleanP, s!"observers impl size={e.obs.size} empty={e.obs.empty} cap={e.obs.cap}")
    else ([], "")
  -- rr_cache: a wrong set of survivors of an evicting insert is also C15's legality clause
  -- (exactly one prior resident goes, never the inserted key, never nothing)
  let rrP := if c.kind == .rr && !sweepProps.1.isEmpty &&
      (match e.op with | .insert .. | .insertRange .. => true | _ => false) then ["C15"] else []
  let ps := dedup (outProps.1 ++ sweepProps.1 ++ obsProps.1 ++ rrP)
  (if ps.isEmpty then ["C02"] else ps, outProps.2 ++ sweepProps.2 ++ obsProps.2)

/-- calls of ut_map/ut_set that start with the purge -/
def purges : Op → Bool
  | .insert .. | .insertRange .. | .find .. | .findRange .. | .findCount .. | .erase .. | .eraseRange .. | .clean => true
  | _ => false

def loop (c : Ctx) : List RState → Nat → List Event → Nat → Option Fail × Nat
  | _, _, [], mx => (none, mx)
  | cs, idx, e :: es, mx =>
    -- C02, ut_map/ut_set clause, checked on the implementation's own observations: right after a call
    -- that purges, size() is the number of live keys
    if c.fl == .eager && purges e.op && e.obs.size != e.obs.sweep.length then
      (some ⟨idx, ["C02"], s!"eager-size-live size={e.obs.size} live={e.obs.sweep.length}"⟩, mx)
    else
    -- plain flavor: first try the single canonical victim path guided by the survivors of this call
    let surv : Option (List Key) := if c.fl == .plain then some (e.obs.sweep.map (·.1)) else none
    let quick : List RState := match surv with
      | some _ => (match cs.mapM (fun s => succ? c s e.now surv e.op) with
        | some css => dedup ((css.flatten.filter (fun (s, x) => outOk x e.out && obsOk c s e.now e.obs)).map (·.1))
        | none => [])
      | none => []
    if !quick.isEmpty then loop c quick (idx + 1) es (max mx quick.length) else
    match cs.mapM (fun s => succ? c s e.now none e.op) with
    | none => (none, candLimit + 1)
    | some css =>
    let cands := css.flatten
    let keep := dedup ((cands.filter (fun (s, x) => outOk x e.out && obsOk c s e.now e.obs)).map (·.1))
    if keep.isEmpty then
      let (ps, d) := classify c e cands
      (some ⟨idx, ps, d⟩, mx)
    else if keep.length > candLimit then (none, keep.length)
    else loop c keep (idx + 1) es (max mx keep.length)

/-- accept the events of one instance; also returns the largest candidate set seen -/
def accept (cfg : Cfg) (nkeys : Nat) (evs : List Event) : Option Fail × Nat :=
  let c : Ctx := { kind := cfg.kind, fl := flavorOf cfg.kind, cap := cfg.cap, nkeys := nkeys }
  loop c [{ ents := [], ttl := cfg.ttl * msNs }] 0 evs 1

end Verif.Accept
