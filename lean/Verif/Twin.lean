import Verif.Proto
/-!
# Two-run properties on the implementation's own events (C18, C19, C20)

Instance 0 and instance 1 of a script are two real containers; these checks compare their event
streams directly, no model involved.  (The theorems about the models are in `Proofs/Twin*.lean`;
the observable tie model ≙ implementation is `Check.l1`.)
-/
namespace Verif.Twin
open Verif Verif.Proto

/-- `kfs`: signatures of differences that are listed as known findings (reported, not fatal here;
the orchestrator checks each signature against `/verif/known_findings.json`) -/
inductive Verdict
  | ok (compared : Nat) (kfs : List String)
  | fail (ev : Nat) (detail : String)
  deriving Repr

def isEager : Kind → Bool
  | .utmap | .utset => true
  | _ => false

/-- equal except for what counts unreaped expired entries: `size()`, `empty()`, the result of
`clean_expired_values()` -/
def sameButSize (a b : Event) : Bool :=
  a.obs.cap == b.obs.cap && a.obs.sweep == b.obs.sweep &&
  (a.out == b.out || (match a.op with | .size | .empty | .clean => true | _ => false))

def addKf (k : String) (l : List String) : List String := if l.contains k then l else k :: l

def isTtl : Kind → Bool
  | .tlru | .utlru | .utmap | .utset => true
  | _ => false

def sameObs (a b : Obs) : Bool := a == b

def showEv (e : Event) : String :=
  s!"{showOut e.out} | {e.obs.size} {e.obs.empty} {e.obs.cap} | {showSweep e.obs.sweep}"

/-- aggregate of the single calls a range call stands for -/
def aggregate (op : Op) (singles : List Event) : Option Out :=
  match op with
  | .insertRange .. | .eraseRange .. =>
    some (.nat (singles.filter (fun e => e.out == .bool true)).length)
  | .findRange .. =>
    some (.opts (singles.map (fun e => match e.out with | .opt o => o | _ => none)))
  | _ => none

/-- C18: instance 0 got range calls (tag `@g<n>`), instance 1 the same elements as single calls.
In ut_map/ut_set a difference confined to `size()`/`empty()` has signature `c18-eager-size`
(known findings: an empty range call still purges; with TTL 0 the single calls purge each other's
writes). -/
def c18Loop (kind : Kind) : Nat → Nat → List String → List Event → List Event → Verdict
  | _, n, kf, [], _ => .ok n kf
  | fuel + 1, n, kf, e0 :: r0, l1 =>
    if e0.tag.startsWith "@g" then
      let grp := l1.takeWhile (fun e => e.tag == e0.tag)
      let r1 := l1.dropWhile (fun e => e.tag == e0.tag)
      match aggregate e0.op grp with
      | none => .fail n s!"tagged call is not a range call"
      | some agg =>
        if agg != e0.out then .fail n s!"range result {showOut e0.out} vs singles {showOut agg}"
        else match grp.getLast? with
          | none => c18Loop kind fuel (n + 1) kf r0 r1
          | some last =>
            if sameObs last.obs e0.obs then c18Loop kind fuel (n + 1) kf r0 r1
            else if isEager kind && last.obs.cap == e0.obs.cap && last.obs.sweep == e0.obs.sweep then
              c18Loop kind fuel (n + 1) (addKf "c18-eager-size" kf) r0 r1
            else .fail n s!"state after range [{showEv e0}] vs after singles [{showEv last}]"
    else match l1 with
      | [] => .fail n "twin stream ended early"
      | e1 :: r1 =>
        if e0.op != e1.op then .fail n "streams out of step"
        else if e0.out == e1.out && sameObs e0.obs e1.obs then c18Loop kind fuel (n + 1) kf r0 r1
        else if isEager kind && sameButSize e0 e1 then
          c18Loop kind fuel (n + 1) (addKf "c18-eager-size" kf) r0 r1
        else .fail n s!"later call differs: range twin [{showEv e0}] singles twin [{showEv e1}]"
  | 0, n, kf, _, _ => .ok n kf

def c18 (kind : Kind) (evs : List Event) : Verdict :=
  c18Loop kind (evs.length + 1) 0 [] (evs.filter (·.inst == 0)) (evs.filter (·.inst == 1))

/-- did a spliced call have no effect, judged by its result? -/
def noEffect (e : Event) : Bool :=
  match e.op, e.out with
  | .find _ true, _ => true
  | .findCount _ true, _ => true
  | .findRange _ true, _ => true
  | .find _ false, .opt none => true
  | .insert .., .bool false => true
  | .erase _, .bool false => true
  | _, _ => false

/-- calls whose *result* C19 lets differ in TTL containers because they may be addressed to an entry
that had already expired when the spliced call ran: an erase, an update-only insert -/
def ttlLatitude (e : Event) : Bool :=
  match e.op with
  | .erase _ | .eraseRange _ => true
  | .insert _ _ .update _ => true
  | .insertRange _ .update => true
  | _ => false

/-- range forms of those calls: the *counts* can coincide although different elements succeeded (one twin
still holds an expired entry for one key, the other for another), so the latitude has also been used when the
counts agree and the contents differ -/
def rangeLatitude (e : Event) : Bool :=
  match e.op with
  | .eraseRange _ => true
  | .insertRange _ .update => true
  | _ => false

def isSizeOp (e : Event) : Bool :=
  match e.op with
  | .size | .empty => true
  | _ => false

/-- C19: instance 1 = instance 0 with no-effect calls (tag `@x`) spliced in.
TTL containers: `size()`/`empty()` are not compared; when an erase or update-only insert returns
differently on the two sides (or, for the range forms, returns the same count but leaves different contents)
the property's latitude has been used and the states may legitimately differ from there on, so the comparison ends; a `clean_expired_values()` count that differs while
everything else agrees has signature `c19-clean-count` (known finding). -/
def c19Loop (kind : Kind) : Nat → Nat → List String → List Event → List Event → Verdict
  | _, n, kf, [], _ => .ok n kf
  | fuel + 1, n, kf, e0 :: r0, l1 =>
    match l1 with
    | [] => .fail n "twin stream ended early"
    | e1 :: r1 =>
      if e1.tag == "@x" then
        -- a spliced call that did have an effect ends the comparable part of the script
        if noEffect e1 then c19Loop kind fuel n kf (e0 :: r0) r1 else .ok n kf
      else if e0.op != e1.op then .fail n "streams out of step"
      else if !isTtl kind then
        if e0.out == e1.out && sameObs e0.obs e1.obs then c19Loop kind fuel (n + 1) kf r0 r1
        else .fail n s!"shared call differs: plain [{showEv e0}] spliced [{showEv e1}]"
      else if ttlLatitude e0 && (e0.out != e1.out || (rangeLatitude e0 && e0.obs.sweep != e1.obs.sweep)) then .ok n kf
      else
        let rest := e0.obs.cap == e1.obs.cap && e0.obs.sweep == e1.obs.sweep
        if rest && (e0.out == e1.out || isSizeOp e0) then c19Loop kind fuel (n + 1) kf r0 r1
        else if rest && (match e0.op with | .clean => true | _ => false) then
          c19Loop kind fuel (n + 1) (addKf "c19-clean-count" kf) r0 r1
        else .fail n s!"shared call differs: plain [{showEv e0}] spliced [{showEv e1}]"
  | 0, n, kf, _, _ => .ok n kf

def c19 (kind : Kind) (evs : List Event) : Verdict :=
  c19Loop kind (2 * evs.length + 1) 0 [] (evs.filter (·.inst == 0)) (evs.filter (·.inst == 1))

/-- C20: after `clear()` (instance 0, prefix tagged `@pre`) versus a fresh instance -/
def c20Loop : Nat → List Event → List Event → Verdict
  | n, [], _ => .ok n []
  | n, _ :: _, [] => .fail n "twin stream ended early"
  | n, e0 :: r0, e1 :: r1 =>
    if e0.op != e1.op then .fail n "streams out of step"
    else if e0.out == e1.out && sameObs e0.obs e1.obs then c20Loop (n + 1) r0 r1
    else .fail n s!"after clear [{showEv e0}] fresh [{showEv e1}]"

def c20 (evs : List Event) : Verdict :=
  -- first: right after clear() the container is empty
  let pre0 := evs.filter (fun e => e.inst == 0 && e.tag == "@pre")
  match pre0.getLast? with
  | some c =>
    if c.obs.size != 0 || !c.obs.empty || !c.obs.sweep.isEmpty then
      .fail 0 s!"not empty after clear: [{showEv c}]"
    else
      c20Loop 0 (evs.filter (fun e => e.inst == 0 && e.tag != "@pre"))
        (evs.filter (fun e => e.inst == 1 && e.tag != "@pre"))
  | none => .fail 0 "no clear in script"

end Verif.Twin
