import Verif.Basic
/-!
# Line protocol between the C++ harness and the driver (parsing and printing only)

```
cfg <kind> <cap> <ttl_ms> <tick_ms> <num> <den> <nkeys> <mode> <rnd: r,r,… | _>
ev <inst> <now_ns> <@tag> <op …> => <out> | <size> <empty> <cap> | <k:v:c> <k:v:c> …
```
Nothing is proved about this file; a line it cannot parse is reported, never defaulted.
-/
namespace Verif.Proto
open Verif

def splitNonEmpty (s : String) (sep : String) : List String :=
  (s.splitOn sep).filter (· ≠ "")

def parseList (s : String) : List String :=
  if s = "_" then [] else splitNonEmpty s ","

def parseNats (s : String) : Option (List Nat) := (parseList s).mapM String.toNat?

def parseKind : String → Option Kind
  | "lru" => some .lru | "mru" => some .mru | "fifo" => some .fifo | "lfu" => some .lfu
  | "lfuda" => some .lfuda | "rr" => some .rr | "tlru" => some .tlru | "utlru" => some .utlru
  | "utmap" => some .utmap | "utset" => some .utset | _ => none

def kindName : Kind → String
  | .lru => "lru" | .mru => "mru" | .fifo => "fifo" | .lfu => "lfu" | .lfuda => "lfuda"
  | .rr => "rr" | .tlru => "tlru" | .utlru => "utlru" | .utmap => "utmap" | .utset => "utset"

def parseAllow : String → Option Allow
  | "i" => some .insert | "u" => some .update | "iu" => some .insertOrUpdate | _ => none

def parseBool : String → Option Bool
  | "0" => some false | "1" => some true | _ => none

def parseTriple (s : String) : Option (Key × Val × Nat) :=
  match s.splitOn ":" with
  | [k, v, t] => do pure (← k.toNat?, ← v.toNat?, ← t.toNat?)
  | _ => none

/-- `cfg` line → configuration, size of the key universe, script mode -/
def parseCfg (toks : List String) : Option (Cfg × Nat × String) :=
  match toks with
  | [kind, cap, ttl, tick, num, den, nkeys, mode, rnd] => do
    pure ({ kind := ← parseKind kind, cap := ← cap.toNat?, ttl := ← ttl.toNat?, tick := ← tick.toNat?,
            num := ← num.toNat?, den := ← den.toNat?, rnd := ← parseNats rnd }, ← nkeys.toNat?, mode)
  | _ => none

def parseOp (toks : List String) : Option Op :=
  match toks with
  | ["ins", k, v, a, ttl] => do pure (.insert (← k.toNat?) (← v.toNat?) (← parseAllow a) (← ttl.toNat?))
  | [name, a, xs] =>
    if name = "insr" || name = "insi" then do
      pure (.insertRange (← (parseList xs).mapM parseTriple) (← parseAllow a))
    else if name = "find" then do pure (.find (← a.toNat?) (← parseBool xs))
    else if name = "findc" then do pure (.findCount (← a.toNat?) (← parseBool xs))
    else if name = "findr" || name = "findf" || name = "findi" || name = "findfi" then do
      pure (.findRange (← parseNats xs) (← parseBool a))
    else none
  | ["erase", k] => do pure (.erase (← k.toNat?))
  | ["eraser", ks] => do pure (.eraseRange (← parseNats ks))
  | ["erasei", ks] => do pure (.eraseRange (← parseNats ks))
  | ["clear"] => some .clear
  | ["clean"] => some .clean
  | ["age"] => some .age
  | ["uttl", t] => do pure (.updateTtl (← t.toNat?))
  | ["size"] => some .size
  | ["empty"] => some .empty
  | ["cap"] => some .capacity
  | _ => none

def parseOptVal (s : String) : Option (Option Val) :=
  if s = "-" then some none else s.toNat?.map some

def parseOut (s : String) : Option Out :=
  if s = "u" then some .unit
  else
    let rest := (s.drop 1).toString
    match s.front with
    | 'b' => (parseBool rest).map .bool
    | 'n' => rest.toNat?.map .nat
    | 'o' => (parseOptVal rest).map .opt
    | 'c' =>
      if rest = "-" then some (.optc none)
      else match rest.splitOn ":" with
        | [v, n] => do pure (.optc (some (← v.toNat?, ← n.toNat?)))
        | _ => none
    | 'l' => ((parseList rest).mapM parseOptVal).map .opts
    | _ => none

def showOptVal : Option Val → String
  | none => "-"
  | some v => toString v

def showOut : Out → String
  | .bool b => if b then "b1" else "b0"
  | .nat n => s!"n{n}"
  | .opt o => "o" ++ showOptVal o
  | .optc none => "c-"
  | .optc (some (v, n)) => s!"c{v}:{n}"
  | .opts l => if l.isEmpty then "l_" else "l" ++ ",".intercalate (l.map showOptVal)
  | .unit => "u"

def showSweep (l : List (Key × Val × Nat)) : String :=
  " ".intercalate (l.map fun (k, v, c) => s!"{k}:{v}:{c}")

/-- what the harness observed around one call -/
structure Obs where
  size : Nat
  empty : Bool
  cap : Nat
  sweep : List (Key × Val × Nat)
  deriving DecidableEq, Repr, Inhabited

structure Event where
  inst : Nat
  now : Time
  /-- `@` = none; `@x` = spliced no-effect call (C19); `@g<n>` = range group (C18); `@pre` (C20) -/
  tag : String
  op : Op
  out : Out
  obs : Obs
  deriving Repr, Inhabited

def splitAt (toks : List String) (sep : String) : List String × List String :=
  (toks.takeWhile (· ≠ sep), (toks.dropWhile (· ≠ sep)).drop 1)

/-- tokens after `ev` -/
def parseEvent (toks : List String) : Option Event :=
  match toks with
  | inst :: now :: tag :: rest =>
    let (opToks, rest1) := splitAt rest "=>"
    let (outToks, rest2) := splitAt rest1 "|"
    let (obsToks, swToks) := splitAt rest2 "|"
    match outToks, obsToks with
    | [out], [sz, em, cp] => do
      pure { inst := ← inst.toNat?, now := ← now.toNat?, tag := tag, op := ← parseOp opToks, out := ← parseOut out,
             obs := { size := ← sz.toNat?, empty := ← parseBool em, cap := ← cp.toNat?,
                      sweep := ← swToks.mapM parseTriple } }
    | _, _ => none
  | _ => none

end Verif.Proto
