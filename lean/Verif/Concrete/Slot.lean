import Verif.Concrete.Rr
/-!
# L2 (slot/iterator level) model of `lru_cache` and `mru_cache`

`m_lru_list` is a `std::list<size_t>` created with `capacity` nodes holding 0 … cap-1; nodes are never
created or destroyed, only spliced, so a node is identified by its payload and a list iterator is a
payload (`none` = `end()`).  `m_lru_end` is the partition iterator.  `ub` is set where the C++ would
dereference `end()`, decrement `begin()`, index out of range, or erase through a hash iterator whose
node is gone.
-/
namespace Verif.L2

structure LSlot where
  val : Val
  /-- `m_lru_position` -/
  lruIt : Nat
  /-- `m_keyed_position` -/
  keyedIt : Nat
  deriving DecidableEq, Repr, Inhabited

inductive Flavour | lru | mru deriving DecidableEq, Repr

structure LState where
  fl : Flavour
  slots : List LSlot
  keyed : List HNode
  nextNode : Nat
  lruList : List Nat
  lruEnd : Option Nat
  used : Nat
  ub : Bool
  deriving DecidableEq, Repr

namespace LList

/-- the iterator after `it` (`none` = `end()`) -/
def next (l : List Nat) (it : Nat) : Option Nat :=
  match l.dropWhile (fun x => !(x == it)) with
  | _ :: y :: _ => some y
  | _ => none

/-- `std::prev(pos)`; outer `none` = undefined (pos is `begin()`, or not in the list) -/
def prev (l : List Nat) (pos : Option Nat) : Option Nat :=
  match pos with
  | none => l.getLast?
  | some p =>
    let before := l.takeWhile (fun x => !(x == p))
    if before.length = l.length then none else before.getLast?

/-- `l.splice(pos, l, it)`: move node `it` in front of `pos` -/
def splice (l : List Nat) (pos : Option Nat) (it : Nat) : List Nat :=
  if pos = some it then l else
  let l' := l.filter (fun x => !(x == it))
  match pos with
  | none => l' ++ [it]
  | some p => l'.takeWhile (fun x => !(x == p)) ++ it :: l'.dropWhile (fun x => !(x == p))

end LList

namespace Slot

def init (fl : Flavour) (cap : Nat) : LState :=
  { fl, slots := List.replicate cap ⟨0, 0, 0⟩, keyed := [], nextNode := 0, lruList := List.range cap,
    lruEnd := (List.range cap).head?, used := 0, ub := false }

def fail (s : LState) : LState := { s with ub := true }

def findNode (s : LState) (k : Key) : Option HNode := s.keyed.find? (fun n => decide (n.key = k))

/-- `do_access` -/
def doAccess (s : LState) (idx : Nat) : LState :=
  let e := s.slots.getD idx default
  if !(s.lruList.contains e.lruIt) then fail s else
  match s.fl with
  | .lru => { s with lruList := LList.splice s.lruList s.lruList.head? e.lruIt }
  | .mru => { s with lruList := LList.splice s.lruList s.lruEnd e.lruIt }

/-- `do_erase(element_idx)` -/
def doErase (s : LState) (idx : Nat) : LState :=
  if idx ≥ s.slots.length then fail s else
  let e := s.slots.getD idx default
  match LList.prev s.lruList s.lruEnd with
  | none => fail s                       -- std::prev(begin())
  | some last =>
    if !(s.lruList.contains e.lruIt) then fail s else
    let l := if e.lruIt ≠ last then LList.splice s.lruList s.lruEnd e.lruIt else s.lruList
    match LList.prev l s.lruEnd with
    | none => fail s
    | some newEnd =>
      if s.keyed.any (fun n => n.id == e.keyedIt) then
        { s with lruList := l, lruEnd := some newEnd, keyed := s.keyed.filter (fun n => !(n.id == e.keyedIt)),
                 used := s.used - 1 }
      else fail s

/-- `do_prune` -/
def doPrune (s : LState) : LState :=
  if s.used > 0 then
    match s.lruList.getLast? with
    | some idx => doErase s idx
    | none => fail s
  else s

/-- `do_insert` -/
def doInsert (s : LState) (k : Key) (v : Val) : LState :=
  let s1 := if s.used ≥ s.slots.length then doPrune s else s
  if s1.ub then s1 else
  match s1.lruEnd with
  | none => fail s1                       -- *end()
  | some idx =>
    if idx ≥ s1.slots.length then fail s1 else
    let node : HNode := ⟨s1.nextNode, k, idx⟩
    let s2 := { s1 with keyed := s1.keyed ++ [node], nextNode := s1.nextNode + 1,
                        slots := s1.slots.set idx ⟨v, idx, node.id⟩,
                        lruEnd := LList.next s1.lruList idx, used := s1.used + 1 }
    match s.fl with
    | .lru => doAccess s2 idx
    | .mru => s2

def insert1 (s : LState) (k : Key) (v : Val) (a : Allow) : LState × Bool :=
  if s.ub then (s, false) else
  match findNode s k with
  | some n =>
    if a.upd then
      if n.slot ≥ s.slots.length then (fail s, true) else
      let e := s.slots.getD n.slot default
      (doAccess { s with slots := s.slots.set n.slot { e with val := v } } n.slot, true)
    else (s, false)
  | none => if a.ins then (doInsert s k v, true) else (s, false)

def find1 (s : LState) (k : Key) (peek : Bool) : LState × Option (Val × Nat) :=
  if s.ub then (s, none) else
  match findNode s k with
  | some n =>
    if n.slot ≥ s.slots.length then (fail s, none) else
    let v := (s.slots.getD n.slot default).val
    (if peek then s else doAccess s n.slot, some (v, 0))
  | none => (s, none)

def erase1 (s : LState) (k : Key) : LState × Bool :=
  if s.ub then (s, false) else
  match findNode s k with
  | some n => (doErase s n.slot, true)
  | none => (s, false)

def core : Core LState where
  pre s _ := s
  insert1 s _ k v a _ := insert1 s k v a
  find1 s _ k peek := find1 s k peek
  erase1 := erase1
  hasClear := false
  clear s := s
  clean s _ := (s, 0)
  age s _ := (s, 0)
  updateTtl s _ := s
  size s := s.used
  capacity s := s.slots.length
  dlOf _ _ _ := 0
  look s _ k := (find1 s k true).2

/-- `end=<payload at m_lru_end or -> list=<m_lru_list> size=<m_used_size> used=<slot:value:lruIt:key …>` -/
def dump (s : LState) : String :=
  let ks := (s.keyed.map (fun n => (n.key, n.slot))).mergeSort (fun a b => a.1 ≤ b.1)
  let used := ks.map (fun (k, i) =>
    let e := s.slots.getD i default
    s!"{i}:{e.val}:{e.lruIt}:{k}")
  let e := match s.lruEnd with | some x => toString x | none => "-"
  s!"end={e} list={",".intercalate (s.lruList.map toString)} size={s.used} used={",".intercalate used}"

end Slot
end Verif.L2
