import Verif.Basic
/-!
# L2 (node/iterator level) model of `ut_map` and `ut_set`

`m_keyed_elements` is a `std::map` whose nodes hold the value and an iterator into `m_ttl_list`; the
ttl list's nodes hold the expire time and an iterator back into the map.  Both kinds of node come and go,
so both carry identities; `ub` is set where the C++ would erase or dereference through an iterator whose
node is gone.  ut_set is the same structure without values (the harness reports value 1).
-/
namespace Verif.L2

structure MNode where
  id : Nat
  key : Key
  val : Val
  /-- `m_ttl_position` -/
  ttlIt : Nat
  deriving DecidableEq, Repr, Inhabited

structure UNode where
  id : Nat
  expire : Time
  /-- `m_keyed_elements_position` -/
  mapIt : Nat
  deriving DecidableEq, Repr, Inhabited

structure UState where
  ttl : Nat
  mapn : List MNode
  tq : List UNode
  nextM : Nat
  nextU : Nat
  ub : Bool
  deriving DecidableEq, Repr

namespace UtMap

def init (ttlMs : Nat) : UState := { ttl := ttlMs * msNs, mapn := [], tq := [], nextM := 0, nextU := 0, ub := false }

def fail (s : UState) : UState := { s with ub := true }
def findNode (s : UState) (k : Key) : Option MNode := s.mapn.find? (fun n => decide (n.key = k))

/-- `do_prune(now)`: erase the map node of every expired ttl node of the prefix, then the prefix itself -/
def pruneLoop (now : Time) : List UNode → UState → Nat → UState × Nat
  | [], s, n => (s, n)
  | u :: rest, s, n =>
    if u.expire ≤ now then
      if s.mapn.any (fun m => m.id == u.mapIt) then
        pruneLoop now rest { s with mapn := s.mapn.filter (fun m => !(m.id == u.mapIt)),
                                    tq := s.tq.filter (fun x => !(x.id == u.id)) } (n + 1)
      else (fail s, n)
    else (s, n)

def prune (s : UState) (now : Time) : UState × Nat :=
  if s.ub then (s, 0) else pruneLoop now s.tq s 0

def insert1 (s : UState) (now : Time) (k : Key) (v : Val) (a : Allow) : UState × Bool :=
  if s.ub then (s, false) else
  match findNode s k with
  | some m =>
    if a.upd then
      match s.tq.find? (fun u => u.id == m.ttlIt) with
      | none => (fail s, true)                 -- write / splice through a stale ttl iterator
      | some u =>
        ({ s with mapn := s.mapn.map (fun x => if x.id == m.id then { x with val := v } else x),
                  tq := s.tq.filter (fun x => !(x.id == u.id)) ++ [{ u with expire := now + s.ttl }] }, true)
    else (s, false)
  | none =>
    if a.ins then
      let m : MNode := ⟨s.nextM, k, v, s.nextU⟩
      let u : UNode := ⟨s.nextU, now + s.ttl, m.id⟩
      ({ s with mapn := s.mapn ++ [m], tq := s.tq ++ [u], nextM := s.nextM + 1, nextU := s.nextU + 1 }, true)
    else (s, false)

def find1 (s : UState) (k : Key) : UState × Option (Val × Nat) :=
  if s.ub then (s, none) else (s, (findNode s k).map (fun m => (m.val, 0)))

def erase1 (s : UState) (k : Key) : UState × Bool :=
  if s.ub then (s, false) else
  match findNode s k with
  | some m =>
    if s.tq.any (fun u => u.id == m.ttlIt) then
      ({ s with tq := s.tq.filter (fun u => !(u.id == m.ttlIt)), mapn := s.mapn.filter (fun x => !(x.id == m.id)) }, true)
    else (fail s, true)
  | none => (s, false)

def core : Core UState where
  pre s now := (prune s now).1
  insert1 s now k v a _ := insert1 s now k v a
  find1 s _ k _ := find1 s k
  erase1 := erase1
  hasClear := true
  clear s := if s.ub then s else { s with mapn := [], tq := [] }
  clean := prune
  age s _ := (s, 0)
  updateTtl s _ := s
  size s := s.mapn.length
  capacity _ := 0
  dlOf s now _ := now + s.ttl
  look s now k := (find1 (prune s now).1 k).2

/-- `ttl=<expire:key,…> map=<key:value:expire of its ttl node,…>` (map in key order) -/
def dump (s : UState) : String :=
  let keyOfM := fun id => ((s.mapn.find? (fun m => m.id == id)).map (fun m => toString m.key)).getD "?"
  let expOfU := fun id => ((s.tq.find? (fun u => u.id == id)).map (fun u => toString u.expire)).getD "?"
  let tq := s.tq.map (fun u => s!"{u.expire}:{keyOfM u.mapIt}")
  let ms := (s.mapn.mergeSort (fun a b => a.key ≤ b.key)).map (fun m => s!"{m.key}:{m.val}:{expOfU m.ttlIt}")
  s!"ttl={",".intercalate tq} map={",".intercalate ms}"

end UtMap
end Verif.L2
