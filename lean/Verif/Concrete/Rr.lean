import Verif.Basic
/-!
# L2 (slot/index level) model of `rr_cache`, member for member, with an undefined-behaviour flag

`m_elements` (per slot: value, `m_open_list_position`, `m_keyed_position`), `m_keyed_elements` (hash nodes
with identities, so that "erase through an iterator whose node is gone" is representable),
`m_open_list`, `m_open_list_end`, and the random outcomes.  `ub` is set exactly where the C++ would
index out of range or use an invalidated hash iterator; once set the state is frozen.
-/
namespace Verif.L2

structure RrSlot where
  val : Val
  /-- `m_open_list_position` -/
  openPos : Nat
  /-- `m_keyed_position`: identity of the hash node it points to -/
  keyedIt : Nat
  deriving DecidableEq, Repr, Inhabited

/-- a node of `m_keyed_elements` -/
structure HNode where
  id : Nat
  key : Key
  slot : Nat
  deriving DecidableEq, Repr, Inhabited

structure RrState where
  cap : Nat
  slots : List RrSlot
  keyed : List HNode
  nextNode : Nat
  openList : List Nat
  openEnd : Nat
  rnd : List Nat
  ub : Bool
  deriving DecidableEq, Repr

namespace Rr

def init (cap : Nat) (rnd : List Nat) : RrState :=
  { cap, slots := List.replicate cap ⟨0, 0, 0⟩, keyed := [], nextNode := 0,
    openList := List.range cap, openEnd := 0, rnd, ub := false }

def findNode (s : RrState) (k : Key) : Option HNode := s.keyed.find? (fun n => decide (n.key = k))

def fail (s : RrState) : RrState := { s with ub := true }

/-- `do_erase(element_idx)` -/
def doErase (s : RrState) (idx : Nat) : RrState :=
  if idx ≥ s.slots.length then fail s else
  let e := s.slots.getD idx default
  if s.openEnd = 0 then fail s else
  let last := s.openEnd - 1
  if e.openPos ≥ s.openList.length ∨ last ≥ s.openList.length then fail s else
  let s1 :=
    if e.openPos ≠ last then
      let a := s.openList.getD e.openPos 0
      let b := s.openList.getD last 0
      let ol := (s.openList.set e.openPos b).set last a
      -- the element swapped out of the last in-use position now lives at e's position
      let moved := ol.getD e.openPos 0
      if moved ≥ s.slots.length then fail s else
      let me := s.slots.getD moved default
      { s with openList := ol, slots := s.slots.set moved { me with openPos := e.openPos } }
    else s
  if s1.ub then s1 else
  -- m_keyed_elements.erase(e.m_keyed_position): the node must still exist
  if s1.keyed.any (fun n => n.id == e.keyedIt) then
    { s1 with openEnd := last, keyed := s1.keyed.filter (fun n => !(n.id == e.keyedIt)) }
  else fail s1

/-- `do_prune` -/
def doPrune (s : RrState) : RrState :=
  if s.openEnd > 0 then
    let r := s.rnd.headD 0
    doErase { s with rnd := s.rnd.tail } r
  else s

/-- `do_insert` -/
def doInsert (s : RrState) (k : Key) (v : Val) : RrState :=
  let s1 := if s.openEnd ≥ s.slots.length then doPrune s else s
  if s1.ub then s1 else
  if s1.openEnd ≥ s1.openList.length then fail s1 else
  let idx := s1.openList.getD s1.openEnd 0
  if idx ≥ s1.slots.length then fail s1 else
  let node : HNode := ⟨s1.nextNode, k, idx⟩
  { s1 with keyed := s1.keyed ++ [node], nextNode := s1.nextNode + 1,
            slots := s1.slots.set idx ⟨v, s1.openEnd, node.id⟩, openEnd := s1.openEnd + 1 }

def insert1 (s : RrState) (k : Key) (v : Val) (a : Allow) : RrState × Bool :=
  if s.ub then (s, false) else
  match findNode s k with
  | some n =>
    if a.upd then
      if n.slot ≥ s.slots.length then (fail s, true) else
      let e := s.slots.getD n.slot default
      ({ s with slots := s.slots.set n.slot { e with val := v } }, true)
    else (s, false)
  | none => if a.ins then (doInsert s k v, true) else (s, false)

def find1 (s : RrState) (k : Key) : RrState × Option (Val × Nat) :=
  if s.ub then (s, none) else
  match findNode s k with
  | some n => if n.slot ≥ s.slots.length then (fail s, none) else (s, some ((s.slots.getD n.slot default).val, 0))
  | none => (s, none)

def erase1 (s : RrState) (k : Key) : RrState × Bool :=
  if s.ub then (s, false) else
  match findNode s k with
  | some n => (doErase s n.slot, true)
  | none => (s, false)

def core : Core RrState where
  pre s _ := s
  insert1 s _ k v a _ := insert1 s k v a
  find1 s _ k _ := find1 s k
  erase1 := erase1
  hasClear := false
  clear s := s
  clean s _ := (s, 0)
  age s _ := (s, 0)
  updateTtl s _ := s
  size s := s.openEnd
  capacity s := s.slots.length
  dlOf _ _ _ := 0
  look s _ k := (find1 s k).2

/-- canonical dump of the private structure, compared with the harness's (structural tier):
`end=<m_open_list_end> open=<m_open_list> keyed=<key:slot,…> used=<slot:value:openPos:key …>` -/
def dump (s : RrState) : String :=
  let ks := (s.keyed.map (fun n => (n.key, n.slot))).mergeSort (fun a b => a.1 ≤ b.1)
  let used := ks.map (fun (k, i) =>
    let e := s.slots.getD i default
    s!"{i}:{e.val}:{e.openPos}:{k}")
  s!"end={s.openEnd} open={",".intercalate (s.openList.map toString)} used={",".intercalate used}"

end Rr
end Verif.L2
