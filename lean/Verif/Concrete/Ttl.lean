import Verif.Concrete.Slot
/-!
# L2 (slot/iterator level) model of `tlru_cache` and `utlru_cache`

As `Concrete/Slot.lean` (the recency list with its partition iterator, most recently used first, the slot
table, the hash index) plus the ttl structure: tlru's `std::multimap<time_point, size_t>` and utlru's
`std::list<size_t>` are lists of nodes with identities (nodes are created by inserts and destroyed by
erases, so "erase through an iterator whose node is gone" is representable).  A utlru node carries no
deadline of its own: the C++ reads it from the slot.
-/
namespace Verif.L2

structure TSlot where
  val : Val
  expire : Time
  lruIt : Nat
  ttlIt : Nat
  keyedIt : Nat
  deriving DecidableEq, Repr, Inhabited

/-- a node of the ttl structure: identity, multimap key (tlru only; 0 in utlru), slot -/
structure TNode where
  id : Nat
  dl : Time
  slot : Nat
  deriving DecidableEq, Repr, Inhabited

inductive TKind | tlru | utlru deriving DecidableEq, Repr

structure TState where
  kind : TKind
  /-- `m_ttl` in ns (utlru) -/
  ttl : Nat
  slots : List TSlot
  keyed : List HNode
  nextNode : Nat
  lruList : List Nat
  lruEnd : Option Nat
  ttlq : List TNode
  nextT : Nat
  used : Nat
  ub : Bool
  deriving DecidableEq, Repr

namespace Ttl

def init (kind : TKind) (cap ttlMs : Nat) : TState :=
  { kind, ttl := ttlMs * msNs, slots := List.replicate cap ⟨0, 0, 0, 0, 0⟩, keyed := [], nextNode := 0,
    lruList := List.range cap, lruEnd := (List.range cap).head?, ttlq := [], nextT := 0, used := 0, ub := false }

def fail (s : TState) : TState := { s with ub := true }

def findNode (s : TState) (k : Key) : Option HNode := s.keyed.find? (fun n => decide (n.key = k))

/-- the deadline the ttl structure orders a node by -/
def dlOfNode (s : TState) (n : TNode) : Time :=
  match s.kind with
  | .tlru => n.dl
  | .utlru => (s.slots.getD n.slot default).expire

/-- `multimap::emplace` / `do_file_ttl`: behind the last node that does not expire later -/
def fileT (s : TState) (q : List TNode) (n : TNode) (d : Time) : List TNode :=
  match q with
  | [] => [n]
  | x :: xs => if dlOfNode s x ≤ d then x :: fileT s xs n d else n :: x :: xs

/-- `do_access`: to the front of the recency list -/
def doAccess (s : TState) (idx : Nat) : TState :=
  let e := s.slots.getD idx default
  if !(s.lruList.contains e.lruIt) then fail s else
  { s with lruList := LList.splice s.lruList s.lruList.head? e.lruIt }

/-- `do_erase(element_idx)` -/
def doErase (s : TState) (idx : Nat) : TState :=
  if idx ≥ s.slots.length then fail s else
  let e := s.slots.getD idx default
  match LList.prev s.lruList s.lruEnd with
  | none => fail s
  | some last =>
    if !(s.lruList.contains e.lruIt) then fail s else
    let l := if e.lruIt ≠ last then LList.splice s.lruList s.lruEnd e.lruIt else s.lruList
    match LList.prev l s.lruEnd with
    | none => fail s
    | some newEnd =>
      if !(s.ttlq.any (fun n => n.id == e.ttlIt)) then fail s else
      if !(s.keyed.any (fun n => n.id == e.keyedIt)) then fail s else
      { s with lruList := l, lruEnd := some newEnd,
               ttlq := s.ttlq.filter (fun n => !(n.id == e.ttlIt)),
               keyed := s.keyed.filter (fun n => !(n.id == e.keyedIt)), used := s.used - 1 }

/-- `do_prune(now)`: the head of the ttl structure if it has expired, else the least recently used -/
def doPrune (s : TState) (now : Time) : TState :=
  if s.used > 0 then
    match s.ttlq with
    | [] => fail s                         -- *m_ttl_list.begin() on an empty structure
    | n :: _ =>
      if n.slot ≥ s.slots.length then fail s else
      if dlOfNode s n ≤ now then doErase s n.slot
      else match s.lruList.getLast? with
        | some idx => doErase s idx
        | none => fail s
  else s

/-- `do_insert` -/
def doInsert (s : TState) (now : Time) (k : Key) (v : Val) (d : Time) : TState :=
  let s1 := if s.used ≥ s.slots.length then doPrune s now else s
  if s1.ub then s1 else
  match s1.lruEnd with
  | none => fail s1
  | some idx =>
    if idx ≥ s1.slots.length then fail s1 else
    let node : HNode := ⟨s1.nextNode, k, idx⟩
    let tn : TNode := ⟨s1.nextT, (match s1.kind with | .tlru => d | .utlru => 0), idx⟩
    let slots := s1.slots.set idx ⟨v, d, idx, tn.id, node.id⟩
    let s2 := { s1 with slots := slots }
    let s3 := { s2 with keyed := s1.keyed ++ [node], nextNode := s1.nextNode + 1,
                        ttlq := fileT s2 s1.ttlq tn d, nextT := s1.nextT + 1,
                        lruEnd := LList.next s1.lruList idx, used := s1.used + 1 }
    doAccess s3 idx

/-- `do_update` -/
def doUpdate (s : TState) (idx : Nat) (v : Val) (d : Time) : TState :=
  if idx ≥ s.slots.length then fail s else
  let e := s.slots.getD idx default
  match s.ttlq.find? (fun n => n.id == e.ttlIt) with
  | none => fail s                          -- erase / splice through a stale ttl iterator
  | some old =>
    let rest := s.ttlq.filter (fun n => !(n.id == e.ttlIt))
    match s.kind with
    | .tlru =>
      -- erase the node, emplace a new one
      let tn : TNode := ⟨s.nextT, d, idx⟩
      let s1 := { s with slots := s.slots.set idx { e with val := v, expire := d, ttlIt := tn.id } }
      doAccess { s1 with ttlq := fileT s1 rest tn d, nextT := s.nextT + 1 } idx
    | .utlru =>
      -- the node is kept: spliced to the tail, then walked back (`do_file_ttl`)
      let s1 := { s with slots := s.slots.set idx { e with val := v, expire := d } }
      doAccess { s1 with ttlq := fileT s1 rest old d } idx

/-- `do_insert_update`; `d` = expire time computed by the caller -/
def insert1 (s : TState) (now : Time) (k : Key) (v : Val) (a : Allow) (d : Time) : TState × Bool :=
  if s.ub then (s, false) else
  match findNode s k with
  | some n =>
    if a.upd then (doUpdate s n.slot v d, true)
    else if a.ins then
      if n.slot ≥ s.slots.length then (fail s, false) else
      if (s.slots.getD n.slot default).expire ≤ now then (doUpdate s n.slot v d, true) else (s, false)
    else (s, false)
  | none => if a.ins then (doInsert s now k v d, true) else (s, false)

def find1 (s : TState) (now : Time) (k : Key) (peek : Bool) : TState × Option (Val × Nat) :=
  if s.ub then (s, none) else
  match findNode s k with
  | some n =>
    if n.slot ≥ s.slots.length then (fail s, none) else
    let e := s.slots.getD n.slot default
    if now < e.expire then (if peek then s else doAccess s n.slot, some (e.val, 0))
    else (doErase s n.slot, none)
  | none => (s, none)

def erase1 (s : TState) (k : Key) : TState × Bool :=
  if s.ub then (s, false) else
  match findNode s k with
  | some n => (doErase s n.slot, true)
  | none => (s, false)

/-- `clean_expired_values`: fuel = number of nodes (each round erases one) -/
def cleanLoop (now : Time) : Nat → TState → Nat → TState × Nat
  | 0, s, n => (s, n)
  | fuel + 1, s, n =>
    if s.ub then (s, n) else
    if s.used = 0 then (s, n) else
    match s.ttlq with
    | [] => (fail s, n)
    | x :: _ =>
      if x.slot ≥ s.slots.length then (fail s, n) else
      if dlOfNode s x ≤ now then cleanLoop now fuel (doErase s x.slot) (n + 1) else (s, n)

def clean (s : TState) (now : Time) : TState × Nat :=
  if s.ub then (s, 0) else cleanLoop now (s.ttlq.length + 1) s 0

/-- utlru `clear()` -/
def clear (s : TState) : TState :=
  if s.ub then s else
  if s.used > 0 then
    { s with lruList := List.range s.lruList.length, lruEnd := (List.range s.lruList.length).head?,
             keyed := [], ttlq := [], used := 0 }
  else s

def coreOf (kind : TKind) : Core TState where
  pre s _ := s
  insert1 s now k v a ttl :=
    insert1 s now k v a (match kind with | .tlru => now + ttl * msNs | .utlru => now + s.ttl)
  find1 := find1
  erase1 := erase1
  hasClear := kind == .utlru
  clear := clear
  clean := clean
  age s _ := (s, 0)
  updateTtl s t := match kind with | .utlru => (if s.ub then s else { s with ttl := t * msNs }) | .tlru => s
  size s := s.used
  capacity s := s.slots.length
  dlOf s now ttl := match kind with | .tlru => now + ttl * msNs | .utlru => now + s.ttl
  look s now k :=
    match findNode s k with
    | some n => let e := s.slots.getD n.slot default; if now < e.expire then some (e.val, 0) else none
    | none => none

/-- `end=… list=… size=… ttl=<deadline:slot,…> used=<slot:value:lruIt:key:expire:ttlslot …>` -/
def dump (s : TState) : String :=
  let ks := (s.keyed.map (fun n => (n.key, n.slot))).mergeSort (fun a b => a.1 ≤ b.1)
  let used := ks.map (fun (k, i) =>
    let e := s.slots.getD i default
    let tslot := ((s.ttlq.find? (fun n => n.id == e.ttlIt)).map (fun n => toString n.slot)).getD "?"
    s!"{i}:{e.val}:{e.lruIt}:{k}:{e.expire}:{tslot}")
  let e := match s.lruEnd with | some x => toString x | none => "-"
  let tq := s.ttlq.map (fun n => s!"{dlOfNode s n}:{n.slot}")
  s!"end={e} list={",".intercalate (s.lruList.map toString)} size={s.used} ttl={",".intercalate tq} used={",".intercalate used}"

end Ttl
end Verif.L2
