import Verif.Concrete.Slot
/-!
# L2 (node/iterator level) models of `fifo_cache`, `lfu_cache`, `lfuda_cache`

These three keep their elements in a `std::list<element>` created with `capacity` nodes; nodes are only
spliced, never created or destroyed, so a node — and an iterator to it — is identified by its initial
position `0 … cap-1` (`none` = `end()`).  The hash index maps a key to a node.  lfu/lfuda add the
`std::multimap<size_t, node>` ordered by use count, whose nodes do come and go and therefore carry
identities.  `ub` as in the other L2 models.
-/
namespace Verif.L2

/-! ## fifo_cache -/

structure FNode where
  val : Val
  /-- `std::optional<keyed_iterator> m_keyed_position` -/
  keyedIt : Option Nat
  deriving DecidableEq, Repr, Inhabited

structure FState where
  nodes : List FNode
  keyed : List HNode          -- `slot` = the list node the key maps to
  nextNode : Nat
  /-- `m_fifo_list`: node ids in list order -/
  order : List Nat
  used : Nat
  ub : Bool
  deriving DecidableEq, Repr

namespace Fifo

def init (cap : Nat) : FState :=
  { nodes := List.replicate cap ⟨0, none⟩, keyed := [], nextNode := 0, order := List.range cap, used := 0, ub := false }

def fail (s : FState) : FState := { s with ub := true }
def findNode (s : FState) (k : Key) : Option HNode := s.keyed.find? (fun n => decide (n.key = k))

/-- `do_insert` -/
def doInsert (s : FState) (k : Key) (v : Val) : FState :=
  match s.order with
  | [] => fail s                                   -- splice of begin() == end()
  | hd :: _ =>
    -- m_fifo_list.splice(end(), list, begin()): the head node becomes the tail
    let order := LList.splice s.order none hd
    if hd ≥ s.nodes.length then fail s else
    let e := s.nodes.getD hd default
    let r : Option (List HNode × Nat) :=
      match e.keyedIt with
      | some it => if s.keyed.any (fun n => n.id == it) then some (s.keyed.filter (fun n => !(n.id == it)), s.used) else none
      | none => some (s.keyed, s.used + 1)
    match r with
    | none => fail s                               -- erase through a stale hash iterator
    | some (keyed, used) =>
      let node : HNode := ⟨s.nextNode, k, hd⟩
      { s with order := order, keyed := keyed ++ [node], nextNode := s.nextNode + 1, used := used,
               nodes := s.nodes.set hd ⟨v, some node.id⟩ }

/-- `do_erase(fifo_position)` -/
def doErase (s : FState) (nd : Nat) : FState :=
  if nd ≥ s.nodes.length then fail s else
  if !(s.order.contains nd) then fail s else
  let e := s.nodes.getD nd default
  let order := if s.order.head? ≠ some nd then LList.splice s.order s.order.head? nd else s.order
  match e.keyedIt with
  | some it =>
    if s.keyed.any (fun n => n.id == it) then
      { s with order := order, keyed := s.keyed.filter (fun n => !(n.id == it)),
               nodes := s.nodes.set nd { e with keyedIt := none }, used := s.used - 1 }
    else fail s
  | none => { s with order := order, used := s.used - 1 }

def insert1 (s : FState) (k : Key) (v : Val) (a : Allow) : FState × Bool :=
  if s.ub then (s, false) else
  match findNode s k with
  | some n =>
    if a.upd then
      if n.slot ≥ s.nodes.length then (fail s, true) else
      let e := s.nodes.getD n.slot default
      ({ s with nodes := s.nodes.set n.slot { e with val := v } }, true)
    else (s, false)
  | none => if a.ins then (doInsert s k v, true) else (s, false)

def find1 (s : FState) (k : Key) : FState × Option (Val × Nat) :=
  if s.ub then (s, none) else
  match findNode s k with
  | some n => if n.slot ≥ s.nodes.length then (fail s, none) else (s, some ((s.nodes.getD n.slot default).val, 0))
  | none => (s, none)

def erase1 (s : FState) (k : Key) : FState × Bool :=
  if s.ub then (s, false) else
  match findNode s k with
  | some n => (doErase s n.slot, true)
  | none => (s, false)

def core : Core FState where
  pre s _ := s
  insert1 s _ k v a _ := insert1 s k v a
  find1 s _ k _ := find1 s k
  erase1 := erase1
  hasClear := false
  clear s := s
  clean s _ := (s, 0)
  age s _ := (s, 0)
  updateTtl s _ := s
  size s := s.used
  capacity s := s.order.length
  dlOf _ _ _ := 0
  look s _ k := (find1 s k).2

/-- `list=<per node in list order: - | key:value> size=<m_used_size>` -/
def dump (s : FState) : String :=
  let cell := fun nd =>
    let e := s.nodes.getD nd default
    match e.keyedIt with
    | none => "-"
    | some it => match s.keyed.find? (fun n => n.id == it) with
      | some n => s!"{n.key}:{e.val}"
      | none => "?"
  s!"list={",".intercalate (s.order.map cell)} size={s.used}"

end Fifo

/-! ## lfu_cache and lfuda_cache -/

structure CNode where
  val : Val
  keyedIt : Nat
  lfuIt : Nat
  /-- `m_dynamic_age` (lfuda) -/
  stamp : Time
  deriving DecidableEq, Repr, Inhabited

/-- a node of `m_lfu_list`: identity, use count, list node -/
structure QNode where
  id : Nat
  cnt : Nat
  node : Nat
  deriving DecidableEq, Repr, Inhabited

structure CState where
  /-- lfuda? (aging on) -/
  da : Bool
  tick : Nat
  num : Nat
  den : Nat
  nodes : List CNode
  keyed : List HNode
  nextNode : Nat
  /-- `m_open_list` / `m_dynamic_age_list`: node ids in list order -/
  order : List Nat
  /-- `m_open_list_end` -/
  openEnd : Option Nat
  lfuq : List QNode
  nextQ : Nat
  used : Nat
  ub : Bool
  deriving DecidableEq, Repr

namespace Cnt

def init (da : Bool) (cap tickMs num den : Nat) : CState :=
  { da, tick := tickMs * msNs, num, den, nodes := List.replicate cap ⟨0, 0, 0, 0⟩, keyed := [], nextNode := 0,
    order := List.range cap, openEnd := (List.range cap).head?, lfuq := [], nextQ := 0, used := 0, ub := false }

def fail (s : CState) : CState := { s with ub := true }
def findNode (s : CState) (k : Key) : Option HNode := s.keyed.find? (fun n => decide (n.key = k))

/-- `multimap::emplace(count, node)` -/
def fileQ (q : List QNode) (x : QNode) : List QNode :=
  match q with
  | [] => [x]
  | y :: ys => if y.cnt ≤ x.cnt then y :: fileQ ys x else x :: y :: ys

/-- re-file the lfu node of list node `nd` at count `c` (erase + emplace) -/
def refile (s : CState) (nd : Nat) (c : Nat) : CState :=
  let e := s.nodes.getD nd default
  if !(s.lfuq.any (fun q => q.id == e.lfuIt)) then fail s else
  let q : QNode := ⟨s.nextQ, c, nd⟩
  { s with lfuq := fileQ (s.lfuq.filter (fun x => !(x.id == e.lfuIt))) q, nextQ := s.nextQ + 1,
           nodes := s.nodes.set nd { e with lfuIt := q.id } }

def cntOf (s : CState) (nd : Nat) : Option Nat :=
  (s.lfuq.find? (fun q => q.id == (s.nodes.getD nd default).lfuIt)).map (·.cnt)

/-- `do_access` -/
def doAccess (s : CState) (nd : Nat) (now : Time) : CState :=
  match cntOf s nd with
  | none => fail s
  | some c =>
    let s1 := refile s nd (c + 1)
    if s1.ub then s1 else
    if !s.da then s1 else
    -- lfuda: move to the young end of the age list (just before m_open_list_end), stamp
    match LList.prev s1.order s1.openEnd with
    | none => fail s1
    | some last =>
      let order := if nd ≠ last then LList.splice s1.order s1.openEnd nd else s1.order
      let e := s1.nodes.getD nd default
      { s1 with order := order, nodes := s1.nodes.set nd { e with stamp := now } }

/-- `do_erase(node)` -/
def doErase (s : CState) (nd : Nat) : CState :=
  if nd ≥ s.nodes.length then fail s else
  if !(s.order.contains nd) then fail s else
  let e := s.nodes.getD nd default
  match LList.prev s.order s.openEnd with
  | none => fail s
  | some last =>
    let order := if nd ≠ last then LList.splice s.order s.openEnd nd else s.order
    match LList.prev order s.openEnd with
    | none => fail s
    | some newEnd =>
      if !(s.keyed.any (fun n => n.id == e.keyedIt)) then fail s else
      if !(s.lfuq.any (fun q => q.id == e.lfuIt)) then fail s else
      { s with order := order, openEnd := some newEnd,
               keyed := s.keyed.filter (fun n => !(n.id == e.keyedIt)),
               lfuq := s.lfuq.filter (fun q => !(q.id == e.lfuIt)), used := s.used - 1 }

/-- `do_dynamic_age(now)`: walk from the old end while idle; fuel = number of nodes.
`daLast` = the node the next aged node is spliced in front of (`none` = `m_open_list_end`). -/
def ageLoop (now : Time) : Nat → CState → Option (Option Nat) → Nat → CState × Nat
  | 0, s, _, n => (s, n)
  | fuel + 1, s, daLast, n =>
    if s.ub then (s, n) else
    match s.order.head? with
    | none => (s, n)
    | some st =>
      if some st = s.openEnd then (s, n) else
      let e := s.nodes.getD st default
      if e.stamp + s.tick < now then
        let target : Option Nat := match daLast with | none => s.openEnd | some x => x
        let order := if some st ≠ target then LList.splice s.order target st else s.order
        let s1 := { s with order := order, nodes := s.nodes.set st { e with stamp := now } }
        match cntOf s1 st with
        | none => (fail s1, n)
        | some c =>
          let s2 := refile s1 st (c * s.num / s.den)
          ageLoop now fuel s2 (some (some st)) (n + 1)
      else (s, n)

def dynAge (s : CState) (now : Time) : CState × Nat :=
  if s.ub then (s, 0) else ageLoop now (s.order.length + 1) s none 0

/-- `do_prune` -/
def doPrune (s : CState) (now : Time) : CState :=
  if s.used > 0 then
    let s1 := if s.da then (dynAge s now).1 else s
    if s1.ub then s1 else
    match s1.lfuq with
    | [] => fail s1
    | q :: _ => doErase s1 q.node
  else s

/-- `do_insert` -/
def doInsert (s : CState) (now : Time) (k : Key) (v : Val) : CState :=
  let s1 := if s.used ≥ s.order.length then doPrune s now else s
  if s1.ub then s1 else
  match s1.openEnd with
  | none => fail s1
  | some nd =>
    if nd ≥ s1.nodes.length then fail s1 else
    let node : HNode := ⟨s1.nextNode, k, nd⟩
    let q : QNode := ⟨s1.nextQ, 1, nd⟩
    { s1 with keyed := s1.keyed ++ [node], nextNode := s1.nextNode + 1,
              lfuq := fileQ s1.lfuq q, nextQ := s1.nextQ + 1,
              nodes := s1.nodes.set nd ⟨v, node.id, q.id, now⟩,
              openEnd := LList.next s1.order nd, used := s1.used + 1 }

def insert1 (s : CState) (now : Time) (k : Key) (v : Val) (a : Allow) : CState × Bool :=
  if s.ub then (s, false) else
  match findNode s k with
  | some n =>
    if a.upd then
      if n.slot ≥ s.nodes.length then (fail s, true) else
      let e := s.nodes.getD n.slot default
      (doAccess { s with nodes := s.nodes.set n.slot { e with val := v } } n.slot now, true)
    else (s, false)
  | none => if a.ins then (doInsert s now k v, true) else (s, false)

def find1 (s : CState) (now : Time) (k : Key) (peek : Bool) : CState × Option (Val × Nat) :=
  if s.ub then (s, none) else
  match findNode s k with
  | some n =>
    if n.slot ≥ s.nodes.length then (fail s, none) else
    let s1 := if peek then s else doAccess s n.slot now
    if s1.ub then (s1, none) else
    match cntOf s1 n.slot with
    | none => (fail s1, none)
    | some c => (s1, some ((s1.nodes.getD n.slot default).val, c))
  | none => (s, none)

def erase1 (s : CState) (k : Key) : CState × Bool :=
  if s.ub then (s, false) else
  match findNode s k with
  | some n => (doErase s n.slot, true)
  | none => (s, false)

def core : Core CState where
  pre s _ := s
  insert1 s now k v a _ := insert1 s now k v a
  find1 := find1
  erase1 := erase1
  hasClear := false
  clear s := s
  clean s _ := (s, 0)
  age s now := if s.da then dynAge s now else (s, 0)
  updateTtl s _ := s
  size s := s.used
  capacity s := s.order.length
  dlOf _ _ _ := 0
  look s now k := (find1 s now k true).2

/-- `end=<node at m_open_list_end|-> list=<per node in order: - | key:value:count:stamp> lfu=<count:key,…> size=…` -/
def dump (s : CState) : String :=
  let keyOf := fun nd => (s.keyed.find? (fun n => n.slot == nd)).map (·.key)
  let usedL := match s.openEnd with
    | none => s.order
    | some e => s.order.takeWhile (fun x => !(x == e))
  let cell := fun nd =>
    let e := s.nodes.getD nd default
    match keyOf nd, cntOf s nd with
    | some k, some c => s!"{k}:{e.val}:{c}:{if s.da then e.stamp else 0}"
    | _, _ => "?"
  let lq := s.lfuq.map (fun q => s!"{q.cnt}:{(keyOf q.node).getD 0}")
  let e := match s.openEnd with | some x => toString (s.order.takeWhile (fun y => !(y == x))).length | none => toString s.order.length
  s!"end={e} list={",".intercalate (usedL.map cell)} lfu={",".intercalate lq} size={s.used}"

end Cnt
end Verif.L2
