import Verif.Properties
import Verif.Proofs.Order.Rec
import Verif.Proofs.Order.Fifo
import Verif.Proofs.Order.Rr
import Verif.Proofs.Order.Lfu
import Verif.Proofs.Order.Lfuda
import Verif.Proofs.Order.Tlru
/-!
# The replacement-policy property theorems (C10–C16), stated over whole histories

`Proofs/Order/*.lean` prove each policy fact for one atom after an arbitrary atom-level run.  Here
they are stated for every public-API history: `steps_of_history` says that the atoms of a history
are such a run, so every evicting insert of every history is covered.
-/
namespace Verif
open Verif.Spec

namespace Core
variable {σ : Type} (c : Core σ)

/-- the clock readings of the atoms of a history never decrease if those of its calls do not -/
theorem runA_pairwise (s : σ) (ops : List (Time × Op)) (t0 : Time) (ht : TimesFrom t0 ops) :
    (c.runA s ops).2.2.Pairwise (fun x y => x.1 ≤ y.1) := by
  induction ops generalizing s t0 with
  | nil => simp [runA]
  | cons x rest ih =>
    obtain ⟨t, op⟩ := x
    simp only [TimesFrom] at ht
    simp only [runA]
    rw [List.pairwise_append]
    refine ⟨?_, ih _ t ht.2, ?_⟩
    · rw [List.pairwise_map]
      exact List.pairwise_of_forall_mem_list (fun _ _ _ _ => Nat.le_refl _)
    · intro a ha b hb
      simp only [List.mem_map] at ha
      obtain ⟨_, _, rfl⟩ := ha
      exact c.runA_times_from _ rest t ht.2 b hb

/-- Every history is an atom-level run from the start state, with non-decreasing clock readings; the
atoms of the run are the atoms of the history. -/
theorem steps_of_history (s : σ) (ops : List (Time × Op)) (t0 : Time) (ht : TimesFrom t0 ops) :
    ∃ tr : STrace σ, CRun c s tr (c.runA s ops).1 ∧ tr.atoms = (c.runA s ops).2.2 ∧ STrace.monotone tr := by
  obtain ⟨tr, h1, h2⟩ := c.runA_crun s ops
  refine ⟨tr, h1, h2, ?_⟩
  have hp := c.runA_pairwise s ops t0 ht
  rw [← h2] at hp
  simp only [STrace.atoms, List.pairwise_map] at hp
  exact hp

end Core

/-- a prefix of a monotone annotated trace, extended by its next element, is monotone -/
theorem STrace.monotone_prefix {σ : Type} {p q : STrace σ} {x : σ × Time × Atom}
    (h : STrace.monotone (p ++ x :: q)) : STrace.monotone (p ++ [x]) := by
  unfold STrace.monotone at *
  have : p ++ x :: q = (p ++ [x]) ++ q := by simp
  rw [this] at h
  exact (List.pairwise_append.mp h).1

/-! Each theorem below: for every history (non-decreasing clock) of the container there is an
atom-level run with exactly the history's atoms such that, at every accepted insert of a new key that
finds the container full, the stated policy fact holds for the state the atom started from (`s`), the
history so far (`p`) and the state it led to (`s'`). -/

/-- **C10 (lru_cache).** -/
theorem C10_lru_history (cap : Nat) (hcap : 0 < cap) (ops : List (Time × Op)) (t0 : Time) (ht : TimesFrom t0 ops) :
    ∃ tr : STrace RecState, tr.atoms = (lruV cap hcap).history ops ∧
      ∀ p q s now k v al d, tr = p ++ (s, now, .ins k v al d true) :: q → k ∉ keys s.ents → cap ≤ s.ents.length →
        ∃ s' w, CStep Lru.core s now (.ins k v al d true) s' ∧
          firstIn (useOrder p) (keys s.ents) = some w ∧ Evicts (keys s.ents) (keys s'.ents) k w := by
  obtain ⟨tr, hrun, hat, _⟩ := Lru.core.steps_of_history (Rec.init cap) ops t0 ht
  refine ⟨tr, hat, ?_⟩
  intro p q s now k v al d heq hnew hfull
  subst heq
  obtain ⟨hp, s', hs, _⟩ := hrun.step_at
  obtain ⟨w, h1, h2⟩ := C10_lru cap hcap hp hs hnew hfull
  exact ⟨s', w, hs, h1, h2⟩

/-- **C13 (mru_cache).** -/
theorem C13_mru_history (cap : Nat) (hcap : 0 < cap) (ops : List (Time × Op)) (t0 : Time) (ht : TimesFrom t0 ops) :
    ∃ tr : STrace RecState, tr.atoms = (mruV cap hcap).history ops ∧
      ∀ p q s now k v al d, tr = p ++ (s, now, .ins k v al d true) :: q → k ∉ keys s.ents → cap ≤ s.ents.length →
        ∃ s' w, CStep Mru.core s now (.ins k v al d true) s' ∧
          lastIn (useOrder p) (keys s.ents) = some w ∧ Evicts (keys s.ents) (keys s'.ents) k w ∧
          lastIn (useOrder (p ++ [(s, now, .ins k v al d true)])) (keys s'.ents) = some k := by
  obtain ⟨tr, hrun, hat, _⟩ := Mru.core.steps_of_history (Rec.init cap) ops t0 ht
  refine ⟨tr, hat, ?_⟩
  intro p q s now k v al d heq hnew hfull
  subst heq
  obtain ⟨hp, s', hs, _⟩ := hrun.step_at
  obtain ⟨w, h1, h2, h3⟩ := C13_mru cap hcap hp hs hnew hfull
  exact ⟨s', w, hs, h1, h2, h3⟩

/-- **C12 (fifo_cache).** -/
theorem C12_fifo_history (cap : Nat) (hcap : 0 < cap) (ops : List (Time × Op)) (t0 : Time) (ht : TimesFrom t0 ops) :
    ∃ tr : STrace FifoState, tr.atoms = (fifoV cap hcap).history ops ∧
      ∀ p q s now k v al d, tr = p ++ (s, now, .ins k v al d true) :: q → k ∉ keys s.ents → cap ≤ s.ents.length →
        ∃ s' w, CStep Fifo.core s now (.ins k v al d true) s' ∧
          firstIn (bornOrder (fun s => keys s.ents) p) (keys s.ents) = some w ∧
          Evicts (keys s.ents) (keys s'.ents) k w := by
  obtain ⟨tr, hrun, hat, _⟩ := Fifo.core.steps_of_history (Fifo.init cap) ops t0 ht
  refine ⟨tr, hat, ?_⟩
  intro p q s now k v al d heq hnew hfull
  subst heq
  obtain ⟨hp, s', hs, _⟩ := hrun.step_at
  obtain ⟨w, h1, h2⟩ := C12_fifo cap hcap hp hs hnew hfull
  exact ⟨s', w, hs, h1, h2⟩

/-- **C11 (lfu_cache).** Reported use counts are the ghost counts; the victim's count is minimal. -/
theorem C11_lfu_history (cap : Nat) (hcap : 0 < cap) (ops : List (Time × Op)) (t0 : Time) (ht : TimesFrom t0 ops) :
    ∃ tr : STrace LfuState, tr.atoms = (lfuV cap hcap).history ops ∧
      (∀ p q s now k pk v n, tr = p ++ (s, now, .look k pk (some (v, n))) :: q →
        n = useCount (fun s => keys s.ents) (p ++ [(s, now, .look k pk (some (v, n)))]) k) ∧
      (∀ p q s now k v al d, tr = p ++ (s, now, .ins k v al d true) :: q → k ∉ keys s.ents → cap ≤ s.ents.length →
        ∃ s' w, CStep Lfu.core s now (.ins k v al d true) s' ∧ Evicts (keys s.ents) (keys s'.ents) k w ∧
          ∀ u ∈ keys s.ents, useCount (fun s => keys s.ents) p w ≤ useCount (fun s => keys s.ents) p u) := by
  obtain ⟨tr, hrun, hat, _⟩ := Lfu.core.steps_of_history (Lfu.init cap) ops t0 ht
  refine ⟨tr, hat, ?_, ?_⟩
  · intro p q s now k pk v n heq
    subst heq
    obtain ⟨hp, s', hs, _⟩ := hrun.step_at
    exact C11_lfu_count cap hcap hp hs
  · intro p q s now k v al d heq hnew hfull
    subst heq
    obtain ⟨hp, s', hs, _⟩ := hrun.step_at
    obtain ⟨w, h1, h2⟩ := C11_lfu_victim cap hcap hp hs hnew hfull
    exact ⟨s', w, hs, h1, h2⟩

/-- **C14 (and C11 for lfuda_cache).** Counts reported, `dynamically_age()`'s result and the victim all
follow the aging ghost: entries idle for strictly longer than the tick decay at aging points, by the
ratio, rounded down; others keep their counts. -/
theorem C14_lfuda_history (cap tickMs num den : Nat) (hcap : 0 < cap) (htick : 0 < tickMs)
    (ops : List (Time × Op)) (t0 : Time) (ht : TimesFrom t0 ops) :
    ∃ tr : STrace LfudaState, tr.atoms = (lfudaV cap hcap tickMs num den).history ops ∧
      (∀ p q s now k pk v n, tr = p ++ (s, now, .look k pk (some (v, n))) :: q →
        n = (lfudaGhost cap tickMs num den (p ++ [(s, now, .look k pk (some (v, n)))])).cnt k) ∧
      (∀ p q s now n, tr = p ++ (s, now, .age n) :: q →
        n = ((lfudaGhost cap tickMs num den p).ageAt (keys s.ents) (tickMs * msNs) num den now).2) ∧
      (∀ p q s now k v al d, tr = p ++ (s, now, .ins k v al d true) :: q → k ∉ keys s.ents → cap ≤ s.ents.length →
        ∃ s' w, CStep Lfuda.core s now (.ins k v al d true) s' ∧ Evicts (keys s.ents) (keys s'.ents) k w ∧
          ∀ u ∈ keys s.ents,
            ((lfudaGhost cap tickMs num den p).ageAt (keys s.ents) (tickMs * msNs) num den now).1.cnt w ≤
            ((lfudaGhost cap tickMs num den p).ageAt (keys s.ents) (tickMs * msNs) num den now).1.cnt u) := by
  obtain ⟨tr, hrun, hat, hmono⟩ := Lfuda.core.steps_of_history (Lfuda.init cap tickMs num den) ops t0 ht
  refine ⟨tr, hat, ?_, ?_, ?_⟩
  · intro p q s now k pk v n heq
    subst heq
    obtain ⟨hp, s', hs, _⟩ := hrun.step_at
    exact C14_lfuda_count cap tickMs num den hcap htick hp hs (STrace.monotone_prefix hmono)
  · intro p q s now n heq
    subst heq
    obtain ⟨hp, s', hs, _⟩ := hrun.step_at
    exact C14_lfuda_age cap tickMs num den hcap htick hp hs (STrace.monotone_prefix hmono)
  · intro p q s now k v al d heq hnew hfull
    subst heq
    obtain ⟨hp, s', hs, _⟩ := hrun.step_at
    obtain ⟨w, h1, h2⟩ := C14_lfuda_victim cap tickMs num den hcap htick hp hs (STrace.monotone_prefix hmono) hnew hfull
    exact ⟨s', w, hs, h1, h2⟩

/-- **C15 (rr_cache).** The victim is the resident entry in the slot the random source named; in a full
cache slots and residents are in bijection. -/
theorem C15_rr_history (cap : Nat) (hcap : 0 < cap) (rnd : List Nat) (hr : ∀ r ∈ rnd, r < cap)
    (ops : List (Time × Op)) (t0 : Time) (ht : TimesFrom t0 ops) :
    ∃ tr : STrace RrState, tr.atoms = (rrV cap hcap rnd hr).history ops ∧
      ∀ p q s now k v al d, tr = p ++ (s, now, .ins k v al d true) :: q → k ∉ keys s.ents → cap ≤ s.ents.length →
        ∃ s' e, CStep Rr.core s now (.ins k v al d true) s' ∧
          Rr.atSlot s.ents (s.rnd.headD 0) = some e ∧ Evicts (keys s.ents) (keys s'.ents) k e.key ∧
          s'.rnd = s.rnd.tail ∧ s.rnd.headD 0 < cap ∧
          (∀ r, r < cap → ∃ e, e ∈ s.ents ∧ e.slot = r ∧ ∀ e' ∈ s.ents, e'.slot = r → e' = e) ∧
          (∀ e ∈ s.ents, e.slot < cap) := by
  obtain ⟨tr, hrun, hat, _⟩ := Rr.core.steps_of_history (Rr.init cap rnd) ops t0 ht
  refine ⟨tr, hat, ?_⟩
  intro p q s now k v al d heq hnew hfull
  subst heq
  obtain ⟨hp, s', hs, _⟩ := hrun.step_at
  obtain ⟨e, h1, h2, h3, h4⟩ := C15_rr_victim cap hcap rnd hr hp hs hnew hfull
  obtain ⟨h5, h6⟩ := C15_rr_bijection cap hcap rnd hr hp hfull
  exact ⟨s', e, hs, h1, h2, h3, h4, h5, h6⟩

/-- **C10 and C16 (tlru_cache).** -/
theorem C10_C16_tlru_history (cap : Nat) (hcap : 0 < cap) (ops : List (Time × Op)) (t0 : Time) (ht : TimesFrom t0 ops) :
    ∃ tr : STrace TlruState, tr.atoms = (tlruV cap hcap).history ops ∧
      ∀ p q s now k v al d, tr = p ++ (s, now, .ins k v al d true) :: q → k ∉ keys s.ents → cap ≤ s.ents.length →
        ∃ s', CStep Tlru.core s now (.ins k v al d true) s' ∧
          -- C10: nothing has expired ⇒ least recently used
          ((∀ e ∈ s.ents, now < e.dl) →
            ∃ w, firstIn (useOrder p) (keys s.ents) = some w ∧ Evicts (keys s.ents) (keys s'.ents) k w) ∧
          -- C16: something has expired ⇒ an expired entry goes, every live one stays
          ((∃ e ∈ s.ents, e.dl ≤ now) →
            ∃ w e, getE s.ents w = some e ∧ e.dl ≤ now ∧ Evicts (keys s.ents) (keys s'.ents) k w ∧
              ∀ u e', getE s.ents u = some e' → now < e'.dl → getE s'.ents u = some e') := by
  obtain ⟨tr, hrun, hat, _⟩ := Tlru.core.steps_of_history (Tlru.init cap) ops t0 ht
  refine ⟨tr, hat, ?_⟩
  intro p q s now k v al d heq hnew hfull
  subst heq
  obtain ⟨hp, s', hs, _⟩ := hrun.step_at
  exact ⟨s', hs, fun hl => C10_tlru cap hcap hp hs hnew hfull hl, fun he => C16_tlru cap hcap hp hs hnew hfull he⟩

/-- **C10 and C16 (utlru_cache)**, after any sequence of `update_ttl` calls. -/
theorem C10_C16_utlru_history (cap : Nat) (hcap : 0 < cap) (ttlMs : Nat) (ops : List (Time × Op)) (t0 : Time)
    (ht : TimesFrom t0 ops) :
    ∃ tr : STrace TlruState, tr.atoms = (utlruV cap hcap ttlMs).history ops ∧
      ∀ p q s now k v al d, tr = p ++ (s, now, .ins k v al d true) :: q → k ∉ keys s.ents → cap ≤ s.ents.length →
        ∃ s', CStep Utlru.core s now (.ins k v al d true) s' ∧
          ((∀ e ∈ s.ents, now < e.dl) →
            ∃ w, firstIn (useOrder p) (keys s.ents) = some w ∧ Evicts (keys s.ents) (keys s'.ents) k w) ∧
          ((∃ e ∈ s.ents, e.dl ≤ now) →
            ∃ w e, getE s.ents w = some e ∧ e.dl ≤ now ∧ Evicts (keys s.ents) (keys s'.ents) k w ∧
              ∀ u e', getE s.ents u = some e' → now < e'.dl → getE s'.ents u = some e') := by
  obtain ⟨tr, hrun, hat, _⟩ := Utlru.core.steps_of_history (Utlru.init cap ttlMs) ops t0 ht
  refine ⟨tr, hat, ?_⟩
  intro p q s now k v al d heq hnew hfull
  subst heq
  obtain ⟨hp, s', hs, _⟩ := hrun.step_at
  exact ⟨s', hs, fun hl => C10_utlru cap hcap ttlMs hp hs hnew hfull hl,
    fun he => C16_utlru cap hcap ttlMs hp hs hnew hfull he⟩

end Verif
