import Verif.Lin
/-!
# The executable linearizability checker (`Verif/Lin.lean`) decides what it is meant to decide

A recorded history is a list of completed operations with invocation / response stamps (one global
atomic counter, so stamps are comparable), the clock reading, the call and its result.  `IsLin m hs lin`:
`lin` is a sequential ordering of the same operations (`Perm`) that respects real time (an operation
that responded before another was invoked comes first) and that the container model, started in `m`,
reproduces result by result.  `search_sound`: when the Wing–Gong search answers `some true` such an
ordering exists — it never accepts a non-linearizable history.  `search_complete`: when it answers
`some false` (which it only does without exhausting its budget) no such ordering exists — it never
rejects a linearizable history.  `none` (budget exhausted) claims nothing.
-/
namespace Verif.Lin
open Verif Verif.Proto

/-- the model, started in `m`, reproduces the recorded results in this order -/
def Legal : MState → List HOp → Prop
  | _, [] => True
  | m, o :: rest => (m.step o.now o.op).2 = o.out ∧ Legal (m.step o.now o.op).1 rest

structure IsLin (m : MState) (hs lin : List HOp) : Prop where
  perm : lin.Perm hs
  /-- if `a` is placed before `b` then `b` did not respond before `a` was invoked -/
  realtime : lin.Pairwise (fun a b => ¬ b.res < a.inv)
  legal : Legal m lin

/-! ## list / `removeAt` / `minimal` helpers -/

theorem removeAt_perm {α : Type} : ∀ (hs : List α) (i : Nat) (o : α),
    hs[i]? = some o → hs.Perm (o :: removeAt hs i)
  | [], _, _, h => by simp at h
  | x :: xs, 0, o, h => by
    simp at h; subst h; simp [removeAt]
  | x :: xs, i + 1, o, h => by
    simp at h
    have := removeAt_perm xs i o h
    simp only [removeAt]
    exact (List.Perm.cons x this).trans (List.Perm.swap o x _)

theorem mem_removeAt {α : Type} : ∀ (hs : List α) (i : Nat) (x : α),
    x ∈ removeAt hs i → ∃ j, j ≠ i ∧ hs[j]? = some x
  | [], _, _, h => by simp [removeAt] at h
  | y :: ys, 0, x, h => by
    simp only [removeAt] at h
    obtain ⟨j, hj⟩ := List.mem_iff_getElem?.1 h
    exact ⟨j + 1, by omega, by simpa using hj⟩
  | y :: ys, i + 1, x, h => by
    simp only [removeAt, List.mem_cons] at h
    rcases h with h | h
    · exact ⟨0, by omega, by simp [h]⟩
    · obtain ⟨j, hj, hx⟩ := mem_removeAt ys i x h
      exact ⟨j + 1, by omega, by simpa using hx⟩

theorem mem_removeAt_of_getElem? {α : Type} : ∀ (hs : List α) (i j : Nat) (x : α),
    j ≠ i → hs[j]? = some x → x ∈ removeAt hs i
  | [], _, _, _, _, h => by simp at h
  | y :: ys, 0, 0, x, hne, _ => absurd rfl hne
  | y :: ys, 0, j + 1, x, _, h => by
    simp at h
    simp only [removeAt]
    exact List.mem_iff_getElem?.2 ⟨j, h⟩
  | y :: ys, i + 1, 0, x, _, h => by
    simp at h
    simp [removeAt, h]
  | y :: ys, i + 1, j + 1, x, hne, h => by
    simp at h
    simp only [removeAt, List.mem_cons]
    exact Or.inr (mem_removeAt_of_getElem? ys i j x (by omega) h)

theorem minimal_iff (hs : List HOp) (i : Nat) (o : HOp) :
    minimal hs i o = true ↔ ∀ j o', hs[j]? = some o' → j ≠ i → o.inv ≤ o'.res := by
  unfold minimal
  rw [List.all_eq_true]
  constructor
  · intro h j o' hj hne
    have := h (o', j) (List.mem_zipIdx_iff_getElem?.2 hj)
    simpa [hne] using this
  · rintro h ⟨o', j⟩ hmem
    have hj := List.mem_zipIdx_iff_getElem?.1 hmem
    by_cases hji : j = i
    · simp [hji]
    · simp [h j o' hj hji]


/-! ## the search -/

theorem tryAll_sound (fuel : Nat) (m : MState) (hs : List HOp)
    (ih : ∀ m' hs' used u, search fuel m' hs' used = (some true, u) → ∃ lin, IsLin m' hs' lin) :
    ∀ (cs : List (HOp × Nat)) (used u : Nat),
      (∀ p ∈ cs, hs[p.2]? = some p.1 ∧ minimal hs p.2 p.1 = true) →
      search.tryAll fuel m hs cs used = (some true, u) → ∃ lin, IsLin m hs lin
  | [], used, u, _, h => by simp [search.tryAll.eq_1] at h
  | (o, i) :: rest, used, u, hc, h => by
    have hrest : ∀ p ∈ rest, hs[p.2]? = some p.1 ∧ minimal hs p.2 p.1 = true :=
      fun p hp => hc p (List.mem_cons_of_mem _ hp)
    rw [search.tryAll.eq_2] at h
    split at h
    · simp at h
    · simp only at h
      split at h
      · next hout =>
        have hout' : (m.step o.now o.op).2 = o.out := by simpa using hout
        split at h
        · next u' hs' =>
          obtain ⟨lin', hl⟩ := ih _ _ _ _ hs'
          obtain ⟨hget, hmin⟩ := hc (o, i) (List.mem_cons_self ..)
          simp only at hget hmin
          have hperm := removeAt_perm hs i o hget
          refine ⟨o :: lin', ?_, ?_, ?_⟩
          · exact (List.Perm.cons o hl.perm).trans hperm.symm
          · rw [List.pairwise_cons]
            refine ⟨?_, hl.realtime⟩
            intro b hb
            have hb' := (hl.perm.mem_iff).1 hb
            obtain ⟨j, hj, hjb⟩ := mem_removeAt hs i b hb'
            have := (minimal_iff hs i o).1 hmin j b hjb hj
            omega
          · exact ⟨hout', hl.legal⟩
        · simp at h
        · exact tryAll_sound fuel m hs ih rest _ u hrest h
      · exact tryAll_sound fuel m hs ih rest _ u hrest h

theorem search_sound_aux : ∀ (fuel : Nat) (m : MState) (hs : List HOp) (used u : Nat),
    search fuel m hs used = (some true, u) → ∃ lin, IsLin m hs lin
  | _, m, [], used, u, _ => ⟨[], List.Perm.nil, List.Pairwise.nil, trivial⟩
  | 0, m, x :: xs, used, u, h => by simp [search] at h
  | fuel + 1, m, x :: xs, used, u, h => by
    rw [search.eq_3 _ _ _ _ (by simp)] at h
    refine tryAll_sound fuel m (x :: xs) (search_sound_aux fuel) _ used u ?_ h
    rintro ⟨o, i⟩ hp
    rw [List.mem_filter] at hp
    exact ⟨List.mem_zipIdx_iff_getElem?.1 hp.1, hp.2⟩

theorem tryAll_false (fuel : Nat) (m : MState) (hs : List HOp) :
    ∀ (cs : List (HOp × Nat)) (used u : Nat),
      search.tryAll fuel m hs cs used = (some false, u) →
      ∀ p ∈ cs, (m.step p.1.now p.1.op).2 ≠ p.1.out ∨
        ∃ used' u', search fuel (m.step p.1.now p.1.op).1 (removeAt hs p.2) used' = (some false, u')
  | [], used, u, _, p, hp => by simp at hp
  | (o, i) :: rest, used, u, h, p, hp => by
    rw [search.tryAll.eq_2] at h
    split at h
    · simp at h
    · simp only at h
      split at h
      · next hout =>
        split at h
        · simp at h
        · simp at h
        · next u' hs' =>
          rcases List.mem_cons.1 hp with rfl | hp
          · exact Or.inr ⟨_, _, hs'⟩
          · exact tryAll_false fuel m hs rest _ u h p hp
      · next hout =>
        rcases List.mem_cons.1 hp with rfl | hp
        · exact Or.inl (by simpa using hout)
        · exact tryAll_false fuel m hs rest _ u h p hp

theorem search_complete_aux : ∀ (fuel : Nat) (m : MState) (hs : List HOp) (used u : Nat),
    hs.length < fuel →
    search fuel m hs used = (some false, u) → ¬ ∃ lin, IsLin m hs lin
  | _, m, [], used, u, _, h => by simp [search] at h
  | 0, m, x :: xs, used, u, hf, _ => by simp at hf
  | fuel + 1, m, x :: xs, used, u, hf, h => by
    rintro ⟨lin, hl⟩
    rw [search.eq_3 _ _ _ _ (by simp)] at h
    cases lin with
    | nil => exact absurd hl.perm.length_eq (by simp)
    | cons a lin' =>
      have hmem : a ∈ x :: xs := (hl.perm.mem_iff).1 (List.mem_cons_self ..)
      obtain ⟨i, hi⟩ := List.mem_iff_getElem?.1 hmem
      have hperm := removeAt_perm (x :: xs) i a hi
      have hperm' : lin'.Perm (removeAt (x :: xs) i) := (hl.perm.trans hperm).cons_inv
      have hrt := List.pairwise_cons.1 hl.realtime
      have hmin : minimal (x :: xs) i a = true := by
        rw [minimal_iff]
        intro j o' hj hne
        have := mem_removeAt_of_getElem? (x :: xs) i j o' hne hj
        have := hrt.1 o' ((hperm'.mem_iff).2 this)
        omega
      have hcand : (a, i) ∈ List.filter (fun p => match p with | (o, i) => minimal (x :: xs) i o)
          (x :: xs).zipIdx := by
        rw [List.mem_filter]
        exact ⟨List.mem_zipIdx_iff_getElem?.2 hi, hmin⟩
      have hleg := hl.legal
      simp only [Legal] at hleg
      rcases tryAll_false fuel m (x :: xs) _ used u h (a, i) hcand with hne | ⟨used', u', hs'⟩
      · exact hne hleg.1
      · simp only at hs'
        refine search_complete_aux fuel _ _ used' u' ?_ hs' ⟨lin', hperm', hrt.2, hleg.2⟩
        have := hperm.length_eq
        simp only [List.length_cons] at this hf
        omega

theorem search_sound (fuel : Nat) (m : MState) (hs : List HOp) (used u : Nat)
    (h : search fuel m hs used = (some true, u)) : ∃ lin, IsLin m hs lin :=
  search_sound_aux fuel m hs used u h

theorem search_complete (fuel : Nat) (m : MState) (hs : List HOp) (used u : Nat)
    (hf : hs.length < fuel)
    (h : search fuel m hs used = (some false, u)) : ¬ ∃ lin, IsLin m hs lin :=
  search_complete_aux fuel m hs used u hf h

theorem check_sound (cfg : Cfg) (hs : List HOp) (u : Nat) (h : check cfg hs = (some true, u)) :
    ∃ lin, IsLin (MState.init cfg) hs lin :=
  search_sound _ _ _ _ _ h

theorem check_complete (cfg : Cfg) (hs : List HOp) (u : Nat) (h : check cfg hs = (some false, u)) :
    ¬ ∃ lin, IsLin (MState.init cfg) hs lin :=
  search_complete _ _ _ _ _ (Nat.lt_succ_self _) h

end Verif.Lin

