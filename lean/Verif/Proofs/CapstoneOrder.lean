import Verif.Check
import Verif.CheckL2
import Verif.PropertiesOrder
import Verif.PropertiesAnyClock
import Verif.Proofs.AcceptComplete
import Verif.Proofs.Capstone
import Verif.Proofs.L2.Slot

/-!
# Capstone for the policy judge and the structural judge: from "L1 OK" / "L2 OK" to what was observed

`Proofs/Capstone.lean` turns the verdicts of the acceptor and of the linearizability checker into statements
about the events the harness wrote down.  This file does the same for the two remaining executable judges.

## Part C — `Check.l1 cfg nkeys evs = none`  (observable tier, "L1 OK"), single-instance logs

All statements of this part are about logs in which every event belongs to instance 0
(`∀ e ∈ evs, e.inst = 0`); the driver's two-instance scripts are not covered.

* `l1_transfer` (**C0**): at every event `i` the L1 model, run by `MState.step` over the recorded `(now, op)`
  of the events before `i` from `MState.init cfg`, returns the recorded output and afterwards shows the
  recorded `size()`, `empty()`, `capacity()` and exactly the recorded sweep (`Matches`);
  `l1_transfer_after` is the same read after the call.
* `evicting_insert_observed` (**generic transfer**): a replacement-policy theorem in the form
  `Proofs/Order/*.lean` prove it (about the model state before/after an accepted insert of a new key into a
  full container and the annotated run that led there) + C0 ⇒ the same fact about the keys the harness's
  sweeps show around the event, for the containers without deadlines (`PlainKeyed`).
* `lru_victim_observed` (**C1**, C10), `mru_victim_observed` (C13), `fifo_victim_observed` (C12),
  `lfu_victim_observed` and `lfu_counts_observed` (C11): the instances.  In each, "event `i + 1`" is a single
  `insert` that returned `true`, of a key the sweep after event `i` does not show, with the recorded `size()`
  after event `i` equal to the recorded `capacity()`; the conclusion is that the sweep after event `i + 1`
  shows the keys of the sweep after event `i`, minus exactly one key `w`, plus the inserted key, and that `w`
  is the policy's victim in the terms of the ghost (`useOrder` / `bornOrder` / `useCount`) of the recorded
  history of events `0 .. i`.  For lfu the reported counts themselves are the ghost counts, and `w`'s reported
  count is minimal among the reported counts.

Hypothesis beyond acceptance: `logOk nkeys evs` (every inserted key is in the swept universe `0 .. nkeys-1`,
as the harness guarantees) — without it a resident key could be invisible to the sweep.  No hypothesis on the
clock readings is needed (`Verified.Timeless`).

Not done: tlru/utlru (C10/C16).  Their policy theorems distinguish "nothing has expired at the insert's clock
reading" from "something has"; the sweep before the insert was taken at the *previous* event's clock reading,
and a key the sweep does not show may still be resident (expired, not yet reaped), so neither the guard nor
`k ∉ keys s.ents` can be read off the two sweeps without recomputing deadlines from the log (as
`Capstone.dlEv` does for C04).  lfuda (C14) and rr (C15) are not transferred either.  mru: the third
conjunct of `C13_mru` (the new key becomes the most recently used) is not restated.

## Part D — `CheckL2.check cfg evs sts = some (none, n)`  (structural tier, "L2 OK")

* `l2_transfer`: for every event `i` of instance 0 the slot/iterator-level model, replayed over the earlier
  instance-0 calls, does not reach undefined behaviour in call `i`, returns the recorded output, and prints
  the recorded dump if one was recorded for `i` (`MatchesL2`; `dumpAt` is the check's own lookup, the first
  dump recorded for the index); `l2_transfer_dumps`: with pairwise distinct dump indices, every recorded dump.
* `l2_lru_outputs`, `l2_mru_outputs`: combined with `L2.Slot.refines_l1`, the recorded outputs are those of
  the L1 model as well.

The statements are about the log; that the log is what the C++ library did is the harness's business.
-/
namespace Verif.CapstoneOrder
open Verif Verif.Proto Verif.Spec Verif.Check Verif.CheckL2 Verif.Accept

/-! ## vocabulary -/

/-- the calls of a log, each with the clock reading the harness recorded for it -/
def opsOf (evs : List Event) : List (Time × Op) := evs.map (fun e => (e.now, e.op))

/-- the L1 model state reached by `MState.step` over a history -/
def runM (m : MState) : List (Time × Op) → MState
  | [] => m
  | (t, op) :: rest => runM (m.step t op).1 rest

/-- the keys a recorded sweep shows -/
def sweepKeys (e : Event) : List Key := e.obs.sweep.map (·.1)

theorem runM_append (m : MState) (p q : List (Time × Op)) : runM m (p ++ q) = runM (runM m p) q := by
  induction p generalizing m with
  | nil => rfl
  | cons x p ih => obtain ⟨t, op⟩ := x; simp only [List.cons_append, runM]; exact ih _

theorem getElem?_split {α : Type} : ∀ (l : List α) (i : Nat) (x : α), l[i]? = some x →
    l = l.take i ++ x :: l.drop (i + 1) ∧ (l.take i).length = i
  | [], i, x, h => by simp at h
  | y :: l, 0, x, h => by
    simp only [List.getElem?_cons_zero, Option.some.injEq] at h
    subst h; simp
  | y :: l, i + 1, x, h => by
    simp only [List.getElem?_cons_succ] at h
    obtain ⟨h1, h2⟩ := getElem?_split l i x h
    refine ⟨?_, by simp [h2]⟩
    simp only [List.take_succ_cons, List.drop_succ_cons, List.cons_append]
    rw [← h1]

theorem take_succ_of_getElem? {α : Type} (l : List α) (i : Nat) (x : α) (h : l[i]? = some x) :
    l.take (i + 1) = l.take i ++ [x] := by
  rw [List.take_add_one, h]; rfl

/-! ### one kind of model inside `MState` -/

theorem run_snoc {σ : Type} (c : Core σ) (s : σ) (ops : List (Time × Op)) (t : Time) (op : Op) :
    (c.run s (ops ++ [(t, op)])).1 = (c.step (c.run s ops).1 t op).1 ∧
    (c.run s (ops ++ [(t, op)])).2 = (c.run s ops).2 ++ [(c.step (c.run s ops).1 t op).2] := by
  induction ops generalizing s with
  | nil => exact ⟨rfl, rfl⟩
  | cons x ops ih =>
    obtain ⟨t1, op1⟩ := x
    have := ih (c.step s t1 op1).1
    simp only [List.cons_append, Core.run, List.cons.injEq, true_and]
    exact this

theorem run_cons_fst {σ : Type} (c : Core σ) (s : σ) (t : Time) (op : Op) (ops : List (Time × Op)) :
    (c.run s ((t, op) :: ops)).1 = (c.run (c.step s t op).1 ops).1 := rfl

/-- one kind of model state sits inside `MState` through `emb`, and `MState`'s step and observers on it are
the core's -/
structure Emb {σ : Type} (c : Core σ) (emb : σ → MState) : Prop where
  step : ∀ s now op, (emb s).step now op = (emb (c.step s now op).1, (c.step s now op).2)
  size : ∀ s, (emb s).size = c.size s
  capacity : ∀ s, (emb s).capacity = c.capacity s
  sweep : ∀ s now n, (emb s).sweep now n = c.sweep s now n

theorem Emb.runM {σ : Type} {c : Core σ} {emb : σ → MState} (he : Emb c emb) (s : σ)
    (ops : List (Time × Op)) : runM (emb s) ops = emb (c.run s ops).1 := by
  induction ops generalizing s with
  | nil => rfl
  | cons x ops ih =>
    obtain ⟨t, op⟩ := x
    simp only [CapstoneOrder.runM, he.step, run_cons_fst]
    exact ih _

theorem emb_lru : Emb Lru.core MState.lru := ⟨fun _ _ _ => rfl, fun _ => rfl, fun _ => rfl, fun _ _ _ => rfl⟩
theorem emb_mru : Emb Mru.core MState.mru := ⟨fun _ _ _ => rfl, fun _ => rfl, fun _ => rfl, fun _ _ _ => rfl⟩
theorem emb_fifo : Emb Fifo.core MState.fifo := ⟨fun _ _ _ => rfl, fun _ => rfl, fun _ => rfl, fun _ _ _ => rfl⟩
theorem emb_lfu : Emb Lfu.core MState.lfu := ⟨fun _ _ _ => rfl, fun _ => rfl, fun _ => rfl, fun _ _ _ => rfl⟩

/-! ## Part C0 -/

theorem cmpEvent_none {nkeys : Nat} {m : MState} {idx : Nat} {e : Event}
    (h : (cmpEvent nkeys m idx e).2 = none) :
    (m.step e.now e.op).2 = e.out ∧ (m.step e.now e.op).1.size = e.obs.size ∧
    ((m.step e.now e.op).1.size == 0) = e.obs.empty ∧ (m.step e.now e.op).1.capacity = e.obs.cap ∧
    (m.step e.now e.op).1.sweep e.now nkeys = e.obs.sweep := by
  simp only [cmpEvent] at h
  split at h
  · cases h
  rename_i h1
  split at h
  · cases h
  rename_i h2
  split at h
  · cases h
  rename_i h3
  split at h
  · cases h
  rename_i h4
  split at h
  · cases h
  rename_i h5
  exact ⟨Decidable.not_not.mp h1, Decidable.not_not.mp h2, Decidable.not_not.mp h3, Decidable.not_not.mp h4,
    Decidable.not_not.mp h5⟩

/-- what `l1` compares at one event, as a statement about the event: the model `m` (the state the
L1 model is in when the call starts) returns the recorded output and, after the call, has the recorded
`size()`, `empty()`, `capacity()` and the recorded sweep -/
def Matches (nkeys : Nat) (m : MState) (e : Event) : Prop :=
  (m.step e.now e.op).2 = e.out ∧ (m.step e.now e.op).1.size = e.obs.size ∧
  ((m.step e.now e.op).1.size == 0) = e.obs.empty ∧ (m.step e.now e.op).1.capacity = e.obs.cap ∧
  (m.step e.now e.op).1.sweep e.now nkeys = e.obs.sweep

theorem l1Loop_none {nkeys : Nat} : ∀ (evs : List Event) (st : Insts) (idx : Nat),
    (∀ e ∈ evs, e.inst = 0) → l1Loop nkeys st idx evs = none →
    ∀ i e, evs[i]? = some e → Matches nkeys (runM st.a (opsOf (evs.take i))) e
  | [], _, _, _, _, i, e, h => by simp at h
  | e0 :: es, st, idx, hinst, hacc, i, e, h => by
    have h0 : e0.inst = 0 := hinst e0 (List.mem_cons_self ..)
    simp only [l1Loop, h0] at hacc
    have hget : st.get 0 = st.a := by simp [Insts.get]
    rw [hget] at hacc
    cases hc : (cmpEvent nkeys st.a idx e0).2 with
    | some d => rw [hc] at hacc; cases hacc
    | none =>
      rw [hc] at hacc
      cases i with
      | zero =>
        simp only [List.getElem?_cons_zero, Option.some.injEq] at h
        subst h
        exact cmpEvent_none hc
      | succ i =>
        simp only [List.getElem?_cons_succ] at h
        have := l1Loop_none es _ _ (fun e he => hinst e (List.mem_cons_of_mem _ he)) hacc i e h
        simpa [opsOf, runM, Insts.set, cmpEvent] using this

/-- **C0 (transfer lemma).** Single-instance log.  If the observable tier accepts the log (`l1 … = none`),
then for every event `i`: the L1 model, run by `MState.step` over the `(now, op)` pairs of the events before
`i` from the freshly constructed container, returns at call `i` the output the C++ container returned, and
after it has the recorded `size()`, `empty()`, `capacity()` and exactly the recorded sweep (what
`find(k, peek::yes)` / `find_with_use_count(k, true)` reported for every key of the universe). -/
theorem l1_transfer (cfg : Cfg) (nkeys : Nat) (evs : List Event) (hinst : ∀ e ∈ evs, e.inst = 0)
    (hacc : l1 cfg nkeys evs = none) (i : Nat) (e : Event) (hi : evs[i]? = some e) :
    Matches nkeys (runM (MState.init cfg) (opsOf (evs.take i))) e :=
  l1Loop_none evs _ 0 hinst hacc i e hi

/-- `l1_transfer`, read after the call: the model state after the first `i + 1` events shows the recorded
observers and sweep of event `i` -/
theorem l1_transfer_after (cfg : Cfg) (nkeys : Nat) (evs : List Event) (hinst : ∀ e ∈ evs, e.inst = 0)
    (hacc : l1 cfg nkeys evs = none) (i : Nat) (e : Event) (hi : evs[i]? = some e) :
    (runM (MState.init cfg) (opsOf (evs.take (i + 1)))).size = e.obs.size ∧
    (runM (MState.init cfg) (opsOf (evs.take (i + 1)))).capacity = e.obs.cap ∧
    (runM (MState.init cfg) (opsOf (evs.take (i + 1)))).sweep e.now nkeys = e.obs.sweep := by
  obtain ⟨_, h2, _, h4, h5⟩ := l1_transfer cfg nkeys evs hinst hacc i e hi
  have : runM (MState.init cfg) (opsOf (evs.take (i + 1))) =
      ((runM (MState.init cfg) (opsOf (evs.take i))).step e.now e.op).1 := by
    rw [take_succ_of_getElem? evs i e hi]
    simp [opsOf, runM_append, runM]
  rw [this]
  exact ⟨h2, h4, h5⟩

/-! ## Part C: from the accepted log to the policy theorems -/

/-! ### the sweep of a model state -/

theorem mem_sweep {σ : Type} (c : Core σ) (s : σ) (now : Time) (n : Nat) (u : Key) (v : Val) (cu : Nat) :
    (u, v, cu) ∈ c.sweep s now n ↔ u < n ∧ c.look s now u = some (v, cu) := by
  unfold Core.sweep
  rw [List.mem_filterMap]
  constructor
  · rintro ⟨k, hk, hkx⟩
    cases hl : c.look s now k with
    | none => simp [hl] at hkx
    | some r =>
      simp only [hl, Option.map_some, Option.some.injEq, Prod.mk.injEq] at hkx
      obtain ⟨rfl, rfl, rfl⟩ := hkx
      exact ⟨List.mem_range.1 hk, hl⟩
  · rintro ⟨hu, hl⟩
    exact ⟨u, List.mem_range.2 hu, by simp [hl]⟩

theorem mem_sweep_keys {σ : Type} (c : Core σ) (s : σ) (now : Time) (n : Nat) (u : Key) :
    u ∈ (c.sweep s now n).map (·.1) ↔ u < n ∧ (c.look s now u).isSome = true := by
  constructor
  · intro h
    obtain ⟨⟨u', v, cu⟩, hx, rfl⟩ := List.mem_map.1 h
    obtain ⟨h1, h2⟩ := (mem_sweep c s now n u' v cu).1 hx
    exact ⟨h1, by simp [h2]⟩
  · rintro ⟨hu, hl⟩
    obtain ⟨r, hr⟩ := Option.isSome_iff_exists.1 hl
    exact List.mem_map.2 ⟨(u, r.1, r.2), (mem_sweep c s now n u r.1 r.2).2 ⟨hu, hr⟩, rfl⟩

/-! ### every resident key was inserted by the log, so it is in the swept universe -/

/-- the key an atom may make resident is in the universe `0 .. n-1` -/
def atomKeyOk (n : Nat) : Atom → Prop
  | .ins k _ _ _ _ => k < n
  | _ => True

theorem insertManyA_keys {σ : Type} (c : Core σ) (n : Nat) (now : Time) (al : Allow) :
    ∀ (xs : List (Key × Val × Nat)) (s : σ), (∀ x ∈ xs, x.1 < n) →
      ∀ a ∈ (c.insertManyA s now al xs).2.2, atomKeyOk n a
  | [], _, _, a, ha => by simp [Core.insertManyA] at ha
  | (k, v, ttl) :: xs, s, hx, a, ha => by
    simp only [Core.insertManyA, List.mem_cons] at ha
    rcases ha with rfl | ha
    · exact hx _ (List.mem_cons_self ..)
    · exact insertManyA_keys c n now al xs _ (fun x h => hx x (List.mem_cons_of_mem _ h)) a ha

theorem findManyA_keys {σ : Type} (c : Core σ) (n : Nat) (now : Time) (pk : Bool) :
    ∀ (ks : List Key) (s : σ), ∀ a ∈ (c.findManyA s now pk ks).2.2, atomKeyOk n a
  | [], _, a, ha => by simp [Core.findManyA] at ha
  | k :: ks, s, a, ha => by
    simp only [Core.findManyA, List.mem_cons] at ha
    rcases ha with rfl | ha
    · trivial
    · exact findManyA_keys c n now pk ks _ a ha

theorem eraseManyA_keys {σ : Type} (c : Core σ) (n : Nat) :
    ∀ (ks : List Key) (s : σ), ∀ a ∈ (c.eraseManyA s ks).2.2, atomKeyOk n a
  | [], _, a, ha => by simp [Core.eraseManyA] at ha
  | k :: ks, s, a, ha => by
    simp only [Core.eraseManyA, List.mem_cons] at ha
    rcases ha with rfl | ha
    · trivial
    · exact eraseManyA_keys c n ks _ a ha

theorem stepA_keys {σ : Type} (c : Core σ) (n : Nat) (s : σ) (now : Time) (op : Op)
    (hop : opKeysOk n op = true) : ∀ a ∈ (c.stepA s now op).2.2, atomKeyOk n a := by
  intro a ha
  cases op with
  | insert k v al ttl =>
    simp only [Core.stepA, List.mem_cons, List.not_mem_nil, or_false] at ha
    rcases ha with rfl | rfl
    · trivial
    · show k < n; simpa [opKeysOk] using hop
  | insertRange xs al =>
    simp only [Core.stepA, List.mem_cons] at ha
    rcases ha with rfl | ha
    · trivial
    · refine insertManyA_keys c n now al xs _ ?_ a ha
      simpa [opKeysOk] using hop
  | findRange ks pk =>
    simp only [Core.stepA, List.mem_cons] at ha
    rcases ha with rfl | ha
    · trivial
    · exact findManyA_keys c n now pk ks _ a ha
  | eraseRange ks =>
    simp only [Core.stepA, List.mem_cons] at ha
    rcases ha with rfl | ha
    · trivial
    · exact eraseManyA_keys c n ks _ a ha
  | clear =>
    simp only [Core.stepA] at ha
    split at ha
    · simp only [List.mem_cons, List.not_mem_nil, or_false] at ha; subst ha; trivial
    · cases ha
  | _ =>
    simp only [Core.stepA, List.mem_cons, List.not_mem_nil, or_false] at ha
    first
      | (subst ha; trivial)
      | (rcases ha with rfl | rfl <;> trivial)

theorem runA_keys {σ : Type} (c : Core σ) (n : Nat) : ∀ (ops : List (Time × Op)) (s : σ),
    (∀ x ∈ ops, opKeysOk n x.2 = true) → ∀ a ∈ (c.runA s ops).2.2, atomKeyOk n a.2
  | [], _, _, a, ha => by simp [Core.runA] at ha
  | (t, op) :: ops, s, hx, a, ha => by
    simp only [Core.runA, List.mem_append, List.mem_map] at ha
    rcases ha with ⟨b, hb, rfl⟩ | ha
    · exact stepA_keys c n s t op (hx _ (List.mem_cons_self ..)) b hb
    · exact runA_keys c n ops _ (fun x h => hx x (List.mem_cons_of_mem _ h)) a ha

theorem arun_keys {fl : Flavor} {cap n : Nat} {a a' : A} {tr : List (Time × Atom)} (h : ARun fl cap a tr a') :
    (∀ x ∈ tr, atomKeyOk n x.2) → (∀ k y, a.get k = some y → k < n) → ∀ k y, a'.get k = some y → k < n := by
  induction h with
  | nil a => intro _ ha; exact ha
  | cons hs _ ih =>
    intro hk ha
    apply ih (fun x hx => hk x (List.mem_cons_of_mem _ hx))
    intro k y hy
    rcases Capstone.back_step hs hy with ⟨al, rfl⟩ | ⟨h0, _⟩
    · exact hk _ (List.mem_cons_self ..)
    · exact ha k y h0

theorem astep_ins_full {fl : Flavor} {cap : Nat} {a a' : A} {now : Time} {k : Key} {v : Val} {al : Allow}
    {d : Time} (hs : AStep fl cap a now (.ins k v al d true) a') (hk : a.get k = none) (hfl : fl ≠ .eager)
    (hfull : cap ≤ a.size) : ∃ w, (a.get w).isSome = true ∧ a'.get = (a.get.del w).set k (v, d) := by
  simp only [AStep, hk] at hs
  split at hs
  · obtain ⟨_, h2⟩ := hs
    rw [if_pos ⟨hfl, hfull⟩] at h2
    obtain ⟨w, hw, hg, _⟩ := h2
    exact ⟨w, hw, hg⟩
  · exact absurd hs.1 (by simp)

/-! ### the generic transfer: policy theorem about model states + C0 ⇒ statement about observed sweeps -/

/-- what the transfer needs of a container: no deadlines (`plain`: lru, mru, fifo, lfu), no per-call
prologue, and a list `K s` of resident keys that both the side-effect-free lookup (`look`, what the harness's
sweep calls) and the abstraction to the reference semantics agree with -/
structure PlainKeyed {σ : Type} (V : Verified σ) (emb : σ → MState) (K : σ → List Key) : Prop where
  emb : Emb V.c emb
  timeless : V.Timeless
  plain : V.fl = .plain
  pre : ∀ s now, V.c.pre s now = s
  look : ∀ s now u, (V.c.look s now u).isSome = true ↔ u ∈ K s
  abs : ∀ s u, ((V.abs s).get u).isSome = true ↔ u ∈ K s

/-- the model state after a history: it is the end of an atom-level run with exactly the history's atoms,
the refinement invariant holds, and every resident key is one the history inserted -/
theorem PlainKeyed.after_prefix {σ : Type} {V : Verified σ} {emb : σ → MState} {K : σ → List Key}
    (hP : PlainKeyed V emb K) (nkeys : Nat) (ops : List (Time × Op))
    (hops : ∀ x ∈ ops, opKeysOk nkeys x.2 = true) :
    (∃ tr : STrace σ, CRun V.c V.s0 tr (V.c.run V.s0 ops).1 ∧ tr.atoms = V.history ops) ∧
    (∀ t, V.Inv t (V.c.run V.s0 ops).1) ∧ (∀ u ∈ K (V.c.run V.s0 ops).1, u < nkeys) := by
  have heq := (V.c.runA_eq V.s0 ops).1
  refine ⟨?_, ?_, ?_⟩
  · obtain ⟨tr, h1, h2⟩ := V.c.runA_crun V.s0 ops
    rw [heq] at h1
    exact ⟨tr, h1, h2⟩
  · obtain ⟨t', ht'⟩ := (V.R.runA_anyclock hP.timeless V.s0 0 ops (V.inv0 0)).1
    rw [heq] at ht'
    exact fun t => hP.timeless _ t' t ht'
  · intro u hu
    have hr := V.history_is_run_anyclock ops hP.timeless
    rw [heq] at hr
    obtain ⟨y, hy⟩ := Option.isSome_iff_exists.1 ((hP.abs _ u).2 hu)
    refine arun_keys hr (runA_keys V.c nkeys ops V.s0 hops) ?_ u y hy
    intro k y h; cases h

/-- **Generic transfer.**  `policy` is a replacement-policy theorem in the form `Proofs/Order/*.lean` prove
it — about the model state `s` an accepted insert of a new key into a full container starts from, the
annotated history `tr` that led to `s`, and the state `s'` it leads to: some `w` with `Q tr (K s) w` is the
one key evicted.  `Q` may depend on the resident keys only through membership (`hQ`) and ignores the empty
per-call prologue (`hQpre`).

Conclusion, for a single-instance log accepted by the observable tier in which every inserted key is in the
swept universe: at every event `i + 1` that is a single insert of `k` returning `true`, where the sweep
recorded after event `i` does not show `k` and the recorded `size()` after event `i` equals the recorded
`capacity()`, the keys the sweep shows after event `i + 1` are those it showed after event `i`, minus exactly
one key `w`, plus `k` — and `Q tr (keys swept after event i) w`, where `tr` is an atom-level run of the
model whose atoms are exactly those of the recorded history `(now, op)` of events `0 .. i`. -/
theorem evicting_insert_observed {σ : Type} (V : Verified σ) (emb : σ → MState) (K : σ → List Key)
    (hP : PlainKeyed V emb K)
    (Q : STrace σ → List Key → Key → Prop)
    (hQ : ∀ tr rk rk' w, (∀ u, u ∈ rk ↔ u ∈ rk') → Q tr rk w → Q tr rk' w)
    (hQpre : ∀ tr s now rk w, Q (tr ++ [(s, now, Atom.pre)]) rk w → Q tr rk w)
    (policy : ∀ (tr : STrace σ) (s s' : σ) (now : Time) (k : Key) (v : Val) (al : Allow) (d : Time),
      CRun V.c V.s0 tr s → CStep V.c s now (.ins k v al d true) s' → k ∉ K s → V.cap ≤ V.c.size s →
      ∃ w, Q tr (K s) w ∧ Evicts (K s) (K s') k w)
    (cfg : Cfg) (nkeys : Nat) (evs : List Event) (hinit : MState.init cfg = emb V.s0)
    (hinst : ∀ e ∈ evs, e.inst = 0) (hlog : logOk nkeys evs = true) (hacc : l1 cfg nkeys evs = none)
    (i : Nat) (e0 e : Event) (k : Key) (v : Val) (a : Allow) (ttl : Nat)
    (h0 : evs[i]? = some e0) (h1 : evs[i + 1]? = some e)
    (hop : e.op = .insert k v a ttl) (hout : e.out = .bool true)
    (hnew : k ∉ sweepKeys e0) (hfull : e0.obs.size = e0.obs.cap) :
    ∃ (tr : STrace σ) (w : Key),
      CRun V.c V.s0 tr (V.c.run V.s0 (opsOf (evs.take (i + 1)))).1 ∧
      tr.atoms = V.history (opsOf (evs.take (i + 1))) ∧
      V.c.sweep (V.c.run V.s0 (opsOf (evs.take (i + 1)))).1 e0.now nkeys = e0.obs.sweep ∧
      Q tr (sweepKeys e0) w ∧ w ∈ sweepKeys e0 ∧ w ≠ k ∧
      ∀ u, u ∈ sweepKeys e ↔ (u ∈ sweepKeys e0 ∧ u ≠ w) ∨ u = k := by
  have hkeys : ∀ e ∈ evs, opKeysOk nkeys e.op = true := by
    simpa [logOk, List.all_eq_true] using hlog
  have hops : ∀ x ∈ opsOf (evs.take (i + 1)), opKeysOk nkeys x.2 = true := by
    intro x hx
    obtain ⟨e', he', rfl⟩ := List.mem_map.1 hx
    exact hkeys e' (List.mem_of_mem_take he')
  obtain ⟨⟨tr, hrun, hatoms⟩, hinv, hlt⟩ := hP.after_prefix nkeys _ hops
  -- what was observed after event `i`, and at event `i + 1`
  have hb := l1_transfer_after cfg nkeys evs hinst hacc i e0 h0
  have hm := l1_transfer cfg nkeys evs hinst hacc (i + 1) e h1
  unfold Matches at hm
  rw [hinit, hP.emb.runM] at hb hm
  obtain ⟨s, hs⟩ : ∃ s, (V.c.run V.s0 (opsOf (evs.take (i + 1)))).1 = s := ⟨_, rfl⟩
  rw [hs] at hrun hinv hlt hb hm ⊢
  rw [hP.emb.size, hP.emb.capacity, hP.emb.sweep] at hb
  obtain ⟨hsz, hcp, hsw⟩ := hb
  rw [hP.emb.step, hop, hout] at hm
  obtain ⟨mo, _, _, _, msw⟩ := hm
  rw [hP.emb.sweep] at msw
  simp only [Core.step, hP.pre, Out.bool.injEq] at mo msw
  have hstep : CStep V.c s e.now (.ins k v a (V.c.dlOf s e.now ttl) true)
      (V.c.insert1 s e.now k v a ttl).1 := by
    have := CStep.ins (c := V.c) s e.now k v a ttl
    rwa [mo] at this
  have hrun' : CRun V.c V.s0 (tr ++ [(s, e.now, .pre)]) s := by
    have := hrun.append (CRun.single (CStep.pre (c := V.c) s e.now))
    rwa [hP.pre] at this
  -- resident keys and swept keys
  have hK0 : ∀ u, u ∈ sweepKeys e0 ↔ u ∈ K s := by
    intro u
    unfold sweepKeys
    rw [← hsw, mem_sweep_keys, hP.look]
    exact ⟨fun h => h.2, fun h => ⟨hlt u h, h⟩⟩
  have hnew' : k ∉ K s := fun h => hnew ((hK0 k).2 h)
  have hfl : V.fl ≠ .eager := by rw [hP.plain]; decide
  have hfull' : V.cap ≤ V.c.size s := by
    have := V.R.capacity s 0 (hinv 0) hfl
    omega
  obtain ⟨w, hQw, hwin, hwk, hwout, _⟩ := policy _ s _ e.now k v a _ hrun' hstep hnew' hfull'
  -- the same step on the reference semantics: which keys are resident afterwards
  obtain ⟨_, hast⟩ := V.R.insert1 s e.now k v a ttl (hinv e.now)
  rw [mo] at hast
  have hgk : (V.abs s).get k = none := by
    cases hg : (V.abs s).get k with
    | none => rfl
    | some y => exact absurd ((hP.abs s k).1 (by simp [hg])) hnew'
  have hsize : V.cap ≤ (V.abs s).size := by rw [← V.R.size s 0 (hinv 0)]; exact hfull'
  obtain ⟨w', _, hget'⟩ := astep_ins_full hast hgk hfl hsize
  have hK' : ∀ u, u ∈ K (V.c.insert1 s e.now k v a ttl).1 ↔ u = k ∨ (u ≠ w' ∧ u ∈ K s) := by
    intro u
    rw [← hP.abs _ u, ← hP.abs s u, hget']
    by_cases huk : u = k
    · subst huk; simp [AMap.set]
    · by_cases huw : u = w'
      · subst huw; simp [AMap.set, AMap.del, huk]
      · simp [AMap.set, AMap.del, huk, huw]
  have hww : w = w' := by
    by_cases h : w = w'
    · exact h
    · exact absurd ((hK' w).2 (Or.inr ⟨h, hwin⟩)) hwout
  subst hww
  have hklt : k < nkeys := by
    have := hkeys e (List.mem_of_getElem? h1)
    simpa [hop, opKeysOk] using this
  have hK1 : ∀ u, u ∈ sweepKeys e ↔ u ∈ K (V.c.insert1 s e.now k v a ttl).1 := by
    intro u
    unfold sweepKeys
    rw [← msw, mem_sweep_keys, hP.look]
    refine ⟨fun h => h.2, fun h => ⟨?_, h⟩⟩
    rcases (hK' u).1 h with rfl | ⟨_, h2⟩
    · exact hklt
    · exact hlt u h2
  refine ⟨tr, w, hrun, hatoms, hsw, hQ _ _ _ _ (fun u => (hK0 u).symm) (hQpre _ _ _ _ _ hQw),
    (hK0 _).2 hwin, hwk, ?_⟩
  intro u
  rw [hK1, hK', hK0]
  constructor
  · rintro (h | ⟨h1, h2⟩)
    · exact Or.inr h
    · exact Or.inl ⟨h2, h1⟩
  · rintro (⟨h1, h2⟩ | h)
    · exact Or.inr ⟨h2, h1⟩
    · exact Or.inl h

/-! ### the four containers without deadlines -/

theorem plain_lru (cap : Nat) (h : 0 < cap) : PlainKeyed (lruV cap h) MState.lru (fun s => keys s.ents) where
  emb := emb_lru
  timeless := lruV_timeless cap h
  plain := rfl
  pre := fun _ _ => rfl
  look := fun s _ u => by
    show ((getE s.ents u).map _).isSome = true ↔ _
    rw [Option.isSome_map, getE_isSome_iff]
  abs := fun s u => by
    show ((getE s.ents u).map _).isSome = true ↔ _
    rw [Option.isSome_map, getE_isSome_iff]

theorem plain_mru (cap : Nat) (h : 0 < cap) : PlainKeyed (mruV cap h) MState.mru (fun s => keys s.ents) where
  emb := emb_mru
  timeless := mruV_timeless cap h
  plain := rfl
  pre := fun _ _ => rfl
  look := fun s _ u => by
    show ((getE s.ents u).map _).isSome = true ↔ _
    rw [Option.isSome_map, getE_isSome_iff]
  abs := fun s u => by
    show ((getE s.ents u).map _).isSome = true ↔ _
    rw [Option.isSome_map, getE_isSome_iff]

theorem plain_fifo (cap : Nat) (h : 0 < cap) : PlainKeyed (fifoV cap h) MState.fifo (fun s => keys s.ents) where
  emb := emb_fifo
  timeless := fifoV_timeless cap h
  plain := rfl
  pre := fun _ _ => rfl
  look := fun s _ u => by
    show ((getE s.ents u).map _).isSome = true ↔ _
    rw [Option.isSome_map, getE_isSome_iff]
  abs := fun s u => by
    show ((getE s.ents u).map _).isSome = true ↔ _
    rw [Option.isSome_map, getE_isSome_iff]

theorem plain_lfu (cap : Nat) (h : 0 < cap) : PlainKeyed (lfuV cap h) MState.lfu (fun s => keys s.ents) where
  emb := emb_lfu
  timeless := lfuV_timeless cap h
  plain := rfl
  pre := fun _ _ => rfl
  look := fun s _ u => by
    show ((getE s.ents u).map _).isSome = true ↔ _
    rw [Option.isSome_map, getE_isSome_iff]
  abs := fun s u => by
    show ((getE s.ents u).map _).isSome = true ↔ _
    rw [Option.isSome_map, getE_isSome_iff]

/-- the recency ghost is a function of the atoms alone -/
theorem useOrder_atoms {σ τ : Type} (tr : STrace σ) (tr' : STrace τ) (h : tr.atoms = tr'.atoms) :
    useOrder tr = useOrder tr' := by
  have key : ∀ {ρ : Type} (t : STrace ρ), useOrder t = t.atoms.foldl (fun g x => useStep g x.2) [] := by
    intro ρ t
    simp [useOrder, STrace.atoms, List.foldl_map]
  rw [key tr, key tr', h]

theorem useOrder_pre {σ : Type} (tr : STrace σ) (s : σ) (now : Time) :
    useOrder (tr ++ [(s, now, Atom.pre)]) = useOrder tr := by
  simp [useOrder, List.foldl_append, useStep]

theorem firstIn_congr (g : List Key) {rk rk' : List Key} (h : ∀ u, u ∈ rk ↔ u ∈ rk') :
    firstIn g rk = firstIn g rk' := by
  unfold firstIn
  congr 1
  funext k
  exact decide_eq_decide.2 (h k)

theorem lastIn_congr (g : List Key) {rk rk' : List Key} (h : ∀ u, u ∈ rk ↔ u ∈ rk') :
    lastIn g rk = lastIn g rk' := by
  unfold lastIn
  congr 2
  funext k
  exact decide_eq_decide.2 (h k)

/-- **C1 — C10 at event level (lru_cache).**  Single-instance log of an `lru_cache` of capacity ≥ 1, accepted by
the observable tier, every inserted key in the swept universe.  Let event `i + 1` be a single
`insert(k, v, a)` that returned `true`, where the sweep recorded after event `i` does not show `k` and the
`size()` recorded after event `i` equals the recorded `capacity()`.  Then there is a key `w` such that

* the keys the sweep shows after event `i + 1` are those it showed after event `i`, minus exactly `w`, plus `k`;
* `w` is the least recently used of the keys swept after event `i`: it is `firstIn (useOrder tr) …` for the
  atom trace `tr` of the recorded history `(now, op)` of events `0 .. i` — exactly the formulation of
  `C10_lru_history`, whatever states annotate the trace (`useOrder` reads the atoms only: accepted
  inserts/updates and successful non-peek lookups are uses, successful erases forget). -/
theorem lru_victim_observed (cfg : Cfg) (hk : cfg.kind = .lru) (hcap : 0 < cfg.cap) (nkeys : Nat)
    (evs : List Event) (hinst : ∀ e ∈ evs, e.inst = 0) (hlog : logOk nkeys evs = true)
    (hacc : l1 cfg nkeys evs = none)
    (i : Nat) (e0 e : Event) (k : Key) (v : Val) (a : Allow) (ttl : Nat)
    (h0 : evs[i]? = some e0) (h1 : evs[i + 1]? = some e)
    (hop : e.op = .insert k v a ttl) (hout : e.out = .bool true)
    (hnew : k ∉ sweepKeys e0) (hfull : e0.obs.size = e0.obs.cap) :
    ∃ w, (∀ tr : STrace RecState, tr.atoms = (lruV cfg.cap hcap).history (opsOf (evs.take (i + 1))) →
            firstIn (useOrder tr) (sweepKeys e0) = some w) ∧
      w ∈ sweepKeys e0 ∧ w ≠ k ∧
      ∀ u, u ∈ sweepKeys e ↔ (u ∈ sweepKeys e0 ∧ u ≠ w) ∨ u = k := by
  have hinit : MState.init cfg = MState.lru (lruV cfg.cap hcap).s0 := by simp only [MState.init, hk]; rfl
  obtain ⟨tr, w, _, hat, _, hq, hw, hwk, hall⟩ :=
    evicting_insert_observed (lruV cfg.cap hcap) MState.lru (fun s => keys s.ents) (plain_lru cfg.cap hcap)
      (fun tr rk w => firstIn (useOrder tr) rk = some w)
      (fun tr rk rk' w h hq => by rw [← firstIn_congr _ h]; exact hq)
      (fun tr s now rk w hq => by rw [useOrder_pre] at hq; exact hq)
      (fun tr s s' now k v al d hrun hstep hnew hfull => C10_lru cfg.cap hcap hrun hstep hnew hfull)
      cfg nkeys evs hinit hinst hlog hacc i e0 e k v a ttl h0 h1 hop hout hnew hfull
  refine ⟨w, ?_, hw, hwk, hall⟩
  intro tr' htr'
  rw [useOrder_atoms tr' tr (htr'.trans hat.symm)]
  exact hq

/-- **C2 — C13 at event level (mru_cache).**  As `lru_victim_observed`, with the *most* recently used of the
keys swept after event `i` as the victim (`lastIn (useOrder tr) …`, the formulation of `C13_mru_history`). -/
theorem mru_victim_observed (cfg : Cfg) (hk : cfg.kind = .mru) (hcap : 0 < cfg.cap) (nkeys : Nat)
    (evs : List Event) (hinst : ∀ e ∈ evs, e.inst = 0) (hlog : logOk nkeys evs = true)
    (hacc : l1 cfg nkeys evs = none)
    (i : Nat) (e0 e : Event) (k : Key) (v : Val) (a : Allow) (ttl : Nat)
    (h0 : evs[i]? = some e0) (h1 : evs[i + 1]? = some e)
    (hop : e.op = .insert k v a ttl) (hout : e.out = .bool true)
    (hnew : k ∉ sweepKeys e0) (hfull : e0.obs.size = e0.obs.cap) :
    ∃ w, (∀ tr : STrace RecState, tr.atoms = (mruV cfg.cap hcap).history (opsOf (evs.take (i + 1))) →
            lastIn (useOrder tr) (sweepKeys e0) = some w) ∧
      w ∈ sweepKeys e0 ∧ w ≠ k ∧
      ∀ u, u ∈ sweepKeys e ↔ (u ∈ sweepKeys e0 ∧ u ≠ w) ∨ u = k := by
  have hinit : MState.init cfg = MState.mru (mruV cfg.cap hcap).s0 := by simp only [MState.init, hk]; rfl
  obtain ⟨tr, w, _, hat, _, hq, hw, hwk, hall⟩ :=
    evicting_insert_observed (mruV cfg.cap hcap) MState.mru (fun s => keys s.ents) (plain_mru cfg.cap hcap)
      (fun tr rk w => lastIn (useOrder tr) rk = some w)
      (fun tr rk rk' w h hq => by rw [← lastIn_congr _ h]; exact hq)
      (fun tr s now rk w hq => by rw [useOrder_pre] at hq; exact hq)
      (fun tr s s' now k v al d hrun hstep hnew hfull => by
        obtain ⟨w, h1, h2, _⟩ := C13_mru cfg.cap hcap hrun hstep hnew hfull
        exact ⟨w, h1, h2⟩)
      cfg nkeys evs hinit hinst hlog hacc i e0 e k v a ttl h0 h1 hop hout hnew hfull
  refine ⟨w, ?_, hw, hwk, hall⟩
  intro tr' htr'
  rw [useOrder_atoms tr' tr (htr'.trans hat.symm)]
  exact hq

theorem bornOrder_pre (tr : STrace FifoState) (s : FifoState) (now : Time) :
    bornOrder (fun s => keys s.ents) (tr ++ [(s, now, Atom.pre)]) = bornOrder (fun s => keys s.ents) tr := by
  simp [bornOrder, List.foldl_append, bornStep]

/-- **C2 — C12 at event level (fifo_cache).**  Same situation as `lru_victim_observed`.  The key `w` that
disappears from the sweep is the earliest-created of the keys swept after event `i`:
`firstIn (bornOrder … tr) …` as in `C12_fifo_history`, where `tr` is the run of the fifo model over the
recorded history of events `0 .. i` (its atoms are exactly the history's; its annotations, which `bornOrder`
consults to tell a creating insert from an update, are the model states that run passes through). -/
theorem fifo_victim_observed (cfg : Cfg) (hk : cfg.kind = .fifo) (hcap : 0 < cfg.cap) (nkeys : Nat)
    (evs : List Event) (hinst : ∀ e ∈ evs, e.inst = 0) (hlog : logOk nkeys evs = true)
    (hacc : l1 cfg nkeys evs = none)
    (i : Nat) (e0 e : Event) (k : Key) (v : Val) (a : Allow) (ttl : Nat)
    (h0 : evs[i]? = some e0) (h1 : evs[i + 1]? = some e)
    (hop : e.op = .insert k v a ttl) (hout : e.out = .bool true)
    (hnew : k ∉ sweepKeys e0) (hfull : e0.obs.size = e0.obs.cap) :
    ∃ (tr : STrace FifoState) (w : Key),
      CRun Fifo.core (Fifo.init cfg.cap) tr (Fifo.core.run (Fifo.init cfg.cap) (opsOf (evs.take (i + 1)))).1 ∧
      tr.atoms = (fifoV cfg.cap hcap).history (opsOf (evs.take (i + 1))) ∧
      firstIn (bornOrder (fun s => keys s.ents) tr) (sweepKeys e0) = some w ∧
      w ∈ sweepKeys e0 ∧ w ≠ k ∧
      ∀ u, u ∈ sweepKeys e ↔ (u ∈ sweepKeys e0 ∧ u ≠ w) ∨ u = k := by
  have hinit : MState.init cfg = MState.fifo (fifoV cfg.cap hcap).s0 := by simp only [MState.init, hk]; rfl
  obtain ⟨tr, w, hrun, hat, _, hq, hw, hwk, hall⟩ :=
    evicting_insert_observed (fifoV cfg.cap hcap) MState.fifo (fun s => keys s.ents) (plain_fifo cfg.cap hcap)
      (fun tr rk w => firstIn (bornOrder (fun s => keys s.ents) tr) rk = some w)
      (fun tr rk rk' w h hq => by rw [← firstIn_congr _ h]; exact hq)
      (fun tr s now rk w hq => by rw [bornOrder_pre] at hq; exact hq)
      (fun tr s s' now k v al d hrun hstep hnew hfull => C12_fifo cfg.cap hcap hrun hstep hnew hfull)
      cfg nkeys evs hinit hinst hlog hacc i e0 e k v a ttl h0 h1 hop hout hnew hfull
  exact ⟨tr, w, hrun, hat, hq, hw, hwk, hall⟩

theorem useCount_pre (tr : STrace LfuState) (s : LfuState) (now : Time) :
    useCount (fun s => keys s.ents) (tr ++ [(s, now, Atom.pre)]) = useCount (fun s => keys s.ents) tr := by
  simp [useCount, List.foldl_append, cntStep]

/-- the use count the lfu model's sweep reports for a key is the count ghost of the run that led there -/
theorem lfu_sweep_count {cap : Nat} (hcap : 0 < cap) {tr : STrace LfuState} {s : LfuState}
    (hrun : CRun Lfu.core (Lfu.init cap) tr s) (now : Time) (n : Nat) (u : Key) (vu : Val) (cu : Nat)
    (h : (u, vu, cu) ∈ Lfu.core.sweep s now n) : cu = useCount (fun s => keys s.ents) tr u := by
  have hl : (getE s.ents u).map (fun e => (e.val, e.cnt)) = some (vu, cu) := ((mem_sweep _ _ _ _ _ _ _).1 h).2
  cases hg : getE s.ents u with
  | none => rw [hg] at hl; cases hl
  | some en =>
    rw [hg] at hl
    simp only [Option.map_some, Option.some.injEq, Prod.mk.injEq] at hl
    have := (Lfu.oinv_run hcap hrun).cnt en (getE_mem hg)
    rw [getE_key hg] at this
    rw [← hl.2]; exact this

/-- **C2 — C11 at event level, counts (lfu_cache).**  Single-instance log of an `lfu_cache` of capacity ≥ 1
accepted by the observable tier.  After every event `i`, the use count the sweep
(`find_with_use_count(k, peek)`) reported for each key is `useCount` of the run of the model over the recorded
history of events `0 .. i`: 1 at creation, +1 per accepted update and per successful non-peek lookup. -/
theorem lfu_counts_observed (cfg : Cfg) (hk : cfg.kind = .lfu) (hcap : 0 < cfg.cap) (nkeys : Nat)
    (evs : List Event) (hinst : ∀ e ∈ evs, e.inst = 0) (hacc : l1 cfg nkeys evs = none)
    (i : Nat) (e : Event) (hi : evs[i]? = some e) :
    ∃ tr : STrace LfuState,
      CRun Lfu.core (Lfu.init cfg.cap) tr (Lfu.core.run (Lfu.init cfg.cap) (opsOf (evs.take (i + 1)))).1 ∧
      tr.atoms = (lfuV cfg.cap hcap).history (opsOf (evs.take (i + 1))) ∧
      ∀ u vu cu, (u, vu, cu) ∈ e.obs.sweep → cu = useCount (fun s => keys s.ents) tr u := by
  have hinit : MState.init cfg = MState.lfu (Lfu.init cfg.cap) := by simp only [MState.init, hk]
  obtain ⟨tr, h1, h2⟩ := Lfu.core.runA_crun (Lfu.init cfg.cap) (opsOf (evs.take (i + 1)))
  rw [(Lfu.core.runA_eq _ _).1] at h1
  have hb := (l1_transfer_after cfg nkeys evs hinst hacc i e hi).2.2
  rw [hinit, emb_lfu.runM, emb_lfu.sweep] at hb
  refine ⟨tr, h1, h2, ?_⟩
  intro u vu cu hmem
  rw [← hb] at hmem
  exact lfu_sweep_count hcap h1 _ _ u vu cu hmem

/-- **C2 — C11 at event level, victim (lfu_cache).**  Same situation as `lru_victim_observed`.  The key `w` that
disappears from the sweep has a minimal use count among the keys swept after event `i` — both as the harness
saw it (the count the sweep after event `i` reported for `w` is ≤ the count it reported for every key) and in
terms of the ghost: every reported count is `useCount` of the run `tr` of the model over the recorded history
of events `0 .. i` (the formulation of `C11_lfu_history`). -/
theorem lfu_victim_observed (cfg : Cfg) (hk : cfg.kind = .lfu) (hcap : 0 < cfg.cap) (nkeys : Nat)
    (evs : List Event) (hinst : ∀ e ∈ evs, e.inst = 0) (hlog : logOk nkeys evs = true)
    (hacc : l1 cfg nkeys evs = none)
    (i : Nat) (e0 e : Event) (k : Key) (v : Val) (a : Allow) (ttl : Nat)
    (h0 : evs[i]? = some e0) (h1 : evs[i + 1]? = some e)
    (hop : e.op = .insert k v a ttl) (hout : e.out = .bool true)
    (hnew : k ∉ sweepKeys e0) (hfull : e0.obs.size = e0.obs.cap) :
    ∃ (tr : STrace LfuState) (w : Key),
      CRun Lfu.core (Lfu.init cfg.cap) tr (Lfu.core.run (Lfu.init cfg.cap) (opsOf (evs.take (i + 1)))).1 ∧
      tr.atoms = (lfuV cfg.cap hcap).history (opsOf (evs.take (i + 1))) ∧
      (∀ u vu cu, (u, vu, cu) ∈ e0.obs.sweep → cu = useCount (fun s => keys s.ents) tr u) ∧
      (∀ u ∈ sweepKeys e0, useCount (fun s => keys s.ents) tr w ≤ useCount (fun s => keys s.ents) tr u) ∧
      (∃ vw cw, (w, vw, cw) ∈ e0.obs.sweep ∧ ∀ u vu cu, (u, vu, cu) ∈ e0.obs.sweep → cw ≤ cu) ∧
      w ≠ k ∧
      ∀ u, u ∈ sweepKeys e ↔ (u ∈ sweepKeys e0 ∧ u ≠ w) ∨ u = k := by
  have hinit : MState.init cfg = MState.lfu (lfuV cfg.cap hcap).s0 := by simp only [MState.init, hk]; rfl
  obtain ⟨tr, w, hrun, hat, hsw, hq, hw, hwk, hall⟩ :=
    evicting_insert_observed (lfuV cfg.cap hcap) MState.lfu (fun s => keys s.ents) (plain_lfu cfg.cap hcap)
      (fun tr rk w => ∀ u ∈ rk, useCount (fun s => keys s.ents) tr w ≤ useCount (fun s => keys s.ents) tr u)
      (fun tr rk rk' w h hq u hu => hq u ((h u).2 hu))
      (fun tr s now rk w hq => by rw [useCount_pre] at hq; exact hq)
      (fun tr s s' now k v al d hrun hstep hnew hfull => by
        obtain ⟨w, h1, h2⟩ := C11_lfu_victim cfg.cap hcap hrun hstep hnew hfull
        exact ⟨w, h2, h1⟩)
      cfg nkeys evs hinit hinst hlog hacc i e0 e k v a ttl h0 h1 hop hout hnew hfull
  have hcnt : ∀ u vu cu, (u, vu, cu) ∈ e0.obs.sweep → cu = useCount (fun s => keys s.ents) tr u := by
    intro u vu cu hmem
    rw [← hsw] at hmem
    exact lfu_sweep_count hcap hrun _ _ u vu cu hmem
  refine ⟨tr, w, hrun, hat, hcnt, hq, ?_, hwk, hall⟩
  obtain ⟨⟨w', vw, cw⟩, hmem, hw'⟩ := List.mem_map.1 hw
  simp only at hw'
  subst hw'
  refine ⟨vw, cw, hmem, ?_⟩
  intro u vu cu hu
  rw [hcnt _ _ _ hmem, hcnt _ _ _ hu]
  exact hq u (List.mem_map.2 ⟨(u, vu, cu), hu, rfl⟩)

/-! ## Part D -/

/-- the L2 (slot/iterator level) model state reached by `L2S.step` over a history -/
def runL2 (m : L2S) : List (Time × Op) → L2S
  | [] => m
  | (t, op) :: rest => runL2 (m.step t op).1 rest

theorem runL2_append (m : L2S) (p q : List (Time × Op)) : runL2 m (p ++ q) = runL2 (runL2 m p) q := by
  induction p generalizing m with
  | nil => rfl
  | cons x p ih => obtain ⟨t, op⟩ := x; simp only [List.cons_append, runL2]; exact ih _

/-- the events of instance 0 — the ones the structural tier replays -/
def inst0 (evs : List Event) : List Event := evs.filter (fun e => e.inst == 0)

/-- the dump the structural tier compares event `i` with (the first one the harness printed for it) -/
def dumpAt (sts : List (Nat × String)) (i : Nat) : Option String := (sts.find? (fun x => x.1 == i)).map (·.2)

/-- what `CheckL2.loop` tests at one event: the L2 model `m` (its state when the call starts) does not reach
undefined behaviour in the call, returns the recorded output, and — if a dump was recorded — ends in a state
whose private structure prints as that dump -/
def MatchesL2 (m : L2S) (e : Event) (st : Option String) : Prop :=
  (m.step e.now e.op).1.ub = false ∧ (m.step e.now e.op).2 = e.out ∧
  ∀ d, st = some d → d = (m.step e.now e.op).1.dump

theorem loop_none : ∀ (p : List (Event × Nat × Option String)) (m : L2S) (x : Event × Nat × Option String)
    (q : List (Event × Nat × Option String)), CheckL2.loop m (p ++ x :: q) = none →
    MatchesL2 (runL2 m (opsOf (p.map (·.1)))) x.1 x.2.2
  | [], m, (e, idx, st), q, h => by
    simp only [List.nil_append, CheckL2.loop] at h
    show MatchesL2 m e st
    split at h
    · cases h
    rename_i h1
    split at h
    · cases h
    rename_i h2
    refine ⟨by simpa using h1, Decidable.not_not.mp h2, ?_⟩
    intro d hd
    subst hd
    simp only at h
    split at h
    · rename_i h3; simpa using h3
    · cases h
  | (e0, idx0, st0) :: p, m, x, q, h => by
    simp only [List.cons_append, CheckL2.loop] at h
    split at h
    · cases h
    split at h
    · cases h
    have hrest : CheckL2.loop (m.step e0.now e0.op).1 (p ++ x :: q) = none := by
      cases st0 with
      | none => exact h
      | some d =>
        simp only at h
        split at h
        · exact h
        · cases h
    have := loop_none p _ x q hrest
    simpa [opsOf, runL2] using this

/-- one step of `CheckL2.loop` at an event without a dump that passes the tests -/
theorem loop_cons_nodump (m : L2S) (e : Event) (idx : Nat) (rest : List (Event × Nat × Option String))
    (h1 : (m.step e.now e.op).1.ub = false) (h2 : (m.step e.now e.op).2 = e.out) :
    CheckL2.loop m ((e, idx, none) :: rest) = CheckL2.loop (m.step e.now e.op).1 rest := by
  simp [CheckL2.loop, h1, h2]

/-- one step of `CheckL2.loop` at an event whose recorded dump is the model's -/
theorem loop_cons_dump (m : L2S) (e : Event) (idx : Nat) (rest : List (Event × Nat × Option String))
    (h1 : (m.step e.now e.op).1.ub = false) (h2 : (m.step e.now e.op).2 = e.out) :
    CheckL2.loop m ((e, idx, some (m.step e.now e.op).1.dump) :: rest) =
      CheckL2.loop (m.step e.now e.op).1 rest := by
  simp [CheckL2.loop, h1, h2]

/-- the list `CheckL2.check` replays: instance-0 events with their index in the script and their dump -/
def tagged (sts : List (Nat × String)) (l : List (Event × Nat)) : List (Event × Nat × Option String) :=
  l.filterMap (fun (e, i) => if e.inst == 0 then some (e, i, dumpAt sts i) else none)

theorem tagged_events (sts : List (Nat × String)) : ∀ (evs : List Event) (n : Nat),
    (tagged sts (evs.zipIdx n)).map (·.1) = inst0 evs
  | [], n => rfl
  | e :: es, n => by
    have ih := tagged_events sts es (n + 1)
    unfold tagged inst0 at ih ⊢
    rw [List.zipIdx_cons, List.filterMap_cons, List.filter_cons]
    by_cases h : e.inst = 0
    · simp only [h, beq_self_eq_true, if_true, List.map_cons, ih]
    · have h' : (e.inst == 0) = false := by simpa using h
      simp only [h', Bool.false_eq_true, if_false, ih]

/-- **Part D.** If the structural tier accepts (`CheckL2.check cfg evs sts = some (none, n)`), then for every
event `i` of instance 0: the L2 model — run by `L2S.step` from the freshly constructed container over the
instance-0 calls recorded before `i` — does not reach undefined behaviour (`end()` dereferenced, `begin()`
decremented, index out of range, stale hash iterator) in call `i`, returns the output the C++ container
returned, and, if the harness printed the private structure after the call, prints exactly that dump.
No hypothesis on the configuration is needed: the check tests `ub` itself. -/
theorem l2_transfer (cfg : Cfg) (evs : List Event) (sts : List (Nat × String)) (n : Nat)
    (h : CheckL2.check cfg evs sts = some (none, n)) :
    ∃ m0, L2S.init cfg = some m0 ∧ ∀ i e, evs[i]? = some e → e.inst = 0 →
      MatchesL2 (runL2 m0 (opsOf (inst0 (evs.take i)))) e (dumpAt sts i) := by
  unfold CheckL2.check at h
  cases hm : L2S.init cfg with
  | none => rw [hm] at h; cases h
  | some m0 =>
    rw [hm] at h
    simp only [Option.some.injEq, Prod.mk.injEq] at h
    have hl : CheckL2.loop m0 (tagged sts (evs.zipIdx 0)) = none := h.1
    refine ⟨m0, rfl, ?_⟩
    intro i e hi h0
    obtain ⟨hsplit, hlen⟩ := getElem?_split evs i e hi
    rw [hsplit, List.zipIdx_append, List.zipIdx_cons] at hl
    unfold tagged at hl
    rw [List.filterMap_append, List.filterMap_cons] at hl
    simp only [h0, beq_self_eq_true, if_true, hlen, Nat.zero_add] at hl
    have := loop_none _ m0 _ _ hl
    have he := tagged_events sts (evs.take i) 0
    unfold tagged at he
    rw [he] at this
    exact this

theorem dumpAt_of_mem {sts : List (Nat × String)} (hn : (sts.map (·.1)).Nodup) {i : Nat} {d : String}
    (h : (i, d) ∈ sts) : dumpAt sts i = some d := by
  induction sts with
  | nil => cases h
  | cons x sts ih =>
    simp only [List.map_cons, List.nodup_cons] at hn
    unfold dumpAt
    rw [List.find?_cons]
    rcases List.mem_cons.1 h with rfl | h'
    · simp
    · have hne : x.1 ≠ i := fun he => hn.1 (he ▸ List.mem_map.2 ⟨(i, d), h', rfl⟩)
      have hb : (x.1 == i) = false := by simpa using hne
      rw [hb]
      exact ih hn.2 h'

/-- **Part D, every dump.**  If no two recorded dumps carry the same event index, *every* dump `(i, d)` the
harness printed after an event `i` of instance 0 is the dump of the L2 model after that event. -/
theorem l2_transfer_dumps (cfg : Cfg) (evs : List Event) (sts : List (Nat × String)) (n : Nat)
    (h : CheckL2.check cfg evs sts = some (none, n)) (hn : (sts.map (·.1)).Nodup) :
    ∃ m0, L2S.init cfg = some m0 ∧ ∀ i d e, (i, d) ∈ sts → evs[i]? = some e → e.inst = 0 →
      d = ((runL2 m0 (opsOf (inst0 (evs.take i)))).step e.now e.op).1.dump := by
  obtain ⟨m0, hm, hall⟩ := l2_transfer cfg evs sts n h
  exact ⟨m0, hm, fun i d e hd hi h0 => (hall i e hi h0).2.2 d (dumpAt_of_mem hn hd)⟩

/-! ### the structural verdict and the L1 model (lru_cache, mru_cache) -/

theorem runL2_slot (s : L2.LState) (ops : List (Time × Op)) :
    runL2 (.slot s) ops = .slot (L2.Slot.core.run s ops).1 := by
  induction ops generalizing s with
  | nil => rfl
  | cons x ops ih =>
    obtain ⟨t, op⟩ := x
    simp only [runL2, L2S.step, run_cons_fst]
    exact ih _

/-- lru_cache / mru_cache: the output the slot/iterator-level model gives at a call after a history is the
output of the L1 model (`L2.Slot.refines_l1`, read at the last call) -/
theorem slot_out_eq (fl : L2.Flavour) (cap : Nat) (hcap : 0 < cap) (ops : List (Time × Op)) (t : Time) (op : Op) :
    (L2.Slot.core.step (L2.Slot.core.run (L2.Slot.init fl cap) ops).1 t op).2 =
    ((L2.Slot.l1core fl).step ((L2.Slot.l1core fl).run (Rec.init cap) ops).1 t op).2 := by
  have h1 := (L2.Slot.refines_l1 fl cap hcap ops).1
  have h2 := (L2.Slot.refines_l1 fl cap hcap (ops ++ [(t, op)])).1
  rw [(run_snoc _ _ _ _ _).2, (run_snoc _ _ _ _ _).2, h1] at h2
  have := List.append_cancel_left h2
  simpa using this

/-- **Part D, lru_cache.** If the structural tier accepts the log of an `lru_cache` of capacity ≥ 1, the
output the C++ container returned at every call of instance 0 is the output of the *L1* model (the one the
property theorems are about) run over the instance-0 calls recorded before it: the structural verdict
alone — whose replay is on the slot/iterator-level model — implies output agreement with the policy model. -/
theorem l2_lru_outputs (cfg : Cfg) (hk : cfg.kind = .lru) (hcap : 0 < cfg.cap) (evs : List Event)
    (sts : List (Nat × String)) (n : Nat) (h : CheckL2.check cfg evs sts = some (none, n))
    (i : Nat) (e : Event) (hi : evs[i]? = some e) (h0 : e.inst = 0) :
    ((runM (MState.init cfg) (opsOf (inst0 (evs.take i)))).step e.now e.op).2 = e.out := by
  obtain ⟨m0, hm, hall⟩ := l2_transfer cfg evs sts n h
  obtain ⟨_, hout, _⟩ := hall i e hi h0
  have hm0 : m0 = .slot (L2.Slot.init .lru cfg.cap) := by
    simp only [L2S.init, hk, Option.some.injEq] at hm; exact hm.symm
  have hinit : MState.init cfg = .lru (Rec.init cfg.cap) := by simp only [MState.init, hk]
  rw [hm0, runL2_slot] at hout
  rw [hinit, emb_lru.runM, emb_lru.step, ← hout]
  exact (slot_out_eq .lru cfg.cap hcap _ e.now e.op).symm

/-- **Part D, mru_cache.** As `l2_lru_outputs`. -/
theorem l2_mru_outputs (cfg : Cfg) (hk : cfg.kind = .mru) (hcap : 0 < cfg.cap) (evs : List Event)
    (sts : List (Nat × String)) (n : Nat) (h : CheckL2.check cfg evs sts = some (none, n))
    (i : Nat) (e : Event) (hi : evs[i]? = some e) (h0 : e.inst = 0) :
    ((runM (MState.init cfg) (opsOf (inst0 (evs.take i)))).step e.now e.op).2 = e.out := by
  obtain ⟨m0, hm, hall⟩ := l2_transfer cfg evs sts n h
  obtain ⟨_, hout, _⟩ := hall i e hi h0
  have hm0 : m0 = .slot (L2.Slot.init .mru cfg.cap) := by
    simp only [L2S.init, hk, Option.some.injEq] at hm; exact hm.symm
  have hinit : MState.init cfg = .mru (Rec.init cfg.cap) := by simp only [MState.init, hk]
  rw [hm0, runL2_slot] at hout
  rw [hinit, emb_mru.runM, emb_mru.step, ← hout]
  exact (slot_out_eq .mru cfg.cap hcap _ e.now e.op).symm

/-! ## non-vacuity -/

namespace Example

def ev (t : Nat) (op : Op) (out : Out) (sz : Nat) (sw : List (Key × Val × Nat)) : Event :=
  { inst := 0, now := t, tag := "@", op := op, out := out,
    obs := { size := sz, empty := sz == 0, cap := 2, sweep := sw } }

/-- an `lru_cache` of capacity 2 over the keys 0..2: two inserts, a lookup that makes key 0 the most recently
used, and an insert that evicts key 1 -/
def evC0 : Event := ev 10 (.insert 0 10 .insertOrUpdate 0) (.bool true) 1 [(0, 10, 0)]
def evC1 : Event := ev 20 (.insert 1 11 .insertOrUpdate 0) (.bool true) 2 [(0, 10, 0), (1, 11, 0)]
def evC2 : Event := ev 30 (.find 0 false) (.opt (some 10)) 2 [(0, 10, 0), (1, 11, 0)]
def evC3 : Event := ev 40 (.insert 2 12 .insertOrUpdate 0) (.bool true) 2 [(0, 10, 0), (2, 12, 0)]

def logC : List Event := [evC0, evC1, evC2, evC3]

def cfgC : Cfg := { kind := .lru, cap := 2 }

theorem logC_accepted : l1 cfgC 3 logC = none := by rfl

/-- Part C on `logC`: event 3 is an evicting insert -/
theorem logC_victim :
    ∃ w, (∀ tr : STrace RecState, tr.atoms = (lruV 2 (by decide)).history (opsOf (logC.take 3)) →
            firstIn (useOrder tr) [0, 1] = some w) ∧
      w ∈ [0, 1] ∧ w ≠ 2 ∧ ∀ u, u ∈ [0, 2] ↔ (u ∈ [0, 1] ∧ u ≠ w) ∨ u = 2 :=
  lru_victim_observed cfgC rfl (by decide) 3 logC (by decide) (by decide) logC_accepted 2 _ _ 2 12
    .insertOrUpdate 0 rfl rfl rfl rfl (by decide) rfl

/-- … so the key the log shows evicted, 1, is the least recently used one according to the ghost -/
example : ∀ tr : STrace RecState, tr.atoms = (lruV 2 (by decide)).history (opsOf (logC.take 3)) →
    firstIn (useOrder tr) [0, 1] = some 1 := by
  obtain ⟨w, h1, h2, _, h4⟩ := logC_victim
  have : w = 1 := by
    simp only [List.mem_cons, List.not_mem_nil, or_false] at h2
    rcases h2 with rfl | rfl
    · have := (h4 0).1 (by simp)
      simp at this
    · rfl
  subst this
  exact h1

/-- the structure dump of the `lru_cache` after event 1, as the L2 model prints it — the string
`"end=- list=1,0 size=2 used=0:10:0:0,1:11:1:1"` (`#eval dumpD`; string functions do not reduce in the kernel,
so the example names the dump by the term that computes it) -/
def dumpD : String := (runL2 (L2S.slot (L2.Slot.init .lru 2)) (opsOf (logC.take 2))).dump

/-- the harness printed the private structure once, after event 1 -/
def stsD : List (Nat × String) := [(1, dumpD)]

theorem logD_checked : CheckL2.check cfgC logC stsD = some (none, 1) := by
  have ht : (logC.zipIdx).filterMap (fun (e, i) =>
      if e.inst == 0 then some (e, i, (stsD.find? (fun x => x.1 == i)).map (·.2)) else none) =
      [(evC0, 0, none), (evC1, 1, some dumpD), (evC2, 2, none), (evC3, 3, none)] := rfl
  unfold CheckL2.check
  show (match some (L2S.slot (L2.Slot.init .lru 2)) with | none => none | some m => _) = _
  simp only [ht]
  refine congrArg some (Prod.ext ?_ rfl)
  show CheckL2.loop (L2S.slot (L2.Slot.init .lru 2)) ((evC0, 0, none) :: _) = none
  rw [loop_cons_nodump _ _ _ _ (by rfl) (by rfl)]
  show CheckL2.loop ((L2S.slot (L2.Slot.init .lru 2)).step evC0.now evC0.op).1
    ((evC1, 1, some ((((L2S.slot (L2.Slot.init .lru 2)).step evC0.now evC0.op).1).step evC1.now evC1.op).1.dump)
      :: _) = none
  rw [loop_cons_dump _ _ _ _ (by rfl) (by rfl)]
  rw [loop_cons_nodump _ _ _ _ (by rfl) (by rfl)]
  rw [loop_cons_nodump _ _ _ _ (by rfl) (by rfl)]
  rfl

/-- Part D on `logC`/`stsD` -/
example : ∃ m0, L2S.init cfgC = some m0 ∧ ∀ i e, logC[i]? = some e → e.inst = 0 →
    MatchesL2 (runL2 m0 (opsOf (inst0 (logC.take i)))) e (dumpAt stsD i) :=
  l2_transfer cfgC logC stsD 1 logD_checked

/-- … and the output recorded at event 3 is the L1 lru model's -/
example : ((runM (MState.init cfgC) (opsOf (inst0 (logC.take 3)))).step 40 (.insert 2 12 .insertOrUpdate 0)).2
    = .bool true :=
  l2_lru_outputs cfgC rfl (by decide) logC stsD 1 logD_checked 3 _ rfl rfl

end Example

end Verif.CapstoneOrder

#print axioms Verif.CapstoneOrder.l1_transfer
#print axioms Verif.CapstoneOrder.l1_transfer_after
#print axioms Verif.CapstoneOrder.evicting_insert_observed
#print axioms Verif.CapstoneOrder.lru_victim_observed
#print axioms Verif.CapstoneOrder.mru_victim_observed
#print axioms Verif.CapstoneOrder.fifo_victim_observed
#print axioms Verif.CapstoneOrder.lfu_counts_observed
#print axioms Verif.CapstoneOrder.lfu_victim_observed
#print axioms Verif.CapstoneOrder.l2_transfer
#print axioms Verif.CapstoneOrder.l2_transfer_dumps
#print axioms Verif.CapstoneOrder.l2_lru_outputs
#print axioms Verif.CapstoneOrder.l2_mru_outputs
#print axioms Verif.CapstoneOrder.Example.logC_accepted
#print axioms Verif.CapstoneOrder.Example.logC_victim
#print axioms Verif.CapstoneOrder.Example.logD_checked
