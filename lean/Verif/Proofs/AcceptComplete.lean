import Verif.Proofs.AcceptSound
/-!
# Completeness of the executable acceptor (`Verif/Accept.lean`)

`accept_sound` (AcceptSound.lean): an accepted log is explained by the reference semantics.  Here the
converse: a log that *is* explained by the reference semantics is never rejected — the verdict is
`(none, m)` (accepted, or given up as undecided when `m > candLimit`), never `(some failure, m)`.

## Which notion of "explained"

`Explains` (the conclusion of `accept_sound`) is deliberately lax in places where the acceptor is not:
the deadline carried by an insert atom is arbitrary, `clear` may or may not clear whatever the container,
the `capacity()` reading of an unbounded container is arbitrary, the configured TTL of the chain's states
is not tracked, and the chain's states need not be key-sorted.  Completeness against `Explains` is
therefore *false* (`accept_complete_lax_false` below is a machine-checked counterexample).  The notion the
acceptor decides is `ExplainsD`: `Explains` with those conventions pinned down
(`ExplainsD.toExplains`: it is a strengthening; `accept_soundD`: accepted logs satisfy it too).
-/
namespace Verif.Accept
open Verif Verif.Proto Verif.Spec

/-! ## strict explanation -/

/-- `InsAtoms` with the deadline of every element fixed by `dl` (a function of the TTL argument) -/
inductive InsAtomsD (a : Allow) (dl : Nat → Time) : List (Key × Val × Nat) → List Atom → Nat → Prop
  | nil : InsAtomsD a dl [] [] 0
  | cons {k v t ok xs as n} : InsAtomsD a dl xs as n →
      InsAtomsD a dl ((k, v, t) :: xs) (.ins k v a (dl t) ok :: as) ((if ok then 1 else 0) + n)

/-- containers that have `clear()` -/
def hasClear (c : Ctx) : Bool := c.kind == .utlru || c.kind == .utmap

/-- `OpAtoms` with the conventions of the containers pinned down: deadlines are computed by `dl`,
`clear` clears exactly where it exists, and an unbounded container reports capacity 0 -/
inductive OpAtomsD (c : Ctx) (dl : Nat → Time) : Op → List Atom → XOut → Prop
  | insert {k v a t ok} : OpAtomsD c dl (.insert k v a t) [.pre, .ins k v a (dl t) ok] (some (.bool ok))
  | insertRange {xs a as n} : InsAtomsD a dl xs as n → OpAtomsD c dl (.insertRange xs a) (.pre :: as) (some (.nat n))
  | find {k peek r} : OpAtomsD c dl (.find k peek) [.pre, .look k peek r] (some (.opt (r.map (·.1))))
  | findRange {ks peek as rs} : LookAtoms peek ks as rs → OpAtomsD c dl (.findRange ks peek) (.pre :: as) (some (.opts rs))
  | findCount {k peek r} : OpAtomsD c dl (.findCount k peek) [.pre, .look k peek r] (some (.opt (r.map (·.1))))
  | erase {k ok} : OpAtomsD c dl (.erase k) [.pre, .del k ok] (some (.bool ok))
  | eraseRange {ks as n} : DelAtoms ks as n → OpAtomsD c dl (.eraseRange ks) (.pre :: as) (some (.nat n))
  | clear : hasClear c = true → OpAtomsD c dl .clear [.clear] (some .unit)
  | noClear : hasClear c = false → OpAtomsD c dl .clear [] (some .unit)
  | clean {n} : OpAtomsD c dl .clean [.reap n] (some (.nat n))
  | age {n} : OpAtomsD c dl .age [.age n] none
  | updateTtl {t} : OpAtomsD c dl (.updateTtl t) [.setTtl t] (some .unit)
  | size {n} : OpAtomsD c dl .size [.obsSize n] (some (.nat n))
  | empty {b} : OpAtomsD c dl .empty [.obsEmpty b] (some (.bool b))
  | capacity {n} : (c.fl = .eager → n = 0) → OpAtomsD c dl .capacity [.obsCap n] (some (.nat n))

/-- the configured TTL after a call (`update_ttl` exists in utlru only) -/
def ttlAfter (c : Ctx) (s : RState) : Op → Nat
  | .updateTtl t => if c.kind == .utlru then t * msNs else s.ttl
  | _ => s.ttl

/-- `Explained`, strict: deadlines as the container computes them from the clock reading, the TTL argument
and the configured TTL; the configured TTL tracked; the state reached represented canonically (key-sorted) -/
def ExplainedD (c : Ctx) (s : RState) (now : Time) (op : Op) (s' : RState) (x : XOut) : Prop :=
  WF s' ∧ s'.ttl = ttlAfter c s op ∧
  ∃ atoms, OpAtomsD c (deadline c s now) op atoms x ∧
    ARun c.fl c.cap (absR s) (atoms.map (fun a => (now, a))) (absR s')

/-- `Explains`, strict -/
inductive ExplainsD (c : Ctx) : RState → List Event → Prop
  | nil (s) : ExplainsD c s []
  | cons {s s' x e es} : ExplainedD c s e.now e.op s' x → outOk x e.out = true → obsOk c s' e.now e.obs = true →
      ExplainsD c s' es → ExplainsD c s (e :: es)

theorem InsAtomsD.toInsAtoms {a : Allow} {dl : Nat → Time} {xs as n} (h : InsAtomsD a dl xs as n) :
    InsAtoms a xs as n := by
  induction h with
  | nil => exact .nil
  | cons _ ih => exact .cons ih

theorem OpAtomsD.toOpAtoms {c : Ctx} {dl : Nat → Time} {op as x} (h : OpAtomsD c dl op as x) :
    OpAtoms op as x := by
  cases h with
  | insert => exact .insert
  | insertRange h => exact .insertRange h.toInsAtoms
  | find => exact .find
  | findRange h => exact .findRange h
  | findCount => exact .findCount
  | erase => exact .erase
  | eraseRange h => exact .eraseRange h
  | clear => exact .clear
  | noClear => exact .noClear
  | clean => exact .clean
  | age => exact .age
  | updateTtl => exact .updateTtl
  | size => exact .size
  | empty => exact .empty
  | capacity => exact .capacity

/-- the strict notion is a strengthening of the one `accept_sound` concludes -/
theorem ExplainsD.toExplains {c : Ctx} {s : RState} {evs : List Event} (h : ExplainsD c s evs) :
    Explains c s evs := by
  induction h with
  | nil s => exact .nil s
  | cons h1 h2 h3 _ ih =>
    obtain ⟨_, _, atoms, ha, hr⟩ := h1
    exact .cons ⟨atoms, ha.toOpAtoms, hr⟩ h2 h3 ih

/-! ## well-formedness of a log -/

/-- every key a call may make resident is in the swept key universe `0 .. n-1` -/
def opKeysOk (n : Nat) : Op → Bool
  | .insert k _ _ _ => decide (k < n)
  | .insertRange xs _ => xs.all (fun x => decide (x.1 < n))
  | _ => true

/-- every inserted key is below `nkeys` (so the sweep shows it) -/
def logOk (nkeys : Nat) (evs : List Event) : Bool := evs.all (fun e => opKeysOk nkeys e.op)

/-! ## `ARun` inversion -/

theorem ARun.nil_inv {fl : Flavor} {cap : Nat} {a b : A} (h : ARun fl cap a [] b) : b = a := by
  cases h; rfl

theorem ARun.cons_inv {fl : Flavor} {cap : Nat} {a b : A} {now : Time} {x : Atom} {tr : List (Time × Atom)}
    (h : ARun fl cap a ((now, x) :: tr) b) : ∃ a1, AStep fl cap a now x a1 ∧ ARun fl cap a1 tr b := by
  cases h with
  | cons h1 h2 => exact ⟨_, h1, h2⟩

/-! ## simulation relation inside a call

Within a call the abstract state's `size` is exact except after the prologue of the unbounded containers
(`AStep .pre` only bounds it), where nothing reads it. -/

def Sim (c : Ctx) (t : RState) (a : A) : Prop :=
  (absR t).get = a.get ∧ (c.fl ≠ .eager → t.ents.length = a.size)

theorem Sim.of_eq {c : Ctx} {t : RState} {a : A} (h : absR t = a) : Sim c t a := by
  subst h; exact ⟨rfl, fun _ => rfl⟩

theorem deadline_ttl (c : Ctx) {s t : RState} (h : s.ttl = t.ttl) (now : Time) (tt : Nat) :
    deadline c s now tt = deadline c t now tt := by
  unfold deadline; rw [h]

theorem absR_get (t : RState) (k : Key) : (absR t).get k = (getE t.ents k).map (fun e => (e.val, e.dl)) := rfl

/-! ## per-primitive completeness -/

theorem ins1_complete (c : Ctx) (t : RState) (a a' : A) (now : Time) (k : Key) (v : Val) (al : Allow)
    (tt : Nat) (ok : Bool) (hw : WF t) (hs : Sim c t a)
    (h : AStep c.fl c.cap a now (.ins k v al (deadline c t now tt) ok) a') :
    ∃ t', (t', ok) ∈ ins1 c t now k v al tt none ∧ Sim c t' a' := by
  obtain ⟨hg1, hsz⟩ := hs
  unfold ins1
  cases hg : getE t.ents k with
  | some e =>
    have hget : a.get k = some (e.val, e.dl) := by rw [← hg1]; simp [absR, hg]
    simp only [AStep, hget] at h
    simp only
    by_cases hc : (al.upd || (c.fl == .lazy && al.ins && decide (e.dl ≤ now))) = true
    · have hc' : al.upd = true ∨ (c.fl = .lazy ∧ al.ins = true ∧ e.dl ≤ now) := by
        simpa [Bool.or_eq_true, Bool.and_eq_true, and_assoc] using hc
      rw [if_pos hc'] at h
      obtain ⟨rfl, h2, h3⟩ := h
      rw [if_pos hc]
      refine ⟨_, List.mem_singleton.mpr rfl, ?_, ?_⟩
      · show (absOf (put t.ents _)).get = _
        rw [absOf_put, h2, ← hg1]; rfl
      · intro hne
        show (put t.ents _).length = _
        rw [length_put_old (Sorted.nodup hw) (e := { key := k, val := v, dl := deadline c t now tt }) hg, h3]
        exact hsz hne
    · have hc' : ¬ (al.upd = true ∨ (c.fl = .lazy ∧ al.ins = true ∧ e.dl ≤ now)) := by
        simpa [Bool.or_eq_true, Bool.and_eq_true, and_assoc] using hc
      rw [if_neg hc'] at h
      obtain ⟨rfl, rfl⟩ := h
      rw [if_neg hc]
      exact ⟨_, List.mem_singleton.mpr rfl, hg1, hsz⟩
  | none =>
    have hget : a.get k = none := by rw [← hg1]; simp [absR, hg]
    simp only [AStep, hget] at h
    simp only
    by_cases hi : al.ins = true
    · rw [if_pos hi] at h
      rw [if_pos hi]
      obtain ⟨rfl, h⟩ := h
      by_cases hf : (c.fl != .eager && decide (c.cap ≤ t.ents.length)) = true
      · have hf0 : c.fl ≠ .eager ∧ c.cap ≤ t.ents.length := by
          simpa [Bool.and_eq_true] using hf
        have hf' : c.fl ≠ .eager ∧ c.cap ≤ a.size := ⟨hf0.1, by rw [← hsz hf0.1]; exact hf0.2⟩
        rw [if_pos hf'] at h
        obtain ⟨w, hw1, hw2, hw3⟩ := h
        rw [if_pos hf]
        have hw1' : ((absR t).get w).isSome = true := by rw [hg1]; exact hw1
        rw [absR_get, Option.isSome_map] at hw1'
        obtain ⟨ew, hew⟩ := Option.isSome_iff_exists.mp hw1'
        have hewk := getE_key hew
        have hewm := getE_mem hew
        refine ⟨_, List.mem_map.mpr ⟨ew, hewm, rfl⟩, ?_, ?_⟩
        · show (absOf (put (delE t.ents ew.key) _)).get = _
          rw [absOf_put, Tlru.absOf_delE, hw2, hewk, ← hg1]; rfl
        · intro _
          show (put (delE t.ents ew.key) _).length = _
          rw [length_put_new, hw3, ← hsz hf0.1]
          · exact length_delE_of_mem (Sorted.nodup hw) (List.mem_map_of_mem (f := (·.key)) hewm)
          · show getE (delE t.ents ew.key) k = none
            rw [getE_eq_none_iff, mem_keys_delE]
            exact fun hh => getE_eq_none_iff.mp hg hh.1
      · have hf' : ¬ (c.fl ≠ .eager ∧ c.cap ≤ a.size) := by
          intro hh
          apply hf
          have : c.cap ≤ t.ents.length := by rw [hsz hh.1]; exact hh.2
          simpa [Bool.and_eq_true] using ⟨hh.1, this⟩
        rw [if_neg hf'] at h
        rw [if_neg hf]
        refine ⟨_, List.mem_singleton.mpr rfl, ?_, ?_⟩
        · show (absOf (put t.ents _)).get = _
          rw [absOf_put, h.1, ← hg1]; rfl
        · intro hne
          show (put t.ents _).length = _
          rw [length_put_new (e := { key := k, val := v, dl := deadline c t now tt }) hg, h.2, hsz hne]
    · rw [if_neg hi] at h
      obtain ⟨rfl, rfl⟩ := h
      rw [if_neg hi]
      exact ⟨_, List.mem_singleton.mpr rfl, hg1, hsz⟩

theorem look1_complete (c : Ctx) (t : RState) (a a' : A) (now : Time) (k : Key) (peek : Bool)
    (r : Option (Val × Nat)) (hw : WF t) (hs : Sim c t a)
    (h : AStep c.fl c.cap a now (.look k peek r) a') :
    Sim c (look1 c t now k).1 a' ∧ (look1 c t now k).2 = r.map (·.1) := by
  obtain ⟨hg1, hsz⟩ := hs
  cases hg : getE t.ents k with
  | some e =>
    have hget : a.get k = some (e.val, e.dl) := by rw [← hg1]; simp [absR, hg]
    simp only [AStep, hget] at h
    by_cases hc : (c.fl == .lazy && decide (e.dl ≤ now)) = true
    · have hl : look1 c t now k = ({ t with ents := delE t.ents k }, none) := by
        simp only [look1, hg]; rw [if_pos hc]
      have hc' : c.fl = .lazy ∧ e.dl ≤ now := by simpa [Bool.and_eq_true] using hc
      rw [if_pos hc'] at h
      obtain ⟨rfl, h2, h3⟩ := h
      rw [hl]
      refine ⟨⟨?_, ?_⟩, rfl⟩
      · show (absOf (delE t.ents k)).get = _
        rw [Tlru.absOf_delE, h2, ← hg1]; rfl
      · intro hne
        show (delE t.ents k).length = _
        have h4 := length_delE_of_getE (Sorted.nodup hw) hg
        have h5 := hsz hne
        omega
    · have hl : look1 c t now k = (t, some e.val) := by
        simp only [look1, hg]; rw [if_neg hc]
      have hc' : ¬ (c.fl = .lazy ∧ e.dl ≤ now) := by simpa [Bool.and_eq_true] using hc
      rw [if_neg hc'] at h
      obtain ⟨h1, rfl⟩ := h
      rw [hl]
      exact ⟨⟨hg1, hsz⟩, h1.symm⟩
  | none =>
    have hget : a.get k = none := by rw [← hg1]; simp [absR, hg]
    simp only [AStep, hget] at h
    have hl : look1 c t now k = (t, none) := by simp only [look1, hg]
    obtain ⟨rfl, rfl⟩ := h
    rw [hl]
    exact ⟨⟨hg1, hsz⟩, rfl⟩

theorem del1_complete (c : Ctx) (t : RState) (a a' : A) (now : Time) (k : Key) (ok : Bool)
    (hw : WF t) (hs : Sim c t a) (h : AStep c.fl c.cap a now (.del k ok) a') :
    Sim c (del1 t k).1 a' ∧ (del1 t k).2 = ok := by
  obtain ⟨hg1, hsz⟩ := hs
  cases hg : getE t.ents k with
  | some e =>
    have hget : a.get k = some (e.val, e.dl) := by rw [← hg1]; simp [absR, hg]
    simp only [AStep, hget] at h
    have hl : del1 t k = ({ t with ents := delE t.ents k }, true) := by simp only [del1, hg]
    obtain ⟨rfl, h2, h3⟩ := h
    rw [hl]
    refine ⟨⟨?_, ?_⟩, rfl⟩
    · show (absOf (delE t.ents k)).get = _
      rw [Tlru.absOf_delE, h2, ← hg1]; rfl
    · intro hne
      show (delE t.ents k).length = _
      have h4 := length_delE_of_getE (Sorted.nodup hw) hg
      have h5 := hsz hne
      omega
  | none =>
    have hget : a.get k = none := by rw [← hg1]; simp [absR, hg]
    simp only [AStep, hget] at h
    have hl : del1 t k = (t, false) := by simp only [del1, hg]
    obtain ⟨rfl, rfl⟩ := h
    rw [hl]
    exact ⟨⟨hg1, hsz⟩, rfl⟩

theorem pre_complete (c : Ctx) (t : RState) (a a' : A) (now : Time)
    (hw : WF t) (hs : Sim c t a) (h : AStep c.fl c.cap a now .pre a') :
    Sim c (pre c t now) a' := by
  obtain ⟨hg1, hsz⟩ := hs
  simp only [AStep] at h
  unfold pre
  by_cases he : (c.fl == .eager) = true
  · have he' : c.fl = .eager := by simpa using he
    have hne : ¬ (c.fl == .plain) = true := by rw [he']; decide
    rw [if_pos he'] at h
    rw [if_pos he]
    unfold reap
    rw [if_neg hne]
    refine ⟨?_, fun hh => absurd he' hh⟩
    show (absOf (t.ents.filter _)).get = _
    rw [UtMap.absOf_filter_reap (Sorted.nodup hw), h.1, ← hg1]; rfl
  · have he' : ¬ c.fl = .eager := by simpa using he
    rw [if_neg he'] at h
    rw [if_neg he]
    subst h
    exact ⟨hg1, hsz⟩

/-! ## per-call completeness -/

theorem lookMany_complete (c : Ctx) (now : Time) (peek : Bool) :
    ∀ (ks : List Key) (as : List Atom) (rs : List (Option Val)), LookAtoms peek ks as rs →
    ∀ (t : RState) (a a' : A), WF t → Sim c t a →
    ARun c.fl c.cap a (as.map (fun x => (now, x))) a' →
    Sim c (lookMany c now ks t).1 a' ∧ (lookMany c now ks t).2 = rs := by
  intro ks as rs hl
  induction hl with
  | nil =>
    intro t a a' _ hs hr
    rw [ARun.nil_inv hr]
    exact ⟨hs, rfl⟩
  | @cons k r ks as rs _ ih =>
    intro t a a' hw hs hr
    obtain ⟨a1, h1, h2⟩ := ARun.cons_inv hr
    obtain ⟨hs1, ho1⟩ := look1_complete c t a a1 now k peek r hw hs h1
    obtain ⟨hs2, ho2⟩ := ih _ a1 a' (look1_sound c t now k peek hw).1 hs1 h2
    refine ⟨hs2, ?_⟩
    show (look1 c t now k).2 :: _ = _
    rw [ho1, ho2]

theorem delMany_complete (c : Ctx) (now : Time) :
    ∀ (ks : List Key) (as : List Atom) (n : Nat), DelAtoms ks as n →
    ∀ (t : RState) (a a' : A), WF t → Sim c t a →
    ARun c.fl c.cap a (as.map (fun x => (now, x))) a' →
    Sim c (delMany ks t).1 a' ∧ (delMany ks t).2 = n := by
  intro ks as n hl
  induction hl with
  | nil =>
    intro t a a' _ hs hr
    rw [ARun.nil_inv hr]
    exact ⟨hs, rfl⟩
  | @cons k ok ks as n _ ih =>
    intro t a a' hw hs hr
    obtain ⟨a1, h1, h2⟩ := ARun.cons_inv hr
    obtain ⟨hs1, ho1⟩ := del1_complete c t a a1 now k ok hw hs h1
    obtain ⟨hs2, ho2⟩ := ih _ a1 a' (del1_sound c t now k hw).1 hs1 h2
    refine ⟨hs2, ?_⟩
    show (if (del1 t k).2 then 1 else 0) + _ = _
    rw [ho1, ho2]

theorem mem_dedup_of_mem {α : Type} [DecidableEq α] {x : α} : ∀ {l : List α}, x ∈ l → x ∈ dedup l
  | [], h => by cases h
  | y :: ys, h => by
    unfold dedup
    by_cases hy : y ∈ ys
    · rw [if_pos hy]
      rcases List.mem_cons.mp h with h | h
      · rw [h]; exact mem_dedup_of_mem hy
      · exact mem_dedup_of_mem h
    · rw [if_neg hy]
      rcases List.mem_cons.mp h with h | h
      · rw [h]; exact List.mem_cons_self ..
      · exact List.mem_cons_of_mem _ (mem_dedup_of_mem h)

theorem insMany_complete (c : Ctx) (now : Time) (al : Allow) (dl : Nat → Time) :
    ∀ (xs : List (Key × Val × Nat)) (as : List Atom) (m : Nat), InsAtomsD al dl xs as m →
    ∀ (acc r : List (RState × Nat)) (t : RState) (n : Nat) (a a' : A),
    insMany c now al none xs acc = some r → (t, n) ∈ acc → WF t → Sim c t a →
    (∀ tt, dl tt = deadline c t now tt) →
    ARun c.fl c.cap a (as.map (fun x => (now, x))) a' →
    ∃ t', (t', n + m) ∈ r ∧ WF t' ∧ t'.ttl = t.ttl ∧ Sim c t' a' := by
  intro xs as m hl
  induction hl with
  | nil =>
    intro acc r t n a a' hi hm hw hs _ hr
    simp only [insMany, Option.some.injEq] at hi
    subst hi
    rw [ARun.nil_inv hr]
    exact ⟨t, hm, hw, rfl, hs⟩
  | @cons k v tt ok xs as m _ ih =>
    intro acc r t n a a' hi hm hw hs hdl hr
    simp only [insMany] at hi
    split at hi
    · cases hi
    · obtain ⟨a1, h1, h2⟩ := ARun.cons_inv hr
      rw [hdl tt] at h1
      obtain ⟨t1, hin, hs1⟩ := ins1_complete c t a a1 now k v al tt ok hw hs h1
      obtain ⟨hw1, httl1, _⟩ := ins1_sound c t now k v al tt none hw t1 ok hin
      have hmem : (t1, n + (if ok then 1 else 0)) ∈
          acc.flatMap (fun (s, n) => (ins1 c s now k v al tt none).map (fun (s', ok) => (s', n + (if ok then 1 else 0)))) := by
        rw [List.mem_flatMap]
        exact ⟨(t, n), hm, List.mem_map.mpr ⟨(t1, ok), hin, rfl⟩⟩
      obtain ⟨t', hr', hw', httl', hs'⟩ := ih _ r t1 _ a1 a' hi (mem_dedup_of_mem hmem) hw1 hs1
        (fun x => by rw [hdl x]; exact deadline_ttl c httl1.symm now x) h2
      refine ⟨t', ?_, hw', httl'.trans httl1, hs'⟩
      rw [Nat.add_assoc] at hr'
      exact hr'

/-! ## a key-sorted representation is determined by the reference state -/

/-- what the reference state and the observations see of an entry -/
def proj (e : Entry) : Key × Val × Time := (e.key, e.val, e.dl)

theorem getE_none_of_lt {l : List Entry} {k : Key} (h : ∀ z ∈ l, k < z.key) : getE l k = none := by
  rw [getE_eq_none_iff]
  intro hk
  obtain ⟨z, hz, hzk⟩ := List.mem_map.mp hk
  have h1 := h z hz
  have h2 : z.key = k := hzk
  rw [h2] at h1
  exact Nat.lt_irrefl _ h1

theorem sorted_ext : ∀ {l1 l2 : List Entry}, Sorted l1 → Sorted l2 →
    (∀ k, (getE l1 k).map (fun e => (e.val, e.dl)) = (getE l2 k).map (fun e => (e.val, e.dl))) →
    l1.map proj = l2.map proj
  | [], [], _, _, _ => rfl
  | [], y :: ys, _, _, h => by
    have := h y.key
    rw [getE_cons, if_pos rfl] at this
    simp at this
  | x :: xs, [], _, _, h => by
    have := h x.key
    rw [getE_cons, if_pos rfl] at this
    simp at this
  | x :: xs, y :: ys, h1, h2, h => by
    have h1' := List.pairwise_cons.mp h1
    have h2' := List.pairwise_cons.mp h2
    have hkey : x.key = y.key := by
      rcases Nat.lt_trichotomy x.key y.key with hlt | heq | hgt
      · exfalso
        have := h x.key
        rw [getE_cons, if_pos rfl, getE_cons, if_neg (Nat.ne_of_gt hlt),
          getE_none_of_lt (fun z hz => Nat.lt_trans hlt (h2'.1 z hz))] at this
        simp at this
      · exact heq
      · exfalso
        have := h y.key
        rw [getE_cons (l := ys), if_pos rfl, getE_cons, if_neg (Nat.ne_of_gt hgt),
          getE_none_of_lt (fun z hz => Nat.lt_trans hgt (h1'.1 z hz))] at this
        simp at this
    have hhead := h x.key
    rw [getE_cons, if_pos rfl, getE_cons, if_pos hkey.symm] at hhead
    simp only [Option.map_some, Option.some.injEq, Prod.mk.injEq] at hhead
    have htail : ∀ k, (getE xs k).map (fun e => (e.val, e.dl)) = (getE ys k).map (fun e => (e.val, e.dl)) := by
      intro k
      by_cases hk : k = x.key
      · rw [hk, getE_none_of_lt h1'.1, hkey, getE_none_of_lt h2'.1]
      · have := h k
        rw [getE_cons, if_neg (fun hh => hk hh.symm), getE_cons,
          if_neg (fun hh => hk (by rw [hkey]; exact hh.symm))] at this
        exact this
    have ih := sorted_ext h1'.2 h2'.2 htail
    simp only [List.map_cons, ih, proj, hkey, hhead.1, hhead.2]

theorem proj_of_get {s t : RState} (hs : WF s) (ht : WF t) (h : (absR s).get = (absR t).get) :
    s.ents.map proj = t.ents.map proj :=
  sorted_ext hs ht (fun k => congrFun h k)

theorem absR_eq_of_get {s t : RState} (hs : WF s) (ht : WF t) (h : (absR s).get = (absR t).get) :
    absR s = absR t := by
  apply A.ext' h
  show s.ents.length = t.ents.length
  have := congrArg List.length (proj_of_get hs ht h)
  simpa using this

/-- the sweep filter, on projections -/
def sweepP (c : Ctx) (now : Time) (x : Key × Val × Time) : Bool :=
  !(c.fl != .plain && decide (x.2.2 ≤ now)) && decide (x.1 < c.nkeys)

theorem sweepOf_eq (c : Ctx) (s : RState) (now : Time) :
    sweepOf c s now = ((s.ents.map proj).filter (sweepP c now)).map (fun x => (x.1, x.2.1)) := by
  unfold sweepOf
  rw [List.filter_map, List.map_map]
  rfl

theorem obsOk_congr (c : Ctx) {s t : RState} (h : s.ents.map proj = t.ents.map proj) (now : Time) (o : Obs) :
    obsOk c s now o = obsOk c t now o := by
  have hl : s.ents.length = t.ents.length := by
    have := congrArg List.length h
    simpa using this
  unfold obsOk
  rw [sweepOf_eq, sweepOf_eq, h, hl]

theorem lookMany_ttl (c : Ctx) (now : Time) : ∀ (ks : List Key) (s : RState), (lookMany c now ks s).1.ttl = s.ttl
  | [], _ => rfl
  | k :: ks, s => by
    show (lookMany c now ks (look1 c s now k).1).1.ttl = _
    rw [lookMany_ttl c now ks]
    unfold look1
    split
    · split <;> rfl
    · rfl

theorem delMany_ttl : ∀ (ks : List Key) (s : RState), (delMany ks s).1.ttl = s.ttl
  | [], _ => rfl
  | k :: ks, s => by
    show (delMany ks (del1 s k).1).1.ttl = _
    rw [delMany_ttl ks]
    unfold del1
    split <;> rfl

/-! ## completeness of the successor function (all victims tried) -/

theorem succ?_complete (c : Ctx) (s t s' : RState) (now : Time) (op : Op) (x : XOut)
    (hwt : WF t) (hrep : absR t = absR s) (httl : t.ttl = s.ttl)
    (hex : ExplainedD c s now op s' x) (l : List (RState × XOut))
    (hl : succ? c t now none op = some l) :
    ∃ t', (t', x) ∈ l ∧ WF t' ∧ absR t' = absR s' ∧ t'.ttl = s'.ttl := by
  obtain ⟨hws', httl', atoms, hat, hrun⟩ := hex
  rw [← hrep] at hrun
  -- it suffices to find the successor with the right `get` and TTL
  suffices hsuff : ∃ t', (t', x) ∈ l ∧ (absR t').get = (absR s').get ∧ t'.ttl = s'.ttl by
    obtain ⟨t', hm, hg, ht⟩ := hsuff
    have hw' := (succ?_sound c t now none op hwt l hl t' x hm).1
    exact ⟨t', hm, hw', absR_eq_of_get hw' hws' hg, ht⟩
  obtain ⟨hpw, hpttl, _⟩ := pre_sound c t now hwt
  have hs0 : Sim c t (absR t) := Sim.of_eq rfl
  cases hat with
  | @insert k v a tt ok =>
    simp only [succ?, succ, Option.some.injEq] at hl
    subst hl
    obtain ⟨a1, h1, hr2⟩ := ARun.cons_inv hrun
    obtain ⟨a2, h2, hr3⟩ := ARun.cons_inv hr2
    have := ARun.nil_inv hr3
    subst this
    have hs1 := pre_complete c t _ a1 now hwt hs0 h1
    rw [deadline_ttl c (httl.symm.trans hpttl.symm) now tt] at h2
    obtain ⟨t', hin, hs2⟩ := ins1_complete c _ a1 _ now k v a tt ok hpw hs1 h2
    obtain ⟨_, ht2, _⟩ := ins1_sound c _ now k v a tt none hpw t' ok hin
    refine ⟨t', List.mem_map.mpr ⟨(t', ok), hin, rfl⟩, hs2.1, ?_⟩
    rw [ht2, hpttl, httl, httl']; rfl
  | @insertRange xs a as n hins =>
    simp only [succ?, Option.map_eq_some_iff] at hl
    obtain ⟨r, hr, rfl⟩ := hl
    obtain ⟨a1, h1, hr2⟩ := ARun.cons_inv hrun
    have hs1 := pre_complete c t _ a1 now hwt hs0 h1
    obtain ⟨t', hin, _, ht2, hs2⟩ := insMany_complete c now a _ xs as n hins _ r (pre c t now) 0 a1 _ hr
      (List.mem_singleton.mpr rfl) hpw hs1
      (fun tt => deadline_ttl c (httl.symm.trans hpttl.symm) now tt) hr2
    refine ⟨t', List.mem_map.mpr ⟨(t', 0 + n), hin, ?_⟩, hs2.1, ?_⟩
    · simp
    · rw [ht2, hpttl, httl, httl']; rfl
  | @find k peek r =>
    simp only [succ?, succ, Option.some.injEq] at hl
    subst hl
    obtain ⟨a1, h1, hr2⟩ := ARun.cons_inv hrun
    obtain ⟨a2, h2, hr3⟩ := ARun.cons_inv hr2
    have := ARun.nil_inv hr3
    subst this
    have hs1 := pre_complete c t _ a1 now hwt hs0 h1
    obtain ⟨hs2, ho⟩ := look1_complete c _ a1 _ now k peek r hpw hs1 h2
    obtain ⟨_, ht2, _⟩ := look1_sound c (pre c t now) now k peek hpw
    refine ⟨_, List.mem_singleton.mpr (by rw [ho]), hs2.1, ?_⟩
    rw [ht2, hpttl, httl, httl']; rfl
  | @findRange ks peek as rs hla =>
    simp only [succ?, succ, Option.some.injEq] at hl
    subst hl
    obtain ⟨a1, h1, hr2⟩ := ARun.cons_inv hrun
    have hs1 := pre_complete c t _ a1 now hwt hs0 h1
    obtain ⟨hs2, ho⟩ := lookMany_complete c now peek ks as rs hla _ a1 _ hpw hs1 hr2
    refine ⟨_, List.mem_singleton.mpr (by rw [ho]), hs2.1, ?_⟩
    rw [lookMany_ttl, hpttl, httl, httl']; rfl
  | @findCount k peek r =>
    simp only [succ?, succ, Option.some.injEq] at hl
    subst hl
    obtain ⟨a1, h1, hr2⟩ := ARun.cons_inv hrun
    obtain ⟨a2, h2, hr3⟩ := ARun.cons_inv hr2
    have := ARun.nil_inv hr3
    subst this
    have hs1 := pre_complete c t _ a1 now hwt hs0 h1
    obtain ⟨hs2, ho⟩ := look1_complete c _ a1 _ now k peek r hpw hs1 h2
    obtain ⟨_, ht2, _⟩ := look1_sound c (pre c t now) now k peek hpw
    refine ⟨_, List.mem_singleton.mpr (by rw [ho]), hs2.1, ?_⟩
    rw [ht2, hpttl, httl, httl']; rfl
  | @erase k ok =>
    simp only [succ?, succ, Option.some.injEq] at hl
    subst hl
    obtain ⟨a1, h1, hr2⟩ := ARun.cons_inv hrun
    obtain ⟨a2, h2, hr3⟩ := ARun.cons_inv hr2
    have := ARun.nil_inv hr3
    subst this
    have hs1 := pre_complete c t _ a1 now hwt hs0 h1
    obtain ⟨hs2, ho⟩ := del1_complete c _ a1 _ now k ok hpw hs1 h2
    obtain ⟨_, ht2, _⟩ := del1_sound c (pre c t now) now k hpw
    refine ⟨_, List.mem_singleton.mpr (by rw [ho]), hs2.1, ?_⟩
    rw [ht2, hpttl, httl, httl']; rfl
  | @eraseRange ks as n hda =>
    simp only [succ?, succ, Option.some.injEq] at hl
    subst hl
    obtain ⟨a1, h1, hr2⟩ := ARun.cons_inv hrun
    have hs1 := pre_complete c t _ a1 now hwt hs0 h1
    obtain ⟨hs2, ho⟩ := delMany_complete c now ks as n hda _ a1 _ hpw hs1 hr2
    refine ⟨_, List.mem_singleton.mpr (by rw [ho]), hs2.1, ?_⟩
    rw [delMany_ttl, hpttl, httl, httl']; rfl
  | clear hc =>
    simp only [succ?, succ, Option.some.injEq] at hl
    subst hl
    obtain ⟨a1, h1, hr2⟩ := ARun.cons_inv hrun
    have := ARun.nil_inv hr2
    subst this
    simp only [AStep] at h1
    unfold hasClear at hc
    rw [if_pos hc]
    refine ⟨_, List.mem_singleton.mpr rfl, ?_, ?_⟩
    · rw [h1.1]; rfl
    · show t.ttl = _
      rw [httl, httl']; rfl
  | noClear hc =>
    simp only [succ?, succ, Option.some.injEq] at hl
    subst hl
    have := ARun.nil_inv hrun
    unfold hasClear at hc
    rw [if_neg (by rw [hc]; decide)]
    refine ⟨_, List.mem_singleton.mpr rfl, ?_, ?_⟩
    · rw [this]
    · rw [httl, httl']; rfl
  | @clean n =>
    simp only [succ?, succ, Option.some.injEq] at hl
    subst hl
    obtain ⟨a1, h1, hr2⟩ := ARun.cons_inv hrun
    have := ARun.nil_inv hr2
    subst this
    obtain ⟨hw2, ht2, h3⟩ := reap_sound c t now hwt
    simp only [AStep] at h1 h3
    have hg : (absR (reap c t now).1).get = (absR s').get ∧ (reap c t now).2 = n := by
      by_cases hp : c.fl = .plain
      · rw [if_pos hp] at h1 h3
        refine ⟨?_, ?_⟩
        · rw [h3.2, h1.2]
        · rw [h3.1, h1.1]
      · rw [if_neg hp] at h1 h3
        have hget : (absR (reap c t now).1).get = (absR s').get := by rw [h3.1, h1.1]
        refine ⟨hget, ?_⟩
        have := congrArg A.size (absR_eq_of_get hw2 hws' hget)
        have h32 := h3.2
        have h12 := h1.2
        omega
    refine ⟨_, List.mem_singleton.mpr (by rw [hg.2]), hg.1, ?_⟩
    rw [ht2, httl, httl']; rfl
  | @age n =>
    simp only [succ?, succ, Option.some.injEq] at hl
    subst hl
    obtain ⟨a1, h1, hr2⟩ := ARun.cons_inv hrun
    have := ARun.nil_inv hr2
    subst this
    simp only [AStep] at h1
    refine ⟨_, List.mem_singleton.mpr rfl, by rw [h1], ?_⟩
    rw [httl, httl']; rfl
  | @updateTtl tt =>
    simp only [succ?, succ, Option.some.injEq] at hl
    subst hl
    obtain ⟨a1, h1, hr2⟩ := ARun.cons_inv hrun
    have := ARun.nil_inv hr2
    subst this
    simp only [AStep] at h1
    refine ⟨_, List.mem_singleton.mpr rfl, ?_, ?_⟩
    · rw [h1]; split <;> rfl
    · rw [httl']
      show (if c.kind == .utlru then { t with ttl := tt * msNs } else t).ttl = if c.kind == .utlru then tt * msNs else s.ttl
      split
      · rfl
      · exact httl
  | @size n =>
    simp only [succ?, succ, Option.some.injEq] at hl
    subst hl
    obtain ⟨a1, h1, hr2⟩ := ARun.cons_inv hrun
    have := ARun.nil_inv hr2
    subst this
    simp only [AStep] at h1
    refine ⟨_, List.mem_singleton.mpr (by rw [h1.1]; rfl), by rw [h1.2], ?_⟩
    rw [httl, httl']; rfl
  | @empty b =>
    simp only [succ?, succ, Option.some.injEq] at hl
    subst hl
    obtain ⟨a1, h1, hr2⟩ := ARun.cons_inv hrun
    have := ARun.nil_inv hr2
    subst this
    simp only [AStep] at h1
    refine ⟨_, List.mem_singleton.mpr (by rw [h1.1]; rfl), by rw [h1.2], ?_⟩
    rw [httl, httl']; rfl
  | @capacity n hn =>
    simp only [succ?, succ, Option.some.injEq] at hl
    subst hl
    obtain ⟨a1, h1, hr2⟩ := ARun.cons_inv hrun
    have := ARun.nil_inv hr2
    subst this
    simp only [AStep] at h1
    have hcap : (if c.fl == .eager then 0 else c.cap) = n := by
      by_cases he : c.fl = .eager
      · rw [hn he]; simp [he]
      · rw [h1.1 he]; simp [he]
    refine ⟨_, List.mem_singleton.mpr (by rw [hcap]), by rw [h1.2], ?_⟩
    rw [httl, httl']; rfl

/-! ## where the entries of a successor come from -/

/-- keys a call may make resident -/
def insKeys : Op → List Key
  | .insert k _ _ _ => [k]
  | .insertRange xs _ => xs.map (·.1)
  | _ => []

/-- a freshly written entry, as the acceptor builds it -/
def Fresh (c : Ctx) (s : RState) (now : Time) (ks : List Key) (e : Entry) : Prop :=
  ∃ k v tt, k ∈ ks ∧ e = { key := k, val := v, dl := deadline c s now tt }

theorem Fresh.mono {c : Ctx} {s s2 : RState} {now : Time} {ks ks2 : List Key} {e : Entry}
    (h : Fresh c s now ks e) (httl : s.ttl = s2.ttl) (hk : ∀ k ∈ ks, k ∈ ks2) : Fresh c s2 now ks2 e := by
  obtain ⟨k, v, tt, hm, rfl⟩ := h
  exact ⟨k, v, tt, hk k hm, by rw [deadline_ttl c httl]⟩

theorem mem_put {l : List Entry} {e x : Entry} (h : x ∈ put l e) : x = e ∨ x ∈ l := by
  unfold put at h
  rcases mem_insSorted.mp h with h | h
  · exact Or.inl h
  · exact Or.inr (List.mem_filter.mp h).1

theorem mem_delE {l : List Entry} {k : Key} {x : Entry} (h : x ∈ delE l k) : x ∈ l :=
  (List.mem_filter.mp h).1

theorem ins1_ents (c : Ctx) (s : RState) (now : Time) (k : Key) (v : Val) (a : Allow) (t : Nat)
    (surv : Option (List Key)) (s' : RState) (ok : Bool) (h : (s', ok) ∈ ins1 c s now k v a t surv) :
    ∀ e ∈ s'.ents, e ∈ s.ents ∨ e = { key := k, val := v, dl := deadline c s now t } := by
  unfold ins1 at h
  intro e he
  split at h
  · split at h
    · simp only [List.mem_singleton, Prod.mk.injEq] at h
      obtain ⟨rfl, _⟩ := h
      rcases mem_put he with h1 | h1
      · exact Or.inr h1
      · exact Or.inl h1
    · simp only [List.mem_singleton, Prod.mk.injEq] at h
      obtain ⟨rfl, _⟩ := h
      exact Or.inl he
  · split at h
    · split at h
      · simp only [List.mem_map, Prod.mk.injEq] at h
        obtain ⟨w, _, rfl, _⟩ := h
        rcases mem_put he with h1 | h1
        · exact Or.inr h1
        · exact Or.inl (mem_delE h1)
      · simp only [List.mem_singleton, Prod.mk.injEq] at h
        obtain ⟨rfl, _⟩ := h
        rcases mem_put he with h1 | h1
        · exact Or.inr h1
        · exact Or.inl h1
    · simp only [List.mem_singleton, Prod.mk.injEq] at h
      obtain ⟨rfl, _⟩ := h
      exact Or.inl he

theorem ins1_ttl (c : Ctx) (s : RState) (now : Time) (k : Key) (v : Val) (a : Allow) (t : Nat)
    (surv : Option (List Key)) (s' : RState) (ok : Bool) (hin : (s', ok) ∈ ins1 c s now k v a t surv) :
    s'.ttl = s.ttl := by
  unfold ins1 at hin
  split at hin
  · split at hin <;>
    · simp only [List.mem_singleton, Prod.mk.injEq] at hin
      obtain ⟨rfl, _⟩ := hin
      rfl
  · split at hin
    · split at hin
      · simp only [List.mem_map, Prod.mk.injEq] at hin
        obtain ⟨w, _, rfl, _⟩ := hin
        rfl
      · simp only [List.mem_singleton, Prod.mk.injEq] at hin
        obtain ⟨rfl, _⟩ := hin
        rfl
    · simp only [List.mem_singleton, Prod.mk.injEq] at hin
      obtain ⟨rfl, _⟩ := hin
      rfl

theorem look1_ttl (c : Ctx) (s : RState) (now : Time) (k : Key) : (look1 c s now k).1.ttl = s.ttl := by
  unfold look1
  split
  · split <;> rfl
  · rfl

theorem del1_ttl (s : RState) (k : Key) : (del1 s k).1.ttl = s.ttl := by
  unfold del1
  split <;> rfl

theorem reap_ttl (c : Ctx) (s : RState) (now : Time) : (reap c s now).1.ttl = s.ttl := by
  unfold reap
  split <;> rfl

theorem pre_ttl (c : Ctx) (s : RState) (now : Time) : (pre c s now).ttl = s.ttl := by
  unfold pre
  split
  · exact reap_ttl c s now
  · rfl

theorem look1_ents (c : Ctx) (s : RState) (now : Time) (k : Key) :
    ∀ e ∈ (look1 c s now k).1.ents, e ∈ s.ents := by
  intro e he
  unfold look1 at he
  split at he
  · split at he
    · exact mem_delE he
    · exact he
  · exact he

theorem del1_ents (s : RState) (k : Key) : ∀ e ∈ (del1 s k).1.ents, e ∈ s.ents := by
  intro e he
  unfold del1 at he
  split at he
  · exact mem_delE he
  · exact he

theorem lookMany_ents (c : Ctx) (now : Time) : ∀ (ks : List Key) (s : RState),
    ∀ e ∈ (lookMany c now ks s).1.ents, e ∈ s.ents
  | [], _, _, he => he
  | k :: ks, s, e, he => look1_ents c s now k e (lookMany_ents c now ks _ e he)

theorem delMany_ents : ∀ (ks : List Key) (s : RState), ∀ e ∈ (delMany ks s).1.ents, e ∈ s.ents
  | [], _, _, he => he
  | k :: ks, s, e, he => del1_ents s k e (delMany_ents ks _ e he)

theorem reap_ents (c : Ctx) (s : RState) (now : Time) :
    ∀ e ∈ (reap c s now).1.ents, e ∈ s.ents ∧ (c.fl ≠ .plain → now < e.dl) := by
  intro e he
  unfold reap at he
  split at he
  · next hp =>
    have hp' : c.fl = .plain := by simpa using hp
    exact ⟨he, fun hh => absurd hp' hh⟩
  · have := List.mem_filter.mp he
    exact ⟨this.1, fun _ => by simpa using this.2⟩

theorem pre_ents (c : Ctx) (s : RState) (now : Time) :
    ∀ e ∈ (pre c s now).ents, e ∈ s.ents ∧ (c.fl = .eager → now < e.dl) := by
  intro e he
  unfold pre at he
  split at he
  · next hp =>
    have hp' : c.fl = .eager := by simpa using hp
    have := reap_ents c s now e he
    exact ⟨this.1, fun _ => this.2 (by rw [hp']; decide)⟩
  · next hp =>
    have hp' : ¬ c.fl = .eager := by simpa using hp
    exact ⟨he, fun hh => absurd hh hp'⟩

theorem insMany_ents (c : Ctx) (now : Time) (a : Allow) (surv : Option (List Key)) :
    ∀ (xs : List (Key × Val × Nat)) (acc r : List (RState × Nat)),
    insMany c now a surv xs acc = some r →
    ∀ p ∈ r, ∃ q ∈ acc, p.1.ttl = q.1.ttl ∧
      ∀ e ∈ p.1.ents, e ∈ q.1.ents ∨ Fresh c q.1 now (xs.map (·.1)) e
  | [], acc, r, h, p, hp => by
    simp only [insMany, Option.some.injEq] at h
    subst h
    exact ⟨p, hp, rfl, fun e he => Or.inl he⟩
  | (k, v, t) :: xs, acc, r, h, p, hp => by
    simp only [insMany] at h
    split at h
    · cases h
    · obtain ⟨q, hq, hpq, hents⟩ := insMany_ents c now a surv xs _ r h p hp
      have hq' := mem_of_mem_dedup hq
      rw [List.mem_flatMap] at hq'
      obtain ⟨⟨s, n⟩, hmem, hq'⟩ := hq'
      simp only [List.mem_map] at hq'
      obtain ⟨⟨s', ok⟩, hin, rfl⟩ := hq'
      have httl : s'.ttl = s.ttl := ins1_ttl c s now k v a t surv s' ok hin
      refine ⟨(s, n), hmem, hpq.trans httl, ?_⟩
      intro e he
      rcases hents e he with h1 | h1
      · rcases ins1_ents c s now k v a t surv s' ok hin e h1 with h2 | h2
        · exact Or.inl h2
        · exact Or.inr ⟨k, v, t, List.mem_cons_self .., h2⟩
      · exact Or.inr (h1.mono httl (fun k' hk' => List.mem_cons_of_mem _ hk'))

/-- every entry of a successor is an old one (live, if the call starts with the purge of the unbounded
containers) or a fresh one for an inserted key; the TTL evolves as `ttlAfter` says -/
theorem succ?_ents (c : Ctx) (s : RState) (now : Time) (surv : Option (List Key)) (op : Op)
    (l : List (RState × XOut)) (h : succ? c s now surv op = some l)
    (s' : RState) (x : XOut) (hm : (s', x) ∈ l) :
    s'.ttl = ttlAfter c s op ∧
    ∀ e ∈ s'.ents, (e ∈ s.ents ∧ (c.fl = .eager → purges op = true → now < e.dl)) ∨
      Fresh c s now (insKeys op) e := by
  have hpttl := pre_ttl c s now
  have hpre := pre_ents c s now
  cases op with
  | insert k v a t =>
    simp only [succ?, succ, Option.some.injEq] at h
    subst h
    simp only [List.mem_map] at hm
    obtain ⟨⟨s1, ok⟩, hin, heq⟩ := hm
    simp only [Prod.mk.injEq] at heq
    obtain ⟨rfl, rfl⟩ := heq
    refine ⟨(ins1_ttl c _ now k v a t none s1 ok hin).trans hpttl, fun e he => ?_⟩
    rcases ins1_ents c _ now k v a t none s1 ok hin e he with h1 | h1
    · exact Or.inl ⟨(hpre e h1).1, fun h2 _ => (hpre e h1).2 h2⟩
    · exact Or.inr ⟨k, v, t, List.mem_singleton.mpr rfl, by rw [h1, deadline_ttl c hpttl]⟩
  | insertRange xs a =>
    simp only [succ?, Option.map_eq_some_iff] at h
    obtain ⟨r, hr, rfl⟩ := h
    simp only [List.mem_map] at hm
    obtain ⟨⟨s1, n⟩, hin, heq⟩ := hm
    simp only [Prod.mk.injEq] at heq
    obtain ⟨rfl, rfl⟩ := heq
    obtain ⟨q, hq, hqt, hents⟩ := insMany_ents c now a surv xs _ r hr _ hin
    rw [List.mem_singleton.mp hq] at hqt hents
    refine ⟨hqt.trans hpttl, fun e he => ?_⟩
    rcases hents e he with h1 | h1
    · exact Or.inl ⟨(hpre e h1).1, fun h2 _ => (hpre e h1).2 h2⟩
    · exact Or.inr (h1.mono hpttl (fun _ hk => hk))
  | find k peek =>
    simp only [succ?, succ, Option.some.injEq] at h
    subst h
    simp only [List.mem_singleton, Prod.mk.injEq] at hm
    obtain ⟨rfl, rfl⟩ := hm
    refine ⟨(look1_ttl c _ now k).trans hpttl, fun e he => ?_⟩
    have h1 := look1_ents c _ now k e he
    exact Or.inl ⟨(hpre e h1).1, fun h2 _ => (hpre e h1).2 h2⟩
  | findRange ks peek =>
    simp only [succ?, succ, Option.some.injEq] at h
    subst h
    simp only [List.mem_singleton, Prod.mk.injEq] at hm
    obtain ⟨rfl, rfl⟩ := hm
    refine ⟨(lookMany_ttl c now ks _).trans hpttl, fun e he => ?_⟩
    have h1 := lookMany_ents c now ks _ e he
    exact Or.inl ⟨(hpre e h1).1, fun h2 _ => (hpre e h1).2 h2⟩
  | findCount k peek =>
    simp only [succ?, succ, Option.some.injEq] at h
    subst h
    simp only [List.mem_singleton, Prod.mk.injEq] at hm
    obtain ⟨rfl, rfl⟩ := hm
    refine ⟨(look1_ttl c _ now k).trans hpttl, fun e he => ?_⟩
    have h1 := look1_ents c _ now k e he
    exact Or.inl ⟨(hpre e h1).1, fun h2 _ => (hpre e h1).2 h2⟩
  | erase k =>
    simp only [succ?, succ, Option.some.injEq] at h
    subst h
    simp only [List.mem_singleton, Prod.mk.injEq] at hm
    obtain ⟨rfl, rfl⟩ := hm
    refine ⟨(del1_ttl _ k).trans hpttl, fun e he => ?_⟩
    have h1 := del1_ents _ k e he
    exact Or.inl ⟨(hpre e h1).1, fun h2 _ => (hpre e h1).2 h2⟩
  | eraseRange ks =>
    simp only [succ?, succ, Option.some.injEq] at h
    subst h
    simp only [List.mem_singleton, Prod.mk.injEq] at hm
    obtain ⟨rfl, rfl⟩ := hm
    refine ⟨(delMany_ttl ks _).trans hpttl, fun e he => ?_⟩
    have h1 := delMany_ents ks _ e he
    exact Or.inl ⟨(hpre e h1).1, fun h2 _ => (hpre e h1).2 h2⟩
  | clear =>
    simp only [succ?, succ, Option.some.injEq] at h
    subst h
    split at hm
    · simp only [List.mem_singleton, Prod.mk.injEq] at hm
      obtain ⟨rfl, rfl⟩ := hm
      exact ⟨rfl, fun e he => by cases he⟩
    · simp only [List.mem_singleton, Prod.mk.injEq] at hm
      obtain ⟨rfl, rfl⟩ := hm
      exact ⟨rfl, fun e he => Or.inl ⟨he, fun _ hp => by simp [purges] at hp⟩⟩
  | clean =>
    simp only [succ?, succ, Option.some.injEq] at h
    subst h
    simp only [List.mem_singleton, Prod.mk.injEq] at hm
    obtain ⟨rfl, rfl⟩ := hm
    refine ⟨reap_ttl c s now, fun e he => ?_⟩
    have h1 := reap_ents c s now e he
    exact Or.inl ⟨h1.1, fun h2 _ => h1.2 (by rw [h2]; decide)⟩
  | age =>
    simp only [succ?, succ, Option.some.injEq] at h
    subst h
    simp only [List.mem_singleton, Prod.mk.injEq] at hm
    obtain ⟨rfl, rfl⟩ := hm
    exact ⟨rfl, fun e he => Or.inl ⟨he, fun _ hp => by simp [purges] at hp⟩⟩
  | updateTtl t =>
    simp only [succ?, succ, Option.some.injEq] at h
    subst h
    simp only [List.mem_singleton, Prod.mk.injEq] at hm
    obtain ⟨rfl, rfl⟩ := hm
    refine ⟨?_, fun e he => Or.inl ⟨?_, fun _ hp => by simp [purges] at hp⟩⟩
    · show _ = if c.kind == .utlru then t * msNs else s.ttl
      split <;> rfl
    · split at he <;> exact he
  | size =>
    simp only [succ?, succ, Option.some.injEq] at h
    subst h
    simp only [List.mem_singleton, Prod.mk.injEq] at hm
    obtain ⟨rfl, rfl⟩ := hm
    exact ⟨rfl, fun e he => Or.inl ⟨he, fun _ hp => by simp [purges] at hp⟩⟩
  | empty =>
    simp only [succ?, succ, Option.some.injEq] at h
    subst h
    simp only [List.mem_singleton, Prod.mk.injEq] at hm
    obtain ⟨rfl, rfl⟩ := hm
    exact ⟨rfl, fun e he => Or.inl ⟨he, fun _ hp => by simp [purges] at hp⟩⟩
  | capacity =>
    simp only [succ?, succ, Option.some.injEq] at h
    subst h
    simp only [List.mem_singleton, Prod.mk.injEq] at hm
    obtain ⟨rfl, rfl⟩ := hm
    exact ⟨rfl, fun e he => Or.inl ⟨he, fun _ hp => by simp [purges] at hp⟩⟩

/-! ## invariant of the candidates -/

/-- what every candidate the acceptor builds satisfies: key-sorted, all keys in the swept universe, entries
built canonically (no deadline in the plain flavor), the configured TTL constant except in utlru -/
structure Good (c : Ctx) (ttl0 : Nat) (t : RState) : Prop where
  wf : WF t
  ents : ∀ e ∈ t.ents, e.key < c.nkeys ∧ e.cnt = 0 ∧ e.stamp = 0 ∧ e.slot = 0 ∧ (c.fl = .plain → e.dl = 0)
  ttl : c.kind ≠ .utlru → t.ttl = ttl0

theorem deadline_plain (c : Ctx) (hfl : c.fl = flavorOf c.kind) (hp : c.fl = .plain) (s : RState)
    (now : Time) (tt : Nat) : deadline c s now tt = 0 := by
  rw [hfl] at hp
  unfold deadline
  revert hp
  cases c.kind <;> simp [flavorOf]

theorem deadline_eager (c : Ctx) (hfl : c.fl = flavorOf c.kind) (hp : c.fl = .eager) (s : RState)
    (now : Time) (tt : Nat) : deadline c s now tt = now + s.ttl := by
  rw [hfl] at hp
  unfold deadline
  revert hp
  cases c.kind <;> simp [flavorOf]

theorem kind_ne_utlru (c : Ctx) (hfl : c.fl = flavorOf c.kind) (hp : c.fl ≠ .lazy) : c.kind ≠ .utlru := by
  intro hk
  apply hp
  rw [hfl, hk]; rfl

theorem insKeys_lt {n : Nat} {op : Op} (h : opKeysOk n op = true) {k : Key} (hk : k ∈ insKeys op) : k < n := by
  cases op with
  | insert k' v a t =>
    simp only [insKeys, List.mem_singleton] at hk
    subst hk
    simpa [opKeysOk] using h
  | insertRange xs a =>
    simp only [insKeys, List.mem_map] at hk
    obtain ⟨x, hx, rfl⟩ := hk
    simp only [opKeysOk, List.all_eq_true, decide_eq_true_eq] at h
    exact h x hx
  | _ => cases hk

theorem ttlAfter_eq (c : Ctx) (s : RState) (op : Op) (hk : c.kind ≠ .utlru) : ttlAfter c s op = s.ttl := by
  cases op <;> simp [ttlAfter, hk]

theorem good_of_ents (c : Ctx) (hfl : c.fl = flavorOf c.kind) (ttl0 : Nat) (s s' : RState) (now : Time) (op : Op)
    (hg : Good c ttl0 s) (hw' : WF s') (httl : s'.ttl = ttlAfter c s op)
    (hents : ∀ e ∈ s'.ents, (e ∈ s.ents ∧ (c.fl = .eager → purges op = true → now < e.dl)) ∨
      Fresh c s now (insKeys op) e)
    (hok : opKeysOk c.nkeys op = true) : Good c ttl0 s' := by
  refine ⟨hw', fun e he => ?_, fun hk => ?_⟩
  · rcases hents e he with h1 | ⟨k, v, tt, hk, rfl⟩
    · exact hg.ents e h1.1
    · exact ⟨insKeys_lt hok hk, rfl, rfl, rfl, fun hp => deadline_plain c hfl hp s now tt⟩
  · rw [httl, ttlAfter_eq c s op hk]
    exact hg.ttl hk

theorem live_of_ents (c : Ctx) (hfl : c.fl = flavorOf c.kind) (s s' : RState) (now : Time) (op : Op)
    (he : c.fl = .eager) (hp : purges op = true) (hpos : 0 < s.ttl)
    (hents : ∀ e ∈ s'.ents, (e ∈ s.ents ∧ (c.fl = .eager → purges op = true → now < e.dl)) ∨
      Fresh c s now (insKeys op) e) :
    ∀ e ∈ s'.ents, now < e.dl := by
  intro e hm
  rcases hents e hm with h1 | ⟨k, v, tt, hk, rfl⟩
  · exact h1.2 he hp
  · show now < deadline c s now tt
    rw [deadline_eager c hfl he]
    exact Nat.lt_add_of_pos_right hpos

theorem succ?_good (c : Ctx) (hfl : c.fl = flavorOf c.kind) (ttl0 : Nat) (s : RState) (now : Time)
    (surv : Option (List Key)) (op : Op) (hg : Good c ttl0 s) (hok : opKeysOk c.nkeys op = true)
    (l : List (RState × XOut)) (h : succ? c s now surv op = some l)
    (s' : RState) (x : XOut) (hm : (s', x) ∈ l) : Good c ttl0 s' := by
  obtain ⟨h1, h2⟩ := succ?_ents c s now surv op l h s' x hm
  exact good_of_ents c hfl ttl0 s s' now op hg (succ?_sound c s now surv op hg.wf l h s' x hm).1 h1 h2 hok

/-- the explaining run of a range insert, replayed on a representation (no candidate limit involved) -/
theorem insAtoms_rep (c : Ctx) (now : Time) (al : Allow) (dl : Nat → Time) :
    ∀ (xs : List (Key × Val × Nat)) (as : List Atom) (m : Nat), InsAtomsD al dl xs as m →
    ∀ (t : RState) (a a' : A), WF t → Sim c t a → (∀ tt, dl tt = deadline c t now tt) →
    ARun c.fl c.cap a (as.map (fun x => (now, x))) a' →
    ∃ t', WF t' ∧ t'.ttl = t.ttl ∧ Sim c t' a' ∧
      ∀ e ∈ t'.ents, e ∈ t.ents ∨ Fresh c t now (xs.map (·.1)) e := by
  intro xs as m hl
  induction hl with
  | nil =>
    intro t a a' hw hs _ hr
    rw [ARun.nil_inv hr]
    exact ⟨t, hw, rfl, hs, fun e he => Or.inl he⟩
  | @cons k v tt ok xs as m _ ih =>
    intro t a a' hw hs hdl hr
    obtain ⟨a1, h1, h2⟩ := ARun.cons_inv hr
    rw [hdl tt] at h1
    obtain ⟨t1, hin, hs1⟩ := ins1_complete c t a a1 now k v al tt ok hw hs h1
    obtain ⟨hw1, httl1, _⟩ := ins1_sound c t now k v al tt none hw t1 ok hin
    obtain ⟨t', hw', httl', hs', hents⟩ := ih t1 a1 a' hw1 hs1
      (fun x => by rw [hdl x]; exact deadline_ttl c httl1.symm now x) h2
    refine ⟨t', hw', httl'.trans httl1, hs', fun e he => ?_⟩
    rcases hents e he with h3 | h3
    · rcases ins1_ents c t now k v al tt none t1 ok hin e h3 with h4 | h4
      · exact Or.inl h4
      · exact Or.inr ⟨k, v, tt, List.mem_cons_self .., h4⟩
    · exact Or.inr (h3.mono httl1 (fun k' hk' => List.mem_cons_of_mem _ hk'))

/-- the state an explained call reaches has a representation with the invariant of the candidates,
whether or not the acceptor enumerates it (it may give up on a long range insert) -/
theorem rep_exists (c : Ctx) (hfl : c.fl = flavorOf c.kind) (ttl0 : Nat) (s t s' : RState) (now : Time)
    (op : Op) (x : XOut) (hg : Good c ttl0 t) (hrep : absR t = absR s) (httl : t.ttl = s.ttl)
    (hex : ExplainedD c s now op s' x) (hok : opKeysOk c.nkeys op = true) :
    ∃ t', Good c ttl0 t' ∧ absR t' = absR s' ∧ t'.ttl = s'.ttl ∧
      (c.fl = .eager → purges op = true → 0 < t.ttl → ∀ e ∈ t'.ents, now < e.dl) := by
  cases hsucc : succ? c t now none op with
  | some l =>
    obtain ⟨t', hm, _, hab, ht⟩ := succ?_complete c s t s' now op x hg.wf hrep httl hex l hsucc
    obtain ⟨_, h2⟩ := succ?_ents c t now none op l hsucc t' x hm
    exact ⟨t', succ?_good c hfl ttl0 t now none op hg hok l hsucc t' x hm, hab, ht,
      fun he hp hpos => live_of_ents c hfl t t' now op he hp hpos h2⟩
  | none =>
    cases op with
    | insertRange xs a =>
      obtain ⟨hws', httl', atoms, hat, hrun⟩ := hex
      rw [← hrep] at hrun
      obtain ⟨hpw, hpttl, _⟩ := pre_sound c t now hg.wf
      cases hat with
      | @insertRange _ _ as n hins =>
        obtain ⟨a1, h1, hr2⟩ := ARun.cons_inv hrun
        have hs1 := pre_complete c t _ a1 now hg.wf (Sim.of_eq rfl) h1
        obtain ⟨t', hw', ht2, hs2, hents⟩ := insAtoms_rep c now a _ xs as n hins (pre c t now) a1 _ hpw hs1
          (fun tt => deadline_ttl c (httl.symm.trans hpttl.symm) now tt) hr2
        have hpre := pre_ents c t now
        have hents' : ∀ e ∈ t'.ents, (e ∈ t.ents ∧ (c.fl = .eager → purges (.insertRange xs a) = true → now < e.dl)) ∨
            Fresh c t now (insKeys (.insertRange xs a)) e := by
          intro e he
          rcases hents e he with h3 | h3
          · exact Or.inl ⟨(hpre e h3).1, fun h4 _ => (hpre e h3).2 h4⟩
          · exact Or.inr (h3.mono hpttl (fun _ hk => hk))
        have httl2 : t'.ttl = ttlAfter c t (.insertRange xs a) := ht2.trans hpttl
        refine ⟨t', good_of_ents c hfl ttl0 t t' now _ hg hw' httl2 hents' hok,
          absR_eq_of_get hw' hws' hs2.1, ?_, fun he hp hpos => live_of_ents c hfl t t' now _ he hp hpos hents'⟩
        rw [httl2, httl']
        show t.ttl = s.ttl
        exact httl
    | _ => simp [succ?] at hsucc

/-! ## plain flavor: the sweep determines the candidate -/

theorem entry_ext {e1 e2 : Entry} (h1 : e1.key = e2.key) (h2 : e1.val = e2.val) (h3 : e1.dl = e2.dl)
    (h4 : e1.cnt = e2.cnt) (h5 : e1.stamp = e2.stamp) (h6 : e1.slot = e2.slot) : e1 = e2 := by
  cases e1; cases e2; simp_all

theorem ents_eq_of_kv : ∀ {l1 l2 : List Entry},
    (∀ e ∈ l1, e.cnt = 0 ∧ e.stamp = 0 ∧ e.slot = 0 ∧ e.dl = 0) →
    (∀ e ∈ l2, e.cnt = 0 ∧ e.stamp = 0 ∧ e.slot = 0 ∧ e.dl = 0) →
    l1.map (fun e => (e.key, e.val)) = l2.map (fun e => (e.key, e.val)) → l1 = l2
  | [], [], _, _, _ => rfl
  | [], _ :: _, _, _, h => by simp at h
  | _ :: _, [], _, _, h => by simp at h
  | x :: xs, y :: ys, h1, h2, h => by
    simp only [List.map_cons, List.cons.injEq, Prod.mk.injEq] at h
    have hx := h1 x (List.mem_cons_self ..)
    have hy := h2 y (List.mem_cons_self ..)
    have hxy : x = y := entry_ext h.1.1 h.1.2 (by rw [hx.2.2.2, hy.2.2.2]) (by rw [hx.1, hy.1])
      (by rw [hx.2.1, hy.2.1]) (by rw [hx.2.2.1, hy.2.2.1])
    rw [hxy, ents_eq_of_kv (fun e he => h1 e (List.mem_cons_of_mem _ he))
      (fun e he => h2 e (List.mem_cons_of_mem _ he)) h.2]

theorem obsOk_sweep {c : Ctx} {s : RState} {now : Time} {o : Obs} (h : obsOk c s now o = true) :
    sweepOf c s now = o.sweep.map (fun (k, v, _) => (k, v)) := by
  unfold obsOk at h
  simp only [Bool.and_eq_true, beq_iff_eq] at h
  exact h.2

theorem obsOk_size {c : Ctx} {s : RState} {now : Time} {o : Obs} (h : obsOk c s now o = true) :
    s.ents.length = o.size := by
  unfold obsOk at h
  simp only [Bool.and_eq_true, beq_iff_eq] at h
  exact h.1.1.1

theorem sweepOf_all (c : Ctx) (ttl0 : Nat) (q : RState) (now : Time) (hg : Good c ttl0 q)
    (hlive : ∀ e ∈ q.ents, c.fl = .plain ∨ now < e.dl) :
    sweepOf c q now = q.ents.map (fun e => (e.key, e.val)) := by
  unfold sweepOf
  rw [List.filter_eq_self.mpr]
  intro e he
  have hk := (hg.ents e he).1
  rcases hlive e he with hp | hl
  · simp [expired, hp, hk]
  · have : ¬ e.dl ≤ now := Nat.not_le.mpr hl
    simp [expired, this, hk]

theorem plain_det (c : Ctx) (hfl : c.fl = flavorOf c.kind) (ttl0 : Nat) (q t : RState) (now : Time) (o : Obs)
    (hp : c.fl = .plain) (hq : Good c ttl0 q) (ht : Good c ttl0 t)
    (hoq : obsOk c q now o = true) (hot : obsOk c t now o = true) : q = t := by
  have hk : c.kind ≠ .utlru := kind_ne_utlru c hfl (by rw [hp]; decide)
  have h1 := sweepOf_all c ttl0 q now hq (fun _ _ => Or.inl hp)
  have h2 := sweepOf_all c ttl0 t now ht (fun _ _ => Or.inl hp)
  have h3 : q.ents.map (fun e => (e.key, e.val)) = t.ents.map (fun e => (e.key, e.val)) := by
    rw [← h1, ← h2, obsOk_sweep hoq, obsOk_sweep hot]
  have h4 : q.ents = t.ents := ents_eq_of_kv
    (fun e he => ⟨(hq.ents e he).2.1, (hq.ents e he).2.2.1, (hq.ents e he).2.2.2.1, (hq.ents e he).2.2.2.2 hp⟩)
    (fun e he => ⟨(ht.ents e he).2.1, (ht.ents e he).2.2.1, (ht.ents e he).2.2.2.1, (ht.ents e he).2.2.2.2 hp⟩) h3
  have h5 : q.ttl = t.ttl := by rw [hq.ttl hk, ht.ttl hk]
  cases q; cases t
  simp only [RState.mk.injEq]
  exact ⟨h4, h5⟩

/-- unbounded containers: right after a call that purges, `size()` is the number of keys the sweep shows -/
theorem eager_size_live (c : Ctx) (ttl0 : Nat) (t : RState) (now : Time) (o : Obs) (hg : Good c ttl0 t)
    (hlive : ∀ e ∈ t.ents, now < e.dl) (hobs : obsOk c t now o = true) : o.size = o.sweep.length := by
  have h1 := sweepOf_all c ttl0 t now hg (fun e he => Or.inr (hlive e he))
  have h2 := congrArg List.length (obsOk_sweep hobs)
  rw [h1] at h2
  simp only [List.length_map] at h2
  rw [← obsOk_size hobs, h2]

/-! ## `keepOf`, `quickOf` -/

theorem mapM_option_of_mem {α β : Type} {f : α → Option β} :
    ∀ {l : List α} {r : List β}, l.mapM f = some r → ∀ x ∈ l, ∃ y ∈ r, f x = some y
  | [], r, _, x, hx => by cases hx
  | a :: l, r, h, x, hx => by
    rw [List.mapM_cons] at h
    cases hfa : f a with
    | none => rw [hfa] at h; cases h
    | some b =>
      cases hl : l.mapM f with
      | none => rw [hfa, hl] at h; cases h
      | some bs =>
        rw [hfa, hl] at h
        cases h
        rcases List.mem_cons.mp hx with hx | hx
        · exact ⟨b, List.mem_cons_self .., by rw [hx, hfa]⟩
        · obtain ⟨y, hy, hfy⟩ := mapM_option_of_mem hl x hx
          exact ⟨y, List.mem_cons_of_mem _ hy, hfy⟩

theorem mem_keepOf (c : Ctx) (cs : List RState) (e : Event) (surv : Option (List Key))
    (css : List (List (RState × XOut)))
    (hcss : cs.mapM (fun s => succ? c s e.now surv e.op) = some css)
    (s : RState) (hs : s ∈ cs) (l : List (RState × XOut)) (hl : succ? c s e.now surv e.op = some l)
    (s' : RState) (x : XOut) (hm : (s', x) ∈ l) (ho : outOk x e.out = true)
    (hobs : obsOk c s' e.now e.obs = true) : s' ∈ keepOf c e css := by
  obtain ⟨l', hl', hfl'⟩ := mapM_option_of_mem hcss s hs
  rw [hl] at hfl'
  cases hfl'
  unfold keepOf
  apply mem_dedup_of_mem
  rw [List.mem_map]
  refine ⟨(s', x), List.mem_filter.mpr ⟨List.mem_flatten.mpr ⟨l, hl', hm⟩, ?_⟩, rfl⟩
  simp only [Bool.and_eq_true]
  exact ⟨ho, hobs⟩

theorem keepOf_good (c : Ctx) (hfl : c.fl = flavorOf c.kind) (ttl0 : Nat) (cs : List RState) (e : Event)
    (surv : Option (List Key)) (css : List (List (RState × XOut)))
    (hg : ∀ q ∈ cs, Good c ttl0 q) (hok : opKeysOk c.nkeys e.op = true)
    (hcss : cs.mapM (fun s => succ? c s e.now surv e.op) = some css) :
    ∀ s' ∈ keepOf c e css, Good c ttl0 s' ∧ obsOk c s' e.now e.obs = true := by
  intro s' hs'
  have h1 := mem_of_mem_dedup hs'
  rw [List.mem_map] at h1
  obtain ⟨⟨s1, x⟩, hf, rfl⟩ := h1
  rw [List.mem_filter] at hf
  obtain ⟨hfl', hok'⟩ := hf
  simp only [Bool.and_eq_true] at hok'
  rw [List.mem_flatten] at hfl'
  obtain ⟨li, hli, hin⟩ := hfl'
  obtain ⟨s, hs, hsucc⟩ := mapM_option_mem hcss li hli
  exact ⟨succ?_good c hfl ttl0 s e.now surv e.op (hg s hs) hok li hsucc s1 x hin, hok'.2⟩

theorem quickOf_good (c : Ctx) (hfl : c.fl = flavorOf c.kind) (ttl0 : Nat) (cs : List RState) (e : Event)
    (surv : Option (List Key)) (hg : ∀ q ∈ cs, Good c ttl0 q) (hok : opKeysOk c.nkeys e.op = true) :
    ∀ s' ∈ quickOf c cs e surv, Good c ttl0 s' ∧ obsOk c s' e.now e.obs = true := by
  intro s' hs'
  unfold quickOf at hs'
  cases surv with
  | none => cases hs'
  | some sv =>
    simp only at hs'
    cases hq : cs.mapM (fun s => succ? c s e.now (some sv) e.op) with
    | none => rw [hq] at hs'; cases hs'
    | some css =>
      rw [hq] at hs'
      exact keepOf_good c hfl ttl0 cs e (some sv) css hg hok hq s' hs'

theorem quickOf_plain (c : Ctx) (cs : List RState) (e : Event) (h : quickOf c cs e (survOf c e) ≠ []) :
    c.fl = .plain := by
  unfold survOf at h
  by_cases hp : (c.fl == .plain) = true
  · simpa using hp
  · rw [if_neg hp] at h
    exact absurd rfl h

/-! ## completeness of the loop -/

theorem loop_complete (c : Ctx) (hfl : c.fl = flavorOf c.kind) (ttl0 : Nat) (hpos : c.fl = .eager → 0 < ttl0) :
    ∀ (evs : List Event) (cs : List RState) (idx mx : Nat) (s : RState),
    (∀ q ∈ cs, Good c ttl0 q) → (∃ t ∈ cs, absR t = absR s ∧ t.ttl = s.ttl) →
    ExplainsD c s evs → logOk c.nkeys evs = true →
    ∀ f m, loop c cs idx evs mx ≠ (some f, m) := by
  intro evs
  induction evs with
  | nil =>
    intro cs idx mx s _ _ _ _ f m h
    simp [loop] at h
  | cons e es ih =>
    intro cs idx mx s hgood ⟨t, htm, hrep, httl⟩ hex hlog f m h
    cases hex with
    | @cons _ s' x _ _ h1 h2 h3 h4 =>
    simp only [logOk, List.all_cons, Bool.and_eq_true] at hlog
    obtain ⟨hok, hlog'⟩ := hlog
    have hgt := hgood t htm
    -- the representation of the state the call really reaches
    obtain ⟨t', hgt', hab', httl', hlive⟩ := rep_exists c hfl ttl0 s t s' e.now e.op x hgt hrep httl h1 hok
    have hws' : WF s' := h1.1
    have hobs' : obsOk c t' e.now e.obs = true := by
      rw [obsOk_congr c (proj_of_get hgt'.wf hws' (congrArg A.get hab'))]; exact h3
    rw [loop_cons] at h
    -- the eager size check does not fire
    have hcheck : ¬ (c.fl == .eager && purges e.op && e.obs.size != e.obs.sweep.length) = true := by
      intro hc
      simp only [Bool.and_eq_true, beq_iff_eq, bne_iff_ne] at hc
      obtain ⟨⟨he, hp⟩, hne⟩ := hc
      have hk : c.kind ≠ .utlru := kind_ne_utlru c hfl (by rw [he]; decide)
      have htpos : 0 < t.ttl := by rw [hgt.ttl hk]; exact hpos he
      exact hne (eager_size_live c ttl0 t' e.now e.obs hgt' (hlive he hp htpos) hobs')
    rw [if_neg hcheck] at h
    by_cases hq : (!(quickOf c cs e (survOf c e)).isEmpty) = true
    · rw [if_pos hq] at h
      have hne : quickOf c cs e (survOf c e) ≠ [] := by
        intro hnil; rw [hnil] at hq; simp at hq
      have hp := quickOf_plain c cs e hne
      have hqg := quickOf_good c hfl ttl0 cs e (survOf c e) hgood hok
      obtain ⟨q, hqm⟩ := List.exists_mem_of_ne_nil _ hne
      have hqt : q = t' := plain_det c hfl ttl0 q t' e.now e.obs hp (hqg q hqm).1 hgt' (hqg q hqm).2 hobs'
      rw [hqt] at hqm
      exact ih _ _ _ s' (fun q' hq' => (hqg q' hq').1) ⟨t', hqm, hab', httl'⟩ h4 hlog' f m h
    · rw [if_neg hq] at h
      split at h
      · cases h
      · next css hcss =>
        obtain ⟨l, _, hl⟩ := mapM_option_of_mem hcss t htm
        obtain ⟨t2, hm2, hw2, hab2, httl2⟩ := succ?_complete c s t s' e.now e.op x hgt.wf hrep httl h1 l hl
        have hobs2 : obsOk c t2 e.now e.obs = true := by
          rw [obsOk_congr c (proj_of_get hw2 hws' (congrArg A.get hab2))]; exact h3
        have hk2 : t2 ∈ keepOf c e css := mem_keepOf c cs e none css hcss t htm l hl t2 x hm2 h2 hobs2
        have hkne : ¬ (keepOf c e css).isEmpty = true := by
          intro hemp
          rw [List.isEmpty_iff] at hemp
          rw [hemp] at hk2
          cases hk2
        rw [if_neg hkne] at h
        split at h
        · cases h
        · have hkg := keepOf_good c hfl ttl0 cs e none css hgood hok hcss
          exact ih _ _ _ s' (fun q' hq' => (hkg q' hq').1) ⟨t2, hk2, hab2, httl2⟩ h4 hlog' f m h

/-- **Completeness of the acceptor.**  A log that is explained (strictly: `ExplainsD`) by the reference
semantics from the empty container is never rejected: the verdict is `(none, m)` — accepted, or given up
as undecided when `m > candLimit` — never a failure.  Hypotheses on the log and configuration that are
genuinely needed (see the findings at the end of this file): every inserted key is below `nkeys`, and an
unbounded container (ut_map/ut_set) has a positive TTL.

The statement originally aimed at,
```
theorem accept_complete (cfg : Cfg) (nkeys : Nat) (evs : List Event)
    (hex : Explains { kind := cfg.kind, fl := flavorOf cfg.kind, cap := cfg.cap, nkeys := nkeys }
      { ents := [], ttl := cfg.ttl * msNs } evs) (hwf : …) :
    ∀ f m, accept cfg nkeys evs = (some f, m) → False
```
with the lax `Explains` of `accept_sound`, is *false* (`accept_complete_lax_false`); the only change here is
`Explains ↦ ExplainsD`, and `accept_soundD` shows nothing is lost on the soundness side. -/
theorem accept_complete (cfg : Cfg) (nkeys : Nat) (evs : List Event)
    (hex : ExplainsD { kind := cfg.kind, fl := flavorOf cfg.kind, cap := cfg.cap, nkeys := nkeys }
      { ents := [], ttl := cfg.ttl * msNs } evs)
    (hwf : logOk nkeys evs = true)
    (httl : flavorOf cfg.kind = .eager → 0 < cfg.ttl) :
    ∀ f m, accept cfg nkeys evs = (some f, m) → False := by
  intro f m h
  unfold accept at h
  refine loop_complete { kind := cfg.kind, fl := flavorOf cfg.kind, cap := cfg.cap, nkeys := nkeys } rfl
    (cfg.ttl * msNs) (fun he => ?_) evs _ 0 1 _ ?_ ⟨_, List.mem_singleton.mpr rfl, rfl, rfl⟩ hex hwf f m h
  · have := httl he
    show 0 < cfg.ttl * msNs
    exact Nat.mul_pos this (by decide)
  · intro q hq
    rw [List.mem_singleton.mp hq]
    exact ⟨List.Pairwise.nil, fun e he => (by cases he), fun _ => rfl⟩

/-! ## strict soundness: what the acceptor accepts satisfies the strict notion too

So `ExplainsD` is exactly what the acceptor decides (up to giving up): `accept_soundD` and
`accept_complete`. -/

theorem insMany_soundD (c : Ctx) (now : Time) (a : Allow) (surv : Option (List Key)) (dl : Nat → Time) :
    ∀ (xs : List (Key × Val × Nat)) (acc r : List (RState × Nat)),
    (∀ p ∈ acc, WF p.1 ∧ ∀ tt, deadline c p.1 now tt = dl tt) → insMany c now a surv xs acc = some r →
    ∀ p ∈ r, ∃ q ∈ acc, ∃ as m, InsAtomsD a dl xs as m ∧ p.2 = q.2 + m ∧
      ARun c.fl c.cap (absR q.1) (as.map (fun x => (now, x))) (absR p.1)
  | [], acc, r, _, h, p, hp => by
    simp only [insMany, Option.some.injEq] at h
    subst h
    exact ⟨p, hp, [], 0, .nil, rfl, ARun.nil _⟩
  | (k, v, t) :: xs, acc, r, hw, h, p, hp => by
    simp only [insMany] at h
    split at h
    · cases h
    · have hraw : ∀ q ∈ acc.flatMap (fun (s, n) => (ins1 c s now k v a t surv).map (fun (s', ok) => (s', n + (if ok then 1 else 0)))),
          (WF q.1 ∧ ∀ tt, deadline c q.1 now tt = dl tt) ∧ ∃ q0 ∈ acc, ∃ ok, q.2 = q0.2 + (if ok then 1 else 0) ∧
            AStep c.fl c.cap (absR q0.1) now (.ins k v a (dl t) ok) (absR q.1) := by
        intro q hq
        rw [List.mem_flatMap] at hq
        obtain ⟨⟨s, n⟩, hmem, hq⟩ := hq
        simp only [List.mem_map] at hq
        obtain ⟨⟨s', ok⟩, hin, rfl⟩ := hq
        obtain ⟨h1, h2, h3⟩ := ins1_sound c s now k v a t surv (hw _ hmem).1 s' ok hin
        refine ⟨⟨h1, fun tt => ?_⟩, (s, n), hmem, ok, rfl, ?_⟩
        · rw [deadline_ttl c h2]; exact (hw _ hmem).2 tt
        · rw [← (hw _ hmem).2 t]; exact h3
      obtain ⟨q, hq, as, m, hins, hpm, hrun⟩ :=
        insMany_soundD c now a surv dl xs _ r (fun q hq => (hraw q (mem_of_mem_dedup hq)).1) h p hp
      obtain ⟨_, q0, hq0, ok, hqn, hstep⟩ := hraw q (mem_of_mem_dedup hq)
      refine ⟨q0, hq0, .ins k v a (dl t) ok :: as, (if ok then 1 else 0) + m, .cons hins, ?_, ARun.cons hstep hrun⟩
      rw [hpm, hqn, Nat.add_assoc]

theorem succ?_soundD (c : Ctx) (s : RState) (now : Time) (surv : Option (List Key)) (op : Op)
    (hw : WF s) (l : List (RState × XOut)) (h : succ? c s now surv op = some l)
    (s' : RState) (x : XOut) (hm : (s', x) ∈ l) :
    ExplainedD c s now op s' x := by
  refine ⟨(succ?_sound c s now surv op hw l h s' x hm).1, (succ?_ents c s now surv op l h s' x hm).1, ?_⟩
  obtain ⟨hpw, hpttl, hpre⟩ := pre_sound c s now hw
  cases op with
  | insert k v a t =>
    simp only [succ?, succ, Option.some.injEq] at h
    subst h
    simp only [List.mem_map] at hm
    obtain ⟨⟨s1, ok⟩, hin, heq⟩ := hm
    simp only [Prod.mk.injEq] at heq
    obtain ⟨rfl, rfl⟩ := heq
    obtain ⟨_, _, h3⟩ := ins1_sound c _ now k v a t none hpw s1 ok hin
    rw [deadline_ttl c hpttl] at h3
    exact ⟨_, .insert, ARun.cons hpre (ARun.single h3)⟩
  | insertRange xs a =>
    simp only [succ?, Option.map_eq_some_iff] at h
    obtain ⟨r, hr, rfl⟩ := h
    simp only [List.mem_map] at hm
    obtain ⟨⟨s1, n⟩, hin, heq⟩ := hm
    simp only [Prod.mk.injEq] at heq
    obtain ⟨rfl, rfl⟩ := heq
    obtain ⟨q, hq, as, m, hins, hpm, hrun⟩ :=
      insMany_soundD c now a surv (deadline c s now) xs _ r
        (fun p hp => by
          rw [List.mem_singleton.mp hp]
          exact ⟨hpw, fun tt => deadline_ttl c hpttl now tt⟩) hr _ hin
    rw [List.mem_singleton.mp hq] at hpm hrun
    have hn : n = m := by simpa using hpm
    subst hn
    exact ⟨_, .insertRange hins, ARun.cons hpre hrun⟩
  | find k peek =>
    simp only [succ?, succ, Option.some.injEq] at h
    subst h
    simp only [List.mem_singleton, Prod.mk.injEq] at hm
    obtain ⟨rfl, rfl⟩ := hm
    obtain ⟨_, _, r, hr, h3⟩ := look1_sound c _ now k peek hpw
    rw [← hr]
    exact ⟨_, .find, ARun.cons hpre (ARun.single h3)⟩
  | findRange ks peek =>
    simp only [succ?, succ, Option.some.injEq] at h
    subst h
    simp only [List.mem_singleton, Prod.mk.injEq] at hm
    obtain ⟨rfl, rfl⟩ := hm
    obtain ⟨_, as, ha, hrun⟩ := lookMany_sound c now peek ks _ hpw
    exact ⟨_, .findRange ha, ARun.cons hpre hrun⟩
  | findCount k peek =>
    simp only [succ?, succ, Option.some.injEq] at h
    subst h
    simp only [List.mem_singleton, Prod.mk.injEq] at hm
    obtain ⟨rfl, rfl⟩ := hm
    obtain ⟨_, _, r, hr, h3⟩ := look1_sound c _ now k peek hpw
    rw [← hr]
    exact ⟨_, .findCount, ARun.cons hpre (ARun.single h3)⟩
  | erase k =>
    simp only [succ?, succ, Option.some.injEq] at h
    subst h
    simp only [List.mem_singleton, Prod.mk.injEq] at hm
    obtain ⟨rfl, rfl⟩ := hm
    obtain ⟨_, _, h3⟩ := del1_sound c _ now k hpw
    exact ⟨_, .erase, ARun.cons hpre (ARun.single h3)⟩
  | eraseRange ks =>
    simp only [succ?, succ, Option.some.injEq] at h
    subst h
    simp only [List.mem_singleton, Prod.mk.injEq] at hm
    obtain ⟨rfl, rfl⟩ := hm
    obtain ⟨_, as, ha, hrun⟩ := delMany_sound c now ks _ hpw
    exact ⟨_, .eraseRange ha, ARun.cons hpre hrun⟩
  | clear =>
    simp only [succ?, succ, Option.some.injEq] at h
    subst h
    split at hm
    · next hc =>
      simp only [List.mem_singleton, Prod.mk.injEq] at hm
      obtain ⟨rfl, rfl⟩ := hm
      refine ⟨_, .clear hc, ARun.single ?_⟩
      simp only [AStep]
      exact ⟨rfl, rfl⟩
    · next hc =>
      simp only [List.mem_singleton, Prod.mk.injEq] at hm
      obtain ⟨rfl, rfl⟩ := hm
      exact ⟨_, .noClear (by simpa [hasClear] using hc), ARun.nil _⟩
  | clean =>
    simp only [succ?, succ, Option.some.injEq] at h
    subst h
    simp only [List.mem_singleton, Prod.mk.injEq] at hm
    obtain ⟨rfl, rfl⟩ := hm
    obtain ⟨_, _, h3⟩ := reap_sound c s now hw
    exact ⟨_, .clean, ARun.single h3⟩
  | age =>
    simp only [succ?, succ, Option.some.injEq] at h
    subst h
    simp only [List.mem_singleton, Prod.mk.injEq] at hm
    obtain ⟨rfl, rfl⟩ := hm
    refine ⟨_, .age (n := 0), ARun.single ?_⟩
    simp only [AStep]
  | updateTtl t =>
    simp only [succ?, succ, Option.some.injEq] at h
    subst h
    simp only [List.mem_singleton, Prod.mk.injEq] at hm
    obtain ⟨rfl, rfl⟩ := hm
    refine ⟨_, .updateTtl, ARun.single ?_⟩
    simp only [AStep]
    split <;> rfl
  | size =>
    simp only [succ?, succ, Option.some.injEq] at h
    subst h
    simp only [List.mem_singleton, Prod.mk.injEq] at hm
    obtain ⟨rfl, rfl⟩ := hm
    refine ⟨_, .size, ARun.single ?_⟩
    simp only [AStep]
    exact ⟨rfl, by trivial⟩
  | empty =>
    simp only [succ?, succ, Option.some.injEq] at h
    subst h
    simp only [List.mem_singleton, Prod.mk.injEq] at hm
    obtain ⟨rfl, rfl⟩ := hm
    refine ⟨_, .empty, ARun.single ?_⟩
    simp only [AStep]
    exact ⟨rfl, by trivial⟩
  | capacity =>
    simp only [succ?, succ, Option.some.injEq] at h
    subst h
    simp only [List.mem_singleton, Prod.mk.injEq] at hm
    obtain ⟨rfl, rfl⟩ := hm
    refine ⟨_, .capacity (fun he => by simp [he]), ARun.single ?_⟩
    simp only [AStep]
    refine ⟨fun hne => ?_, by trivial⟩
    have : ¬ (c.fl == .eager) = true := by simpa using hne
    rw [if_neg this]

theorem keep_soundD (c : Ctx) (cs : List RState) (e : Event) (surv : Option (List Key))
    (css : List (List (RState × XOut))) (hw : ∀ s ∈ cs, WF s)
    (hcss : cs.mapM (fun s => succ? c s e.now surv e.op) = some css) :
    ∀ s' ∈ keepOf c e css,
      WF s' ∧ ∃ s ∈ cs, ∃ x, ExplainedD c s e.now e.op s' x ∧ outOk x e.out = true ∧
        obsOk c s' e.now e.obs = true := by
  intro s' hs'
  have h1 := mem_of_mem_dedup hs'
  rw [List.mem_map] at h1
  obtain ⟨⟨s1, x⟩, hf, rfl⟩ := h1
  rw [List.mem_filter] at hf
  obtain ⟨hfl, hok⟩ := hf
  simp only [Bool.and_eq_true] at hok
  rw [List.mem_flatten] at hfl
  obtain ⟨li, hli, hin⟩ := hfl
  obtain ⟨s, hs, hsucc⟩ := mapM_option_mem hcss li hli
  have h3 := succ?_soundD c s e.now surv e.op (hw s hs) li hsucc s1 x hin
  exact ⟨h3.1, s, hs, x, h3, hok.1, hok.2⟩

theorem quick_soundD (c : Ctx) (cs : List RState) (e : Event) (surv : Option (List Key))
    (hw : ∀ s ∈ cs, WF s) :
    ∀ s' ∈ quickOf c cs e surv,
      WF s' ∧ ∃ s ∈ cs, ∃ x, ExplainedD c s e.now e.op s' x ∧ outOk x e.out = true ∧
        obsOk c s' e.now e.obs = true := by
  intro s' hs'
  unfold quickOf at hs'
  cases surv with
  | none => cases hs'
  | some sv =>
    simp only at hs'
    cases hq : cs.mapM (fun s => succ? c s e.now (some sv) e.op) with
    | none => rw [hq] at hs'; cases hs'
    | some css =>
      rw [hq] at hs'
      exact keep_soundD c cs e (some sv) css hw hq s' hs'

theorem loop_soundD (c : Ctx) (cs : List RState) (idx : Nat) (evs : List Event) (mx m : Nat)
    (hw : ∀ s ∈ cs, WF s) (hne : cs ≠ [])
    (h : loop c cs idx evs mx = (none, m)) (hm : m ≤ candLimit) :
    ∃ s ∈ cs, ExplainsD c s evs := by
  induction evs generalizing cs idx mx m with
  | nil =>
    obtain ⟨s, hs⟩ := List.exists_mem_of_ne_nil cs hne
    exact ⟨s, hs, .nil s⟩
  | cons e es ih =>
    rw [loop_cons] at h
    have step : ∀ (keep : List RState) (idx' mx' : Nat), keep ≠ [] →
        (∀ s' ∈ keep, WF s' ∧ ∃ s ∈ cs, ∃ x, ExplainedD c s e.now e.op s' x ∧ outOk x e.out = true ∧
          obsOk c s' e.now e.obs = true) →
        loop c keep idx' es mx' = (none, m) → ∃ s ∈ cs, ExplainsD c s (e :: es) := by
      intro keep idx' mx' hk hs hl
      obtain ⟨s', hs'm, hex⟩ := ih keep idx' mx' m (fun s' h' => (hs s' h').1) hk hl hm
      obtain ⟨_, s, hsm, x, h1, h2, h3⟩ := hs s' hs'm
      exact ⟨s, hsm, .cons h1 h2 h3 hex⟩
    split at h
    · cases h
    · split at h
      · next hq =>
        refine step _ _ _ ?_ (quick_soundD c cs e _ hw) h
        intro hnil
        rw [hnil] at hq
        simp at hq
      · split at h
        · next hnone =>
          have : m = candLimit + 1 := (congrArg Prod.snd h).symm
          omega
        · next css hcss =>
          split at h
          · cases h
          · next hkne =>
            split at h
            · next hgt =>
              have : m = (keepOf c e css).length := (congrArg Prod.snd h).symm
              omega
            · refine step _ _ _ ?_ (keep_soundD c cs e none css hw hcss) h
              intro hnil
              apply hkne
              rw [hnil]; rfl

/-- An accepted log is explained by the reference semantics in the strict sense. -/
theorem accept_soundD (cfg : Cfg) (nkeys : Nat) (evs : List Event) (m : Nat)
    (h : accept cfg nkeys evs = (none, m)) (hm : m ≤ candLimit) :
    ExplainsD { kind := cfg.kind, fl := flavorOf cfg.kind, cap := cfg.cap, nkeys := nkeys }
      { ents := [], ttl := cfg.ttl * msNs } evs := by
  unfold accept at h
  obtain ⟨s, hs, hex⟩ := loop_soundD _ _ _ _ _ _
    (fun s hs => by rw [List.mem_singleton.mp hs]; exact List.Pairwise.nil)
    (List.cons_ne_nil _ _) h hm
  rw [List.mem_singleton.mp hs] at hex
  exact hex

/-! ## non-vacuity, and why the hypotheses are what they are (machine-checked witnesses) -/

/-- one step of a strict explanation, through the acceptor's own successor function -/
theorem ExplainsD.step {c : Ctx} {s s' : RState} {x : XOut} {e : Event} {es : List Event}
    (l : List (RState × XOut)) (hw : WF s) (hl : succ? c s e.now none e.op = some l) (hm : (s', x) ∈ l)
    (ho : outOk x e.out = true) (hobs : obsOk c s' e.now e.obs = true) (hr : ExplainsD c s' es) :
    ExplainsD c s (e :: es) :=
  .cons (succ?_soundD c s e.now none e.op hw l hl s' x hm) ho hobs hr

/-- an event with consistent observers (witnesses below) -/
def mkEv (now : Nat) (op : Op) (out : Out) (size : Nat) (cap : Nat) (sw : List (Key × Val × Nat)) : Event :=
  { inst := 0, now := now, tag := "@", op := op, out := out,
    obs := { size := size, empty := size == 0, cap := cap, sweep := sw } }

/-- tlru, capacity 2, keys 0..3: two inserts, an evicting insert whose victim is key 0, a lookup that
finds an expired entry (deadline 5 ms, clock 6 ms) and removes it, a miss -/
def logT : List Event :=
  [mkEv 0 (.insert 0 1 .insertOrUpdate 5) (.bool true) 1 2 [(0, 1, 0)],
   mkEv 0 (.insert 1 1 .insertOrUpdate 9) (.bool true) 2 2 [(0, 1, 0), (1, 1, 0)],
   mkEv 1000000 (.insert 2 7 .insert 4) (.bool true) 2 2 [(1, 1, 0), (2, 7, 0)],
   mkEv 6000000 (.find 2 false) (.opt none) 1 2 [(1, 1, 0)],
   mkEv 6000000 (.find 0 true) (.opt none) 1 2 [(1, 1, 0)]]

/-- **Non-vacuity**: the hypotheses of `accept_complete` hold of a concrete log (the explanation is built
step by step, not obtained from the acceptor's verdict) -/
example : ExplainsD { kind := .tlru, fl := flavorOf .tlru, cap := 2, nkeys := 4 } { ents := [], ttl := 0 * msNs } logT ∧
    logOk 4 logT = true ∧ (flavorOf .tlru = .eager → 0 < 0) := by
  refine ⟨?_, rfl, fun h => by cases h⟩
  refine ExplainsD.step (s' := { ents := [{ key := 0, val := 1, dl := 5000000 }], ttl := 0 })
    (x := some (.bool true)) _ List.Pairwise.nil rfl (by decide) rfl rfl ?_
  refine ExplainsD.step (s' := { ents := [{ key := 0, val := 1, dl := 5000000 }, { key := 1, val := 1, dl := 9000000 }], ttl := 0 })
    (x := some (.bool true)) _ (by simp [WF]) rfl (by decide) rfl rfl ?_
  refine ExplainsD.step (s' := { ents := [{ key := 1, val := 1, dl := 9000000 }, { key := 2, val := 7, dl := 5000000 }], ttl := 0 })
    (x := some (.bool true)) _ (by simp [WF]) rfl (by decide) rfl rfl ?_
  refine ExplainsD.step (s' := { ents := [{ key := 1, val := 1, dl := 9000000 }], ttl := 0 })
    (x := some (.opt none)) _ (by simp [WF]) rfl (by decide) rfl rfl ?_
  refine ExplainsD.step (s' := { ents := [{ key := 1, val := 1, dl := 9000000 }], ttl := 0 })
    (x := some (.opt none)) _ (by simp [WF]) rfl (by decide) rfl rfl ?_
  exact .nil _

/-- and the acceptor indeed accepts that log -/
example : accept { kind := .tlru, cap := 2 } 4 logT = (none, 1) := by rfl

/-! ### Finding 1: completeness against the lax `Explains` of `accept_sound` is false

`Explains` lets `clear()` clear a container that has no `clear()` (both `OpAtoms.clear` and
`OpAtoms.noClear` are offered whatever the kind); the acceptor does not.  (Likewise it leaves the deadline
of an insert atom, the capacity reading of an unbounded container and the TTL of the chain's states open.)
So the target statement with `Explains` as hypothesis is refutable; `ExplainsD` is the repair. -/

def logL : List Event :=
  [mkEv 0 (.insert 1 10 .insertOrUpdate 0) (.bool true) 1 2 [(1, 10, 0)],
   mkEv 0 .clear .unit 0 2 []]

theorem logL_explained_lax :
    Explains { kind := .lru, fl := flavorOf .lru, cap := 2, nkeys := 4 } { ents := [], ttl := 0 * msNs } logL := by
  refine .cons (s' := { ents := [{ key := 1, val := 10 }], ttl := 0 }) (x := some (.bool true))
    (succ?_sound { kind := .lru, fl := flavorOf .lru, cap := 2, nkeys := 4 } { ents := [], ttl := 0 * msNs } 0 none
      (.insert 1 10 .insertOrUpdate 0) (show WF _ from List.Pairwise.nil) _ rfl _ _ (by decide)).2 rfl rfl ?_
  refine .cons (s' := { ents := [], ttl := 0 }) (x := some .unit) ⟨[.clear], .clear, ARun.single ?_⟩ rfl rfl (.nil _)
  simp only [AStep]
  exact ⟨rfl, rfl⟩

theorem logL_rejected : (accept { kind := .lru, cap := 2 } 4 logL).1.isSome = true := by rfl

/-- the target statement with the lax `Explains` as hypothesis (and all the side conditions of
`accept_complete`) is false -/
theorem accept_complete_lax_false :
    ¬ (∀ (cfg : Cfg) (nkeys : Nat) (evs : List Event),
        Explains { kind := cfg.kind, fl := flavorOf cfg.kind, cap := cfg.cap, nkeys := nkeys }
          { ents := [], ttl := cfg.ttl * msNs } evs →
        logOk nkeys evs = true → (flavorOf cfg.kind = .eager → 0 < cfg.ttl) →
        ∀ f m, accept cfg nkeys evs = (some f, m) → False) := by
  intro h
  have hrej := logL_rejected
  cases hacc : accept { kind := .lru, cap := 2 } 4 logL with
  | mk o m =>
    rw [hacc] at hrej
    cases o with
    | none => cases hrej
    | some f => exact h { kind := .lru, cap := 2 } 4 logL logL_explained_lax rfl (fun he => by cases he) f m hacc

/-! ### Finding 2: `logOk` is needed — with a resident key outside the swept universe the survivor-guided
victim of a range insert can be wrong, and the acceptor then rejects a legal log

lru, capacity 2, swept keys 0..1.  Keys 5 and 6 are resident and invisible to the sweep.  A range insert
of key 7 evicts 6 (legal: any victim is).  The survivors (none visible) guide the acceptor to the first
resident, 5; the resulting candidate `{6,7}` matches everything observed, so the fallback that tries
every victim is not run and the true state `{5,7}` is lost.  The next lookup of 5 hits, and is rejected.
(The same log with a single-key `insert 7` is accepted: single inserts always try every victim.) -/

def logH : List Event :=
  [mkEv 0 (.insert 5 50 .insertOrUpdate 0) (.bool true) 1 2 [],
   mkEv 0 (.insert 6 60 .insertOrUpdate 0) (.bool true) 2 2 [],
   mkEv 0 (.insertRange [(7, 70, 0)] .insertOrUpdate) (.nat 1) 2 2 [],
   mkEv 0 (.find 5 true) (.opt (some 50)) 2 2 []]

theorem logH_explained :
    ExplainsD { kind := .lru, fl := flavorOf .lru, cap := 2, nkeys := 2 } { ents := [], ttl := 0 * msNs } logH := by
  refine ExplainsD.step (s' := { ents := [{ key := 5, val := 50 }], ttl := 0 })
    (x := some (.bool true)) _ List.Pairwise.nil rfl (by decide) rfl rfl ?_
  refine ExplainsD.step (s' := { ents := [{ key := 5, val := 50 }, { key := 6, val := 60 }], ttl := 0 })
    (x := some (.bool true)) _ (by simp [WF]) rfl (by decide) rfl rfl ?_
  refine ExplainsD.step (s' := { ents := [{ key := 5, val := 50 }, { key := 7, val := 70 }], ttl := 0 })
    (x := some (.nat 1)) _ (by simp [WF]) rfl (by decide) rfl rfl ?_
  refine ExplainsD.step (s' := { ents := [{ key := 5, val := 50 }, { key := 7, val := 70 }], ttl := 0 })
    (x := some (.opt (some 50))) _ (by simp [WF]) rfl (by decide) rfl rfl ?_
  exact .nil _

/-- a strictly explained log that the acceptor rejects (only `logOk` fails) -/
theorem logOk_needed :
    ExplainsD { kind := .lru, fl := flavorOf .lru, cap := 2, nkeys := 2 } { ents := [], ttl := 0 * msNs } logH ∧
    logOk 2 logH = false ∧ (accept { kind := .lru, cap := 2 } 2 logH).1.isSome = true :=
  ⟨logH_explained, rfl, rfl⟩

/-! ### Finding 3: a positive TTL is needed for the unbounded containers — with TTL 0 an insert leaves an
entry that is resident (`size() = 1`) and already expired (the sweep shows nothing), which the reference
semantics allows and the acceptor's "size = live keys right after a purging call" check rejects -/

def logZ : List Event :=
  [mkEv 5 (.insert 1 10 .insertOrUpdate 0) (.bool true) 1 0 []]

theorem ttl_pos_needed :
    ExplainsD { kind := .utmap, fl := flavorOf .utmap, cap := 0, nkeys := 4 } { ents := [], ttl := 0 * msNs } logZ ∧
    logOk 4 logZ = true ∧ (accept { kind := .utmap, cap := 0, ttl := 0 } 4 logZ).1.isSome = true := by
  refine ⟨?_, rfl, rfl⟩
  refine ExplainsD.step (s' := { ents := [{ key := 1, val := 10, dl := 5 }], ttl := 0 })
    (x := some (.bool true)) _ List.Pairwise.nil rfl (by decide) rfl rfl ?_
  exact .nil _

end Verif.Accept

#print axioms Verif.Accept.accept_soundD
#print axioms Verif.Accept.accept_complete_lax_false
#print axioms Verif.Accept.logOk_needed
#print axioms Verif.Accept.ttl_pos_needed
#print axioms Verif.Accept.accept_complete
