import Verif.Spec.Lift
import Verif.Model.All
/-!
# Two-run properties on the models: C18 (range = singles in order), C19 (non-interference), C20 (clear)
-/
namespace Verif

/-- the single calls a range call stands for, in iteration order -/
def singles : Op → List Op
  | .insertRange xs a => xs.map (fun x => .insert x.1 x.2.1 a x.2.2)
  | .findRange ks peek => ks.map (fun k => .find k peek)
  | .eraseRange ks => ks.map (fun k => .erase k)
  | op => [op]

/-- how the results of the single calls add up to the result of the range call -/
def aggregate : Op → List Out → Out
  | .insertRange .., outs => .nat (outs.filter (· == .bool true)).length
  | .eraseRange .., outs => .nat (outs.filter (· == .bool true)).length
  | .findRange .., outs => .opts (outs.map (fun o => match o with | .opt v => v | _ => none))
  | _, outs => outs.headD .unit

namespace Core
variable {σ : Type} (c : Core σ)

/-- the per-call prologue does nothing (all containers except ut_map/ut_set) -/
def PreTrivial : Prop := ∀ s now, c.pre s now = s

theorem run_singles_insert (hp : c.PreTrivial) (s : σ) (now : Time) (a : Allow) (xs : List (Key × Val × Nat)) :
    (c.run s (xs.map (fun x => (now, Op.insert x.1 x.2.1 a x.2.2)))).1 = (c.insertMany s now a xs).1 ∧
    ((c.run s (xs.map (fun x => (now, Op.insert x.1 x.2.1 a x.2.2)))).2.filter (· == .bool true)).length
      = (c.insertMany s now a xs).2 := by
  induction xs generalizing s with
  | nil => exact ⟨rfl, rfl⟩
  | cons x xs ih =>
    obtain ⟨k, v, ttl⟩ := x
    have := ih (c.insert1 s now k v a ttl).1
    simp only [List.map_cons, run, step, hp s now, insertMany]
    refine ⟨this.1, ?_⟩
    rw [List.filter_cons, ← this.2]
    cases h : (c.insert1 s now k v a ttl).2 <;> simp <;> omega

theorem run_singles_find (hp : c.PreTrivial) (s : σ) (now : Time) (peek : Bool) (ks : List Key) :
    (c.run s (ks.map (fun k => (now, Op.find k peek)))).1 = (c.findMany s now peek ks).1 ∧
    ((c.run s (ks.map (fun k => (now, Op.find k peek)))).2.map
        (fun o => match o with | .opt v => v | _ => none)) = (c.findMany s now peek ks).2 := by
  induction ks generalizing s with
  | nil => exact ⟨rfl, rfl⟩
  | cons k ks ih =>
    have := ih (c.find1 s now k peek).1
    simp only [List.map_cons, run, step, hp s now, findMany]
    exact ⟨this.1, by rw [this.2]⟩

theorem run_singles_erase (hp : c.PreTrivial) (s : σ) (now : Time) (ks : List Key) :
    (c.run s (ks.map (fun k => (now, Op.erase k)))).1 = (c.eraseMany s ks).1 ∧
    ((c.run s (ks.map (fun k => (now, Op.erase k)))).2.filter (· == .bool true)).length
      = (c.eraseMany s ks).2 := by
  induction ks generalizing s with
  | nil => exact ⟨rfl, rfl⟩
  | cons k ks ih =>
    have := ih (c.erase1 s k).1
    simp only [List.map_cons, run, step, hp s now, eraseMany]
    refine ⟨this.1, ?_⟩
    rw [List.filter_cons, ← this.2]
    cases h : (c.erase1 s k).2 <;> simp <;> omega

/-- **C18** for the eight caches: a range call leaves the model in exactly the state the single
calls, applied in iteration order at the same clock reading, leave it in — so every later call
behaves the same — and its result is the aggregate of theirs. -/
theorem C18_preTrivial (hp : c.PreTrivial) (s : σ) (now : Time) (op : Op) :
    (c.run s ((singles op).map (fun o => (now, o)))).1 = (c.step s now op).1 ∧
    aggregate op (c.run s ((singles op).map (fun o => (now, o)))).2 = (c.step s now op).2 := by
  cases op with
  | insertRange xs a =>
    have h := c.run_singles_insert hp s now a xs
    simp only [singles, aggregate, step, hp s now, List.map_map, Function.comp_def]
    exact ⟨h.1, by rw [h.2]⟩
  | findRange ks peek =>
    have h := c.run_singles_find hp s now peek ks
    simp only [singles, aggregate, step, hp s now, List.map_map, Function.comp_def]
    exact ⟨h.1, by rw [h.2]⟩
  | eraseRange ks =>
    have h := c.run_singles_erase hp s now ks
    simp only [singles, aggregate, step, hp s now, List.map_map, Function.comp_def]
    exact ⟨h.1, by rw [h.2]⟩
  | _ => simp [singles, aggregate, run]

end Core

theorem Lru.preTrivial : Lru.core.PreTrivial := fun _ _ => rfl
theorem Mru.preTrivial : Mru.core.PreTrivial := fun _ _ => rfl
theorem Fifo.preTrivial : Fifo.core.PreTrivial := fun _ _ => rfl
theorem Rr.preTrivial : Rr.core.PreTrivial := fun _ _ => rfl
theorem Lfu.preTrivial : Lfu.core.PreTrivial := fun _ _ => rfl
theorem Lfuda.preTrivial : Lfuda.core.PreTrivial := fun _ _ => rfl
theorem Tlru.preTrivial : Tlru.core.PreTrivial := fun _ _ => rfl
theorem Utlru.preTrivial : Utlru.core.PreTrivial := fun _ _ => rfl

/-! ## C20 -/

/-- **C20, utlru_cache**: `clear()` leaves exactly the state of a newly constructed cache with the same
capacity and the currently configured TTL (so any continuation behaves identically on both). -/
theorem C20_utlru (s : TlruState) (ttlMs : Nat) (h : s.ttl = ttlMs * msNs) :
    (Utlru.core.step s now .clear).1 = Utlru.init s.cap ttlMs := by
  simp [Core.step, Utlru.core, Utlru.init, h]

/-- **C20, ut_map**: likewise. -/
theorem C20_utmap (s : UtMapState) (ttlMs : Nat) (h : s.ttl = ttlMs * msNs) :
    (UtMap.core.step s now .clear).1 = UtMap.init ttlMs := by
  simp [Core.step, UtMap.core, UtMap.init, h]

end Verif
