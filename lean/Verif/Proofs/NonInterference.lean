import Verif.Model.All
import Verif.ListLemmas
/-!
# C19 (non-interference) on the models

A lookup with peek requested, a lookup that misses, an insert rejected by its allow mode and an erase
of an absent key leave the model state unchanged (the six caches without TTL), change it at most by
removing entries that had already expired (tlru, utlru), or do exactly what the per-call prologue
does (ut_map / ut_set). Since the state is the same, every later operation returns the same.
-/
namespace Verif

/-- a call that, judged by its own result, had no effect -/
def NoEffect {σ : Type} (c : Core σ) (s : σ) (now : Time) : Op → Prop
  | .find _ true => True
  | .findCount _ true => True
  | .findRange _ true => True
  | .find k false => (c.step s now (.find k false)).2 = .opt none
  | .findCount k false => (c.step s now (.findCount k false)).2 = .optc none
  | .insert k v a ttl => (c.step s now (.insert k v a ttl)).2 = .bool false
  | .erase k => (c.step s now (.erase k)).2 = .bool false
  | _ => False

namespace Core
variable {σ : Type} (c : Core σ)

/-- the four single-key facts from which exact non-interference follows -/
structure Inert : Prop where
  pre : ∀ s now, c.pre s now = s
  findPeek : ∀ s now k, (c.find1 s now k true).1 = s
  findMiss : ∀ s now k, (c.find1 s now k false).2 = none → (c.find1 s now k false).1 = s
  insertRej : ∀ s now k v a ttl, (c.insert1 s now k v a ttl).2 = false → (c.insert1 s now k v a ttl).1 = s
  eraseAbs : ∀ s k, (c.erase1 s k).2 = false → (c.erase1 s k).1 = s

theorem findMany_peek_state (hf : ∀ s now k, (c.find1 s now k true).1 = s) (s : σ) (now : Time)
    (ks : List Key) : (c.findMany s now true ks).1 = s := by
  induction ks generalizing s with
  | nil => rfl
  | cons k ks ih =>
    simp only [findMany]
    rw [hf s now k]
    exact ih s

theorem noEffect_state_eq (hi : c.Inert) (s : σ) (now : Time) (op : Op) (h : NoEffect c s now op) :
    (c.step s now op).1 = s := by
  cases op with
  | find k peek =>
    cases peek with
    | true => simp only [step, hi.pre]; exact hi.findPeek s now k
    | false =>
      simp only [NoEffect, step, hi.pre] at h
      simp only [step, hi.pre]
      apply hi.findMiss
      cases hr : (c.find1 s now k false).2 with
      | none => rfl
      | some x => rw [hr] at h; simp at h
  | findCount k peek =>
    cases peek with
    | true => simp only [step, hi.pre]; exact hi.findPeek s now k
    | false =>
      simp only [NoEffect, step, hi.pre] at h
      simp only [step, hi.pre]
      apply hi.findMiss
      injection h
  | findRange ks peek =>
    cases peek with
    | true => simp only [step, hi.pre]; exact c.findMany_peek_state hi.findPeek s now ks
    | false => exact absurd h (by simp [NoEffect])
  | insert k v a ttl =>
    simp only [NoEffect, step, hi.pre] at h
    simp only [step, hi.pre]
    apply hi.insertRej
    injection h
  | erase k =>
    simp only [NoEffect, step, hi.pre] at h
    simp only [step, hi.pre]
    apply hi.eraseAbs
    injection h
  | _ => exact absurd h (by simp [NoEffect])

end Core

/-! ## the six caches without TTL: the state is exactly the same -/

theorem Rec.inert (vic : Rec.Victim) : (Rec.core vic).Inert where
  pre _ _ := rfl
  findPeek s now k := by
    simp only [Rec.core, Rec.find1]
    cases getE s.ents k <;> simp
  findMiss s now k := by
    simp only [Rec.core, Rec.find1]
    cases getE s.ents k <;> simp
  insertRej s now k v a ttl := by
    simp only [Rec.core, Rec.insert1]
    cases getE s.ents k <;> cases a <;> simp [Allow.upd, Allow.ins]
  eraseAbs s k := by
    simp only [Rec.core, Rec.erase1]
    cases getE s.ents k <;> simp

theorem Fifo.inert : Fifo.core.Inert where
  pre _ _ := rfl
  findPeek _ _ _ := rfl
  findMiss _ _ _ _ := rfl
  insertRej s now k v a ttl := by
    simp only [Fifo.core, Fifo.insert1]
    cases getE s.ents k <;> cases a <;> simp [Allow.upd, Allow.ins]
  eraseAbs s k := by
    simp only [Fifo.core, Fifo.erase1]
    cases getE s.ents k <;> simp

theorem Rr.inert : Rr.core.Inert where
  pre _ _ := rfl
  findPeek _ _ _ := rfl
  findMiss _ _ _ _ := rfl
  insertRej s now k v a ttl := by
    simp only [Rr.core, Rr.insert1]
    cases getE s.ents k <;> cases a <;> simp [Allow.upd, Allow.ins]
  eraseAbs s k := by
    simp only [Rr.core, Rr.erase1]
    cases getE s.ents k <;> simp

theorem Lfu.inert : Lfu.core.Inert where
  pre _ _ := rfl
  findPeek s now k := by
    simp only [Lfu.core, Lfu.find1]
    cases getE s.ents k <;> simp
  findMiss s now k := by
    simp only [Lfu.core, Lfu.find1]
    cases getE s.ents k <;> simp
  insertRej s now k v a ttl := by
    simp only [Lfu.core, Lfu.insert1]
    cases getE s.ents k <;> cases a <;> simp [Allow.upd, Allow.ins]
  eraseAbs s k := by
    simp only [Lfu.core, Lfu.erase1]
    cases getE s.ents k <;> simp

theorem Lfuda.inert : Lfuda.core.Inert where
  pre _ _ := rfl
  findPeek s now k := by
    simp only [Lfuda.core, Lfuda.find1]
    cases getE s.ents k <;> simp
  findMiss s now k := by
    simp only [Lfuda.core, Lfuda.find1]
    cases getE s.ents k <;> simp
  insertRej s now k v a ttl := by
    simp only [Lfuda.core, Lfuda.insert1]
    cases getE s.ents k <;> cases a <;> simp [Allow.upd, Allow.ins]
  eraseAbs s k := by
    simp only [Lfuda.core, Lfuda.erase1]
    cases getE s.ents k <;> simp

/-- **C19, lru_cache** -/
theorem C19_lru (s : RecState) (now : Time) (op : Op) (h : NoEffect Lru.core s now op) :
    (Lru.core.step s now op).1 = s :=
  Core.noEffect_state_eq _ (Rec.inert .oldest) s now op h

/-- **C19, mru_cache** -/
theorem C19_mru (s : RecState) (now : Time) (op : Op) (h : NoEffect Mru.core s now op) :
    (Mru.core.step s now op).1 = s :=
  Core.noEffect_state_eq _ (Rec.inert .newest) s now op h

/-- **C19, fifo_cache** -/
theorem C19_fifo (s : FifoState) (now : Time) (op : Op) (h : NoEffect Fifo.core s now op) :
    (Fifo.core.step s now op).1 = s :=
  Core.noEffect_state_eq _ Fifo.inert s now op h

/-- **C19, rr_cache** -/
theorem C19_rr (s : RrState) (now : Time) (op : Op) (h : NoEffect Rr.core s now op) :
    (Rr.core.step s now op).1 = s :=
  Core.noEffect_state_eq _ Rr.inert s now op h

/-- **C19, lfu_cache** -/
theorem C19_lfu (s : LfuState) (now : Time) (op : Op) (h : NoEffect Lfu.core s now op) :
    (Lfu.core.step s now op).1 = s :=
  Core.noEffect_state_eq _ Lfu.inert s now op h

/-- **C19, lfuda_cache** -/
theorem C19_lfuda (s : LfudaState) (now : Time) (op : Op) (h : NoEffect Lfuda.core s now op) :
    (Lfuda.core.step s now op).1 = s :=
  Core.noEffect_state_eq _ Lfuda.inert s now op h

/-! ## tlru, utlru: at most already-expired entries are removed -/

namespace Tlru

/-- the state after the call is the state before it minus some entries that had expired at `now` -/
def OnlyExpiredGone (s : TlruState) (now : Time) (s' : TlruState) : Prop :=
  ∃ ks : List Key, (∀ k ∈ ks, ∃ e, getE s.ents k = some e ∧ e.dl ≤ now) ∧ s' = ks.foldl removeKey s

theorem OnlyExpiredGone.refl (s : TlruState) (now : Time) : OnlyExpiredGone s now s :=
  ⟨[], fun _ hk => absurd hk (by simp), rfl⟩

/-- an entry found after removing `k'` was there, unchanged, before -/
theorem getE_removeKey {s : TlruState} {k' k : Key} {e : Entry}
    (h : getE (removeKey s k').ents k = some e) : getE s.ents k = some e := by
  simp only [removeKey] at h
  by_cases hk : k = k'
  · subst hk; rw [getE_delE_self] at h; cases h
  · rw [getE_delE_ne _ hk] at h; exact h

/-- a lookup that reports nothing, or a peek lookup, removes at most the looked-up key, and only if
it had expired -/
theorem find1_state (s : TlruState) (now : Time) (k : Key) (peek : Bool)
    (h : peek = true ∨ (find1 s now k peek).2 = none) :
    (find1 s now k peek).1 = s ∨
      ((find1 s now k peek).1 = removeKey s k ∧ ∃ e, getE s.ents k = some e ∧ e.dl ≤ now) := by
  unfold find1 at h ⊢
  cases hg : getE s.ents k with
  | none => exact Or.inl rfl
  | some e =>
    simp only [hg] at h ⊢
    by_cases hd : now < e.dl
    · simp only [hd, if_true] at h ⊢
      rcases h with h | h
      · subst h; exact Or.inl rfl
      · cases h
    · rw [if_neg hd]
      exact Or.inr ⟨rfl, e, rfl, Nat.le_of_not_lt hd⟩

theorem find1_onlyExpiredGone (s : TlruState) (now : Time) (k : Key) (peek : Bool)
    (h : peek = true ∨ (find1 s now k peek).2 = none) :
    OnlyExpiredGone s now (find1 s now k peek).1 := by
  rcases find1_state s now k peek h with h1 | ⟨h1, e, he, hd⟩
  · rw [h1]; exact OnlyExpiredGone.refl s now
  · rw [h1]
    refine ⟨[k], ?_, rfl⟩
    intro k' hk'
    simp only [List.mem_cons, List.not_mem_nil, or_false] at hk'
    subst hk'
    exact ⟨e, he, hd⟩

theorem findMany_peek (c : Core TlruState) (hc : c.find1 = find1) (s : TlruState) (now : Time)
    (keys : List Key) : OnlyExpiredGone s now (c.findMany s now true keys).1 := by
  induction keys generalizing s with
  | nil => exact OnlyExpiredGone.refl s now
  | cons k keys ih =>
    simp only [Core.findMany, hc]
    rcases find1_state s now k true (Or.inl rfl) with h1 | ⟨h1, e, he, hd⟩
    · rw [h1]; exact ih s
    · rw [h1]
      obtain ⟨ks, hks, heq⟩ := ih (removeKey s k)
      refine ⟨k :: ks, ?_, ?_⟩
      · intro k' hk'
        rcases List.mem_cons.mp hk' with hk' | hk'
        · subst hk'; exact ⟨e, he, hd⟩
        · obtain ⟨e', he', hd'⟩ := hks k' hk'
          exact ⟨e', getE_removeKey he', hd'⟩
      · rw [heq]; rfl

theorem insert1_rej (s : TlruState) (now : Time) (k : Key) (v : Val) (a : Allow) (d : Time)
    (h : (insert1 s now k v a d).2 = false) : (insert1 s now k v a d).1 = s := by
  unfold insert1 at h ⊢
  cases hg : getE s.ents k with
  | none =>
    simp only [hg] at h ⊢
    cases a <;> simp [Allow.ins] at h ⊢
  | some e =>
    simp only [hg] at h ⊢
    by_cases hd : e.dl ≤ now <;> cases a <;> simp [Allow.upd, Allow.ins, hd] at h ⊢

theorem erase1_abs (s : TlruState) (k : Key) (h : (erase1 s k).2 = false) : (erase1 s k).1 = s := by
  unfold erase1 at h ⊢
  cases hg : getE s.ents k <;> simp [hg] at h ⊢

/-- C19 for any core over `TlruState` with trivial prologue, `Tlru.find1`, `Tlru.erase1`, and an
insert that is `Tlru.insert1` at some deadline -/
theorem C19_generic (c : Core TlruState) (hpre : ∀ s now, c.pre s now = s) (hf : c.find1 = find1)
    (he : c.erase1 = erase1)
    (hi : ∀ s now k v a ttl, ∃ d, c.insert1 s now k v a ttl = insert1 s now k v a d)
    (s : TlruState) (now : Time) (op : Op) (h : NoEffect c s now op) :
    OnlyExpiredGone s now (c.step s now op).1 := by
  cases op with
  | find k peek =>
    simp only [Core.step, hpre, hf]
    apply find1_onlyExpiredGone
    cases peek with
    | true => exact Or.inl rfl
    | false =>
      right
      simp only [NoEffect, Core.step, hpre, hf] at h
      cases hr : (find1 s now k false).2 with
      | none => rfl
      | some x => rw [hr] at h; simp at h
  | findCount k peek =>
    simp only [Core.step, hpre, hf]
    apply find1_onlyExpiredGone
    cases peek with
    | true => exact Or.inl rfl
    | false =>
      right
      simp only [NoEffect, Core.step, hpre, hf] at h
      injection h
  | findRange ks peek =>
    cases peek with
    | true => simp only [Core.step, hpre]; exact findMany_peek c hf s now ks
    | false => exact absurd h (by simp [NoEffect])
  | insert k v a ttl =>
    obtain ⟨d, hd⟩ := hi s now k v a ttl
    simp only [NoEffect, Core.step, hpre, hd] at h
    simp only [Core.step, hpre, hd]
    rw [insert1_rej s now k v a d (by injection h)]
    exact OnlyExpiredGone.refl s now
  | erase k =>
    simp only [NoEffect, Core.step, hpre, he] at h
    simp only [Core.step, hpre, he]
    rw [erase1_abs s k (by injection h)]
    exact OnlyExpiredGone.refl s now
  | _ => exact absurd h (by simp [NoEffect])

end Tlru

/-- **C19, tlru_cache**: the call changes the state at most by removing entries that had already
expired at `now`. -/
theorem C19_tlru (s : TlruState) (now : Time) (op : Op) (h : NoEffect Tlru.core s now op) :
    ∃ ks : List Key, (∀ k ∈ ks, ∃ e, getE s.ents k = some e ∧ e.dl ≤ now) ∧
      (Tlru.core.step s now op).1 = ks.foldl Tlru.removeKey s :=
  Tlru.C19_generic Tlru.core (fun _ _ => rfl) rfl rfl (fun _ _ _ _ _ _ => ⟨_, rfl⟩) s now op h

/-- **C19, utlru_cache**: likewise. -/
theorem C19_utlru (s : TlruState) (now : Time) (op : Op) (h : NoEffect Utlru.core s now op) :
    ∃ ks : List Key, (∀ k ∈ ks, ∃ e, getE s.ents k = some e ∧ e.dl ≤ now) ∧
      (Utlru.core.step s now op).1 = ks.foldl Tlru.removeKey s :=
  Tlru.C19_generic Utlru.core (fun _ _ => rfl) rfl rfl (fun _ _ _ _ _ _ => ⟨_, rfl⟩) s now op h

/-! ## ut_map / ut_set: exactly the prologue -/

namespace UtMap

theorem findMany_state (s : UtMapState) (now : Time) (peek : Bool) (ks : List Key) :
    (core.findMany s now peek ks).1 = s := by
  induction ks generalizing s with
  | nil => rfl
  | cons k ks ih =>
    simp only [Core.findMany]
    exact ih s

theorem insert1_rej (s : UtMapState) (now : Time) (k : Key) (v : Val) (a : Allow)
    (h : (insert1 s now k v a).2 = false) : (insert1 s now k v a).1 = s := by
  unfold insert1 at h ⊢
  cases hg : getE s.tq k <;> cases a <;> simp [hg, Allow.upd, Allow.ins] at h ⊢

theorem erase1_abs (s : UtMapState) (k : Key) (h : (erase1 s k).2 = false) : (erase1 s k).1 = s := by
  unfold erase1 at h ⊢
  cases hg : getE s.tq k <;> simp [hg] at h ⊢

end UtMap

/-- **C19, ut_map / ut_set**: the call does exactly what the per-call prologue does. -/
theorem C19_utmap (s : UtMapState) (now : Time) (op : Op) (h : NoEffect UtMap.core s now op) :
    (UtMap.core.step s now op).1 = { s with tq := UtMap.purge s.tq now } := by
  cases op with
  | find k peek => rfl
  | findCount k peek => rfl
  | findRange ks peek => exact UtMap.findMany_state _ now peek ks
  | insert k v a ttl =>
    have h' : (UtMap.insert1 (UtMap.core.pre s now) now k v a).2 = false := by
      simp only [NoEffect, Core.step] at h
      injection h
    exact UtMap.insert1_rej _ now k v a h'
  | erase k =>
    have h' : (UtMap.erase1 (UtMap.core.pre s now) k).2 = false := by
      simp only [NoEffect, Core.step] at h
      injection h
    exact UtMap.erase1_abs _ k h'
  | _ => exact absurd h (by simp [NoEffect])

end Verif
