import Verif.Model.Ttl
import Verif.ListLemmas
import Verif.Spec.Lift
/-!
# `ut_map` / `ut_set` refine the eager reference semantics (every history)

The ttl list is sorted by deadline because every deadline is `now + ttl` for a clock reading `now`
no later than the latest one, and the clock never goes back.  Hence dropping the maximal expired
prefix (`do_prune`) drops every expired entry.
-/
namespace Verif
open Verif.Spec

namespace UtMap

structure Inv (t : Time) (s : UtMapState) : Prop where
  nodup : (keys s.tq).Nodup
  sorted : List.Pairwise (fun x y => x.dl ≤ y.dl) s.tq
  bound : ∀ e ∈ s.tq, e.dl ≤ t + s.ttl

def abs (s : UtMapState) : A := absOf s.tq

theorem inv_init (ttlMs : Nat) (t : Time) : Inv t (init ttlMs) :=
  ⟨by simp [init, keys], by simp [init], by simp [init]⟩

/-! ## list facts -/

/-- on a deadline-sorted list the maximal expired prefix is all the expired entries -/
theorem purge_eq_filter {l : List Entry} (hs : List.Pairwise (fun x y => x.dl ≤ y.dl) l) (now : Time) :
    purge l now = l.filter (fun e => decide (now < e.dl)) := by
  induction l with
  | nil => rfl
  | cons e l ih =>
    rw [List.pairwise_cons] at hs
    simp only [purge] at ih ⊢
    by_cases h : e.dl ≤ now
    · have h' : ¬ now < e.dl := Nat.not_lt.mpr h
      simp only [List.dropWhile_cons, List.filter_cons, h, h', decide_true, decide_false, if_true,
        Bool.false_eq_true, if_false]
      exact ih hs.2
    · have h' : now < e.dl := Nat.lt_of_not_le h
      simp only [List.dropWhile_cons, List.filter_cons, h, h', decide_true, decide_false, if_true,
        Bool.false_eq_true, if_false]
      congr 1
      symm
      rw [List.filter_eq_self]
      intro y hy
      have : e.dl ≤ y.dl := hs.1 y hy
      exact decide_eq_true (Nat.lt_of_lt_of_le h' this)

theorem purged_add (l : List Entry) (now : Time) : (purge l now).length + purged l now = l.length := by
  have := congrArg List.length (List.takeWhile_append_dropWhile (p := fun e : Entry => decide (e.dl ≤ now)) (l := l))
  simp only [List.length_append] at this
  simp only [purge, purged]
  omega

theorem getE_filter {l : List Entry} (hn : (keys l).Nodup) (p : Entry → Bool) (k : Key) :
    getE (l.filter p) k = (getE l k).filter p := by
  induction l with
  | nil => rfl
  | cons e l ih =>
    simp only [keys, List.map_cons, List.nodup_cons] at hn
    have ih := ih hn.2
    rw [getE_cons]
    by_cases hp : p e = true
    · rw [List.filter_cons_of_pos hp, getE_cons]
      by_cases hk : e.key = k
      · simp [hk, hp, Option.filter]
      · simp only [hk, if_false]; exact ih
    · rw [List.filter_cons_of_neg hp]
      by_cases hk : e.key = k
      · have hnone : getE l k = none := by
          rw [getE_eq_none_iff]; rw [← hk]; exact hn.1
        rw [ih, hnone]
        simp [hk, hp, Option.filter]
      · simp only [hk, if_false]; exact ih

theorem keys_filter_sublist (l : List Entry) (p : Entry → Bool) : (keys (l.filter p)).Sublist (keys l) :=
  (List.filter_sublist (p := p) (l := l)).map _

theorem absOf_filter_reap {l : List Entry} (hn : (keys l).Nodup) (now : Time) :
    (absOf (l.filter (fun e => decide (now < e.dl)))).get = (absOf l).get.reap now := by
  funext k
  simp only [absOf_get, AMap.reap]
  rw [getE_filter hn]
  cases getE l k with
  | none => rfl
  | some e =>
    by_cases h : now < e.dl <;> simp [Option.filter, h]

theorem inv_filter {t : Time} {s : UtMapState} (h : Inv t s) (p : Entry → Bool) :
    Inv t { s with tq := s.tq.filter p } :=
  ⟨h.nodup.sublist (keys_filter_sublist _ _), h.sorted.sublist List.filter_sublist,
   fun e he => h.bound e (List.mem_filter.mp he).1⟩

theorem inv_snoc {now : Time} {s : UtMapState} {l : List Entry} {e : Entry}
    (hn : (keys l).Nodup) (hs : List.Pairwise (fun x y => x.dl ≤ y.dl) l)
    (hb : ∀ x ∈ l, x.dl ≤ now + s.ttl) (hk : e.key ∉ keys l) (hd : e.dl = now + s.ttl) :
    Inv now { s with tq := l ++ [e] } := by
  refine ⟨nodup_keys_snoc hn hk, ?_, ?_⟩
  · show List.Pairwise _ (l ++ [e])
    rw [List.pairwise_append]
    refine ⟨hs, by simp, ?_⟩
    intro a ha b hb'
    simp only [List.mem_singleton] at hb'
    subst hb'
    rw [hd]; exact hb a ha
  · intro x hx
    rcases List.mem_append.mp hx with hx | hx
    · exact hb x hx
    · simp only [List.mem_singleton] at hx; subst hx; rw [hd]; exact Nat.le_refl _

theorem absOf_set_del {l : List Entry} {k : Key} {e' : Entry} (hk : e'.key = k) :
    (absOf (delE l k ++ [e'])).get = (absOf l).get.set k (e'.val, e'.dl) := by
  funext k'
  simp only [absOf_get, AMap.set]
  rw [getE_append_single]
  by_cases h : k' = k
  · subst h; simp [getE_delE_self, hk]
  · rw [getE_delE_ne _ h]
    have : ¬ e'.key = k' := by rw [hk]; exact fun h' => h h'.symm
    simp only [h, this, if_false]
    cases getE l k' <;> rfl

theorem absOf_set_new {l : List Entry} {k : Key} {e' : Entry} (hk : e'.key = k)
    (hg : getE l k = none) :
    (absOf (l ++ [e'])).get = (absOf l).get.set k (e'.val, e'.dl) := by
  funext k'
  simp only [absOf_get, AMap.set, getE_append_single]
  by_cases h1 : k' = k
  · subst h1; simp [hg, hk]
  · have : ¬ e'.key = k' := by rw [hk]; exact fun h' => h1 h'.symm
    simp only [h1, this, if_false]; cases getE l k' <;> rfl

/-! ## the refinement -/

theorem pre_spec (s : UtMapState) (now : Time) (h : Inv now s) :
    Inv now { s with tq := purge s.tq now } ∧
    (absOf (purge s.tq now)).get = (absOf s.tq).get.reap now := by
  rw [purge_eq_filter h.sorted]
  exact ⟨inv_filter h _, absOf_filter_reap h.nodup now⟩

theorem refines (cap : Nat) : Refines core .eager cap Inv abs where
  mono s t t' h htt :=
    ⟨h.nodup, h.sorted, fun e he => Nat.le_trans (h.bound e he) (Nat.add_le_add_right htt _)⟩
  pre s now h := by
    obtain ⟨hi, hg⟩ := pre_spec s now h
    refine ⟨hi, ?_⟩
    simp only [core, abs, AStep, if_true]
    refine ⟨hg, ?_⟩
    have := purged_add s.tq now
    simp only [absOf_size]; omega
  insert1 s now k v a ttl h := by
    simp only [core, UtMap.insert1, abs]
    cases hg : getE s.tq k with
    | some e =>
      have hek := getE_key hg
      subst hek
      by_cases ha : a.upd = true
      · simp only [ha, if_true]
        have hlen := length_delE_of_getE h.nodup hg
        refine ⟨?_, ?_⟩
        · exact inv_snoc (nodup_keys_delE h.nodup _)
            (h.sorted.sublist List.filter_sublist)
            (fun x hx => h.bound x (List.mem_filter.mp hx).1)
            (by intro hm; exact (mem_keys_delE.mp hm).2 rfl) rfl
        · simp only [AStep, absOf_get, hg, Option.map_some, ha, true_or, if_true, true_and]
          refine ⟨?_, ?_⟩
          · rw [absOf_set_del (e' := { e with val := v, dl := now + s.ttl }) rfl]
          · simp only [absOf_size, List.length_append, List.length_singleton]; omega
      · simp only [ha, Bool.false_eq_true, if_false]
        refine ⟨h, ?_⟩
        simp [AStep, absOf_get, hg, ha]
    | none =>
      by_cases ha : a.ins = true
      · simp only [ha, if_true]
        have hk : k ∉ keys s.tq := getE_eq_none_iff.mp hg
        refine ⟨inv_snoc h.nodup h.sorted h.bound hk rfl, ?_⟩
        simp only [AStep, absOf_get, hg, Option.map_none, ha, if_true, true_and, ne_eq,
          not_true_eq_false, false_and, if_false, absOf_size, List.length_append,
          List.length_singleton, and_true]
        rw [absOf_set_new (e' := { key := k, val := v, dl := now + s.ttl }) rfl hg]
      · simp only [ha, Bool.false_eq_true, if_false]
        refine ⟨h, ?_⟩
        simp [AStep, absOf_get, hg, ha]
  find1 s now k peek h := by
    simp only [core, UtMap.find1, abs]
    refine ⟨h, ?_⟩
    cases hg : getE s.tq k with
    | none => simp [AStep, absOf_get, hg]
    | some e => simp [AStep, absOf_get, hg]
  erase1 s now k h := by
    cases hg : getE s.tq k with
    | none =>
      simp only [core, UtMap.erase1, abs, hg]
      exact ⟨h, by simp [AStep, absOf_get, hg]⟩
    | some e =>
      simp only [core, UtMap.erase1, abs, hg]
      have hlen := length_delE_of_getE h.nodup hg
      refine ⟨inv_filter h _, ?_⟩
      simp only [AStep, absOf_get, hg, Option.map_some, true_and, absOf_size]
      refine ⟨?_, hlen⟩
      funext k'
      simp only [absOf_get, AMap.del]
      by_cases h1 : k' = k
      · subst h1; simp [getE_delE_self]
      · simp [h1, getE_delE_ne _ h1]
  clear s now _ h := by
    simp only [core, abs]
    refine ⟨⟨by simp [keys], by simp, by simp⟩, ?_⟩
    simp only [AStep, absOf_size, List.length_nil, and_true]
    funext k'
    simp [absOf_get, AMap.empty]
  clean s now h := by
    obtain ⟨hi, hg⟩ := pre_spec s now h
    refine ⟨hi, ?_⟩
    simp only [core, abs, AStep, reduceCtorEq, if_false]
    refine ⟨hg, ?_⟩
    have := purged_add s.tq now
    simp only [absOf_size]; exact this
  age s now h := ⟨h, rfl⟩
  updateTtl s _ t h := ⟨h, rfl⟩
  size s _ h := rfl
  capacity s _ h hne := absurd rfl hne

end UtMap
end Verif
