import Verif.Proofs.Refine.TlruLemmas
/-!
# `tlru_cache` and `utlru_cache` refine the lazy reference semantics (every history)

The shared primitives (`Tlru.insert1` with an arbitrary deadline, `find1`, `erase1`, `clean`) are
proved once; the two cores differ only in the deadline they pass and in `clear` / `updateTtl`.
-/
namespace Verif
open Verif.Spec

namespace Tlru

structure Inv (cap : Nat) (s : TlruState) : Prop where
  cap_eq : s.cap = cap
  cap_pos : 0 < cap
  nodup : (keys s.ents).Nodup
  bound : s.ents.length ≤ cap
  /-- no key is filed twice -/
  tq_nodup : (s.tq.map (·.2)).Nodup
  /-- the ttl structure files exactly the resident keys, each under its entry's deadline -/
  tq_iff : ∀ d k, (d, k) ∈ s.tq ↔ ∃ e, getE s.ents k = some e ∧ e.dl = d
  /-- deadline ascending -/
  sorted : s.tq.Pairwise (fun x y => x.1 ≤ y.1)

def abs (s : TlruState) : A := absOf s.ents

theorem Inv.cons {cap : Nat} {s : TlruState} (h : Inv cap s) : Cons s.ents s.tq :=
  ⟨h.nodup, h.tq_nodup, h.tq_iff, h.sorted⟩

theorem Inv.of_cons {cap : Nat} {s : TlruState} (h1 : s.cap = cap) (h2 : 0 < cap)
    (h3 : s.ents.length ≤ cap) (c : Cons s.ents s.tq) : Inv cap s :=
  ⟨h1, h2, c.nodup, h3, c.tq_nodup, c.tq_iff, c.sorted⟩

theorem inv_init {cap : Nat} (h : 0 < cap) : Inv cap (init cap) :=
  Inv.of_cons rfl h (by simp [init]) cons_nil

/-- removing a resident key: invariant, and the `del` effect on the abstraction -/
theorem removeKey_spec {cap : Nat} {s : TlruState} (h : Inv cap s) {k : Key} {e : Entry}
    (hg : getE s.ents k = some e) :
    Inv cap (removeKey s k) ∧ (abs (removeKey s k)).get = (abs s).get.del k ∧
      (abs (removeKey s k)).size + 1 = (abs s).size := by
  have hlen : (delE s.ents k).length + 1 = s.ents.length := length_delE_of_getE h.nodup hg
  refine ⟨Inv.of_cons h.cap_eq h.cap_pos ?_ (h.cons.remove k), absOf_delE _ _, hlen⟩
  show (delE s.ents k).length ≤ cap
  have := h.bound; omega

/-- what `prune` does on a non-empty state: removes exactly one resident key -/
theorem prune_spec {cap : Nat} {s : TlruState} (h : Inv cap s) (hne : s.ents ≠ []) (now : Time) :
    ∃ w e, getE s.ents w = some e ∧ prune s now = removeKey s w := by
  have htq := h.cons.tq_ne_nil hne
  unfold prune
  cases htq' : s.tq with
  | nil => exact absurd htq' htq
  | cons x rest =>
    obtain ⟨d, k⟩ := x
    simp only
    by_cases hd : d ≤ now
    · simp only [hd, if_true]
      obtain ⟨e, he, _⟩ := (h.tq_iff d k).mp (by rw [htq']; exact List.mem_cons_self ..)
      exact ⟨k, e, he, rfl⟩
    · simp only [hd, if_false]
      cases hents : s.ents with
      | nil => exact absurd hents hne
      | cons e t =>
        simp only
        exact ⟨e.key, e, by simp [getE_cons], rfl⟩

/-- overwrite of a resident entry -/
theorem update_spec {cap : Nat} {s : TlruState} (h : Inv cap s) {e : Entry}
    (hg : getE s.ents e.key = some e) (v : Val) (d : Time) :
    Inv cap (update s e v d) ∧ (abs (update s e v d)).get = (abs s).get.set e.key (v, d) ∧
      (abs (update s e v d)).size = (abs s).size := by
  have hlen : (delE s.ents e.key).length + 1 = s.ents.length := length_delE_of_getE h.nodup hg
  have hnot : ({ e with val := v, dl := d } : Entry).key ∉ keys (delE s.ents e.key) := by
    intro hm; exact (mem_keys_delE.mp hm).2 rfl
  have hc : Cons (update s e v d).ents (update s e v d).tq :=
    (h.cons.remove e.key).add (e' := { e with val := v, dl := d }) hnot
  have hsz : (update s e v d).ents.length = s.ents.length := by
    simp only [update, List.length_append, List.length_singleton]; omega
  refine ⟨Inv.of_cons h.cap_eq h.cap_pos (by rw [hsz]; exact h.bound) hc, ?_, hsz⟩
  show (absOf (delE s.ents e.key ++ [{ e with val := v, dl := d }])).get = _
  rw [absOf_snoc (e' := { e with val := v, dl := d }) (getE_delE_self _ _), absOf_delE]
  exact AMap.set_del_self _ _ _

/-- `do_insert_update` with an arbitrary deadline `d` -/
theorem insert1_spec {cap : Nat} {s : TlruState} (h : Inv cap s) (now : Time) (k : Key) (v : Val)
    (a : Allow) (d : Time) :
    Inv cap (insert1 s now k v a d).1 ∧
      AStep .lazy cap (abs s) now (.ins k v a d (insert1 s now k v a d).2) (abs (insert1 s now k v a d).1) := by
  cases hg : getE s.ents k with
  | some e =>
    have hek := getE_key hg
    subst hek
    obtain ⟨u1, u2, u3⟩ := update_spec h hg v d
    by_cases hal : a.upd = true ∨ (a.ins = true ∧ e.dl ≤ now)
    · have hi : insert1 s now e.key v a d = (update s e v d, true) := by
        simp only [insert1, hg]
        rcases hal with hu | ⟨hi, hd⟩
        · simp [hu]
        · simp [hi, hd]
      rw [hi]
      refine ⟨u1, ?_⟩
      have hal' : a.upd = true ∨ True ∧ a.ins = true ∧ e.dl ≤ now := by
        rcases hal with hu | hh
        · exact Or.inl hu
        · exact Or.inr ⟨trivial, hh⟩
      simp only [AStep, abs, absOf_get, hg, Option.map_some]
      rw [if_pos hal']
      exact ⟨trivial, u2, u3⟩
    · have hi : insert1 s now e.key v a d = (s, false) := by
        simp only [insert1, hg]
        have h1 : ¬ a.upd = true := fun hh => hal (Or.inl hh)
        simp only [h1]
        by_cases h2 : a.ins = true
        · have h3 : ¬ e.dl ≤ now := fun hh => hal (Or.inr ⟨h2, hh⟩)
          simp [h2, h3]
        · simp [h2]
      rw [hi]
      refine ⟨h, ?_⟩
      have hal' : ¬ (a.upd = true ∨ True ∧ a.ins = true ∧ e.dl ≤ now) := by
        rintro (hu | ⟨_, hh⟩)
        · exact hal (Or.inl hu)
        · exact hal (Or.inr hh)
      simp only [AStep, abs, absOf_get, hg, Option.map_some]
      rw [if_neg hal']
      exact ⟨trivial, trivial⟩
  | none =>
    have hk : k ∉ keys s.ents := getE_eq_none_iff.mp hg
    by_cases ha : a.ins = true
    · by_cases hfull : s.ents.length ≥ s.cap
      · have hne : s.ents ≠ [] := by
          intro h0; rw [h0] at hfull; simp at hfull; have := h.cap_pos; have := h.cap_eq; omega
        obtain ⟨w, ew, hw, hpr⟩ := prune_spec h hne now
        obtain ⟨r1, r2, r3⟩ := removeKey_spec h hw
        have hi : insert1 s now k v a d =
            ({ removeKey s w with
                ents := (removeKey s w).ents ++ [{ key := k, val := v, dl := d }],
                tq := fileDl (removeKey s w).tq d k }, true) := by
          simp only [insert1, hg, ha, if_true, hfull, hpr]
        rw [hi]
        have hk' : k ∉ keys (removeKey s w).ents := fun hm => hk (mem_keys_delE.mp hm).1
        have hc := r1.cons.add (e' := { key := k, val := v, dl := d }) hk'
        have hsz : ((removeKey s w).ents ++ [({ key := k, val := v, dl := d } : Entry)]).length
            = s.ents.length := by
          have : (removeKey s w).ents.length + 1 = s.ents.length := r3
          simp only [List.length_append, List.length_singleton]; exact this
        refine ⟨Inv.of_cons h.cap_eq h.cap_pos (by show _ ≤ cap; rw [hsz]; exact h.bound) hc, ?_⟩
        have hcs : cap ≤ s.ents.length := by rw [← h.cap_eq]; exact hfull
        simp only [AStep, abs, absOf_get, hg, Option.map_none, ha, if_true, true_and, ne_eq,
          reduceCtorEq, not_false_eq_true, absOf_size, hcs, and_self]
        refine ⟨w, by simp [hw], ?_, hsz⟩
        show (absOf ((removeKey s w).ents ++ [{ key := k, val := v, dl := d }])).get = _
        rw [absOf_snoc (e' := { key := k, val := v, dl := d }) (getE_eq_none_iff.mpr hk')]
        show ((abs (removeKey s w)).get).set k (v, d) = _
        rw [r2]; rfl
      · have hi : insert1 s now k v a d =
            ({ s with ents := s.ents ++ [{ key := k, val := v, dl := d }],
                      tq := fileDl s.tq d k }, true) := by
          simp only [insert1, hg, ha, if_true, hfull, if_false]
        rw [hi]
        have hlt : s.ents.length < cap := by rw [← h.cap_eq]; omega
        have hc := h.cons.add (e' := { key := k, val := v, dl := d }) hk
        refine ⟨Inv.of_cons h.cap_eq h.cap_pos (by
          show (s.ents ++ [_]).length ≤ cap
          simp only [List.length_append, List.length_singleton]; omega) hc, ?_⟩
        have hnc : ¬ cap ≤ s.ents.length := by omega
        simp only [AStep, abs, absOf_get, hg, Option.map_none, ha, if_true, true_and, ne_eq,
          reduceCtorEq, not_false_eq_true, absOf_size, hnc, and_false, if_false,
          List.length_append, List.length_singleton, and_true]
        exact absOf_snoc (e' := { key := k, val := v, dl := d }) hg
    · have hi : insert1 s now k v a d = (s, false) := by
        simp only [insert1, hg, ha, Bool.false_eq_true, if_false]
      rw [hi]
      refine ⟨h, ?_⟩
      simp [AStep, abs, absOf_get, hg, ha]

theorem find1_spec {cap : Nat} {s : TlruState} (h : Inv cap s) (now : Time) (k : Key) (peek : Bool) :
    Inv cap (find1 s now k peek).1 ∧
      AStep .lazy cap (abs s) now (.look k peek (find1 s now k peek).2) (abs (find1 s now k peek).1) := by
  cases hg : getE s.ents k with
  | none =>
    simp only [find1, hg]
    exact ⟨h, by simp [AStep, abs, absOf_get, hg]⟩
  | some e =>
    by_cases hd : now < e.dl
    · have hnd : ¬ e.dl ≤ now := Nat.not_le.mpr hd
      cases peek with
      | true =>
        simp only [find1, hg, hd, if_true]
        refine ⟨h, ?_⟩
        simp only [AStep, abs, absOf_get, hg, Option.map_some]
        rw [if_neg (fun hh => hnd hh.2)]
        exact ⟨trivial, trivial⟩
      | false =>
        simp only [find1, hg, hd, if_true, Bool.false_eq_true, if_false]
        have hlen := length_delE_of_getE h.nodup hg
        have hsz : (delE s.ents k ++ [e]).length = s.ents.length := by
          simp only [List.length_append, List.length_singleton]; omega
        refine ⟨Inv.of_cons h.cap_eq h.cap_pos (by show _ ≤ cap; rw [hsz]; exact h.bound)
          (h.cons.touch hg), ?_⟩
        simp only [AStep, abs, absOf_get, hg, Option.map_some]
        rw [if_neg (fun hh => hnd hh.2)]
        refine ⟨trivial, ?_⟩
        apply A.ext'
        · funext k'
          show (getE (delE s.ents k ++ [e]) k').map _ = (getE s.ents k').map _
          rw [getE_touch hg]
        · exact hsz
    · have hle : e.dl ≤ now := Nat.le_of_not_lt hd
      obtain ⟨r1, r2, r3⟩ := removeKey_spec h hg
      simp only [find1, hg, hd, if_false]
      refine ⟨r1, ?_⟩
      simp only [AStep, absOf_get, abs, hg, Option.map_some]
      rw [if_pos ⟨trivial, hle⟩]
      exact ⟨trivial, r2, r3⟩

theorem erase1_spec {cap : Nat} {s : TlruState} (h : Inv cap s) (now : Time) (k : Key) :
    Inv cap (erase1 s k).1 ∧ AStep .lazy cap (abs s) now (.del k (erase1 s k).2) (abs (erase1 s k).1) := by
  cases hg : getE s.ents k with
  | none =>
    simp only [erase1, hg]
    exact ⟨h, by simp [AStep, abs, absOf_get, hg]⟩
  | some e =>
    obtain ⟨r1, r2, r3⟩ := removeKey_spec h hg
    simp only [erase1, hg]
    refine ⟨r1, ?_⟩
    simp only [AStep, abs, absOf_get, hg, Option.map_some]
    exact ⟨trivial, r2, r3⟩

theorem clean_spec {cap : Nat} {s : TlruState} (h : Inv cap s) (now : Time) :
    Inv cap (clean s now).1 ∧ AStep .lazy cap (abs s) now (.reap (clean s now).2) (abs (clean s now).1) := by
  have hmem : ∀ k, k ∈ cleanLoop now s.tq ↔ ∃ e, getE s.ents k = some e ∧ e.dl ≤ now := by
    intro k
    rw [mem_cleanLoop h.sorted]
    constructor
    · rintro ⟨d, hm, hd⟩
      obtain ⟨e, he, hed⟩ := (h.tq_iff d k).mp hm
      exact ⟨e, he, hed ▸ hd⟩
    · rintro ⟨e, he, hd⟩
      exact ⟨e.dl, (h.tq_iff e.dl k).mpr ⟨e, he, rfl⟩, hd⟩
  have hnd : (cleanLoop now s.tq).Nodup := h.tq_nodup.sublist (cleanLoop_sublist now s.tq)
  have hres : ∀ k ∈ cleanLoop now s.tq, k ∈ keys s.ents := by
    intro k hk
    obtain ⟨e, he, _⟩ := (hmem k).mp hk
    exact getE_isSome_iff.mp (by simp [he])
  obtain ⟨c1, c2, c3, c4⟩ := foldl_removeKey_spec (cleanLoop now s.tq) s h.cons hnd hres
  simp only [clean]
  refine ⟨Inv.of_cons (c2.trans h.cap_eq) h.cap_pos ?_ c1, ?_⟩
  · have := h.bound; omega
  · simp only [AStep, reduceCtorEq, if_false, abs, absOf_size]
    refine ⟨?_, c3⟩
    funext k
    simp only [absOf_get, AMap.reap, c4 k]
    cases hg : getE s.ents k with
    | none => simp
    | some e =>
      by_cases hd : e.dl ≤ now
      · have hin : k ∈ cleanLoop now s.tq := (hmem k).mpr ⟨e, hg, hd⟩
        have hnlt : ¬ now < e.dl := Nat.not_lt.mpr hd
        simp [hin, Option.filter, hnlt]
      · have hnin : k ∉ cleanLoop now s.tq := by
          intro hin
          obtain ⟨e', he', hd'⟩ := (hmem k).mp hin
          rw [hg] at he'
          cases he'
          exact hd hd'
        have hlt : now < e.dl := Nat.lt_of_not_le hd
        simp [hnin, Option.filter, hlt]

theorem refines (cap : Nat) : Refines core .lazy cap (fun _ => Inv cap) abs where
  mono _ _ _ h _ := h
  pre s now h := ⟨h, by simp [core, AStep]⟩
  insert1 s now k v a ttl h := insert1_spec h now k v a (now + ttl * msNs)
  find1 s now k peek h := find1_spec h now k peek
  erase1 s now k h := erase1_spec h now k
  clear s now hc h := by simp [core] at hc
  clean s now h := clean_spec h now
  age s now h := ⟨h, rfl⟩
  updateTtl s _ t h := ⟨h, rfl⟩
  size s _ h := rfl
  capacity s _ h _ := h.cap_eq

end Tlru

namespace Utlru

theorem inv_init {cap : Nat} (h : 0 < cap) (ttlMs : Nat) : Tlru.Inv cap (init cap ttlMs) :=
  Tlru.Inv.of_cons rfl h (by simp [init]) Tlru.cons_nil

theorem refines (cap : Nat) : Refines core .lazy cap (fun _ => Tlru.Inv cap) Tlru.abs where
  mono _ _ _ h _ := h
  pre s now h := ⟨h, by simp [core, AStep]⟩
  insert1 s now k v a ttl h := Tlru.insert1_spec h now k v a (now + s.ttl)
  find1 s now k peek h := Tlru.find1_spec h now k peek
  erase1 s now k h := Tlru.erase1_spec h now k
  clear s now _ h := by
    refine ⟨Tlru.Inv.of_cons h.cap_eq h.cap_pos (Nat.zero_le _) Tlru.cons_nil, ?_⟩
    simp only [AStep, core, Tlru.abs, absOf_size, List.length_nil, and_true]
    funext k
    simp [absOf_get, AMap.empty]
  clean s now h := Tlru.clean_spec h now
  age s now h := ⟨h, rfl⟩
  updateTtl s _ t h := ⟨⟨h.cap_eq, h.cap_pos, h.nodup, h.bound, h.tq_nodup, h.tq_iff, h.sorted⟩, rfl⟩
  size s _ h := rfl
  capacity s _ h _ := h.cap_eq

end Utlru
end Verif
