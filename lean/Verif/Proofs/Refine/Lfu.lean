import Verif.Model.Lfu
import Verif.ListLemmas
import Verif.Spec.Lift
/-!
# `lfu_cache` refines the plain reference semantics (every history)

The first part (namespace `Verif`) is about `fileCnt` (`multimap::emplace`) as an insertion into an
association list, and about the abstraction of the list operations the lfu/lfuda models are made
of (`fileCnt`, `delE`, `tail`, re-filing an entry); it is reused by `Refine/Lfuda.lean`.
-/
namespace Verif
open Verif.Spec

/-! ## `fileCnt` is an insertion -/

theorem fileCnt_perm (l : List Entry) (e : Entry) : (fileCnt l e).Perm (e :: l) := by
  induction l with
  | nil => exact List.Perm.refl _
  | cons x xs ih =>
    simp only [fileCnt]
    split
    · exact (ih.cons x).trans (List.Perm.swap e x xs)
    · exact List.Perm.refl _

theorem length_fileCnt (l : List Entry) (e : Entry) : (fileCnt l e).length = l.length + 1 := by
  simpa using (fileCnt_perm l e).length_eq

theorem mem_fileCnt {l : List Entry} {e x : Entry} : x ∈ fileCnt l e ↔ x = e ∨ x ∈ l := by
  rw [(fileCnt_perm l e).mem_iff, List.mem_cons]

theorem keys_fileCnt_perm (l : List Entry) (e : Entry) :
    (keys (fileCnt l e)).Perm (e.key :: keys l) := by
  simpa [keys] using (fileCnt_perm l e).map (·.key)

theorem mem_keys_fileCnt {l : List Entry} {e : Entry} {x : Key} :
    x ∈ keys (fileCnt l e) ↔ x = e.key ∨ x ∈ keys l := by
  rw [(keys_fileCnt_perm l e).mem_iff, List.mem_cons]

theorem nodup_keys_fileCnt {l : List Entry} (hn : (keys l).Nodup) {e : Entry}
    (he : e.key ∉ keys l) : (keys (fileCnt l e)).Nodup := by
  rw [(keys_fileCnt_perm l e).nodup_iff, List.nodup_cons]
  exact ⟨he, hn⟩

theorem getE_fileCnt {l : List Entry} {e : Entry} (he : e.key ∉ keys l) (k : Key) :
    getE (fileCnt l e) k = if e.key = k then some e else getE l k := by
  induction l with
  | nil => simp [fileCnt, getE_cons]
  | cons x xs ih =>
    simp only [keys, List.map_cons, List.mem_cons, not_or] at he
    simp only [fileCnt]
    split
    · rw [getE_cons, ih he.2, getE_cons]
      by_cases h1 : x.key = k
      · have : ¬ e.key = k := fun h' => he.1 (h'.trans h1.symm)
        simp [h1, this]
      · simp [h1]
    · rw [getE_cons]

theorem dl0_fileCnt {l : List Entry} (hd : ∀ x ∈ l, x.dl = 0) {e : Entry} (he : e.dl = 0) :
    ∀ x ∈ fileCnt l e, x.dl = 0 := by
  intro x hx
  rcases mem_fileCnt.mp hx with hx | hx
  · subst hx; exact he
  · exact hd x hx

/-! ## abstract maps -/

theorem amap_set_del (m : AMap) (k : Key) (x : Val × Time) : (m.del k).set k x = m.set k x := by
  funext k'
  by_cases h : k' = k <;> simp [AMap.set, AMap.del, h]

theorem amap_set_self {m : AMap} {k : Key} {x : Val × Time} (h : m k = some x) : m.set k x = m := by
  funext k'
  by_cases h' : k' = k
  · subst h'; simp [AMap.set, h]
  · simp [AMap.set, h']

theorem absOf_get_eq_none {l : List Entry} {k : Key} : (absOf l).get k = none ↔ k ∉ keys l := by
  rw [absOf_get, Option.map_eq_none_iff, getE_eq_none_iff]

/-! ## abstraction of the list operations -/

theorem absOf_fileCnt_get {l : List Entry} {e : Entry} (he : e.key ∉ keys l) :
    (absOf (fileCnt l e)).get = (absOf l).get.set e.key (e.val, e.dl) := by
  funext k
  simp only [absOf_get, AMap.set, getE_fileCnt he]
  by_cases h : e.key = k
  · simp [h]
  · have : ¬ k = e.key := fun h' => h h'.symm
    simp [h, this]

theorem absOf_delE_get (l : List Entry) (k : Key) :
    (absOf (delE l k)).get = (absOf l).get.del k := by
  funext k'
  simp only [absOf_get, AMap.del]
  by_cases h : k' = k
  · subst h; simp [getE_delE_self]
  · simp [h, getE_delE_ne _ h]

theorem absOf_tail_get {e : Entry} {t : List Entry} (hn : (keys (e :: t)).Nodup) :
    (absOf t).get = (absOf (e :: t)).get.del e.key := by
  funext k
  simp only [absOf_get, AMap.del, getE_tail hn k]
  split <;> rfl

theorem not_mem_keys_delE_self (l : List Entry) (k : Key) : k ∉ keys (delE l k) :=
  fun hm => (mem_keys_delE.mp hm).2 rfl

/-! ## re-filing the entry of a resident key -/

theorem nodup_keys_refile {l : List Entry} (hn : (keys l).Nodup) {e : Entry} :
    (keys (fileCnt (delE l e.key) e)).Nodup :=
  nodup_keys_fileCnt (nodup_keys_delE hn _) (not_mem_keys_delE_self _ _)

theorem length_refile {l : List Entry} (hn : (keys l).Nodup) {e : Entry} (hk : e.key ∈ keys l) :
    (fileCnt (delE l e.key) e).length = l.length := by
  rw [length_fileCnt]; exact length_delE_of_mem hn hk

theorem absOf_refile_get (l : List Entry) (e : Entry) :
    (absOf (fileCnt (delE l e.key) e)).get = (absOf l).get.set e.key (e.val, e.dl) := by
  rw [absOf_fileCnt_get (not_mem_keys_delE_self _ _), absOf_delE_get, amap_set_del]

theorem dl0_refile {l : List Entry} (hd : ∀ x ∈ l, x.dl = 0) {e : Entry} (he : e.dl = 0) (k : Key) :
    ∀ x ∈ fileCnt (delE l k) e, x.dl = 0 :=
  dl0_fileCnt (fun x hx => hd x (List.mem_filter.mp hx).1) he

namespace Lfu

structure Inv (cap : Nat) (s : LfuState) : Prop where
  cap_eq : s.cap = cap
  cap_pos : 0 < cap
  nodup : (keys s.ents).Nodup
  bound : s.ents.length ≤ cap
  dl0 : ∀ e ∈ s.ents, e.dl = 0

def abs (s : LfuState) : A := absOf s.ents

theorem inv_init {cap : Nat} (h : 0 < cap) : Inv cap (init cap) :=
  ⟨rfl, h, by simp [init, keys], by simp [init], by simp [init]⟩

/-- `do_access` of a resident key: same keys, the key's entry replaced -/
theorem access_spec {cap : Nat} {s : LfuState} (h : Inv cap s) {e : Entry}
    (hk : e.key ∈ keys s.ents) (hd : e.dl = 0) :
    Inv cap { s with ents := access s.ents e } ∧
      (absOf (access s.ents e)).get = (absOf s.ents).get.set e.key (e.val, 0) ∧
      (access s.ents e).length = s.ents.length := by
  have hlen : (access s.ents e).length = s.ents.length :=
    length_refile (e := { e with cnt := e.cnt + 1 }) h.nodup hk
  refine ⟨⟨h.cap_eq, h.cap_pos, ?_, ?_, ?_⟩, ?_, hlen⟩
  · exact nodup_keys_refile (e := { e with cnt := e.cnt + 1 }) h.nodup
  · show (access s.ents e).length ≤ cap
    rw [hlen]; exact h.bound
  · exact dl0_refile h.dl0 (e := { e with cnt := e.cnt + 1 }) hd e.key
  · refine (absOf_refile_get s.ents { e with cnt := e.cnt + 1 }).trans ?_
    show (absOf s.ents).get.set e.key (e.val, e.dl) = _
    rw [hd]

theorem refines (cap : Nat) : Refines core .plain cap (fun _ => Inv cap) abs where
  mono _ _ _ h _ := h
  pre s now h := ⟨h, by simp [core, AStep]⟩
  insert1 s now k v a ttl h := by
    simp only [core, Lfu.insert1, abs]
    cases hg : getE s.ents k with
    | some e =>
      have hek := getE_key hg
      subst hek
      by_cases ha : a.upd = true
      · simp only [ha, if_true]
        have hmem : ({ e with val := v } : Entry).key ∈ keys s.ents :=
          getE_isSome_iff.mp (by simp [hg])
        obtain ⟨hinv, hget, hlen⟩ :=
          access_spec h (e := { e with val := v }) hmem (h.dl0 e (getE_mem hg))
        refine ⟨hinv, ?_⟩
        simp only [AStep, absOf_get, hg, Option.map_some, ha, true_or, if_true, true_and]
        exact ⟨hget, by simp only [absOf_size]; exact hlen⟩
      · simp only [ha, Bool.false_eq_true, if_false]
        refine ⟨h, ?_⟩
        simp [AStep, absOf_get, hg, ha]
    | none =>
      by_cases ha : a.ins = true
      · simp only [ha, if_true]
        have hk : k ∉ keys s.ents := getE_eq_none_iff.mp hg
        by_cases hfull : s.ents.length ≥ s.cap
        · simp only [hfull, if_true]
          have hcs : cap ≤ s.ents.length := by rw [← h.cap_eq]; exact hfull
          cases hl : s.ents with
          | nil => rw [hl] at hcs; simp at hcs; have := h.cap_pos; omega
          | cons e0 t =>
            have hn := h.nodup
            have hb := h.bound
            have hd := h.dl0
            rw [hl] at hn hk hb hd hcs
            have hnt : (keys t).Nodup := by
              simp only [keys, List.map_cons, List.nodup_cons] at hn; exact hn.2
            have hkt : k ∉ keys t := by
              intro hm; exact hk (by simp only [keys, List.map_cons] at hm ⊢; exact List.mem_cons_of_mem _ hm)
            simp only [List.tail_cons]
            refine ⟨⟨h.cap_eq, h.cap_pos, nodup_keys_fileCnt hnt hkt, ?_, ?_⟩, ?_⟩
            · show (fileCnt t _).length ≤ cap
              rw [length_fileCnt]; simpa using hb
            · exact dl0_fileCnt (fun x hx => hd x (List.mem_cons_of_mem _ hx)) rfl
            · have hg' : getE (e0 :: t) k = none := getE_eq_none_iff.mpr hk
              simp only [AStep, absOf_get, hg', Option.map_none, ha, if_true, true_and, ne_eq,
                reduceCtorEq, not_false_eq_true, absOf_size, hcs, and_self]
              refine ⟨e0.key, by simp [getE_cons], ?_, ?_⟩
              · have := absOf_fileCnt_get (l := t) (e := { key := k, val := v, cnt := 1 }) hkt
                rw [this, absOf_tail_get hn]
              · rw [length_fileCnt]; rfl
        · simp only [hfull, if_false]
          have hlt : s.ents.length < cap := by rw [← h.cap_eq]; omega
          refine ⟨⟨h.cap_eq, h.cap_pos, nodup_keys_fileCnt h.nodup hk, ?_, ?_⟩, ?_⟩
          · show (fileCnt s.ents _).length ≤ cap
            rw [length_fileCnt]; omega
          · exact dl0_fileCnt h.dl0 rfl
          · have hnc : ¬ cap ≤ s.ents.length := by omega
            simp only [AStep, absOf_get, hg, Option.map_none, ha, if_true, true_and, ne_eq,
              reduceCtorEq, not_false_eq_true, absOf_size, hnc, and_false, if_false,
              length_fileCnt, and_true]
            exact absOf_fileCnt_get (l := s.ents) (e := { key := k, val := v, cnt := 1 }) hk
      · simp only [ha, Bool.false_eq_true, if_false]
        refine ⟨h, ?_⟩
        simp [AStep, absOf_get, hg, ha]
  find1 s now k peek h := by
    cases hg : getE s.ents k with
    | none =>
      simp only [core, Lfu.find1, abs, hg]
      exact ⟨h, by simp [AStep, absOf_get, hg]⟩
    | some e =>
      have hek := getE_key hg
      subst hek
      cases peek with
      | true =>
        simp only [core, Lfu.find1, abs, hg]
        exact ⟨h, by simp [AStep, absOf_get, hg]⟩
      | false =>
        simp only [core, Lfu.find1, abs, hg, Bool.false_eq_true, if_false]
        have hmem : e.key ∈ keys s.ents := getE_isSome_iff.mp (by simp [hg])
        have hd0 := h.dl0 e (getE_mem hg)
        obtain ⟨hinv, hget, hlen⟩ := access_spec h (e := e) hmem hd0
        refine ⟨hinv, ?_⟩
        simp only [AStep, absOf_get, hg, Option.map_some, reduceCtorEq, false_and, if_false, true_and]
        apply A.ext'
        · rw [hget]
          exact amap_set_self (by simp [absOf_get, hg, hd0])
        · simp only [absOf_size]; exact hlen
  erase1 s now k h := by
    cases hg : getE s.ents k with
    | none =>
      simp only [core, Lfu.erase1, abs, hg]
      exact ⟨h, by simp [AStep, absOf_get, hg]⟩
    | some e =>
      simp only [core, Lfu.erase1, abs, hg]
      have hlen := length_delE_of_getE h.nodup hg
      refine ⟨⟨h.cap_eq, h.cap_pos, nodup_keys_delE h.nodup _, ?_, ?_⟩, ?_⟩
      · show (delE s.ents k).length ≤ cap
        have := h.bound; omega
      · intro x hx; exact h.dl0 x (List.mem_filter.mp hx).1
      · simp only [AStep, absOf_get, hg, Option.map_some, true_and, absOf_size]
        exact ⟨absOf_delE_get _ _, hlen⟩
  clear s now hc h := by simp [core] at hc
  clean s now h := ⟨h, by simp [core, AStep]⟩
  age s now h := ⟨h, rfl⟩
  updateTtl s _ t h := ⟨h, rfl⟩
  size s _ h := rfl
  capacity s _ h _ := h.cap_eq

end Lfu
end Verif
