import Verif.Model.Fifo
import Verif.ListLemmas
import Verif.Spec.Atoms
/-!
# `fifo_cache` refines the plain reference semantics (every history)
-/
namespace Verif
open Verif.Spec

namespace Fifo

structure Inv (cap : Nat) (s : FifoState) : Prop where
  cap_eq : s.cap = cap
  cap_pos : 0 < cap
  nodup : (keys s.ents).Nodup
  bound : s.ents.length ≤ cap
  dl0 : ∀ e ∈ s.ents, e.dl = 0

def abs (s : FifoState) : A := absOf s.ents

theorem inv_init {cap : Nat} (h : 0 < cap) : Inv cap (init cap) :=
  ⟨rfl, h, by simp [init, keys], by simp [init], by simp [init]⟩

theorem keys_setVal (l : List Entry) (k : Key) (v : Val) : keys (setVal l k v) = keys l := by
  induction l with
  | nil => rfl
  | cons e t ih =>
    simp only [keys, setVal, List.map_cons] at ih ⊢
    rw [ih]
    congr 1
    split <;> rfl

theorem length_setVal (l : List Entry) (k : Key) (v : Val) : (setVal l k v).length = l.length := by
  simp [setVal]

theorem mem_setVal {l : List Entry} {k : Key} {v : Val} {x : Entry} (hx : x ∈ setVal l k v) :
    ∃ e ∈ l, x.dl = e.dl := by
  simp only [setVal, List.mem_map] at hx
  obtain ⟨e, he, rfl⟩ := hx
  refine ⟨e, he, ?_⟩
  split <;> rfl

theorem getE_setVal (l : List Entry) (k : Key) (v : Val) (k' : Key) :
    getE (setVal l k v) k' =
      (getE l k').map (fun e => if e.key = k then { e with val := v } else e) := by
  induction l with
  | nil => rfl
  | cons e t ih =>
    simp only [setVal, List.map_cons] at ih ⊢
    rw [getE_cons, getE_cons]
    have hkey : (if e.key = k then { e with val := v } else e).key = e.key := by split <;> rfl
    rw [hkey]
    by_cases h : e.key = k'
    · simp [h]
    · simp only [h, if_false]; exact ih

theorem absOf_setVal {l : List Entry} {k : Key} {v : Val} {e : Entry} (hg : getE l k = some e) :
    (absOf (setVal l k v)).get = (absOf l).get.set k (v, e.dl) := by
  funext k'
  simp only [absOf_get, AMap.set, getE_setVal]
  by_cases h : k' = k
  · subst h
    have hk := getE_key hg
    simp [hg, hk]
  · simp only [h, if_false]
    cases hg' : getE l k' with
    | none => rfl
    | some e' =>
      have hk' := getE_key hg'
      have : ¬ e'.key = k := by rw [hk']; exact h
      simp [this]

theorem absOf_snoc {l : List Entry} {k : Key} (hg : getE l k = none) (e' : Entry) (hk : e'.key = k) :
    (absOf (l ++ [e'])).get = (absOf l).get.set k (e'.val, e'.dl) := by
  funext k'
  simp only [absOf_get, AMap.set, getE_append_single]
  by_cases h1 : k' = k
  · subst h1
    simp [hg, hk]
  · have : ¬ e'.key = k' := by rw [hk]; exact fun h' => h1 h'.symm
    simp only [h1, this, if_false]; cases getE l k' <;> rfl

theorem refines (cap : Nat) : Refines core .plain cap (fun _ => Inv cap) abs where
  mono _ _ _ h _ := h
  pre s now h := ⟨h, by simp [core, AStep]⟩
  insert1 s now k v a ttl h := by
    simp only [core, Fifo.insert1, abs]
    cases hg : getE s.ents k with
    | some e =>
      by_cases ha : a.upd = true
      · simp only [ha, if_true]
        refine ⟨⟨h.cap_eq, h.cap_pos, ?_, ?_, ?_⟩, ?_⟩
        · show (keys (setVal s.ents k v)).Nodup
          rw [keys_setVal]; exact h.nodup
        · show (setVal s.ents k v).length ≤ cap
          rw [length_setVal]; exact h.bound
        · intro x hx
          obtain ⟨e', he', hd⟩ := mem_setVal hx
          rw [hd]; exact h.dl0 e' he'
        · simp only [AStep, absOf_get, hg, Option.map_some, ha, true_or, if_true, true_and]
          refine ⟨?_, ?_⟩
          · rw [absOf_setVal hg, h.dl0 e (getE_mem hg)]
          · simp only [absOf_size, length_setVal]
      · simp only [ha, Bool.false_eq_true, if_false]
        refine ⟨h, ?_⟩
        simp [AStep, absOf_get, hg, ha]
    | none =>
      by_cases ha : a.ins = true
      · simp only [ha, if_true]
        have hk : k ∉ keys s.ents := getE_eq_none_iff.mp hg
        by_cases hfull : s.ents.length ≥ s.cap
        · simp only [hfull, if_true]
          cases hl : s.ents with
          | nil =>
            rw [hl] at hfull; simp at hfull
            have := h.cap_pos; have := h.cap_eq; omega
          | cons e0 t =>
            have hn : (keys (e0 :: t)).Nodup := by rw [← hl]; exact h.nodup
            have hb : (e0 :: t).length ≤ cap := by rw [← hl]; exact h.bound
            have hcs : cap ≤ (e0 :: t).length := by rw [← hl, ← h.cap_eq]; exact hfull
            have hg0 : getE (e0 :: t) k = none := by rw [← hl]; exact hg
            have hgt : getE t k = none := by
              rw [getE_tail hn k]; split <;> simp [hg0]
            have hnt : (keys t).Nodup := by
              simp only [keys, List.map_cons, List.nodup_cons] at hn; exact hn.2
            simp only [List.tail_cons]
            refine ⟨⟨h.cap_eq, h.cap_pos, ?_, ?_, ?_⟩, ?_⟩
            · exact nodup_keys_snoc hnt (getE_eq_none_iff.mp hgt)
            · simp only [List.length_append, List.length_cons, List.length_nil] at hb ⊢
              omega
            · intro x hx
              rcases List.mem_append.mp hx with hx | hx
              · exact h.dl0 x (by rw [hl]; exact List.mem_cons_of_mem _ hx)
              · simp only [List.mem_singleton] at hx; subst hx; rfl
            · simp only [AStep, absOf_get, hg0, Option.map_none, ha, if_true, true_and, ne_eq,
                reduceCtorEq, not_false_eq_true, absOf_size, hcs, and_self]
              refine ⟨e0.key, by simp [getE_cons], ?_, ?_⟩
              · funext k'
                simp only [absOf_get, AMap.set, AMap.del, getE_append_single, getE_tail hn]
                by_cases h1 : k' = k
                · subst h1
                  simp [hg0]
                · have : ¬ k = k' := fun h' => h1 h'.symm
                  simp only [h1, this, if_false]
                  by_cases h2 : k' = e0.key
                  · simp [h2]
                  · simp only [h2, if_false]; cases getE (e0 :: t) k' <;> rfl
              · simp only [List.length_append, List.length_cons, List.length_nil]
        · simp only [hfull, if_false]
          have hlt : s.ents.length < cap := by rw [← h.cap_eq]; omega
          refine ⟨⟨h.cap_eq, h.cap_pos, nodup_keys_snoc h.nodup hk, ?_, ?_⟩, ?_⟩
          · simp only [List.length_append, List.length_singleton]; omega
          · intro x hx
            rcases List.mem_append.mp hx with hx | hx
            · exact h.dl0 x hx
            · simp only [List.mem_singleton] at hx; subst hx; rfl
          · have hnc : ¬ cap ≤ s.ents.length := by omega
            simp only [AStep, absOf_get, hg, Option.map_none, ha, if_true, true_and, ne_eq,
              reduceCtorEq, not_false_eq_true, absOf_size, hnc, and_false, if_false,
              List.length_append, List.length_singleton, and_true]
            exact absOf_snoc hg _ rfl
      · simp only [ha, Bool.false_eq_true, if_false]
        refine ⟨h, ?_⟩
        simp [AStep, absOf_get, hg, ha]
  find1 s now k peek h := by
    simp only [core, Fifo.find1, abs]
    refine ⟨h, ?_⟩
    cases hg : getE s.ents k with
    | none => simp [AStep, absOf_get, hg]
    | some e => simp [AStep, absOf_get, hg]
  erase1 s now k h := by
    cases hg : getE s.ents k with
    | none =>
      simp only [core, Fifo.erase1, abs, hg]
      exact ⟨h, by simp [AStep, absOf_get, hg]⟩
    | some e =>
      simp only [core, Fifo.erase1, abs, hg]
      have hlen := length_delE_of_getE h.nodup hg
      refine ⟨⟨h.cap_eq, h.cap_pos, nodup_keys_delE h.nodup _, ?_, ?_⟩, ?_⟩
      · show (delE s.ents k).length ≤ cap
        have := h.bound; omega
      · intro x hx; exact h.dl0 x (List.mem_filter.mp hx).1
      · simp only [AStep, absOf_get, hg, Option.map_some, true_and, absOf_size]
        refine ⟨?_, hlen⟩
        funext k'
        simp only [absOf_get, AMap.del]
        by_cases h1 : k' = k
        · subst h1; simp [getE_delE_self]
        · simp [h1, getE_delE_ne _ h1]
  clear s now hc h := by simp [core] at hc
  clean s now h := ⟨h, by simp [core, AStep]⟩
  age s now h := ⟨h, rfl⟩
  updateTtl s _ t h := ⟨h, rfl⟩
  size s _ h := rfl
  capacity s _ h _ := h.cap_eq

end Fifo
end Verif
