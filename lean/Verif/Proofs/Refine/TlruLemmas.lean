import Verif.Model.Ttl
import Verif.ListLemmas
import Verif.Spec.Atoms
/-!
# Lemmas for the tlru/utlru refinement: the ttl structure (`fileDl`, `unfile`, `cleanLoop`) and its
consistency with the resident entries
-/
namespace Verif
open Verif.Spec

namespace Tlru

/-! ## abstraction lemmas -/

theorem AMap.set_del_self (m : AMap) (k : Key) (x : Val × Time) : (m.del k).set k x = m.set k x := by
  funext k'
  simp only [AMap.set, AMap.del]
  by_cases h : k' = k <;> simp [h]

theorem absOf_delE (l : List Entry) (k : Key) : (absOf (delE l k)).get = (absOf l).get.del k := by
  funext k'
  simp only [absOf_get, AMap.del]
  by_cases h1 : k' = k
  · subst h1; simp [getE_delE_self]
  · simp [h1, getE_delE_ne _ h1]

theorem absOf_snoc {l : List Entry} {e' : Entry} (hk : getE l e'.key = none) :
    (absOf (l ++ [e'])).get = (absOf l).get.set e'.key (e'.val, e'.dl) := by
  funext k'
  simp only [absOf_get, AMap.set, getE_append_single]
  by_cases h1 : k' = e'.key
  · subst h1; simp [hk]
  · have : ¬ e'.key = k' := fun h' => h1 h'.symm
    simp only [h1, this, if_false]; cases getE l k' <;> rfl

/-- moving a resident entry to the most-recently-used end changes no lookup -/
theorem getE_touch {l : List Entry} {k : Key} {e : Entry} (hg : getE l k = some e) (k' : Key) :
    getE (delE l k ++ [e]) k' = getE l k' := by
  have hek := getE_key hg
  rw [getE_append_single]
  by_cases h : k' = k
  · subst h; simp [getE_delE_self, hek, hg]
  · rw [getE_delE_ne _ h]
    have : ¬ e.key = k' := by rw [hek]; exact fun h' => h h'.symm
    simp only [this, if_false]
    cases getE l k' <;> rfl

/-! ## `fileDl`, `unfile` -/

theorem fileDl_perm (l : List (Time × Key)) (d : Time) (k : Key) :
    (fileDl l d k).Perm ((d, k) :: l) := by
  induction l with
  | nil => exact List.Perm.refl _
  | cons x xs ih =>
    simp only [fileDl]
    split
    · exact (List.Perm.cons x ih).trans (List.Perm.swap _ _ _)
    · exact List.Perm.refl _

theorem mem_fileDl {l : List (Time × Key)} {d : Time} {k : Key} {x : Time × Key} :
    x ∈ fileDl l d k ↔ x = (d, k) ∨ x ∈ l := by
  rw [(fileDl_perm l d k).mem_iff, List.mem_cons]

theorem fileDl_sorted {l : List (Time × Key)} (h : l.Pairwise (fun x y => x.1 ≤ y.1))
    (d : Time) (k : Key) : (fileDl l d k).Pairwise (fun x y => x.1 ≤ y.1) := by
  induction l with
  | nil => simp [fileDl]
  | cons x xs ih =>
    rw [List.pairwise_cons] at h
    simp only [fileDl]
    split
    · rename_i hx
      rw [List.pairwise_cons]
      refine ⟨?_, ih h.2⟩
      intro y hy
      rcases mem_fileDl.mp hy with rfl | hy
      · exact hx
      · exact h.1 y hy
    · rename_i hx
      rw [List.pairwise_cons]
      refine ⟨?_, List.pairwise_cons.mpr h⟩
      intro y hy
      have hdx : d ≤ x.1 := Nat.le_of_lt (Nat.lt_of_not_le hx)
      rcases List.mem_cons.mp hy with rfl | hy
      · exact hdx
      · exact Nat.le_trans hdx (h.1 y hy)

theorem mem_unfile {l : List (Time × Key)} {k : Key} {x : Time × Key} :
    x ∈ unfile l k ↔ x ∈ l ∧ x.2 ≠ k := by
  simp [unfile]

theorem unfile_sublist (l : List (Time × Key)) (k : Key) : (unfile l k).Sublist l :=
  List.filter_sublist

/-! ## consistency of the ttl structure with the resident entries -/

structure Cons (ents : List Entry) (tq : List (Time × Key)) : Prop where
  nodup : (keys ents).Nodup
  tq_nodup : (tq.map (·.2)).Nodup
  tq_iff : ∀ d k, (d, k) ∈ tq ↔ ∃ e, getE ents k = some e ∧ e.dl = d
  sorted : tq.Pairwise (fun x y => x.1 ≤ y.1)

theorem cons_nil : Cons [] [] :=
  ⟨by simp [keys], by simp, by simp, by simp⟩

theorem Cons.remove {ents : List Entry} {tq : List (Time × Key)} (h : Cons ents tq) (k : Key) :
    Cons (delE ents k) (unfile tq k) where
  nodup := nodup_keys_delE h.nodup k
  tq_nodup := h.tq_nodup.sublist ((unfile_sublist tq k).map _)
  tq_iff d k' := by
    rw [mem_unfile, h.tq_iff]
    by_cases hk : k' = k
    · subst hk; simp [getE_delE_self]
    · rw [getE_delE_ne _ hk]; simp [hk]
  sorted := h.sorted.sublist (unfile_sublist tq k)

theorem Cons.add {ents : List Entry} {tq : List (Time × Key)} (h : Cons ents tq) {e' : Entry}
    (hk : e'.key ∉ keys ents) : Cons (ents ++ [e']) (fileDl tq e'.dl e'.key) where
  nodup := nodup_keys_snoc h.nodup hk
  tq_nodup := by
    have hp := (fileDl_perm tq e'.dl e'.key).map (·.2)
    rw [hp.nodup_iff, List.map_cons, List.nodup_cons]
    refine ⟨?_, h.tq_nodup⟩
    intro hm
    obtain ⟨x, hx, hxk⟩ := List.mem_map.mp hm
    obtain ⟨d, k⟩ := x
    simp only at hxk
    subst hxk
    obtain ⟨e, he, _⟩ := (h.tq_iff d _).mp hx
    exact hk (getE_isSome_iff.mp (by simp [he]))
  tq_iff d k := by
    have hnone : getE ents e'.key = none := getE_eq_none_iff.mpr hk
    rw [mem_fileDl, getE_append_single, h.tq_iff]
    by_cases hkk : k = e'.key
    · subst hkk
      simp only [hnone, Prod.mk.injEq, and_true, if_true, Option.none_or, Option.some.injEq,
        reduceCtorEq, false_and, exists_false, or_false]
      constructor
      · intro hd; exact ⟨e', rfl, hd.symm⟩
      · rintro ⟨e, rfl, hd⟩; exact hd.symm
    · have h1 : ¬ e'.key = k := fun h' => hkk h'.symm
      simp only [Prod.mk.injEq, hkk, and_false, false_or, h1, if_false, Option.or_none]
  sorted := fileDl_sorted h.sorted _ _

theorem Cons.touch {ents : List Entry} {tq : List (Time × Key)} (h : Cons ents tq) {k : Key}
    {e : Entry} (hg : getE ents k = some e) : Cons (delE ents k ++ [e]) tq where
  nodup := nodup_keys_snoc (nodup_keys_delE h.nodup _) (by
    rw [getE_key hg]; intro hm; exact (mem_keys_delE.mp hm).2 rfl)
  tq_nodup := h.tq_nodup
  tq_iff d k' := by rw [getE_touch hg]; exact h.tq_iff d k'
  sorted := h.sorted

/-- a non-empty resident list has a non-empty ttl structure -/
theorem Cons.tq_ne_nil {ents : List Entry} {tq : List (Time × Key)} (h : Cons ents tq)
    (hne : ents ≠ []) : tq ≠ [] := by
  cases ents with
  | nil => exact absurd rfl hne
  | cons e t =>
    intro h0
    have := (h.tq_iff e.dl e.key).mpr ⟨e, by simp [getE_cons], rfl⟩
    rw [h0] at this
    cases this

/-! ## `cleanLoop` -/

theorem mem_cleanLoop {now : Time} {tq : List (Time × Key)}
    (hs : tq.Pairwise (fun x y => x.1 ≤ y.1)) {k : Key} :
    k ∈ cleanLoop now tq ↔ ∃ d, (d, k) ∈ tq ∧ d ≤ now := by
  induction tq with
  | nil => simp [cleanLoop]
  | cons x rest ih =>
    obtain ⟨d, k0⟩ := x
    rw [List.pairwise_cons] at hs
    simp only [cleanLoop]
    by_cases hd : d ≤ now
    · simp only [hd, if_true, List.mem_cons, ih hs.2, Prod.mk.injEq]
      constructor
      · rintro (rfl | ⟨d', h1, h2⟩)
        · exact ⟨d, Or.inl ⟨rfl, rfl⟩, hd⟩
        · exact ⟨d', Or.inr h1, h2⟩
      · rintro ⟨d', (⟨rfl, rfl⟩ | h1), h2⟩
        · exact Or.inl rfl
        · exact Or.inr ⟨d', h1, h2⟩
    · simp only [hd, if_false, List.not_mem_nil, false_iff]
      rintro ⟨d', hm, h2⟩
      rcases List.mem_cons.mp hm with heq | hm
      · simp only [Prod.mk.injEq] at heq
        exact hd (heq.1 ▸ h2)
      · have h3 : d ≤ d' := hs.1 (d', k) hm
        exact hd (Nat.le_trans h3 h2)

theorem cleanLoop_sublist (now : Time) (tq : List (Time × Key)) :
    (cleanLoop now tq).Sublist (tq.map (·.2)) := by
  induction tq with
  | nil => simp [cleanLoop]
  | cons x rest ih =>
    obtain ⟨d, k0⟩ := x
    simp only [cleanLoop, List.map_cons]
    split
    · exact ih.cons_cons _
    · exact List.nil_sublist _

/-! ## folding `removeKey` -/

theorem foldl_removeKey_spec (ks : List Key) : ∀ (s : TlruState), Cons s.ents s.tq → ks.Nodup →
    (∀ k ∈ ks, k ∈ keys s.ents) →
    Cons (ks.foldl removeKey s).ents (ks.foldl removeKey s).tq ∧
    (ks.foldl removeKey s).cap = s.cap ∧
    (ks.foldl removeKey s).ents.length + ks.length = s.ents.length ∧
    ∀ k, getE (ks.foldl removeKey s).ents k = if k ∈ ks then none else getE s.ents k := by
  induction ks with
  | nil => intro s h _ _; simp [h]
  | cons k ks ih =>
    intro s h hnd hres
    rw [List.nodup_cons] at hnd
    simp only [List.foldl_cons]
    have hk : k ∈ keys s.ents := hres k (List.mem_cons_self ..)
    obtain ⟨c1, c2, c3, c4⟩ := ih (removeKey s k) (h.remove k) hnd.2 (by
      intro k' hk'
      show k' ∈ keys (delE s.ents k)
      rw [mem_keys_delE]
      refine ⟨hres k' (List.mem_cons_of_mem _ hk'), ?_⟩
      rintro rfl; exact hnd.1 hk')
    refine ⟨c1, c2, ?_, ?_⟩
    · have hlen : (delE s.ents k).length + 1 = s.ents.length := length_delE_of_mem h.nodup hk
      have c3' : (List.foldl removeKey (removeKey s k) ks).ents.length + ks.length
          = (delE s.ents k).length := c3
      simp only [List.length_cons]
      omega
    · intro k'
      rw [c4 k']
      show (if k' ∈ ks then none else getE (delE s.ents k) k') = _
      by_cases h1 : k' = k
      · subst h1; simp [getE_delE_self]
      · simp [h1, getE_delE_ne _ h1]

end Tlru
end Verif
