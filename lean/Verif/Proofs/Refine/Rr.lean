import Verif.Model.Rr
import Verif.ListLemmas
import Verif.Spec.Atoms
/-!
# `rr_cache` refines the plain reference semantics (every history, every random stream)

The invariant carries the slot bookkeeping: the slot ids of the resident entries together with the
free stack are a permutation of `0 .. cap-1`.  Hence a full cache has no free slot and every
`r < cap` names a resident entry (so `prune` always evicts exactly one), and a non-full cache has a
free slot to claim.
-/
namespace Verif
open Verif.Spec

namespace Rr

def slots (l : List Entry) : List Nat := l.map (·.slot)

structure Inv (cap : Nat) (s : RrState) : Prop where
  cap_eq : s.cap = cap
  cap_pos : 0 < cap
  nodup : (keys s.ents).Nodup
  dl0 : ∀ e ∈ s.ents, e.dl = 0
  rnd_lt : ∀ r ∈ s.rnd, r < cap
  perm : List.Perm (slots s.ents ++ s.free) (List.range cap)

def abs (s : RrState) : A := absOf s.ents

theorem inv_init {cap : Nat} (h : 0 < cap) (rnd : List Nat) (hr : ∀ r ∈ rnd, r < cap) :
    Inv cap (init cap rnd) :=
  ⟨rfl, h, by simp [init, keys], by simp [init], hr, by simp [init, slots]⟩

theorem Inv.len {cap : Nat} {s : RrState} (h : Inv cap s) : s.ents.length + s.free.length = cap := by
  have := h.perm.length_eq
  simpa [slots] using this

/-! ### `setVal` -/

theorem keys_setVal (l : List Entry) (k : Key) (v : Val) : keys (setVal l k v) = keys l := by
  induction l with
  | nil => rfl
  | cons e t ih =>
    simp only [keys, setVal, List.map_cons] at ih ⊢
    rw [ih]
    congr 1
    split <;> rfl

theorem slots_setVal (l : List Entry) (k : Key) (v : Val) : slots (setVal l k v) = slots l := by
  induction l with
  | nil => rfl
  | cons e t ih =>
    simp only [slots, setVal, List.map_cons] at ih ⊢
    rw [ih]
    congr 1
    split <;> rfl

theorem length_setVal (l : List Entry) (k : Key) (v : Val) : (setVal l k v).length = l.length := by
  simp [setVal]

theorem mem_setVal {l : List Entry} {k : Key} {v : Val} {x : Entry} (hx : x ∈ setVal l k v) :
    ∃ e ∈ l, x.dl = e.dl := by
  simp only [setVal, List.mem_map] at hx
  obtain ⟨e, he, rfl⟩ := hx
  refine ⟨e, he, ?_⟩
  split <;> rfl

theorem getE_setVal (l : List Entry) (k : Key) (v : Val) (k' : Key) :
    getE (setVal l k v) k' =
      (getE l k').map (fun e => if e.key = k then { e with val := v } else e) := by
  induction l with
  | nil => rfl
  | cons e t ih =>
    simp only [setVal, List.map_cons] at ih ⊢
    rw [getE_cons, getE_cons]
    have hkey : (if e.key = k then { e with val := v } else e).key = e.key := by split <;> rfl
    rw [hkey]
    by_cases h : e.key = k'
    · simp [h]
    · simp only [h, if_false]; exact ih

theorem absOf_setVal {l : List Entry} {k : Key} {v : Val} {e : Entry} (hg : getE l k = some e) :
    (absOf (setVal l k v)).get = (absOf l).get.set k (v, e.dl) := by
  funext k'
  simp only [absOf_get, AMap.set, getE_setVal]
  by_cases h : k' = k
  · subst h
    have hk := getE_key hg
    simp [hg, hk]
  · simp only [h, if_false]
    cases hg' : getE l k' with
    | none => rfl
    | some e' =>
      have hk' := getE_key hg'
      have : ¬ e'.key = k := by rw [hk']; exact h
      simp [this]

theorem absOf_snoc {l : List Entry} {k : Key} (hg : getE l k = none) (e' : Entry) (hk : e'.key = k) :
    (absOf (l ++ [e'])).get = (absOf l).get.set k (e'.val, e'.dl) := by
  funext k'
  simp only [absOf_get, AMap.set, getE_append_single]
  by_cases h1 : k' = k
  · subst h1
    simp [hg, hk]
  · have : ¬ e'.key = k' := by rw [hk]; exact fun h' => h1 h'.symm
    simp only [h1, this, if_false]; cases getE l k' <;> rfl

theorem absOf_delE (l : List Entry) (k : Key) : (absOf (delE l k)).get = (absOf l).get.del k := by
  funext k'
  simp only [absOf_get, AMap.del]
  by_cases h1 : k' = k
  · subst h1; simp [getE_delE_self]
  · simp [h1, getE_delE_ne _ h1]

/-! ### list facts -/

/-- with duplicate-free keys, a member is what a lookup of its key finds -/
theorem getE_of_mem {l : List Entry} (hn : (keys l).Nodup) {e : Entry} (he : e ∈ l) :
    getE l e.key = some e := by
  induction l with
  | nil => cases he
  | cons x t ih =>
    simp only [keys, List.map_cons, List.nodup_cons] at hn
    rw [getE_cons]
    rcases List.mem_cons.mp he with rfl | he'
    · simp
    · have hne : ¬ x.key = e.key := by
        intro hh; apply hn.1; rw [hh]; exact List.mem_map_of_mem (f := (·.key)) he'
      simp only [hne, if_false]
      exact ih hn.2 he'

/-- erasing a resident key takes out exactly the entry a lookup finds -/
theorem perm_delE {l : List Entry} (hn : (keys l).Nodup) {k : Key} {e : Entry}
    (hg : getE l k = some e) : List.Perm l (e :: delE l k) := by
  induction l with
  | nil => simp at hg
  | cons x t ih =>
    simp only [keys, List.map_cons, List.nodup_cons] at hn
    rw [getE_cons] at hg
    by_cases hx : x.key = k
    · simp only [hx, if_true, Option.some.injEq] at hg
      subst hg
      have hnot : k ∉ keys t := by rw [← hx]; exact hn.1
      have hd : delE (x :: t) k = t := by
        have := delE_eq_self_of_not_mem hnot
        simp only [delE, List.filter_cons] at this ⊢
        simp [hx, this]
      rw [hd]
    · simp only [hx, if_false] at hg
      have hd : delE (x :: t) k = x :: delE t k := by
        simp only [delE, List.filter_cons]
        simp [hx]
      rw [hd]
      exact ((ih hn.2 hg).cons x).trans (List.Perm.swap e x _)

theorem slots_perm_delE {l : List Entry} (hn : (keys l).Nodup) {k : Key} {e : Entry}
    (hg : getE l k = some e) (f : List Nat) :
    List.Perm (slots (delE l k) ++ e.slot :: f) (slots l ++ f) := by
  have h1 : List.Perm (slots l) (e.slot :: slots (delE l k)) := by
    have := (perm_delE hn hg).map (·.slot)
    simpa [slots] using this
  have h2 : List.Perm (slots (delE l k) ++ e.slot :: f) (e.slot :: (slots (delE l k) ++ f)) :=
    List.perm_middle
  exact h2.trans ((h1.symm.append_right f))

theorem atSlot_some_of_mem {l : List Entry} {r : Nat} (h : r ∈ slots l) :
    ∃ e, atSlot l r = some e ∧ e ∈ l ∧ e.slot = r := by
  simp only [slots, List.mem_map] at h
  obtain ⟨x, hx, hxr⟩ := h
  cases ha : atSlot l r with
  | none =>
    simp only [atSlot, List.find?_eq_none] at ha
    have := ha x hx
    simp [hxr] at this
  | some e =>
    refine ⟨e, rfl, List.mem_of_find?_eq_some ha, ?_⟩
    have := List.find?_some ha
    simpa using this

/-! ### the two state changes of an inserting `do_insert_update` -/

/-- `do_prune` on a full cache evicts exactly one resident key and leaves a free slot -/
theorem prune_spec {cap : Nat} {s : RrState} (h : Inv cap s) (hfull : s.ents.length ≥ s.cap) :
    ∃ w, (getE s.ents w).isSome = true ∧ (prune s).ents = delE s.ents w ∧
      (prune s).ents.length + 1 = s.ents.length ∧ (prune s).cap = s.cap ∧ Inv cap (prune s) := by
  have hlen := h.len
  have hce := h.cap_eq
  have hr : s.rnd.headD 0 < cap := by
    cases hrl : s.rnd with
    | nil => exact h.cap_pos
    | cons r t => exact h.rnd_lt r (by rw [hrl]; exact List.mem_cons_self)
  have hfree : s.free = [] := by
    apply List.eq_nil_of_length_eq_zero; omega
  have hmem : s.rnd.headD 0 ∈ slots s.ents := by
    have : s.rnd.headD 0 ∈ slots s.ents ++ s.free :=
      h.perm.mem_iff.mpr (List.mem_range.mpr hr)
    simpa [hfree] using this
  obtain ⟨e, hat, hel, hes⟩ := atSlot_some_of_mem hmem
  have hg : getE s.ents e.key = some e := getE_of_mem h.nodup hel
  have hdl := length_delE_of_getE h.nodup hg
  refine ⟨e.key, by simp [hg], ?_, ?_, ?_, ?_⟩
  · simp only [prune, hat]
  · simp only [prune, hat]; exact hdl
  · simp only [prune, hat]
  · simp only [prune, hat]
    refine ⟨h.cap_eq, h.cap_pos, nodup_keys_delE h.nodup _, ?_, ?_, ?_⟩
    · intro x hx; exact h.dl0 x (List.mem_filter.mp hx).1
    · intro r hr'; exact h.rnd_lt r (List.mem_of_mem_tail hr')
    · show List.Perm (slots (delE s.ents e.key) ++ s.rnd.headD 0 :: s.free) (List.range cap)
      rw [← hes]
      exact (slots_perm_delE h.nodup hg s.free).trans h.perm

/-- claiming the next free slot for a fresh key -/
theorem push_inv {cap : Nat} {s : RrState} (h : Inv cap s) (hlt : s.ents.length < cap)
    {k : Key} (hk : k ∉ keys s.ents) (v : Val) :
    Inv cap { s with ents := s.ents ++ [{ key := k, val := v, slot := s.free.headD 0 }],
                     free := s.free.tail } := by
  have hlen := h.len
  cases hf : s.free with
  | nil => rw [hf] at hlen; simp at hlen; omega
  | cons x f =>
    refine ⟨h.cap_eq, h.cap_pos, nodup_keys_snoc h.nodup hk, ?_, h.rnd_lt, ?_⟩
    · intro y hy
      rcases List.mem_append.mp hy with hy | hy
      · exact h.dl0 y hy
      · simp only [List.mem_singleton] at hy; subst hy; rfl
    · show List.Perm (slots (s.ents ++ [{ key := k, val := v, slot := (x :: f).headD 0 }]) ++
        (x :: f).tail) (List.range cap)
      have hp := h.perm
      rw [hf] at hp
      simpa [slots] using hp

theorem refines (cap : Nat) : Refines core .plain cap (fun _ => Inv cap) abs where
  mono _ _ _ h _ := h
  pre s now h := ⟨h, by simp [core, AStep]⟩
  insert1 s now k v a ttl h := by
    simp only [core, Rr.insert1, abs]
    cases hg : getE s.ents k with
    | some e =>
      by_cases ha : a.upd = true
      · simp only [ha, if_true]
        refine ⟨⟨h.cap_eq, h.cap_pos, ?_, ?_, h.rnd_lt, ?_⟩, ?_⟩
        · show (keys (setVal s.ents k v)).Nodup
          rw [keys_setVal]; exact h.nodup
        · intro x hx
          obtain ⟨e', he', hd⟩ := mem_setVal hx
          rw [hd]; exact h.dl0 e' he'
        · show List.Perm (slots (setVal s.ents k v) ++ s.free) (List.range cap)
          rw [slots_setVal]; exact h.perm
        · simp only [AStep, absOf_get, hg, Option.map_some, ha, true_or, if_true, true_and]
          refine ⟨?_, ?_⟩
          · rw [absOf_setVal hg, h.dl0 e (getE_mem hg)]
          · simp only [absOf_size, length_setVal]
      · simp only [ha, Bool.false_eq_true, if_false]
        refine ⟨h, ?_⟩
        simp [AStep, absOf_get, hg, ha]
    | none =>
      by_cases ha : a.ins = true
      · simp only [ha, if_true]
        have hk : k ∉ keys s.ents := getE_eq_none_iff.mp hg
        have hlen := h.len
        by_cases hfull : s.ents.length ≥ s.cap
        · simp only [hfull, if_true]
          obtain ⟨w, hw, hents, hl1, _, hinv⟩ := prune_spec h hfull
          have hgp : getE (prune s).ents k = none := by
            rw [hents]
            by_cases hkw : k = w
            · subst hkw; exact getE_delE_self _ _
            · rw [getE_delE_ne _ hkw]; exact hg
          have hkp : k ∉ keys (prune s).ents := getE_eq_none_iff.mp hgp
          have hlt : (prune s).ents.length < cap := by omega
          refine ⟨push_inv hinv hlt hkp v, ?_⟩
          have hcs : cap ≤ s.ents.length := by rw [← h.cap_eq]; exact hfull
          simp only [AStep, absOf_get, hg, Option.map_none, ha, if_true, true_and, ne_eq,
            reduceCtorEq, not_false_eq_true, absOf_size, hcs, and_self]
          refine ⟨w, by simpa [absOf_get] using hw, ?_, ?_⟩
          · rw [absOf_snoc hgp _ rfl, hents, absOf_delE]
          · simp only [List.length_append, List.length_cons, List.length_nil]; omega
        · simp only [hfull, if_false]
          have hlt : s.ents.length < cap := by rw [← h.cap_eq]; omega
          refine ⟨push_inv h hlt hk v, ?_⟩
          have hnc : ¬ cap ≤ s.ents.length := by omega
          simp only [AStep, absOf_get, hg, Option.map_none, ha, if_true, true_and, ne_eq,
            reduceCtorEq, not_false_eq_true, absOf_size, hnc, and_false, if_false,
            List.length_append, List.length_cons, List.length_nil, and_true]
          exact absOf_snoc hg _ rfl
      · simp only [ha, Bool.false_eq_true, if_false]
        refine ⟨h, ?_⟩
        simp [AStep, absOf_get, hg, ha]
  find1 s now k peek h := by
    simp only [core, Rr.find1, abs]
    refine ⟨h, ?_⟩
    cases hg : getE s.ents k with
    | none => simp [AStep, absOf_get, hg]
    | some e => simp [AStep, absOf_get, hg]
  erase1 s now k h := by
    cases hg : getE s.ents k with
    | none =>
      simp only [core, Rr.erase1, abs, hg]
      exact ⟨h, by simp [AStep, absOf_get, hg]⟩
    | some e =>
      simp only [core, Rr.erase1, abs, hg]
      have hlen := length_delE_of_getE h.nodup hg
      refine ⟨⟨h.cap_eq, h.cap_pos, nodup_keys_delE h.nodup _, ?_, h.rnd_lt, ?_⟩, ?_⟩
      · intro x hx; exact h.dl0 x (List.mem_filter.mp hx).1
      · exact (slots_perm_delE h.nodup hg s.free).trans h.perm
      · simp only [AStep, absOf_get, hg, Option.map_some, true_and, absOf_size]
        exact ⟨absOf_delE _ _, hlen⟩
  clear s now hc h := by simp [core] at hc
  clean s now h := ⟨h, by simp [core, AStep]⟩
  age s now h := ⟨h, rfl⟩
  updateTtl s _ t h := ⟨h, rfl⟩
  size s _ h := rfl
  capacity s _ h _ := h.cap_eq

end Rr
end Verif
