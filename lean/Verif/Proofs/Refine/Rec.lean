import Verif.Model.Lru
import Verif.ListLemmas
import Verif.Spec.Lift
/-!
# `lru_cache` and `mru_cache` refine the plain reference semantics (every history, either victim end)
-/
namespace Verif
open Verif.Spec

namespace Rec

structure Inv (cap : Nat) (s : RecState) : Prop where
  cap_eq : s.cap = cap
  cap_pos : 0 < cap
  nodup : (keys s.ents).Nodup
  bound : s.ents.length ≤ cap
  dl0 : ∀ e ∈ s.ents, e.dl = 0

def abs (s : RecState) : A := absOf s.ents

theorem inv_init {cap : Nat} (h : 0 < cap) : Inv cap (init cap) :=
  ⟨rfl, h, by simp [init, keys], by simp [init], by simp [init]⟩

/-- what `prune` removes: one resident key, and nothing else -/
theorem prune_spec (vic : Victim) {l : List Entry} (hn : (keys l).Nodup) (hl : l ≠ []) :
    ∃ w, (getE l w).isSome = true ∧ (prune vic l).length + 1 = l.length ∧
      (keys (prune vic l)).Nodup ∧ (∀ e ∈ prune vic l, e ∈ l) ∧
      ∀ k, getE (prune vic l) k = if k = w then none else getE l k := by
  cases vic with
  | oldest =>
    cases l with
    | nil => exact absurd rfl hl
    | cons e t =>
      refine ⟨e.key, by simp [getE_cons], by simp [prune], ?_, ?_, ?_⟩
      · simp only [keys, List.map_cons, List.nodup_cons] at hn; exact hn.2
      · intro x hx; exact List.mem_cons_of_mem _ hx
      · intro k; exact getE_tail hn k
  | newest =>
    obtain ⟨t, e, rfl⟩ : ∃ t e, l = t ++ [e] := by
      refine ⟨l.dropLast, l.getLast hl, ?_⟩
      exact (List.dropLast_concat_getLast hl).symm
    refine ⟨e.key, ?_, by simp [prune], ?_, ?_, ?_⟩
    · rw [getE_append_single]; cases getE t e.key <;> simp
    · simp only [prune, List.dropLast_concat]
      rw [keys_append] at hn
      exact (List.nodup_append.mp hn).1
    · intro x hx; simp only [prune, List.dropLast_concat] at hx; exact List.mem_append_left _ hx
    · intro k; simp only [prune, List.dropLast_concat]; exact getE_dropLast_concat hn k

theorem absOf_touch {l : List Entry} {k : Key} {e e' : Entry} (hk : e'.key = k) :
    (absOf (delE l k ++ [e'])).get = (absOf l).get.set k (e'.val, e'.dl) := by
  funext k'
  simp only [absOf_get, AMap.set]
  rw [getE_append_single]
  by_cases h : k' = k
  · subst h; simp [getE_delE_self, hk]
  · rw [getE_delE_ne _ h]
    have : ¬ e'.key = k' := by rw [hk]; exact fun h' => h h'.symm
    simp only [h, this, if_false]
    cases getE l k' <;> rfl

theorem refines (vic : Victim) (cap : Nat) : Refines (core vic) .plain cap (fun _ => Inv cap) abs where
  mono _ _ _ h _ := h
  pre s now h := ⟨h, by simp [core, AStep]⟩
  insert1 s now k v a ttl h := by
    simp only [core, Rec.insert1, abs]
    cases hg : getE s.ents k with
    | some e =>
      have hek := getE_key hg
      subst hek
      by_cases ha : a.upd = true
      · simp only [ha, if_true, touch]
        have hlen := length_delE_of_getE h.nodup hg
        refine ⟨⟨h.cap_eq, h.cap_pos, ?_, ?_, ?_⟩, ?_⟩
        · exact nodup_keys_snoc (nodup_keys_delE h.nodup _) (by
            intro hm; exact (mem_keys_delE.mp hm).2 rfl)
        · simp only [List.length_append, List.length_singleton]; have := h.bound; omega
        · intro x hx
          rcases List.mem_append.mp hx with hx | hx
          · exact h.dl0 x (List.mem_filter.mp hx).1
          · simp only [List.mem_singleton] at hx; subst hx; exact h.dl0 e (getE_mem hg)
        · simp only [AStep, absOf_get, hg, Option.map_some, ha, true_or, if_true, true_and]
          refine ⟨?_, ?_⟩
          · rw [absOf_touch (e := e) (e' := { e with val := v }) rfl]
            simp [h.dl0 e (getE_mem hg)]
          · simp only [absOf_size, List.length_append, List.length_singleton]; omega
      · simp only [ha, Bool.false_eq_true, if_false]
        refine ⟨h, ?_⟩
        simp [AStep, absOf_get, hg, ha]
    | none =>
      by_cases ha : a.ins = true
      · simp only [ha, if_true]
        have hk : k ∉ keys s.ents := getE_eq_none_iff.mp hg
        by_cases hfull : s.ents.length ≥ s.cap
        · simp only [hfull, if_true]
          have hne : s.ents ≠ [] := by
            intro h0; rw [h0] at hfull; simp at hfull; have := h.cap_pos; have := h.cap_eq; omega
          obtain ⟨w, hw, hlen, hnd, hsub, hget⟩ := prune_spec vic h.nodup hne
          have hkp : k ∉ keys (prune vic s.ents) := by
            rw [← getE_eq_none_iff, hget]; split <;> simp [hg]
          refine ⟨⟨h.cap_eq, h.cap_pos, nodup_keys_snoc hnd hkp, ?_, ?_⟩, ?_⟩
          · simp only [List.length_append, List.length_singleton]; have := h.bound; omega
          · intro x hx
            rcases List.mem_append.mp hx with hx | hx
            · exact h.dl0 x (hsub x hx)
            · simp only [List.mem_singleton] at hx; subst hx; rfl
          · have hcs : cap ≤ s.ents.length := by rw [← h.cap_eq]; exact hfull
            simp only [AStep, absOf_get, hg, Option.map_none, ha, if_true, true_and, ne_eq,
              reduceCtorEq, not_false_eq_true, absOf_size, hcs, and_self]
            refine ⟨w, by simpa [absOf_get] using hw, ?_, ?_⟩
            · funext k'
              simp only [absOf_get, AMap.set, AMap.del, getE_append_single, hget]
              by_cases h1 : k' = k
              · subst h1
                have : getE s.ents k' = none := hg
                simp [this]
              · have : ¬ k = k' := fun h' => h1 h'.symm
                simp only [h1, this, if_false]
                by_cases h2 : k' = w
                · simp [h2]
                · simp only [h2, if_false]; cases getE s.ents k' <;> rfl
            · simp only [List.length_append, List.length_singleton]; omega
        · simp only [hfull, if_false]
          have hlt : s.ents.length < cap := by rw [← h.cap_eq]; omega
          refine ⟨⟨h.cap_eq, h.cap_pos, nodup_keys_snoc h.nodup hk, ?_, ?_⟩, ?_⟩
          · simp only [List.length_append, List.length_singleton]; omega
          · intro x hx
            rcases List.mem_append.mp hx with hx | hx
            · exact h.dl0 x hx
            · simp only [List.mem_singleton] at hx; subst hx; rfl
          · have hnc : ¬ cap ≤ s.ents.length := by omega
            simp only [AStep, absOf_get, hg, Option.map_none, ha, if_true, true_and, ne_eq,
              reduceCtorEq, not_false_eq_true, absOf_size, hnc, and_false, if_false,
              List.length_append, List.length_singleton, and_true]
            funext k'
            simp only [absOf_get, AMap.set, getE_append_single]
            by_cases h1 : k' = k
            · subst h1
              have : getE s.ents k' = none := hg
              simp [this]
            · have : ¬ k = k' := fun h' => h1 h'.symm
              simp only [h1, this, if_false]; cases getE s.ents k' <;> rfl
      · simp only [ha, Bool.false_eq_true, if_false]
        refine ⟨h, ?_⟩
        simp [AStep, absOf_get, hg, ha]
  find1 s now k peek h := by
    cases hg : getE s.ents k with
    | none =>
      simp only [core, Rec.find1, abs, hg]
      exact ⟨h, by simp [AStep, absOf_get, hg]⟩
    | some e =>
      have hek := getE_key hg
      subst hek
      cases peek with
      | true =>
        simp only [core, Rec.find1, abs, hg]
        exact ⟨h, by simp [AStep, absOf_get, hg]⟩
      | false =>
        simp only [core, Rec.find1, abs, hg, Bool.false_eq_true, if_false, touch]
        have hlen := length_delE_of_getE h.nodup hg
        refine ⟨⟨h.cap_eq, h.cap_pos, ?_, ?_, ?_⟩, ?_⟩
        · exact nodup_keys_snoc (nodup_keys_delE h.nodup _) (by
            intro hm; exact (mem_keys_delE.mp hm).2 rfl)
        · simp only [List.length_append, List.length_singleton]; have := h.bound; omega
        · intro x hx
          rcases List.mem_append.mp hx with hx | hx
          · exact h.dl0 x (List.mem_filter.mp hx).1
          · simp only [List.mem_singleton] at hx; subst hx; exact h.dl0 x (getE_mem hg)
        · simp only [AStep, absOf_get, hg, Option.map_some, reduceCtorEq, false_and, if_false, true_and]
          apply A.ext'
          · rw [absOf_touch (e := e) (e' := e) rfl]
            funext k'
            simp only [AMap.set, absOf_get]
            by_cases h1 : k' = e.key
            · subst h1; simp [hg]
            · simp [h1]
          · simp only [absOf_size, List.length_append, List.length_singleton]; omega
  erase1 s now k h := by
    cases hg : getE s.ents k with
    | none =>
      simp only [core, Rec.erase1, abs, hg]
      exact ⟨h, by simp [AStep, absOf_get, hg]⟩
    | some e =>
      simp only [core, Rec.erase1, abs, hg]
      have hlen := length_delE_of_getE h.nodup hg
      refine ⟨⟨h.cap_eq, h.cap_pos, nodup_keys_delE h.nodup _, ?_, ?_⟩, ?_⟩
      · show (delE s.ents k).length ≤ cap
        have := h.bound; omega
      · intro x hx; exact h.dl0 x (List.mem_filter.mp hx).1
      · simp only [AStep, absOf_get, hg, Option.map_some, true_and, absOf_size]
        refine ⟨?_, hlen⟩
        funext k'
        simp only [absOf_get, AMap.del]
        by_cases h1 : k' = k
        · subst h1; simp [getE_delE_self]
        · simp [h1, getE_delE_ne _ h1]
  clear s now hc h := by simp [core] at hc
  clean s now h := ⟨h, by simp [core, AStep]⟩
  age s now h := ⟨h, rfl⟩
  updateTtl s _ t h := ⟨h, rfl⟩
  size s _ h := rfl
  capacity s _ h _ := h.cap_eq

end Rec
end Verif
