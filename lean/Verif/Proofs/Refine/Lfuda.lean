import Verif.Proofs.Refine.Lfu
/-!
# `lfuda_cache` refines the plain reference semantics (every history)

The abstraction looks at `ents` only; the invariant says nothing about the age list.  Dynamic aging
re-files entries with a scaled count and a new stamp: per key, value and deadline are unchanged.
-/
namespace Verif
open Verif.Spec

namespace Lfuda

structure Inv (cap : Nat) (s : LfudaState) : Prop where
  cap_eq : s.cap = cap
  cap_pos : 0 < cap
  nodup : (keys s.ents).Nodup
  bound : s.ents.length ≤ cap
  dl0 : ∀ e ∈ s.ents, e.dl = 0

def abs (s : LfudaState) : A := absOf s.ents

theorem inv_init {cap : Nat} (h : 0 < cap) (tickMs num den : Nat) :
    Inv cap (init cap tickMs num den) :=
  ⟨rfl, h, by simp [init, keys], by simp [init], by simp [init]⟩

/-- one aging step keeps the keys duplicate-free, the deadlines, and the abstraction -/
theorem ageOne_spec (now : Time) (num den : Nat) {l : List Entry} (k : Key)
    (hn : (keys l).Nodup) (hd : ∀ e ∈ l, e.dl = 0) :
    (keys (ageOne now num den l k)).Nodup ∧ (∀ e ∈ ageOne now num den l k, e.dl = 0) ∧
      absOf (ageOne now num den l k) = absOf l := by
  unfold ageOne
  cases hg : getE l k with
  | none => exact ⟨hn, hd, rfl⟩
  | some e =>
    have hek := getE_key hg
    subst hek
    have hmem : e.key ∈ keys l := getE_isSome_iff.mp (by simp [hg])
    have hd0 := hd e (getE_mem hg)
    refine ⟨?_, ?_, ?_⟩
    · exact nodup_keys_refile (e := { e with cnt := e.cnt * num / den, stamp := now }) hn
    · exact dl0_refile hd (e := { e with cnt := e.cnt * num / den, stamp := now }) hd0 e.key
    · apply A.ext'
      · refine (absOf_refile_get l { e with cnt := e.cnt * num / den, stamp := now }).trans ?_
        exact amap_set_self (by simp [absOf_get, hg])
      · exact length_refile (e := { e with cnt := e.cnt * num / den, stamp := now }) hn hmem

theorem foldl_ageOne_spec (now : Time) (num den : Nat) (ks : List Key) {l : List Entry}
    (hn : (keys l).Nodup) (hd : ∀ e ∈ l, e.dl = 0) :
    (keys (ks.foldl (ageOne now num den) l)).Nodup ∧
      (∀ e ∈ ks.foldl (ageOne now num den) l, e.dl = 0) ∧
      absOf (ks.foldl (ageOne now num den) l) = absOf l := by
  induction ks generalizing l with
  | nil => exact ⟨hn, hd, rfl⟩
  | cons k ks ih =>
    obtain ⟨h1, h2, h3⟩ := ageOne_spec now num den k hn hd
    obtain ⟨h4, h5, h6⟩ := ih h1 h2
    exact ⟨h4, h5, h6.trans h3⟩

theorem dynAge_spec {cap : Nat} {s : LfudaState} (h : Inv cap s) (now : Time) :
    Inv cap (dynAge s now).1 ∧ abs (dynAge s now).1 = abs s := by
  obtain ⟨h1, h2, h3⟩ :=
    foldl_ageOne_spec now s.num s.den (s.age.takeWhile (idle s now)) h.nodup h.dl0
  refine ⟨⟨h.cap_eq, h.cap_pos, h1, ?_, h2⟩, h3⟩
  have : (List.foldl (ageOne now s.num s.den) s.ents (s.age.takeWhile (idle s now))).length
      = s.ents.length := congrArg A.size h3
  show (List.foldl (ageOne now s.num s.den) s.ents (s.age.takeWhile (idle s now))).length ≤ cap
  rw [this]; exact h.bound

/-- `do_prune` on a non-empty store removes exactly one resident key -/
theorem prune_spec {cap : Nat} {s : LfudaState} (h : Inv cap s) (hne : s.ents ≠ []) (now : Time) :
    (prune s now).cap = s.cap ∧ (keys (prune s now).ents).Nodup ∧
      (∀ e ∈ (prune s now).ents, e.dl = 0) ∧
      ∃ w, ((absOf s.ents).get w).isSome = true ∧
        (absOf (prune s now).ents).get = (absOf s.ents).get.del w ∧
        (prune s now).ents.length + 1 = s.ents.length := by
  obtain ⟨hi, ha⟩ := dynAge_spec h now
  have hag : (absOf (dynAge s now).1.ents).get = (absOf s.ents).get := congrArg A.get ha
  have hal : (dynAge s now).1.ents.length = s.ents.length := congrArg A.size ha
  cases hl : (dynAge s now).1.ents with
  | nil =>
    rw [hl] at hal
    exact absurd (List.eq_nil_of_length_eq_zero hal.symm) hne
  | cons e t =>
    have hp : prune s now = removeKey (dynAge s now).1 e.key := by
      simp only [prune, hl]
    have hcap : (dynAge s now).1.cap = s.cap := rfl
    have hmem : e.key ∈ keys (dynAge s now).1.ents := by rw [hl]; simp [keys]
    rw [hp]
    refine ⟨hcap, nodup_keys_delE hi.nodup _, ?_, e.key, ?_, ?_, ?_⟩
    · intro x hx; exact hi.dl0 x (List.mem_filter.mp hx).1
    · rw [← hag, absOf_get, hl, getE_cons]; simp
    · show (absOf (delE (dynAge s now).1.ents e.key)).get = _
      rw [absOf_delE_get, hag]
    · show (delE (dynAge s now).1.ents e.key).length + 1 = _
      rw [length_delE_of_mem hi.nodup hmem, hal]

/-- `do_access` of a resident key: same keys, the key's entry replaced -/
theorem access_spec {cap : Nat} {s : LfudaState} (h : Inv cap s) {e : Entry} (now : Time)
    (hk : e.key ∈ keys s.ents) (hd : e.dl = 0) :
    Inv cap (access s e now) ∧
      (absOf (access s e now).ents).get = (absOf s.ents).get.set e.key (e.val, 0) ∧
      (access s e now).ents.length = s.ents.length := by
  have hlen : (access s e now).ents.length = s.ents.length :=
    length_refile (e := { e with cnt := e.cnt + 1, stamp := now }) h.nodup hk
  refine ⟨⟨h.cap_eq, h.cap_pos, ?_, ?_, ?_⟩, ?_, hlen⟩
  · exact nodup_keys_refile (e := { e with cnt := e.cnt + 1, stamp := now }) h.nodup
  · rw [hlen]; exact h.bound
  · exact dl0_refile h.dl0 (e := { e with cnt := e.cnt + 1, stamp := now }) hd e.key
  · refine (absOf_refile_get s.ents { e with cnt := e.cnt + 1, stamp := now }).trans ?_
    show (absOf s.ents).get.set e.key (e.val, e.dl) = _
    rw [hd]

theorem refines (cap : Nat) : Refines core .plain cap (fun _ => Inv cap) abs where
  mono _ _ _ h _ := h
  pre s now h := ⟨h, by simp [core, AStep]⟩
  insert1 s now k v a ttl h := by
    simp only [core, Lfuda.insert1, abs]
    cases hg : getE s.ents k with
    | some e =>
      have hek := getE_key hg
      subst hek
      by_cases ha : a.upd = true
      · simp only [ha, if_true]
        have hmem : ({ e with val := v } : Entry).key ∈ keys s.ents :=
          getE_isSome_iff.mp (by simp [hg])
        obtain ⟨hinv, hget, hlen⟩ :=
          access_spec h (e := { e with val := v }) now hmem (h.dl0 e (getE_mem hg))
        refine ⟨hinv, ?_⟩
        simp only [AStep, absOf_get, hg, Option.map_some, ha, true_or, if_true, true_and]
        exact ⟨hget, by simp only [absOf_size]; exact hlen⟩
      · simp only [ha, Bool.false_eq_true, if_false]
        refine ⟨h, ?_⟩
        simp [AStep, absOf_get, hg, ha]
    | none =>
      by_cases ha : a.ins = true
      · simp only [ha, if_true]
        have hk : k ∉ keys s.ents := getE_eq_none_iff.mp hg
        by_cases hfull : s.ents.length ≥ s.cap
        · simp only [hfull, if_true]
          have hcs : cap ≤ s.ents.length := by rw [← h.cap_eq]; exact hfull
          have hne : s.ents ≠ [] := by
            intro h0; rw [h0] at hcs; simp at hcs; have := h.cap_pos; omega
          obtain ⟨hpc, hpn, hpd, w, hw, hpg, hpl⟩ := prune_spec h hne now
          have hkp : k ∉ keys (prune s now).ents := by
            rw [← absOf_get_eq_none, hpg]
            simp only [AMap.del]
            split
            · rfl
            · exact absOf_get_eq_none.mpr hk
          refine ⟨⟨hpc.trans h.cap_eq, h.cap_pos, nodup_keys_fileCnt hpn hkp, ?_, ?_⟩, ?_⟩
          · show (fileCnt (prune s now).ents _).length ≤ cap
            rw [length_fileCnt]; have := h.bound; omega
          · exact dl0_fileCnt hpd rfl
          · simp only [AStep, absOf_get, hg, Option.map_none, ha, if_true, true_and, ne_eq,
              reduceCtorEq, not_false_eq_true, absOf_size, hcs, and_self]
            refine ⟨w, by simpa [absOf_get] using hw, ?_, ?_⟩
            · have := absOf_fileCnt_get (l := (prune s now).ents)
                (e := { key := k, val := v, cnt := 1, stamp := now }) hkp
              rw [this, hpg]
            · rw [length_fileCnt]; exact hpl
        · simp only [hfull, if_false]
          have hlt : s.ents.length < cap := by rw [← h.cap_eq]; omega
          refine ⟨⟨h.cap_eq, h.cap_pos, nodup_keys_fileCnt h.nodup hk, ?_, ?_⟩, ?_⟩
          · show (fileCnt s.ents _).length ≤ cap
            rw [length_fileCnt]; omega
          · exact dl0_fileCnt h.dl0 rfl
          · have hnc : ¬ cap ≤ s.ents.length := by omega
            simp only [AStep, absOf_get, hg, Option.map_none, ha, if_true, true_and, ne_eq,
              reduceCtorEq, not_false_eq_true, absOf_size, hnc, and_false, if_false,
              length_fileCnt, and_true]
            exact absOf_fileCnt_get (l := s.ents)
              (e := { key := k, val := v, cnt := 1, stamp := now }) hk
      · simp only [ha, Bool.false_eq_true, if_false]
        refine ⟨h, ?_⟩
        simp [AStep, absOf_get, hg, ha]
  find1 s now k peek h := by
    cases hg : getE s.ents k with
    | none =>
      simp only [core, Lfuda.find1, abs, hg]
      exact ⟨h, by simp [AStep, absOf_get, hg]⟩
    | some e =>
      have hek := getE_key hg
      subst hek
      cases peek with
      | true =>
        simp only [core, Lfuda.find1, abs, hg]
        exact ⟨h, by simp [AStep, absOf_get, hg]⟩
      | false =>
        simp only [core, Lfuda.find1, abs, hg, Bool.false_eq_true, if_false]
        have hmem : e.key ∈ keys s.ents := getE_isSome_iff.mp (by simp [hg])
        have hd0 := h.dl0 e (getE_mem hg)
        obtain ⟨hinv, hget, hlen⟩ := access_spec h (e := e) now hmem hd0
        refine ⟨hinv, ?_⟩
        simp only [AStep, absOf_get, hg, Option.map_some, reduceCtorEq, false_and, if_false, true_and]
        apply A.ext'
        · rw [hget]
          exact amap_set_self (by simp [absOf_get, hg, hd0])
        · simp only [absOf_size]; exact hlen
  erase1 s now k h := by
    cases hg : getE s.ents k with
    | none =>
      simp only [core, Lfuda.erase1, abs, hg]
      exact ⟨h, by simp [AStep, absOf_get, hg]⟩
    | some e =>
      simp only [core, Lfuda.erase1, abs, hg, removeKey]
      have hlen := length_delE_of_getE h.nodup hg
      refine ⟨⟨h.cap_eq, h.cap_pos, nodup_keys_delE h.nodup _, ?_, ?_⟩, ?_⟩
      · show (delE s.ents k).length ≤ cap
        have := h.bound; omega
      · intro x hx; exact h.dl0 x (List.mem_filter.mp hx).1
      · simp only [AStep, absOf_get, hg, Option.map_some, true_and, absOf_size]
        exact ⟨absOf_delE_get _ _, hlen⟩
  clear s now hc h := by simp [core] at hc
  clean s now h := ⟨h, by simp [core, AStep]⟩
  age s now h := dynAge_spec h now
  updateTtl s _ t h := ⟨h, rfl⟩
  size s _ h := rfl
  capacity s _ h _ := h.cap_eq

end Lfuda
end Verif
