import Verif.Proofs.CapstoneOrder

/-!
# Capstone for the policy judge, continued: tlru/utlru (C10, C16), rr (C15), lfuda (C14) at event level

`Proofs/CapstoneOrder.lean` derives, from the verdict `Check.l1 cfg nkeys evs = none` of the executable policy judge,
statements about the events the harness recorded on the real containers, for lru, mru, fifo and lfu.  This file adds
the remaining bounded containers.  As there: single-instance logs (`∀ e ∈ evs, e.inst = 0`), every inserted key in
the swept universe (`logOk nkeys evs`), "event `i + 1`" is a single `insert` that returned `true` and the `size()`
recorded after event `i` equals the recorded `capacity()`.

## Part E — tlru_cache, utlru_cache (C16, C10)

The sweep recorded after event `i` was taken at event `i`'s clock reading; an expired entry that has not been reaped
is resident (it counts in `size()`, it is what C16 says is evicted first) but no sweep shows it, and sweeps carry no
deadlines.  So "`k` is not resident" and "some / no resident entry has expired at the insert's clock reading" are, in
general, *not* conditions on the recorded events; the main theorems state them on the model state
`s = tlruAfter cfg evs (i + 1)` (`utlruAfter …`) — the replayed twin after events `0 .. i` — and say what ties `s`
to the log (`l1_transfer_after`: its sweep at event `i`'s clock reading, its `size()` and `capacity()` are the
recorded ones).

* `ttl_insert_observed` (generic over `TtlKeyed`), `tlru_insert_observed`, `utlru_insert_observed`: one resident
  key `w ≠ k` is removed; the sweep recorded after event `i + 1` shows `k` (if its deadline is later than the
  insert's clock reading) and exactly the keys other than `w` that are resident in `s` and live at that reading
  (`LiveAt`) — besides `w`, only expiry takes keys away.  C16: if `s` holds an entry with deadline `≤ e.now`, `w`'s
  entry is such an expired one and every key of the sweep after event `i` that is live at `e.now` is still in the
  sweep after event `i + 1`.  C10: otherwise `w = firstIn (useOrder tr) (keys s.ents)`.
* `ttl_lru_victim_observed`, `tlru_lru_victim_observed`, `utlru_lru_victim_observed`: if the clock did not go back
  between the two events and nothing resident in `s` has expired at the insert's reading (the only condition left
  on the twin), the statement of `lru_victim_observed` in terms of the two recorded sweeps.
* `ttl_all_live_iff`: "nothing resident has expired at event `i`'s clock reading" ⇔ the sweep recorded after event
  `i` has `size()` entries.  With it, when event `i + 1` was taken at the *same* clock reading as event `i`,
  everything is on the recorded events: `…_lru_victim_observed_sameclock` (C10) and
  `…_expired_first_observed_sameclock` (C16: an expired entry is resident ⇒ the insert costs no live entry).

Not done: recomputing deadlines from the log (as `Capstone.dlEv` does for the acceptor), which would turn the
conditions on the twin into conditions on the recorded events for arbitrary clock readings; for utlru the TTL in
force (`s.ttl`) is likewise read off the twin, not off the `update_ttl` events.

## Part F — rr_cache (C15)

`rr_victim_observed`: at an accepted evicting single insert exactly one key `w` leaves the observed sweep, it was in
the previous sweep and is not `k`, and it is the key of the one entry the model holds in slot
`(cfg.rnd.drop (rrDraws cfg.cap tr)).headD 0 < cfg.cap` — the next unused mirrored draw, `rrDraws` counting the
evictions (= draws, `rr_rnd_run`) of the model's run over the recorded history of events `0 .. i`.  Hypothesis
`∀ r ∈ cfg.rnd, r < cfg.cap`.  `evicting_insert_observed_st` is `evicting_insert_observed` with a policy statement
that may mention the model state and the insert's clock reading.

## Part G — lfuda_cache (C14)

Under non-decreasing recorded clock readings (`TimesFrom 0 (opsOf (evs.take …))`; `timesFrom_take` derives the
prefix form from the whole log's): `lfuda_counts_observed` (every count a sweep shows is the aging ghost's,
`lfudaGhost`/`daGhost`), `lfuda_age_observed` and `lfuda_age_observed_sweep` (a `dynamically_age()` event reports the
number of entries the ghost ages — resident keys / keys of the previous sweep whose ghost stamp is more than the
tick old), `lfuda_victim_observed` (the key leaving the sweep has a minimal count after aging at the insert's clock
reading).

The statements are about the log; that the log is what the C++ library did is the harness's business.
-/

namespace Verif.CapstoneOrder2
open Verif Verif.Proto Verif.Spec Verif.Check Verif.CheckL2 Verif.Accept Verif.CapstoneOrder

/-! ## shared: the model state after a prefix of the log -/

/-- the calls of the first `i + 1` events have their inserted keys in the swept universe -/
theorem ops_ok {nkeys : Nat} {evs : List Event} (hlog : logOk nkeys evs = true) (n : Nat) :
    ∀ x ∈ opsOf (evs.take n), opKeysOk nkeys x.2 = true := by
  have hkeys : ∀ e ∈ evs, opKeysOk nkeys e.op = true := by
    simpa [logOk, List.all_eq_true] using hlog
  intro x hx
  obtain ⟨e', he', rfl⟩ := List.mem_map.1 hx
  exact hkeys e' (List.mem_of_mem_take he')

/-- `PlainKeyed.after_prefix` without the "no deadlines" restriction: for every container whose invariant
does not mention the clock, every key resident after a history is one the history inserted -/
theorem resident_lt {σ : Type} (V : Verified σ) (htl : V.Timeless) (K : σ → List Key)
    (habs : ∀ s u, ((V.abs s).get u).isSome = true ↔ u ∈ K s)
    (nkeys : Nat) (ops : List (Time × Op)) (hops : ∀ x ∈ ops, opKeysOk nkeys x.2 = true) :
    ∀ u ∈ K (V.c.run V.s0 ops).1, u < nkeys := by
  have heq := (V.c.runA_eq V.s0 ops).1
  intro u hu
  have hr := V.history_is_run_anyclock ops htl
  rw [heq] at hr
  obtain ⟨y, hy⟩ := Option.isSome_iff_exists.1 ((habs _ u).2 hu)
  refine arun_keys hr (runA_keys V.c nkeys ops V.s0 hops) ?_ u y hy
  intro k y h; cases h

/-- the atom-level run of the model over a history -/
theorem run_of_history {σ : Type} (c : Core σ) (s0 : σ) (ops : List (Time × Op)) :
    ∃ tr : STrace σ, CRun c s0 tr (c.run s0 ops).1 ∧ tr.atoms = (c.runA s0 ops).2.2 := by
  obtain ⟨tr, h1, h2⟩ := c.runA_crun s0 ops
  rw [(c.runA_eq s0 ops).1] at h1
  exact ⟨tr, h1, h2⟩

theorem evicts_unique {b a : List Key} {k w w' : Key} (h1 : Evicts b a k w) (h2 : Evicts b a k w') :
    w = w' := by
  by_cases h : w = w'
  · exact h
  · exact absurd (h2.2.2.2 w h1.1 h) h1.2.2.1

/-! ## Part E — tlru_cache / utlru_cache: C16 and C10 at event level -/

/-- `u` is resident in the model state `s` and has not expired at clock reading `now`
(`find(u, peek::yes)` at `now` on the replayed twin would report it) -/
def LiveAt (s : TlruState) (now : Time) (u : Key) : Prop := ∃ en, getE s.ents u = some en ∧ now < en.dl

theorem look_isSome (s : TlruState) (now : Time) (u : Key) :
    (Tlru.look s now u).isSome = true ↔ LiveAt s now u := by
  unfold Tlru.look LiveAt
  cases hg : getE s.ents u with
  | none => simp
  | some en =>
    by_cases hd : now < en.dl
    · simp [hd]
    · simp [hd]

/-- what the transfer needs of a deadline container (tlru_cache, utlru_cache): it is `MState`'s step on its
summand, behaves like tlru (`Tlru.Like`), refines the lazy reference semantics with tlru's invariant, and its
observers are tlru's -/
structure TtlKeyed (c : Core TlruState) (cap : Nat) (s0 : TlruState) (emb : TlruState → MState) : Prop where
  emb : Emb c emb
  like : Tlru.Like c
  R : Refines c .lazy cap (fun _ => Tlru.Inv cap) Tlru.abs
  inv0 : Tlru.Inv cap s0
  ents0 : s0.ents = []
  look : ∀ s now u, c.look s now u = Tlru.look s now u
  size : ∀ s, c.size s = s.ents.length
  capacity : ∀ s, c.capacity s = s.cap

theorem ttl_tlru (cap : Nat) (h : 0 < cap) : TtlKeyed Tlru.core cap (Tlru.init cap) MState.tlru where
  emb := ⟨fun _ _ _ => rfl, fun _ => rfl, fun _ => rfl, fun _ _ _ => rfl⟩
  like := Tlru.like_tlru
  R := Tlru.refines cap
  inv0 := Tlru.inv_init h
  ents0 := rfl
  look := fun _ _ _ => rfl
  size := fun _ => rfl
  capacity := fun _ => rfl

theorem ttl_utlru (cap : Nat) (h : 0 < cap) (ttlMs : Nat) :
    TtlKeyed Utlru.core cap (Utlru.init cap ttlMs) MState.utlru where
  emb := ⟨fun _ _ _ => rfl, fun _ => rfl, fun _ => rfl, fun _ _ _ => rfl⟩
  like := Tlru.like_utlru
  R := Utlru.refines cap
  inv0 := Utlru.inv_init h ttlMs
  ents0 := rfl
  look := fun _ _ _ => rfl
  size := fun _ => rfl
  capacity := fun _ => rfl

/-- every resident key of the deadline model after a history was inserted by the history -/
theorem TtlKeyed.resident_lt {c : Core TlruState} {cap : Nat} {s0 : TlruState} {emb : TlruState → MState}
    (hT : TtlKeyed c cap s0 emb) (nkeys : Nat) (ops : List (Time × Op))
    (hops : ∀ x ∈ ops, opKeysOk nkeys x.2 = true) :
    ∀ u ∈ keys (c.run s0 ops).1.ents, u < nkeys := by
  have heq := (c.runA_eq s0 ops).1
  intro u hu
  have hr := (hT.R.runA_anyclock (fun _ _ _ h => h) s0 0 ops hT.inv0).2
  rw [heq] at hr
  have hsome : ((Tlru.abs (c.run s0 ops).1).get u).isSome = true := by
    show ((getE _ u).map _).isSome = true
    rw [Option.isSome_map, getE_isSome_iff]; exact hu
  obtain ⟨y, hy⟩ := Option.isSome_iff_exists.1 hsome
  refine arun_keys hr (runA_keys c nkeys ops s0 hops) ?_ u y hy
  intro k y h
  have : (Tlru.abs s0).get k = none := by
    show (getE s0.ents k).map _ = none
    rw [hT.ents0]; rfl
  rw [this] at h; cases h

/-- the entries after `do_erase(w)` followed by the append of a new entry for `k` -/
theorem getE_replace {l : List Entry} {k w : Key} (x : Entry) (hx : x.key = k) (hk : k ∉ keys l) (u : Key) :
    getE (delE l w ++ [x]) u = if u = k then some x else if u = w then none else getE l u := by
  rw [getE_append_single, hx]
  by_cases huk : u = k
  · subst huk
    have : getE (delE l w) u = none := getE_eq_none_iff.2 (fun h => hk (mem_keys_delE.1 h).1)
    simp [this]
  · have hku : ¬ k = u := fun h => huk h.symm
    rw [if_neg hku, if_neg huk]
    by_cases huw : u = w
    · subst huw; rw [getE_delE_self]; simp
    · rw [getE_delE_ne _ huw, if_neg huw]; simp

/-- **Generic transfer for the deadline caches.**  Single-instance log accepted by the observable tier, every
inserted key in the swept universe.  `s` is the model state the transfer lemma `l1_transfer_after` ties to
the log after event `i` (its `size()`, `capacity()` and its sweep at event `i`'s clock reading are the
recorded ones — first two conjuncts).  Event `i + 1` is a single `insert(k, v, a[, ttl])` that returned `true`,
`k` is not resident in `s`, and the `size()` recorded after event `i` equals the recorded `capacity()`.

Then one resident key `w ≠ k` is removed, and the sweep recorded after event `i + 1` (taken at the insert's own
clock reading `e.now`) shows exactly: `k`, if its deadline is later than `e.now`; and every key other than `w` that
is resident in `s` and live at `e.now` (`LiveAt`) — i.e. besides `w`, only expiry takes keys away.

* C16: if some resident entry of `s` has a deadline `≤ e.now`, then `w`'s entry is such an expired one, and every
  key shown by the sweep after event `i` that is live at `e.now` is still shown after event `i + 1`.
* C10: otherwise `w` is the least recently used resident: `firstIn (useOrder tr) (keys s.ents)` for every
  annotated trace `tr` whose atoms are those of the recorded history of events `0 .. i`. -/
theorem ttl_insert_observed {c : Core TlruState} {cap : Nat} {s0 : TlruState} {emb : TlruState → MState}
    (hT : TtlKeyed c cap s0 emb)
    (cfg : Cfg) (nkeys : Nat) (evs : List Event) (hinit : MState.init cfg = emb s0)
    (hinst : ∀ e ∈ evs, e.inst = 0) (hlog : logOk nkeys evs = true) (hacc : l1 cfg nkeys evs = none)
    (i : Nat) (e0 e : Event) (k : Key) (v : Val) (a : Allow) (ttl : Nat)
    (h0 : evs[i]? = some e0) (h1 : evs[i + 1]? = some e)
    (hop : e.op = .insert k v a ttl) (hout : e.out = .bool true)
    (s : TlruState) (hs : s = (c.run s0 (opsOf (evs.take (i + 1)))).1)
    (hnew : k ∉ keys s.ents) (hfull : e0.obs.size = e0.obs.cap) :
    c.sweep s e0.now nkeys = e0.obs.sweep ∧ s.ents.length = e0.obs.size ∧ s.cap = e0.obs.cap ∧
    ∃ w, w ∈ keys s.ents ∧ w ≠ k ∧
      (∀ u, u ∈ sweepKeys e ↔ (u = k ∧ e.now < c.dlOf s e.now ttl) ∨ (u ≠ w ∧ LiveAt s e.now u)) ∧
      ((∃ en ∈ s.ents, en.dl ≤ e.now) →
        (∃ en, getE s.ents w = some en ∧ en.dl ≤ e.now) ∧
        ∀ u ∈ sweepKeys e0, LiveAt s e.now u → u ∈ sweepKeys e) ∧
      ((∀ en ∈ s.ents, e.now < en.dl) →
        ∀ tr : STrace TlruState, tr.atoms = (c.runA s0 (opsOf (evs.take (i + 1)))).2.2 →
          firstIn (useOrder tr) (keys s.ents) = some w) := by
  have hops := ops_ok hlog (i + 1)
  have hlt := hT.resident_lt nkeys _ hops
  obtain ⟨tr, hrun, hatoms⟩ := run_of_history c s0 (opsOf (evs.take (i + 1)))
  have hb := l1_transfer_after cfg nkeys evs hinst hacc i e0 h0
  have hm := l1_transfer cfg nkeys evs hinst hacc (i + 1) e h1
  unfold Matches at hm
  rw [hinit, hT.emb.runM] at hb hm
  rw [← hs] at hrun hlt hb hm
  rw [hT.emb.size, hT.emb.capacity, hT.emb.sweep, hT.size, hT.capacity] at hb
  obtain ⟨hsz, hcp, hsw⟩ := hb
  rw [hT.emb.step, hop, hout] at hm
  obtain ⟨mo, _, _, _, msw⟩ := hm
  rw [hT.emb.sweep] at msw
  simp only [Core.step, hT.like.pre, Out.bool.injEq] at mo msw
  obtain ⟨hi, -⟩ := Tlru.run_inv hT.like hT.R hT.inv0 hT.ents0 hrun
  have hstep : CStep c s e.now (.ins k v a (c.dlOf s e.now ttl) true) (c.insert1 s e.now k v a ttl).1 := by
    have := CStep.ins (c := c) s e.now k v a ttl
    rwa [mo] at this
  have hfull' : cap ≤ s.ents.length := by
    have := hi.cap_eq; omega
  -- the entries after the insert
  rw [hT.like.ins] at mo msw
  have hents := Tlru.insert1_full hi hnew hfull' mo
  have hne : s.ents ≠ [] := by
    intro h; rw [h] at hfull'; have := hi.cap_pos; simp at hfull'; omega
  obtain ⟨w, ew, hw, hpr⟩ := Tlru.prune_spec hi hne e.now
  rw [hpr] at hents
  have hev : Evicts (keys s.ents) (keys (Tlru.insert1 s e.now k v a (c.dlOf s e.now ttl)).1.ents) k w := by
    rw [hents]
    exact Tlru.evicts_of_remove (x := { key := k, val := v, dl := c.dlOf s e.now ttl }) rfl hnew hw
  have hklt : k < nkeys := by
    have hkeys : ∀ e ∈ evs, opKeysOk nkeys e.op = true := by
      simpa [logOk, List.all_eq_true] using hlog
    have := hkeys e (List.mem_of_getElem? h1)
    simpa [hop, opKeysOk] using this
  have hall : ∀ u, u ∈ sweepKeys e ↔ (u = k ∧ e.now < c.dlOf s e.now ttl) ∨ (u ≠ w ∧ LiveAt s e.now u) := by
    intro u
    unfold sweepKeys
    rw [← msw, mem_sweep_keys, hT.look, look_isSome]
    unfold LiveAt
    rw [hents]
    show u < nkeys ∧ (∃ en, getE (delE s.ents w ++ [_]) u = some en ∧ _) ↔ _
    rw [getE_replace _ rfl hnew]
    by_cases huk : u = k
    · subst huk
      have hnone : getE s.ents u = none := getE_eq_none_iff.2 hnew
      simp [hklt, hnone]
    · by_cases huw : u = w
      · subst huw; simp [huk]
      · simp only [huk, huw, if_false, false_and, false_or, ne_eq, not_false_eq_true, true_and]
        constructor
        · exact fun h => h.2
        · rintro ⟨en, h1, h2⟩
          exact ⟨hlt u (getE_isSome_iff.1 (by simp [h1])), en, h1, h2⟩
  refine ⟨hsw, hsz, hcp, w, hev.1, hev.2.1, hall, ?_, ?_⟩
  · intro hexp
    obtain ⟨w2, e2, hw2, hd2, hev2, -⟩ :=
      Tlru.C16_like hT.like hT.R hT.inv0 hT.ents0 hrun hstep hnew hfull' hexp
    rw [hT.like.ins] at hev2
    have hww := evicts_unique hev hev2
    subst hww
    refine ⟨⟨e2, hw2, hd2⟩, ?_⟩
    intro u _ hu
    refine (hall u).2 (Or.inr ⟨?_, hu⟩)
    rintro rfl
    obtain ⟨en, h1, h2⟩ := hu
    rw [hw2] at h1; cases h1
    exact absurd h2 (Nat.not_lt.2 hd2)
  · intro hlive tr' htr'
    obtain ⟨w1, hfirst, hev1⟩ :=
      Tlru.C10_like hT.like hT.R hT.inv0 hT.ents0 hrun hstep hnew hfull' hlive
    rw [hT.like.ins] at hev1
    have hww := evicts_unique hev hev1
    subst hww
    rw [useOrder_atoms tr' tr (htr'.trans hatoms.symm)]
    exact hfirst

/-- if the clock did not go back between event `i` and event `i + 1`, every resident key that is live at the later
reading was shown by the sweep recorded after event `i` -/
theorem live_in_prev_sweep {c : Core TlruState} (hlook : ∀ s now u, c.look s now u = Tlru.look s now u)
    {s : TlruState} {nkeys : Nat} {e0 : Event} {now : Time}
    (hsw : c.sweep s e0.now nkeys = e0.obs.sweep) (hlt : ∀ u ∈ keys s.ents, u < nkeys)
    (hmono : e0.now ≤ now) {u : Key} (hu : LiveAt s now u) : u ∈ sweepKeys e0 := by
  unfold sweepKeys
  rw [← hsw, mem_sweep_keys, hlook, look_isSome]
  obtain ⟨en, h1, h2⟩ := hu
  exact ⟨hlt u (getE_isSome_iff.1 (by simp [h1])), en, h1, Nat.lt_of_le_of_lt hmono h2⟩

/-- **C10 for the deadline caches in terms of the two recorded sweeps** (corollary of `ttl_insert_observed`).
Same situation; in addition the clock reading of event `i + 1` is not earlier than that of event `i`, the sweep
recorded after event `i` does not show `k`, and no resident entry of the model state `s` has a deadline `≤ e.now`
(the guard of C10 — a condition on the replayed twin, not on the recorded events: the sweeps do not carry
deadlines).  Then the statement of `lru_victim_observed` holds: the sweep after event `i + 1` shows the keys of the
sweep after event `i` minus exactly one key `w`, plus `k` (if `k`'s own deadline is later than `e.now`), and `w` is
the least recently used of the keys swept after event `i`. -/
theorem ttl_lru_victim_observed {c : Core TlruState} {cap : Nat} {s0 : TlruState} {emb : TlruState → MState}
    (hT : TtlKeyed c cap s0 emb)
    (cfg : Cfg) (nkeys : Nat) (evs : List Event) (hinit : MState.init cfg = emb s0)
    (hinst : ∀ e ∈ evs, e.inst = 0) (hlog : logOk nkeys evs = true) (hacc : l1 cfg nkeys evs = none)
    (i : Nat) (e0 e : Event) (k : Key) (v : Val) (a : Allow) (ttl : Nat)
    (h0 : evs[i]? = some e0) (h1 : evs[i + 1]? = some e)
    (hop : e.op = .insert k v a ttl) (hout : e.out = .bool true)
    (s : TlruState) (hs : s = (c.run s0 (opsOf (evs.take (i + 1)))).1)
    (hnew : k ∉ sweepKeys e0) (hfull : e0.obs.size = e0.obs.cap)
    (hmono : e0.now ≤ e.now) (hlive : ∀ en ∈ s.ents, e.now < en.dl) :
    ∃ w, (∀ tr : STrace TlruState, tr.atoms = (c.runA s0 (opsOf (evs.take (i + 1)))).2.2 →
            firstIn (useOrder tr) (sweepKeys e0) = some w) ∧
      w ∈ sweepKeys e0 ∧ w ≠ k ∧
      ∀ u, u ∈ sweepKeys e ↔ (u ∈ sweepKeys e0 ∧ u ≠ w) ∨ (u = k ∧ e.now < c.dlOf s e.now ttl) := by
  have hlt : ∀ u ∈ keys s.ents, u < nkeys := by
    rw [hs]; exact hT.resident_lt nkeys _ (ops_ok hlog (i + 1))
  have hsw : c.sweep s e0.now nkeys = e0.obs.sweep := by
    have hb := (l1_transfer_after cfg nkeys evs hinst hacc i e0 h0).2.2
    rw [hinit, hT.emb.runM, hT.emb.sweep, ← hs] at hb
    exact hb
  have hres : ∀ u, u ∈ keys s.ents ↔ LiveAt s e.now u := by
    intro u
    constructor
    · intro hu
      obtain ⟨en, hen⟩ := Option.isSome_iff_exists.1 (getE_isSome_iff.2 hu)
      exact ⟨en, hen, hlive en (getE_mem hen)⟩
    · rintro ⟨en, hen, _⟩
      exact getE_isSome_iff.1 (by simp [hen])
  have hK0 : ∀ u, u ∈ sweepKeys e0 ↔ u ∈ keys s.ents := by
    intro u
    constructor
    · intro hu
      unfold sweepKeys at hu
      rw [← hsw, mem_sweep_keys, hT.look, look_isSome] at hu
      obtain ⟨_, en, hen, _⟩ := hu
      exact getE_isSome_iff.1 (by simp [hen])
    · intro hu
      exact live_in_prev_sweep hT.look hsw hlt hmono ((hres u).1 hu)
  have hnew' : k ∉ keys s.ents := fun h => hnew ((hK0 k).2 h)
  obtain ⟨_, _, _, w, hw, hwk, hall, _, h10⟩ :=
    ttl_insert_observed hT cfg nkeys evs hinit hinst hlog hacc i e0 e k v a ttl h0 h1 hop hout s hs hnew' hfull
  refine ⟨w, ?_, (hK0 w).2 hw, hwk, ?_⟩
  · intro tr htr
    rw [firstIn_congr _ hK0]
    exact h10 hlive tr htr
  · intro u
    rw [hall u, hK0 u, hres u]
    constructor
    · rintro (h | ⟨h1, h2⟩)
      · exact Or.inr h
      · exact Or.inl ⟨h2, h1⟩
    · rintro (⟨h1, h2⟩ | h)
      · exact Or.inr ⟨h2, h1⟩
      · exact Or.inl h

/-! ### tlru_cache -/

theorem lt_add_iff (t x : Nat) : t < t + x ↔ 0 < x := by omega

theorem lt_add_ms_iff (t ttl : Nat) : t < t + ttl * msNs ↔ 0 < ttl := by
  unfold msNs; omega

/-- the model state of the `tlru_cache` after the first `n` events of the log (what the replayed twin holds) -/
def tlruAfter (cfg : Cfg) (evs : List Event) (n : Nat) : TlruState :=
  (Tlru.core.run (Tlru.init cfg.cap) (opsOf (evs.take n))).1

/-- **E1 — C16 and C10 at event level (tlru_cache).**  Single-instance log of a `tlru_cache` of capacity ≥ 1,
accepted by the observable tier, every inserted key in the swept universe.  `s = tlruAfter cfg evs (i + 1)` is
the model state after events `0 .. i`; the first three conjuncts say what ties it to the log: its sweep at event
`i`'s clock reading, its `size()` and its `capacity()` are the recorded ones.  Event `i + 1` is a single
`insert(k, v, ttl, a)` that returned `true`; `k` is not resident in `s` (a condition on the model state: an expired,
not yet reaped entry is resident but shown by no sweep, and the sweeps carry no deadlines, so residency cannot be
read off the recorded events alone); the `size()` recorded after event `i` equals the recorded `capacity()`.

Then exactly one resident key `w ≠ k` is removed besides what expiry explains: the sweep recorded after event
`i + 1` (taken at the insert's clock reading `e.now`) shows `k` (iff `ttl > 0`) and exactly the keys other than `w`
that are resident in `s` and live at `e.now`.

* **C16**: if `s` holds an entry with deadline `≤ e.now`, the removed entry is such an expired one, and every key
  the sweep after event `i` shows that is live at `e.now` is still shown after event `i + 1`.
* **C10**: otherwise `w = firstIn (useOrder tr) (keys s.ents)`, the least recently used resident, for every
  annotated trace whose atoms are the atoms of the recorded history of events `0 .. i`. -/
theorem tlru_insert_observed (cfg : Cfg) (hk : cfg.kind = .tlru) (hcap : 0 < cfg.cap) (nkeys : Nat)
    (evs : List Event) (hinst : ∀ e ∈ evs, e.inst = 0) (hlog : logOk nkeys evs = true)
    (hacc : l1 cfg nkeys evs = none)
    (i : Nat) (e0 e : Event) (k : Key) (v : Val) (a : Allow) (ttl : Nat)
    (h0 : evs[i]? = some e0) (h1 : evs[i + 1]? = some e)
    (hop : e.op = .insert k v a ttl) (hout : e.out = .bool true)
    (hnew : k ∉ keys (tlruAfter cfg evs (i + 1)).ents) (hfull : e0.obs.size = e0.obs.cap) :
    Tlru.core.sweep (tlruAfter cfg evs (i + 1)) e0.now nkeys = e0.obs.sweep ∧
    (tlruAfter cfg evs (i + 1)).ents.length = e0.obs.size ∧ (tlruAfter cfg evs (i + 1)).cap = e0.obs.cap ∧
    ∃ w, w ∈ keys (tlruAfter cfg evs (i + 1)).ents ∧ w ≠ k ∧
      (∀ u, u ∈ sweepKeys e ↔ (u = k ∧ 0 < ttl) ∨ (u ≠ w ∧ LiveAt (tlruAfter cfg evs (i + 1)) e.now u)) ∧
      ((∃ en ∈ (tlruAfter cfg evs (i + 1)).ents, en.dl ≤ e.now) →
        (∃ en, getE (tlruAfter cfg evs (i + 1)).ents w = some en ∧ en.dl ≤ e.now) ∧
        ∀ u ∈ sweepKeys e0, LiveAt (tlruAfter cfg evs (i + 1)) e.now u → u ∈ sweepKeys e) ∧
      ((∀ en ∈ (tlruAfter cfg evs (i + 1)).ents, e.now < en.dl) →
        ∀ tr : STrace TlruState, tr.atoms = (tlruV cfg.cap hcap).history (opsOf (evs.take (i + 1))) →
          firstIn (useOrder tr) (keys (tlruAfter cfg evs (i + 1)).ents) = some w) := by
  have hinit : MState.init cfg = MState.tlru (Tlru.init cfg.cap) := by simp only [MState.init, hk]
  have key := ttl_insert_observed (ttl_tlru cfg.cap hcap) cfg nkeys evs hinit hinst hlog hacc i e0 e k v a ttl
    h0 h1 hop hout (tlruAfter cfg evs (i + 1)) rfl hnew hfull
  have hdl : ∀ s : TlruState, (e.now < Tlru.core.dlOf s e.now ttl) ↔ 0 < ttl :=
    fun _ => lt_add_ms_iff e.now ttl
  simp only [hdl] at key
  exact key

/-- **E1′ — C10 in terms of the two recorded sweeps (tlru_cache).**  As `lru_victim_observed`, for an evicting
`insert(k, v, ttl, a)` at which the clock has not gone back since event `i` and no resident entry of the replayed
twin has expired at the insert's clock reading. -/
theorem tlru_lru_victim_observed (cfg : Cfg) (hk : cfg.kind = .tlru) (hcap : 0 < cfg.cap) (nkeys : Nat)
    (evs : List Event) (hinst : ∀ e ∈ evs, e.inst = 0) (hlog : logOk nkeys evs = true)
    (hacc : l1 cfg nkeys evs = none)
    (i : Nat) (e0 e : Event) (k : Key) (v : Val) (a : Allow) (ttl : Nat)
    (h0 : evs[i]? = some e0) (h1 : evs[i + 1]? = some e)
    (hop : e.op = .insert k v a ttl) (hout : e.out = .bool true)
    (hnew : k ∉ sweepKeys e0) (hfull : e0.obs.size = e0.obs.cap)
    (hmono : e0.now ≤ e.now) (hlive : ∀ en ∈ (tlruAfter cfg evs (i + 1)).ents, e.now < en.dl) :
    ∃ w, (∀ tr : STrace TlruState, tr.atoms = (tlruV cfg.cap hcap).history (opsOf (evs.take (i + 1))) →
            firstIn (useOrder tr) (sweepKeys e0) = some w) ∧
      w ∈ sweepKeys e0 ∧ w ≠ k ∧
      ∀ u, u ∈ sweepKeys e ↔ (u ∈ sweepKeys e0 ∧ u ≠ w) ∨ (u = k ∧ 0 < ttl) := by
  have hinit : MState.init cfg = MState.tlru (Tlru.init cfg.cap) := by simp only [MState.init, hk]
  have key := ttl_lru_victim_observed (ttl_tlru cfg.cap hcap) cfg nkeys evs hinit hinst hlog hacc i e0 e k v a ttl
    h0 h1 hop hout (tlruAfter cfg evs (i + 1)) rfl hnew hfull hmono hlive
  have hdl : ∀ s : TlruState, (e.now < Tlru.core.dlOf s e.now ttl) ↔ 0 < ttl :=
    fun _ => lt_add_ms_iff e.now ttl
  simp only [hdl] at key
  exact key

/-! ### utlru_cache -/

/-- the model state of the `utlru_cache` after the first `n` events of the log -/
def utlruAfter (cfg : Cfg) (evs : List Event) (n : Nat) : TlruState :=
  (Utlru.core.run (Utlru.init cfg.cap cfg.ttl) (opsOf (evs.take n))).1

/-- **E2 — C16 and C10 at event level (utlru_cache).**  As `tlru_insert_observed`; the inserted key's deadline is
the insert's clock reading plus the TTL currently configured (`s.ttl`: the constructor's, or the latest
`update_ttl`'s), so the sweep after event `i + 1` shows `k` iff that TTL is positive. -/
theorem utlru_insert_observed (cfg : Cfg) (hk : cfg.kind = .utlru) (hcap : 0 < cfg.cap) (nkeys : Nat)
    (evs : List Event) (hinst : ∀ e ∈ evs, e.inst = 0) (hlog : logOk nkeys evs = true)
    (hacc : l1 cfg nkeys evs = none)
    (i : Nat) (e0 e : Event) (k : Key) (v : Val) (a : Allow) (ttl : Nat)
    (h0 : evs[i]? = some e0) (h1 : evs[i + 1]? = some e)
    (hop : e.op = .insert k v a ttl) (hout : e.out = .bool true)
    (hnew : k ∉ keys (utlruAfter cfg evs (i + 1)).ents) (hfull : e0.obs.size = e0.obs.cap) :
    Utlru.core.sweep (utlruAfter cfg evs (i + 1)) e0.now nkeys = e0.obs.sweep ∧
    (utlruAfter cfg evs (i + 1)).ents.length = e0.obs.size ∧ (utlruAfter cfg evs (i + 1)).cap = e0.obs.cap ∧
    ∃ w, w ∈ keys (utlruAfter cfg evs (i + 1)).ents ∧ w ≠ k ∧
      (∀ u, u ∈ sweepKeys e ↔
        (u = k ∧ 0 < (utlruAfter cfg evs (i + 1)).ttl) ∨ (u ≠ w ∧ LiveAt (utlruAfter cfg evs (i + 1)) e.now u)) ∧
      ((∃ en ∈ (utlruAfter cfg evs (i + 1)).ents, en.dl ≤ e.now) →
        (∃ en, getE (utlruAfter cfg evs (i + 1)).ents w = some en ∧ en.dl ≤ e.now) ∧
        ∀ u ∈ sweepKeys e0, LiveAt (utlruAfter cfg evs (i + 1)) e.now u → u ∈ sweepKeys e) ∧
      ((∀ en ∈ (utlruAfter cfg evs (i + 1)).ents, e.now < en.dl) →
        ∀ tr : STrace TlruState, tr.atoms = (utlruV cfg.cap hcap cfg.ttl).history (opsOf (evs.take (i + 1))) →
          firstIn (useOrder tr) (keys (utlruAfter cfg evs (i + 1)).ents) = some w) := by
  have hinit : MState.init cfg = MState.utlru (Utlru.init cfg.cap cfg.ttl) := by simp only [MState.init, hk]
  have key := ttl_insert_observed (ttl_utlru cfg.cap hcap cfg.ttl) cfg nkeys evs hinit hinst hlog hacc i e0 e k v a
    ttl h0 h1 hop hout (utlruAfter cfg evs (i + 1)) rfl hnew hfull
  have hdl : ∀ s : TlruState, (e.now < Utlru.core.dlOf s e.now ttl) ↔ 0 < s.ttl :=
    fun s => lt_add_iff e.now s.ttl
  simp only [hdl] at key
  exact key

/-- **E2′ — C10 in terms of the two recorded sweeps (utlru_cache).** -/
theorem utlru_lru_victim_observed (cfg : Cfg) (hk : cfg.kind = .utlru) (hcap : 0 < cfg.cap) (nkeys : Nat)
    (evs : List Event) (hinst : ∀ e ∈ evs, e.inst = 0) (hlog : logOk nkeys evs = true)
    (hacc : l1 cfg nkeys evs = none)
    (i : Nat) (e0 e : Event) (k : Key) (v : Val) (a : Allow) (ttl : Nat)
    (h0 : evs[i]? = some e0) (h1 : evs[i + 1]? = some e)
    (hop : e.op = .insert k v a ttl) (hout : e.out = .bool true)
    (hnew : k ∉ sweepKeys e0) (hfull : e0.obs.size = e0.obs.cap)
    (hmono : e0.now ≤ e.now) (hlive : ∀ en ∈ (utlruAfter cfg evs (i + 1)).ents, e.now < en.dl) :
    ∃ w, (∀ tr : STrace TlruState,
            tr.atoms = (utlruV cfg.cap hcap cfg.ttl).history (opsOf (evs.take (i + 1))) →
            firstIn (useOrder tr) (sweepKeys e0) = some w) ∧
      w ∈ sweepKeys e0 ∧ w ≠ k ∧
      ∀ u, u ∈ sweepKeys e ↔ (u ∈ sweepKeys e0 ∧ u ≠ w) ∨ (u = k ∧ 0 < (utlruAfter cfg evs (i + 1)).ttl) := by
  have hinit : MState.init cfg = MState.utlru (Utlru.init cfg.cap cfg.ttl) := by simp only [MState.init, hk]
  have key := ttl_lru_victim_observed (ttl_utlru cfg.cap hcap cfg.ttl) cfg nkeys evs hinit hinst hlog hacc i e0 e k
    v a ttl h0 h1 hop hout (utlruAfter cfg evs (i + 1)) rfl hnew hfull hmono hlive
  have hdl : ∀ s : TlruState, (e.now < Utlru.core.dlOf s e.now ttl) ↔ 0 < s.ttl :=
    fun s => lt_add_iff e.now s.ttl
  simp only [hdl] at key
  exact key

/-! ### the guard of C10/C16 read off the recorded `size()` and sweep, when the clock stands still -/

/-- the keys a sweep shows, as a filter of the universe -/
theorem sweep_keys_eq_filter {σ : Type} (c : Core σ) (s : σ) (now : Time) (n : Nat) :
    (c.sweep s now n).map (·.1) = (List.range n).filter (fun k => (c.look s now k).isSome) := by
  unfold Core.sweep
  generalize List.range n = l
  induction l with
  | nil => rfl
  | cons k l ih =>
    cases hl : c.look s now k with
    | none => simp [hl, ih]
    | some r => simp [hl, ih]

/-- a duplicate-free list contained in a list that is not longer contains it -/
theorem subset_of_nodup_length : ∀ {l1 l2 : List Key}, l1.Nodup → (∀ x ∈ l1, x ∈ l2) →
    l2.length ≤ l1.length → ∀ x ∈ l2, x ∈ l1
  | [], l2, _, _, hlen, x, hx => by
    have : l2 = [] := List.eq_nil_of_length_eq_zero (Nat.le_zero.1 hlen)
    rw [this] at hx; cases hx
  | a :: t, l2, hnd, hsub, hlen, x, hx => by
    rw [List.nodup_cons] at hnd
    have ha : a ∈ l2 := hsub a (List.mem_cons_self ..)
    have hlen' : (l2.erase a).length ≤ t.length := by
      rw [List.length_erase_of_mem ha]
      simp only [List.length_cons] at hlen
      omega
    have hsub' : ∀ y ∈ t, y ∈ l2.erase a := by
      intro y hy
      have hne : y ≠ a := fun h => hnd.1 (h ▸ hy)
      exact (List.mem_erase_of_ne hne).2 (hsub y (List.mem_cons_of_mem _ hy))
    by_cases hxa : x = a
    · subst hxa; exact List.mem_cons_self ..
    · exact List.mem_cons_of_mem _
        (subset_of_nodup_length hnd.2 hsub' hlen' x ((List.mem_erase_of_ne hxa).2 hx))

/-- the model state after events `0 .. i` of an accepted single-instance log, and what ties it to event `i` -/
theorem TtlKeyed.tied {c : Core TlruState} {cap : Nat} {s0 : TlruState} {emb : TlruState → MState}
    (hT : TtlKeyed c cap s0 emb)
    (cfg : Cfg) (nkeys : Nat) (evs : List Event) (hinit : MState.init cfg = emb s0)
    (hinst : ∀ e ∈ evs, e.inst = 0) (hlog : logOk nkeys evs = true) (hacc : l1 cfg nkeys evs = none)
    (i : Nat) (e0 : Event) (h0 : evs[i]? = some e0)
    (s : TlruState) (hs : s = (c.run s0 (opsOf (evs.take (i + 1)))).1) :
    Tlru.Inv cap s ∧ c.sweep s e0.now nkeys = e0.obs.sweep ∧ s.ents.length = e0.obs.size ∧
    s.cap = e0.obs.cap ∧ ∀ u ∈ keys s.ents, u < nkeys := by
  have hlt := hT.resident_lt nkeys _ (ops_ok hlog (i + 1))
  obtain ⟨tr, hrun, _⟩ := run_of_history c s0 (opsOf (evs.take (i + 1)))
  have hb := l1_transfer_after cfg nkeys evs hinst hacc i e0 h0
  rw [hinit, hT.emb.runM] at hb
  rw [← hs] at hrun hlt hb
  rw [hT.emb.size, hT.emb.capacity, hT.emb.sweep, hT.size, hT.capacity] at hb
  exact ⟨(Tlru.run_inv hT.like hT.R hT.inv0 hT.ents0 hrun).1, hb.2.2, hb.1, hb.2.1, hlt⟩

/-- **The guard of C10/C16 on the recorded events.**  For the model state `s` tied to event `i`: no resident entry
has expired at event `i`'s clock reading iff the sweep recorded after event `i` has as many entries as the recorded
`size()` (an expired, not yet reaped entry counts in `size()` and is shown by no sweep). -/
theorem ttl_all_live_iff {c : Core TlruState} (hlook : ∀ s now u, c.look s now u = Tlru.look s now u)
    {cap : Nat} {s : TlruState} (hi : Tlru.Inv cap s) {nkeys : Nat} {e0 : Event}
    (hsw : c.sweep s e0.now nkeys = e0.obs.sweep) (hsz : s.ents.length = e0.obs.size)
    (hlt : ∀ u ∈ keys s.ents, u < nkeys) :
    (∀ en ∈ s.ents, e0.now < en.dl) ↔ e0.obs.sweep.length = e0.obs.size := by
  have hnd0 : (sweepKeys e0).Nodup := by
    unfold sweepKeys
    rw [← hsw, sweep_keys_eq_filter]
    exact List.nodup_range.filter _
  have hlen0 : (sweepKeys e0).length = e0.obs.sweep.length := by simp [sweepKeys]
  have hklen : (keys s.ents).length = e0.obs.size := by rw [← hsz]; simp [keys]
  have hmem : ∀ u, u ∈ sweepKeys e0 ↔ u < nkeys ∧ LiveAt s e0.now u := by
    intro u
    unfold sweepKeys
    rw [← hsw, mem_sweep_keys, hlook, look_isSome]
  have hsub : ∀ u ∈ sweepKeys e0, u ∈ keys s.ents := by
    intro u hu
    obtain ⟨_, en, hen, _⟩ := (hmem u).1 hu
    exact getE_isSome_iff.1 (by simp [hen])
  constructor
  · intro hlive
    have hiff : ∀ u, u ∈ sweepKeys e0 ↔ u ∈ keys s.ents := by
      intro u
      refine ⟨hsub u, fun hu => (hmem u).2 ⟨hlt u hu, ?_⟩⟩
      obtain ⟨en, hen⟩ := Option.isSome_iff_exists.1 (getE_isSome_iff.2 hu)
      exact ⟨en, hen, hlive en (getE_mem hen)⟩
    have := ((List.perm_ext_iff_of_nodup hnd0 hi.nodup).2 hiff).length_eq
    rw [← hlen0, this, hklen]
  · intro hlen en hen
    have hk : en.key ∈ keys s.ents := List.mem_map_of_mem (f := (·.key)) hen
    have hin : en.key ∈ sweepKeys e0 :=
      subset_of_nodup_length hnd0 hsub (by rw [hlen0, hlen, hklen]; exact Nat.le_refl _) _ hk
    obtain ⟨_, en', hen', hd⟩ := (hmem _).1 hin
    rw [Tlru.getE_of_mem_nodup hi.nodup hen] at hen'
    cases hen'
    exact hd

/-- **C10 for the deadline caches on the recorded events alone, clock standing still.**  Single-instance accepted
log, every inserted key in the swept universe.  Event `i + 1` is a single insert of `k` that returned `true`, taken
at the same clock reading as event `i`; the sweep recorded after event `i` does not show `k`, has as many entries
as the recorded `size()` (nothing resident has expired), and that `size()` equals the recorded `capacity()`.
Conclusion as in `lru_victim_observed`. -/
theorem ttl_lru_victim_observed_sameclock {c : Core TlruState} {cap : Nat} {s0 : TlruState}
    {emb : TlruState → MState} (hT : TtlKeyed c cap s0 emb)
    (cfg : Cfg) (nkeys : Nat) (evs : List Event) (hinit : MState.init cfg = emb s0)
    (hinst : ∀ e ∈ evs, e.inst = 0) (hlog : logOk nkeys evs = true) (hacc : l1 cfg nkeys evs = none)
    (i : Nat) (e0 e : Event) (k : Key) (v : Val) (a : Allow) (ttl : Nat)
    (h0 : evs[i]? = some e0) (h1 : evs[i + 1]? = some e)
    (hop : e.op = .insert k v a ttl) (hout : e.out = .bool true)
    (s : TlruState) (hs : s = (c.run s0 (opsOf (evs.take (i + 1)))).1)
    (hnew : k ∉ sweepKeys e0) (hfull : e0.obs.size = e0.obs.cap)
    (hsame : e.now = e0.now) (hlen : e0.obs.sweep.length = e0.obs.size) :
    ∃ w, (∀ tr : STrace TlruState, tr.atoms = (c.runA s0 (opsOf (evs.take (i + 1)))).2.2 →
            firstIn (useOrder tr) (sweepKeys e0) = some w) ∧
      w ∈ sweepKeys e0 ∧ w ≠ k ∧
      ∀ u, u ∈ sweepKeys e ↔ (u ∈ sweepKeys e0 ∧ u ≠ w) ∨ (u = k ∧ e.now < c.dlOf s e.now ttl) := by
  obtain ⟨hi, hsw, hsz, _, hlt⟩ := hT.tied cfg nkeys evs hinit hinst hlog hacc i e0 h0 s hs
  have hlive := (ttl_all_live_iff hT.look hi hsw hsz hlt).2 hlen
  rw [← hsame] at hlive
  exact ttl_lru_victim_observed hT cfg nkeys evs hinit hinst hlog hacc i e0 e k v a ttl h0 h1 hop hout s hs
    hnew hfull (Nat.le_of_eq hsame.symm) hlive

/-- **C16 for the deadline caches on the recorded events alone, clock standing still.**  Single-instance accepted
log, every inserted key in the swept universe.  Event `i + 1` is a single insert of `k` that returned `true`, taken
at the same clock reading as event `i`; the sweep recorded after event `i` does not show `k` and has *fewer*
entries than the recorded `size()` (some resident entry has expired and not been reaped), and that `size()` equals
the recorded `capacity()`.  Then the insert costs no live entry: the sweep after event `i + 1` shows every key the
sweep after event `i` showed, plus `k` (if its deadline is later than the clock reading), and nothing else.
(Whether `k` itself was the expired resident — then the call re-created it in place — or an expired entry was
evicted for it cannot be told from the recorded events; the conclusion holds in both cases.) -/
theorem ttl_expired_first_observed_sameclock {c : Core TlruState} {cap : Nat} {s0 : TlruState}
    {emb : TlruState → MState} (hT : TtlKeyed c cap s0 emb)
    (cfg : Cfg) (nkeys : Nat) (evs : List Event) (hinit : MState.init cfg = emb s0)
    (hinst : ∀ e ∈ evs, e.inst = 0) (hlog : logOk nkeys evs = true) (hacc : l1 cfg nkeys evs = none)
    (i : Nat) (e0 e : Event) (k : Key) (v : Val) (a : Allow) (ttl : Nat)
    (h0 : evs[i]? = some e0) (h1 : evs[i + 1]? = some e)
    (hop : e.op = .insert k v a ttl) (hout : e.out = .bool true)
    (s : TlruState) (hs : s = (c.run s0 (opsOf (evs.take (i + 1)))).1)
    (hnew : k ∉ sweepKeys e0) (hfull : e0.obs.size = e0.obs.cap)
    (hsame : e.now = e0.now) (hlen : e0.obs.sweep.length < e0.obs.size) :
    ∀ u, u ∈ sweepKeys e ↔ u ∈ sweepKeys e0 ∨ (u = k ∧ e.now < c.dlOf s e.now ttl) := by
  obtain ⟨hi, hsw, hsz, _, hlt⟩ := hT.tied cfg nkeys evs hinit hinst hlog hacc i e0 h0 s hs
  have hmem0 : ∀ u, u ∈ sweepKeys e0 ↔ LiveAt s e.now u := by
    intro u
    unfold sweepKeys
    rw [← hsw, mem_sweep_keys, hT.look, look_isSome, hsame]
    refine ⟨fun h => h.2, fun h => ⟨?_, h⟩⟩
    obtain ⟨en, hen, _⟩ := h
    exact hlt u (getE_isSome_iff.1 (by simp [hen]))
  have hexp : ∃ en ∈ s.ents, en.dl ≤ e.now := by
    rw [hsame]
    apply Classical.byContradiction
    intro hno
    have hlive : ∀ en ∈ s.ents, e0.now < en.dl := by
      intro en hen
      exact Nat.lt_of_not_le (fun hle => hno ⟨en, hen, hle⟩)
    have := (ttl_all_live_iff hT.look hi hsw hsz hlt).1 hlive
    omega
  by_cases hres : k ∈ keys s.ents
  · -- `k` is resident and expired: the call overwrites it in place
    obtain ⟨en, hen⟩ := Option.isSome_iff_exists.1 (getE_isSome_iff.2 hres)
    have hkexp : en.dl ≤ e.now := by
      apply Nat.le_of_not_lt
      intro hlt'
      exact hnew ((hmem0 k).2 ⟨en, hen, hlt'⟩)
    have hm := l1_transfer cfg nkeys evs hinst hacc (i + 1) e h1
    unfold Matches at hm
    rw [hinit, hT.emb.runM, ← hs, hT.emb.step, hop, hout] at hm
    obtain ⟨mo, _, _, _, msw⟩ := hm
    rw [hT.emb.sweep] at msw
    simp only [Core.step, hT.like.pre, Out.bool.injEq] at mo msw
    rw [hT.like.ins] at mo msw
    have hupd : Tlru.insert1 s e.now k v a (c.dlOf s e.now ttl) =
        (Tlru.update s en v (c.dlOf s e.now ttl), true) := by
      simp only [Tlru.insert1, hen] at mo ⊢
      by_cases hu : a.upd = true
      · simp [hu]
      · simp only [hu, Bool.false_eq_true, if_false] at mo ⊢
        by_cases hin : a.ins = true
        · simp [hin, hkexp]
        · simp [hin] at mo
    rw [hupd] at msw
    have hklt : k < nkeys := hlt k hres
    have hek : en.key = k := getE_key hen
    intro u
    rw [hmem0 u]
    unfold sweepKeys
    rw [← msw, mem_sweep_keys, hT.look, look_isSome]
    unfold LiveAt
    show u < nkeys ∧ (∃ en', getE (delE s.ents en.key ++ [{ en with val := v, dl := c.dlOf s e.now ttl }]) u
      = some en' ∧ _) ↔ _
    rw [getE_append_single, hek]
    by_cases huk : u = k
    · subst huk
      rw [getE_delE_self, if_pos rfl, Option.none_or]
      constructor
      · rintro ⟨_, en', h1, h2⟩
        cases h1
        exact Or.inr ⟨rfl, h2⟩
      · rintro (⟨en', h1, h2⟩ | ⟨_, h2⟩)
        · rw [hen] at h1; cases h1
          exact absurd h2 (Nat.not_lt.2 hkexp)
        · exact ⟨hklt, _, rfl, h2⟩
    · have hku : ¬ k = u := fun h => huk h.symm
      rw [getE_delE_ne _ huk, if_neg hku]
      simp only [Option.or_none, huk, false_and, or_false]
      constructor
      · exact fun h => h.2
      · rintro ⟨en', h1, h2⟩
        exact ⟨hlt u (getE_isSome_iff.1 (by simp [h1])), en', h1, h2⟩
  · -- `k` is not resident: an expired entry is evicted
    obtain ⟨_, _, _, w, _, _, hall, h16, _⟩ :=
      ttl_insert_observed hT cfg nkeys evs hinit hinst hlog hacc i e0 e k v a ttl h0 h1 hop hout s hs hres hfull
    obtain ⟨⟨ew, hew, hdw⟩, _⟩ := h16 hexp
    intro u
    rw [hall u, hmem0 u]
    constructor
    · rintro (h | ⟨_, h⟩)
      · exact Or.inr h
      · exact Or.inl h
    · rintro (h | h)
      · refine Or.inr ⟨?_, h⟩
        rintro rfl
        obtain ⟨en, h1, h2⟩ := h
        rw [hew] at h1; cases h1
        exact absurd h2 (Nat.not_lt.2 hdw)
      · exact Or.inl h

/-- **E1″ — C10 on the recorded events alone, clock standing still (tlru_cache).**  Event `i + 1` is a single
`insert(k, v, ttl, a)` that returned `true`, at the clock reading of event `i`; the sweep recorded after event `i`
does not show `k` and has exactly `size()` entries, and `size() = capacity()`.  Then the sweep after event `i + 1`
shows the keys of the sweep after event `i` minus exactly one key `w`, plus `k` (iff `ttl > 0`), and `w` is the least
recently used of the keys swept after event `i` according to the recorded history of events `0 .. i`. -/
theorem tlru_lru_victim_observed_sameclock (cfg : Cfg) (hk : cfg.kind = .tlru) (hcap : 0 < cfg.cap) (nkeys : Nat)
    (evs : List Event) (hinst : ∀ e ∈ evs, e.inst = 0) (hlog : logOk nkeys evs = true)
    (hacc : l1 cfg nkeys evs = none)
    (i : Nat) (e0 e : Event) (k : Key) (v : Val) (a : Allow) (ttl : Nat)
    (h0 : evs[i]? = some e0) (h1 : evs[i + 1]? = some e)
    (hop : e.op = .insert k v a ttl) (hout : e.out = .bool true)
    (hnew : k ∉ sweepKeys e0) (hfull : e0.obs.size = e0.obs.cap)
    (hsame : e.now = e0.now) (hlen : e0.obs.sweep.length = e0.obs.size) :
    ∃ w, (∀ tr : STrace TlruState, tr.atoms = (tlruV cfg.cap hcap).history (opsOf (evs.take (i + 1))) →
            firstIn (useOrder tr) (sweepKeys e0) = some w) ∧
      w ∈ sweepKeys e0 ∧ w ≠ k ∧
      ∀ u, u ∈ sweepKeys e ↔ (u ∈ sweepKeys e0 ∧ u ≠ w) ∨ (u = k ∧ 0 < ttl) := by
  have hinit : MState.init cfg = MState.tlru (Tlru.init cfg.cap) := by simp only [MState.init, hk]
  have key := ttl_lru_victim_observed_sameclock (ttl_tlru cfg.cap hcap) cfg nkeys evs hinit hinst hlog hacc i e0 e k
    v a ttl h0 h1 hop hout (tlruAfter cfg evs (i + 1)) rfl hnew hfull hsame hlen
  have hdl : ∀ s : TlruState, (e.now < Tlru.core.dlOf s e.now ttl) ↔ 0 < ttl :=
    fun _ => lt_add_ms_iff e.now ttl
  simp only [hdl] at key
  exact key

/-- **E1‴ — C16 on the recorded events alone, clock standing still (tlru_cache).**  Event `i + 1` is a single
`insert(k, v, ttl, a)` that returned `true`, at the clock reading of event `i`; the sweep recorded after event `i`
does not show `k` and has fewer than `size()` entries (an expired entry is still resident), and
`size() = capacity()`.  Then no live entry is lost: the sweep after event `i + 1` shows exactly the keys of the
sweep after event `i`, plus `k` (iff `ttl > 0`). -/
theorem tlru_expired_first_observed_sameclock (cfg : Cfg) (hk : cfg.kind = .tlru) (hcap : 0 < cfg.cap)
    (nkeys : Nat) (evs : List Event) (hinst : ∀ e ∈ evs, e.inst = 0) (hlog : logOk nkeys evs = true)
    (hacc : l1 cfg nkeys evs = none)
    (i : Nat) (e0 e : Event) (k : Key) (v : Val) (a : Allow) (ttl : Nat)
    (h0 : evs[i]? = some e0) (h1 : evs[i + 1]? = some e)
    (hop : e.op = .insert k v a ttl) (hout : e.out = .bool true)
    (hnew : k ∉ sweepKeys e0) (hfull : e0.obs.size = e0.obs.cap)
    (hsame : e.now = e0.now) (hlen : e0.obs.sweep.length < e0.obs.size) :
    ∀ u, u ∈ sweepKeys e ↔ u ∈ sweepKeys e0 ∨ (u = k ∧ 0 < ttl) := by
  have hinit : MState.init cfg = MState.tlru (Tlru.init cfg.cap) := by simp only [MState.init, hk]
  have key := ttl_expired_first_observed_sameclock (ttl_tlru cfg.cap hcap) cfg nkeys evs hinit hinst hlog hacc i e0 e
    k v a ttl h0 h1 hop hout (tlruAfter cfg evs (i + 1)) rfl hnew hfull hsame hlen
  have hdl : ∀ s : TlruState, (e.now < Tlru.core.dlOf s e.now ttl) ↔ 0 < ttl :=
    fun _ => lt_add_ms_iff e.now ttl
  simp only [hdl] at key
  exact key

/-- **E2″ — C10 on the recorded events alone, clock standing still (utlru_cache).** -/
theorem utlru_lru_victim_observed_sameclock (cfg : Cfg) (hk : cfg.kind = .utlru) (hcap : 0 < cfg.cap) (nkeys : Nat)
    (evs : List Event) (hinst : ∀ e ∈ evs, e.inst = 0) (hlog : logOk nkeys evs = true)
    (hacc : l1 cfg nkeys evs = none)
    (i : Nat) (e0 e : Event) (k : Key) (v : Val) (a : Allow) (ttl : Nat)
    (h0 : evs[i]? = some e0) (h1 : evs[i + 1]? = some e)
    (hop : e.op = .insert k v a ttl) (hout : e.out = .bool true)
    (hnew : k ∉ sweepKeys e0) (hfull : e0.obs.size = e0.obs.cap)
    (hsame : e.now = e0.now) (hlen : e0.obs.sweep.length = e0.obs.size) :
    ∃ w, (∀ tr : STrace TlruState,
            tr.atoms = (utlruV cfg.cap hcap cfg.ttl).history (opsOf (evs.take (i + 1))) →
            firstIn (useOrder tr) (sweepKeys e0) = some w) ∧
      w ∈ sweepKeys e0 ∧ w ≠ k ∧
      ∀ u, u ∈ sweepKeys e ↔ (u ∈ sweepKeys e0 ∧ u ≠ w) ∨ (u = k ∧ 0 < (utlruAfter cfg evs (i + 1)).ttl) := by
  have hinit : MState.init cfg = MState.utlru (Utlru.init cfg.cap cfg.ttl) := by simp only [MState.init, hk]
  have key := ttl_lru_victim_observed_sameclock (ttl_utlru cfg.cap hcap cfg.ttl) cfg nkeys evs hinit hinst hlog hacc
    i e0 e k v a ttl h0 h1 hop hout (utlruAfter cfg evs (i + 1)) rfl hnew hfull hsame hlen
  have hdl : ∀ s : TlruState, (e.now < Utlru.core.dlOf s e.now ttl) ↔ 0 < s.ttl :=
    fun s => lt_add_iff e.now s.ttl
  simp only [hdl] at key
  exact key

/-- **E2‴ — C16 on the recorded events alone, clock standing still (utlru_cache).** -/
theorem utlru_expired_first_observed_sameclock (cfg : Cfg) (hk : cfg.kind = .utlru) (hcap : 0 < cfg.cap)
    (nkeys : Nat) (evs : List Event) (hinst : ∀ e ∈ evs, e.inst = 0) (hlog : logOk nkeys evs = true)
    (hacc : l1 cfg nkeys evs = none)
    (i : Nat) (e0 e : Event) (k : Key) (v : Val) (a : Allow) (ttl : Nat)
    (h0 : evs[i]? = some e0) (h1 : evs[i + 1]? = some e)
    (hop : e.op = .insert k v a ttl) (hout : e.out = .bool true)
    (hnew : k ∉ sweepKeys e0) (hfull : e0.obs.size = e0.obs.cap)
    (hsame : e.now = e0.now) (hlen : e0.obs.sweep.length < e0.obs.size) :
    ∀ u, u ∈ sweepKeys e ↔ u ∈ sweepKeys e0 ∨ (u = k ∧ 0 < (utlruAfter cfg evs (i + 1)).ttl) := by
  have hinit : MState.init cfg = MState.utlru (Utlru.init cfg.cap cfg.ttl) := by simp only [MState.init, hk]
  have key := ttl_expired_first_observed_sameclock (ttl_utlru cfg.cap hcap cfg.ttl) cfg nkeys evs hinit hinst hlog
    hacc i e0 e k v a ttl h0 h1 hop hout (utlruAfter cfg evs (i + 1)) rfl hnew hfull hsame hlen
  have hdl : ∀ s : TlruState, (e.now < Utlru.core.dlOf s e.now ttl) ↔ 0 < s.ttl :=
    fun s => lt_add_iff e.now s.ttl
  simp only [hdl] at key
  exact key

/-! ## Part F — rr_cache: C15 at event level -/

/-- `evicting_insert_observed` with a policy statement `Q` that may also mention the model state the insert
starts from (rr_cache: which slot the random source names is a fact about that state, not about the keys) and the
insert's clock reading (lfuda_cache: the residents are aged at that reading before the victim is chosen), and may
assume a fact `G` about the trace that follows from its atoms being the recorded history's (lfuda_cache: clock
readings never decrease) -/
theorem evicting_insert_observed_st {σ : Type} (V : Verified σ) (emb : σ → MState) (K : σ → List Key)
    (hP : PlainKeyed V emb K)
    (Q : STrace σ → σ → Time → List Key → Key → Prop)
    (hQ : ∀ tr s now rk rk' w, (∀ u, u ∈ rk ↔ u ∈ rk') → Q tr s now rk w → Q tr s now rk' w)
    (hQpre : ∀ tr s now rk w, Q (tr ++ [(s, now, Atom.pre)]) s now rk w → Q tr s now rk w)
    (G : STrace σ → Time → Prop)
    (policy : ∀ (tr : STrace σ) (s s' : σ) (now : Time) (k : Key) (v : Val) (al : Allow) (d : Time),
      CRun V.c V.s0 tr s → G tr now → CStep V.c s now (.ins k v al d true) s' → k ∉ K s → V.cap ≤ V.c.size s →
      ∃ w, Q tr s now (K s) w ∧ Evicts (K s) (K s') k w)
    (cfg : Cfg) (nkeys : Nat) (evs : List Event) (hinit : MState.init cfg = emb V.s0)
    (hinst : ∀ e ∈ evs, e.inst = 0) (hlog : logOk nkeys evs = true) (hacc : l1 cfg nkeys evs = none)
    (i : Nat) (e0 e : Event) (k : Key) (v : Val) (a : Allow) (ttl : Nat)
    (h0 : evs[i]? = some e0) (h1 : evs[i + 1]? = some e)
    (hG : ∀ tr : STrace σ, tr.atoms = V.history (opsOf (evs.take (i + 1))) ++ [(e.now, Atom.pre)] → G tr e.now)
    (hop : e.op = .insert k v a ttl) (hout : e.out = .bool true)
    (hnew : k ∉ sweepKeys e0) (hfull : e0.obs.size = e0.obs.cap) :
    ∃ (tr : STrace σ) (w : Key),
      CRun V.c V.s0 tr (V.c.run V.s0 (opsOf (evs.take (i + 1)))).1 ∧
      tr.atoms = V.history (opsOf (evs.take (i + 1))) ∧
      V.c.sweep (V.c.run V.s0 (opsOf (evs.take (i + 1)))).1 e0.now nkeys = e0.obs.sweep ∧
      (∀ u, u ∈ sweepKeys e0 ↔ u ∈ K (V.c.run V.s0 (opsOf (evs.take (i + 1)))).1) ∧
      Q tr (V.c.run V.s0 (opsOf (evs.take (i + 1)))).1 e.now (sweepKeys e0) w ∧ w ∈ sweepKeys e0 ∧ w ≠ k ∧
      ∀ u, u ∈ sweepKeys e ↔ (u ∈ sweepKeys e0 ∧ u ≠ w) ∨ u = k := by
  have hkeys : ∀ e ∈ evs, opKeysOk nkeys e.op = true := by
    simpa [logOk, List.all_eq_true] using hlog
  have hops := ops_ok hlog (i + 1)
  obtain ⟨⟨tr, hrun, hatoms⟩, hinv, hlt⟩ := hP.after_prefix nkeys _ hops
  have hb := l1_transfer_after cfg nkeys evs hinst hacc i e0 h0
  have hm := l1_transfer cfg nkeys evs hinst hacc (i + 1) e h1
  unfold Matches at hm
  rw [hinit, hP.emb.runM] at hb hm
  obtain ⟨s, hs⟩ : ∃ s, (V.c.run V.s0 (opsOf (evs.take (i + 1)))).1 = s := ⟨_, rfl⟩
  rw [hs] at hrun hinv hlt hb hm ⊢
  rw [hP.emb.size, hP.emb.capacity, hP.emb.sweep] at hb
  obtain ⟨hsz, hcp, hsw⟩ := hb
  rw [hP.emb.step, hop, hout] at hm
  obtain ⟨mo, _, _, _, msw⟩ := hm
  rw [hP.emb.sweep] at msw
  simp only [Core.step, hP.pre, Out.bool.injEq] at mo msw
  have hstep : CStep V.c s e.now (.ins k v a (V.c.dlOf s e.now ttl) true)
      (V.c.insert1 s e.now k v a ttl).1 := by
    have := CStep.ins (c := V.c) s e.now k v a ttl
    rwa [mo] at this
  have hrun' : CRun V.c V.s0 (tr ++ [(s, e.now, .pre)]) s := by
    have := hrun.append (CRun.single (CStep.pre (c := V.c) s e.now))
    rwa [hP.pre] at this
  have hK0 : ∀ u, u ∈ sweepKeys e0 ↔ u ∈ K s := by
    intro u
    unfold sweepKeys
    rw [← hsw, mem_sweep_keys, hP.look]
    exact ⟨fun h => h.2, fun h => ⟨hlt u h, h⟩⟩
  have hnew' : k ∉ K s := fun h => hnew ((hK0 k).2 h)
  have hfl : V.fl ≠ .eager := by rw [hP.plain]; decide
  have hfull' : V.cap ≤ V.c.size s := by
    have := V.R.capacity s 0 (hinv 0) hfl
    omega
  have hG' : G (tr ++ [(s, e.now, .pre)]) e.now := hG _ (by rw [STrace.atoms_append, hatoms]; rfl)
  obtain ⟨w, hQw, hwin, hwk, hwout, _⟩ := policy _ s _ e.now k v a _ hrun' hG' hstep hnew' hfull'
  obtain ⟨_, hast⟩ := V.R.insert1 s e.now k v a ttl (hinv e.now)
  rw [mo] at hast
  have hgk : (V.abs s).get k = none := by
    cases hg : (V.abs s).get k with
    | none => rfl
    | some y => exact absurd ((hP.abs s k).1 (by simp [hg])) hnew'
  have hsize : V.cap ≤ (V.abs s).size := by rw [← V.R.size s 0 (hinv 0)]; exact hfull'
  obtain ⟨w', _, hget'⟩ := astep_ins_full hast hgk hfl hsize
  have hK' : ∀ u, u ∈ K (V.c.insert1 s e.now k v a ttl).1 ↔ u = k ∨ (u ≠ w' ∧ u ∈ K s) := by
    intro u
    rw [← hP.abs _ u, ← hP.abs s u, hget']
    by_cases huk : u = k
    · subst huk; simp [AMap.set]
    · by_cases huw : u = w'
      · subst huw; simp [AMap.set, AMap.del, huk]
      · simp [AMap.set, AMap.del, huk, huw]
  have hww : w = w' := by
    by_cases h : w = w'
    · exact h
    · exact absurd ((hK' w).2 (Or.inr ⟨h, hwin⟩)) hwout
  subst hww
  have hklt : k < nkeys := by
    have := hkeys e (List.mem_of_getElem? h1)
    simpa [hop, opKeysOk] using this
  have hK1 : ∀ u, u ∈ sweepKeys e ↔ u ∈ K (V.c.insert1 s e.now k v a ttl).1 := by
    intro u
    unfold sweepKeys
    rw [← msw, mem_sweep_keys, hP.look]
    refine ⟨fun h => h.2, fun h => ⟨?_, h⟩⟩
    rcases (hK' u).1 h with rfl | ⟨_, h2⟩
    · exact hklt
    · exact hlt u h2
  refine ⟨tr, w, hrun, hatoms, hsw, hK0, hQ _ _ _ _ _ _ (fun u => (hK0 u).symm) (hQpre _ _ _ _ _ hQw),
    (hK0 _).2 hwin, hwk, ?_⟩
  intro u
  rw [hK1, hK', hK0]
  constructor
  · rintro (h | ⟨h1, h2⟩)
    · exact Or.inr h
    · exact Or.inl ⟨h2, h1⟩
  · rintro (⟨h1, h2⟩ | h)
    · exact Or.inr ⟨h2, h1⟩
    · exact Or.inl h

theorem emb_rr : Emb Rr.core MState.rr := ⟨fun _ _ _ => rfl, fun _ => rfl, fun _ => rfl, fun _ _ _ => rfl⟩

theorem plain_rr (cap : Nat) (h : 0 < cap) (rnd : List Nat) (hr : ∀ r ∈ rnd, r < cap) :
    PlainKeyed (rrV cap h rnd hr) MState.rr (fun s => keys s.ents) where
  emb := emb_rr
  timeless := rrV_timeless cap h rnd hr
  plain := rfl
  pre := fun _ _ => rfl
  look := fun s _ u => by
    show ((getE s.ents u).map _).isSome = true ↔ _
    rw [Option.isSome_map, getE_isSome_iff]
  abs := fun s u => by
    show ((getE s.ents u).map _).isSome = true ↔ _
    rw [Option.isSome_map, getE_isSome_iff]

/-- is this atom an eviction — an accepted insert of a key that is not resident in the state `s` it starts from,
into a full cache?  (Exactly the atoms at which `rr_cache::do_prune` runs and consumes one random outcome.) -/
def isDraw (cap : Nat) (s : RrState) : Atom → Bool
  | .ins k _ _ _ true => decide (k ∉ keys s.ents ∧ cap ≤ s.ents.length)
  | _ => false

/-- the number of random outcomes an annotated run has consumed: its evictions -/
def rrDraws (cap : Nat) (tr : STrace RrState) : Nat := (tr.filter (fun x => isDraw cap x.1 x.2.2)).length

theorem rrDraws_snoc (cap : Nat) (p : STrace RrState) (s : RrState) (now : Time) (x : Atom) :
    rrDraws cap (p ++ [(s, now, x)]) = rrDraws cap p + (if isDraw cap s x = true then 1 else 0) := by
  unfold rrDraws
  rw [List.filter_append, List.length_append]
  by_cases h : isDraw cap s x = true <;> simp [h]

theorem drop_succ_tail {α : Type} (l : List α) (n : Nat) : l.drop (n + 1) = (l.drop n).tail := by
  rw [List.tail_drop]

/-- along every run of the rr model from the fresh cache the unread part of the random source is the mirrored
draw list minus one outcome per eviction so far -/
theorem rr_rnd_run {cap : Nat} (hcap : 0 < cap) {rnd : List Nat} (hr : ∀ r ∈ rnd, r < cap)
    {tr : STrace RrState} {s : RrState} (hrun : CRun Rr.core (Rr.init cap rnd) tr s) :
    s.rnd = rnd.drop (rrDraws cap tr) := by
  have key := CRun.invariant (c := Rr.core) (pre := [])
    (P := fun p s => Rr.Inv cap s ∧ s.rnd = rnd.drop (rrDraws cap p))
    (by
      intro p s now x s' ⟨hi, hrd⟩ hs
      refine ⟨(Refines.cstep (Rr.refines cap) (now := now) hi hs).1, ?_⟩
      rw [rrDraws_snoc]
      cases hs with
      | pre =>
        show s.rnd = _
        simpa [isDraw] using hrd
      | ins k v a ttl =>
        show (Rr.insert1 s k v a).1.rnd = _
        cases hg : getE s.ents k with
        | some en =>
          have hres : k ∈ keys s.ents := getE_isSome_iff.1 (by simp [hg])
          by_cases hu : a.upd = true
          · have h1 : Rr.insert1 s k v a = ({ s with ents := Rr.setVal s.ents k v }, true) := by
              simp [Rr.insert1, hg, hu]
            have h2 : (Rr.core.insert1 s now k v a ttl).2 = true := by
              show (Rr.insert1 s k v a).2 = true
              rw [h1]
            rw [h1, h2]
            simp [isDraw, hres, hrd]
          · have h1 : Rr.insert1 s k v a = (s, false) := by simp [Rr.insert1, hg, hu]
            have h2 : (Rr.core.insert1 s now k v a ttl).2 = false := by
              show (Rr.insert1 s k v a).2 = false
              rw [h1]
            rw [h1, h2]
            simp [isDraw, hrd]
        | none =>
          have hnres : k ∉ keys s.ents := getE_eq_none_iff.1 hg
          by_cases hin : a.ins = true
          · have h2 : (Rr.core.insert1 s now k v a ttl).2 = true := by
              show (Rr.insert1 s k v a).2 = true
              simp [Rr.insert1, hg, hin]
            rw [h2]
            by_cases hfull : s.ents.length ≥ s.cap
            · have hc : cap ≤ s.ents.length := by rw [← hi.cap_eq]; exact hfull
              have h1 : (Rr.insert1 s k v a).1.rnd = s.rnd.tail := by
                simp only [Rr.insert1, hg, hin, if_true, hfull, Rr.prune]
                split <;> rfl
              rw [h1, hrd]
              simp only [isDraw, hnres, not_false_eq_true, hc, and_self, decide_true, if_true]
              rw [drop_succ_tail]
            · have hc : ¬ cap ≤ s.ents.length := by rw [← hi.cap_eq]; exact hfull
              have h1 : (Rr.insert1 s k v a).1.rnd = s.rnd := by
                simp only [Rr.insert1, hg, hin, if_true, hfull, if_false]
              rw [h1, hrd]
              simp [isDraw, hc]
          · have h1 : Rr.insert1 s k v a = (s, false) := by simp [Rr.insert1, hg, hin]
            have h2 : (Rr.core.insert1 s now k v a ttl).2 = false := by
              show (Rr.insert1 s k v a).2 = false
              rw [h1]
            rw [h1, h2]
            simp [isDraw, hrd]
      | look k peek =>
        show s.rnd = _
        simpa [isDraw] using hrd
      | del k =>
        show (Rr.erase1 s k).1.rnd = _
        have : (Rr.erase1 s k).1.rnd = s.rnd := by
          unfold Rr.erase1
          split <;> rfl
        rw [this]
        simpa [isDraw] using hrd
      | clear hc => simp [Rr.core] at hc
      | reap =>
        show s.rnd = _
        simpa [isDraw] using hrd
      | age =>
        show s.rnd = _
        simpa [isDraw] using hrd
      | setTtl t =>
        show s.rnd = _
        simpa [isDraw] using hrd
      | obsSize => simpa [isDraw] using hrd
      | obsEmpty => simpa [isDraw] using hrd
      | obsCap => simpa [isDraw] using hrd)
    ⟨Rr.inv_init hcap rnd hr, by simp [Rr.init, rrDraws]⟩ hrun
  simpa using key.2

/-- the model state of the `rr_cache` after the first `n` events of the log -/
def rrAfter (cfg : Cfg) (evs : List Event) (n : Nat) : RrState :=
  (Rr.core.run (Rr.init cfg.cap cfg.rnd) (opsOf (evs.take n))).1

/-- **F — C15 at event level (rr_cache).**  Single-instance log of an `rr_cache` of capacity ≥ 1 accepted by the
observable tier, the model fed the draws the harness mirrored (`cfg.rnd`, every outcome `< cfg.cap`), every inserted
key in the swept universe.  Let event `i + 1` be a single `insert(k, v, a)` that returned `true`, where the sweep
recorded after event `i` does not show `k` and the `size()` recorded after event `i` equals the recorded
`capacity()`.  Then exactly one key `w` leaves the observed sweep; `w` was shown by the previous sweep and is not
`k`; and `w` is the key of the entry `en` that the model (state `rrAfter cfg evs (i + 1)`, whose resident keys are
exactly the keys swept after event `i`) stores in slot `r`, where `r < cfg.cap` is the next unused outcome of
`cfg.rnd`: the one after the `rrDraws cfg.cap tr` outcomes the evictions of events `0 .. i` consumed (`tr`: the run
of the model over the recorded history; an exhausted list yields 0).  No other resident entry sits in slot `r`. -/
theorem rr_victim_observed (cfg : Cfg) (hk : cfg.kind = .rr) (hcap : 0 < cfg.cap)
    (hrnd : ∀ r ∈ cfg.rnd, r < cfg.cap) (nkeys : Nat)
    (evs : List Event) (hinst : ∀ e ∈ evs, e.inst = 0) (hlog : logOk nkeys evs = true)
    (hacc : l1 cfg nkeys evs = none)
    (i : Nat) (e0 e : Event) (k : Key) (v : Val) (a : Allow) (ttl : Nat)
    (h0 : evs[i]? = some e0) (h1 : evs[i + 1]? = some e)
    (hop : e.op = .insert k v a ttl) (hout : e.out = .bool true)
    (hnew : k ∉ sweepKeys e0) (hfull : e0.obs.size = e0.obs.cap) :
    ∃ (tr : STrace RrState) (w : Key) (en : Entry),
      CRun Rr.core (Rr.init cfg.cap cfg.rnd) tr (rrAfter cfg evs (i + 1)) ∧
      tr.atoms = (rrV cfg.cap hcap cfg.rnd hrnd).history (opsOf (evs.take (i + 1))) ∧
      (∀ u, u ∈ sweepKeys e0 ↔ u ∈ keys (rrAfter cfg evs (i + 1)).ents) ∧
      (cfg.rnd.drop (rrDraws cfg.cap tr)).headD 0 < cfg.cap ∧
      en ∈ (rrAfter cfg evs (i + 1)).ents ∧
      en.slot = (cfg.rnd.drop (rrDraws cfg.cap tr)).headD 0 ∧
      (∀ e' ∈ (rrAfter cfg evs (i + 1)).ents, e'.slot = (cfg.rnd.drop (rrDraws cfg.cap tr)).headD 0 → e' = en) ∧
      en.key = w ∧ w ∈ sweepKeys e0 ∧ w ≠ k ∧
      ∀ u, u ∈ sweepKeys e ↔ (u ∈ sweepKeys e0 ∧ u ≠ w) ∨ u = k := by
  have hinit : MState.init cfg = MState.rr (rrV cfg.cap hcap cfg.rnd hrnd).s0 := by
    simp only [MState.init, hk]; rfl
  obtain ⟨tr, w, hrun, hat, _, hK0, hq, hw, hwk, hall⟩ :=
    evicting_insert_observed_st (rrV cfg.cap hcap cfg.rnd hrnd) MState.rr (fun s => keys s.ents)
      (plain_rr cfg.cap hcap cfg.rnd hrnd)
      (fun _ s _ _ w => ∃ en, Rr.atSlot s.ents (s.rnd.headD 0) = some en ∧ en.key = w ∧ s.rnd.headD 0 < cfg.cap)
      (fun _ _ _ _ _ _ _ hq => hq)
      (fun _ _ _ _ _ hq => hq)
      (fun _ _ => True)
      (fun tr s s' now k v al d hrun _ hstep hnew hfull => by
        obtain ⟨en, h1, h2, _, h4⟩ := C15_rr_victim cfg.cap hcap cfg.rnd hrnd hrun hstep hnew hfull
        exact ⟨en.key, ⟨en, h1, rfl, h4⟩, h2⟩)
      cfg nkeys evs hinit hinst hlog hacc i e0 e k v a ttl h0 h1 (fun _ _ => trivial) hop hout hnew hfull
  change CRun Rr.core (Rr.init cfg.cap cfg.rnd) tr (rrAfter cfg evs (i + 1)) at hrun
  change ∀ u, u ∈ sweepKeys e0 ↔ u ∈ keys (rrAfter cfg evs (i + 1)).ents at hK0
  change ∃ en, Rr.atSlot (rrAfter cfg evs (i + 1)).ents ((rrAfter cfg evs (i + 1)).rnd.headD 0) = some en ∧ _ at hq
  obtain ⟨en, hat', hen, hlt⟩ := hq
  change (rrAfter cfg evs (i + 1)).rnd.headD 0 < cfg.cap at hlt
  have hrd := rr_rnd_run hcap hrnd hrun
  rw [hrd] at hat' hlt
  have hmem : en ∈ (rrAfter cfg evs (i + 1)).ents := List.mem_of_find?_eq_some hat'
  have hslot : en.slot = (cfg.rnd.drop (rrDraws cfg.cap tr)).headD 0 := by
    have := List.find?_some hat'
    simpa using this
  have hfullm : cfg.cap ≤ (rrAfter cfg evs (i + 1)).ents.length := by
    have hb := l1_transfer_after cfg nkeys evs hinst hacc i e0 h0
    rw [hinit, emb_rr.runM] at hb
    have hi := Rr.inv_run hcap hrnd hrun
    have h1 : (rrAfter cfg evs (i + 1)).ents.length = e0.obs.size := hb.1
    have h2 : (rrAfter cfg evs (i + 1)).cap = e0.obs.cap := hb.2.1
    have := hi.cap_eq
    omega
  obtain ⟨hbij, _⟩ := C15_rr_bijection cfg.cap hcap cfg.rnd hrnd hrun hfullm
  obtain ⟨en', hen'mem, hen'slot, hen'uniq⟩ := hbij _ hlt
  have heq : en = en' := hen'uniq en hmem hslot
  subst heq
  exact ⟨tr, w, en, hrun, hat, hK0, hlt, hmem, hslot, hen'uniq, hen, hw, hwk, hall⟩

/-! ## Part G — lfuda_cache: C14 at event level -/

theorem emb_lfuda : Emb Lfuda.core MState.lfuda :=
  ⟨fun _ _ _ => rfl, fun _ => rfl, fun _ => rfl, fun _ _ _ => rfl⟩

theorem timesFrom_append_left {t : Time} : ∀ {p q : List (Time × Op)}, TimesFrom t (p ++ q) → TimesFrom t p
  | [], _, _ => trivial
  | (t1, _) :: p, q, h => by
    simp only [List.cons_append, TimesFrom] at h ⊢
    exact ⟨h.1, timesFrom_append_left h.2⟩

/-- non-decreasing clock readings along the whole log ⇒ along each of its prefixes -/
theorem timesFrom_take {t : Time} {evs : List Event} (h : TimesFrom t (opsOf evs)) (n : Nat) :
    TimesFrom t (opsOf (evs.take n)) := by
  have : opsOf evs = opsOf (evs.take n) ++ opsOf (evs.drop n) := by
    unfold opsOf; rw [← List.map_append, List.take_append_drop]
  rw [this] at h
  exact timesFrom_append_left h

theorem timesFrom_last {t t' : Time} {op : Op} : ∀ {p : List (Time × Op)}, TimesFrom t (p ++ [(t', op)]) → t ≤ t'
  | [], h => by simp only [List.nil_append, TimesFrom] at h; exact h.1
  | (t1, _) :: p, h => by
    simp only [List.cons_append, TimesFrom] at h
    exact Nat.le_trans h.1 (timesFrom_last h.2)

/-- every atom of the calls before the last one carries a clock reading `≤` the last call's -/
theorem runA_times_le {σ : Type} (c : Core σ) {t' : Time} {op : Op} :
    ∀ (ops : List (Time × Op)) (s : σ) (t0 : Time), TimesFrom t0 (ops ++ [(t', op)]) →
      ∀ x ∈ (c.runA s ops).2.2, x.1 ≤ t'
  | [], _, _, _, x, hx => by simp [Core.runA] at hx
  | (t1, op1) :: ops, s, t0, h, x, hx => by
    simp only [List.cons_append, TimesFrom] at h
    simp only [Core.runA, List.mem_append, List.mem_map] at hx
    rcases hx with ⟨a, _, rfl⟩ | hx
    · exact timesFrom_last h.2
    · exact runA_times_le c ops _ t1 h.2 x hx

/-- the model state of the `lfuda_cache` after the first `n` events of the log -/
def lfudaAfter (cfg : Cfg) (evs : List Event) (n : Nat) : LfudaState :=
  (Lfuda.core.run (Lfuda.init cfg.cap cfg.tick cfg.num cfg.den) (opsOf (evs.take n))).1

/-- the run of the lfuda model over the first `n` events, with the aging invariant (`Lfuda.Ord`) relative to the
aging ghost of that run, provided the clock readings of these events never decrease -/
theorem lfuda_prefix (cfg : Cfg) (evs : List Event) (n : Nat) (ht : TimesFrom 0 (opsOf (evs.take n))) :
    ∃ (tr : STrace LfudaState) (T : Time),
      CRun Lfuda.core (Lfuda.init cfg.cap cfg.tick cfg.num cfg.den) tr (lfudaAfter cfg evs n) ∧
      tr.atoms = (Lfuda.core.runA (Lfuda.init cfg.cap cfg.tick cfg.num cfg.den) (opsOf (evs.take n))).2.2 ∧
      STrace.monotone tr ∧
      Lfuda.Ord cfg.cap (cfg.tick * msNs) cfg.num cfg.den (lfudaGhost cfg.cap cfg.tick cfg.num cfg.den tr) T
        (lfudaAfter cfg evs n) ∧
      ∀ now, (∀ x ∈ tr, x.2.1 ≤ now) → T ≤ now := by
  obtain ⟨tr, hrun, hat, hmono⟩ :=
    Lfuda.core.steps_of_history (Lfuda.init cfg.cap cfg.tick cfg.num cfg.den) (opsOf (evs.take n)) 0 ht
  rw [(Lfuda.core.runA_eq _ _).1] at hrun
  obtain ⟨T, hord, hT⟩ := Lfuda.ord_run cfg.cap cfg.tick cfg.num cfg.den hrun hmono
  exact ⟨tr, T, hrun, hat, hmono, hord, hT⟩

/-- **G1 — C14 at event level, counts (lfuda_cache).**  Single-instance log of an `lfuda_cache` accepted by the
observable tier; the clock readings recorded for events `0 .. i` never decrease.  After event `i`, the use count the
sweep (`find_with_use_count(k, peek::yes)`) reported for each key is the count the aging ghost (`lfudaGhost`, i.e.
`daGhost`) holds for it after the run `tr` of the model over the recorded history of events `0 .. i`: 1 at creation,
+1 per accepted update and per successful non-peek lookup, and scaled by `num/den` (rounded down) at every aging
point (`dynamically_age()`, or an evicting insert) at which the entry had been idle for strictly longer than the
tick. -/
theorem lfuda_counts_observed (cfg : Cfg) (hk : cfg.kind = .lfuda) (hcap : 0 < cfg.cap) (nkeys : Nat)
    (evs : List Event) (hinst : ∀ e ∈ evs, e.inst = 0) (hacc : l1 cfg nkeys evs = none)
    (i : Nat) (e : Event) (hi : evs[i]? = some e) (ht : TimesFrom 0 (opsOf (evs.take (i + 1)))) :
    ∃ tr : STrace LfudaState,
      CRun Lfuda.core (Lfuda.init cfg.cap cfg.tick cfg.num cfg.den) tr (lfudaAfter cfg evs (i + 1)) ∧
      tr.atoms = (lfudaV cfg.cap hcap cfg.tick cfg.num cfg.den).history (opsOf (evs.take (i + 1))) ∧
      STrace.monotone tr ∧
      ∀ u vu cu, (u, vu, cu) ∈ e.obs.sweep → cu = (lfudaGhost cfg.cap cfg.tick cfg.num cfg.den tr).cnt u := by
  have hinit : MState.init cfg = MState.lfuda (Lfuda.init cfg.cap cfg.tick cfg.num cfg.den) := by
    simp only [MState.init, hk]
  obtain ⟨tr, T, hrun, hat, hmono, hord, _⟩ := lfuda_prefix cfg evs (i + 1) ht
  have hb := (l1_transfer_after cfg nkeys evs hinst hacc i e hi).2.2
  rw [hinit, emb_lfuda.runM, emb_lfuda.sweep] at hb
  refine ⟨tr, hrun, hat, hmono, ?_⟩
  intro u vu cu hmem
  rw [← hb] at hmem
  have hl : (getE (lfudaAfter cfg evs (i + 1)).ents u).map (fun e => (e.val, e.cnt)) = some (vu, cu) :=
    ((mem_sweep _ _ _ _ _ _ _).1 hmem).2
  cases hg : getE (lfudaAfter cfg evs (i + 1)).ents u with
  | none => rw [hg] at hl; cases hl
  | some en =>
    rw [hg] at hl
    simp only [Option.map_some, Option.some.injEq, Prod.mk.injEq] at hl
    have := hord.cnt_eq en (getE_mem hg)
    rw [getE_key hg] at this
    rw [← hl.2]; exact this

/-- **G2 — C14 at event level, `dynamically_age()` (lfuda_cache).**  Single-instance log of an `lfuda_cache` accepted
by the observable tier; the clock readings recorded for events `0 .. i` never decrease.  If event `i` is a
`dynamically_age()` call that reported `n`, then `n` is the number of entries the aging ghost ages at that point:
the number of keys resident in the model state before the call (`lfudaAfter cfg evs i`) whose ghost stamp (time of
last use or aging, in the run `tr` of the model over events `0 .. i-1`) is more than the tick before the call's
clock reading. -/
theorem lfuda_age_observed (cfg : Cfg) (hk : cfg.kind = .lfuda) (hcap : 0 < cfg.cap) (nkeys : Nat)
    (evs : List Event) (hinst : ∀ e ∈ evs, e.inst = 0) (hacc : l1 cfg nkeys evs = none)
    (i : Nat) (e : Event) (n : Nat) (hi : evs[i]? = some e) (hop : e.op = .age) (hout : e.out = .nat n)
    (ht : TimesFrom 0 (opsOf (evs.take (i + 1)))) :
    ∃ tr : STrace LfudaState,
      CRun Lfuda.core (Lfuda.init cfg.cap cfg.tick cfg.num cfg.den) tr (lfudaAfter cfg evs i) ∧
      tr.atoms = (lfudaV cfg.cap hcap cfg.tick cfg.num cfg.den).history (opsOf (evs.take i)) ∧
      STrace.monotone tr ∧
      n = ((lfudaGhost cfg.cap cfg.tick cfg.num cfg.den tr).ageAt (keys (lfudaAfter cfg evs i).ents)
            (cfg.tick * msNs) cfg.num cfg.den e.now).2 := by
  have hinit : MState.init cfg = MState.lfuda (Lfuda.init cfg.cap cfg.tick cfg.num cfg.den) := by
    simp only [MState.init, hk]
  have hsplit : opsOf (evs.take (i + 1)) = opsOf (evs.take i) ++ [(e.now, e.op)] := by
    rw [take_succ_of_getElem? evs i e hi]; simp [opsOf]
  rw [hsplit] at ht
  obtain ⟨tr, T, hrun, hat, hmono, hord, hT⟩ := lfuda_prefix cfg evs i (timesFrom_append_left ht)
  have hle : ∀ x ∈ tr, x.2.1 ≤ e.now := by
    intro x hx
    have hx' : x.2 ∈ tr.atoms := List.mem_map_of_mem (f := (·.2)) hx
    rw [hat] at hx'
    exact runA_times_le Lfuda.core _ _ 0 ht x.2 hx'
  have hm := (l1_transfer cfg nkeys evs hinst hacc i e hi).1
  rw [hinit, emb_lfuda.runM, emb_lfuda.step, hop, hout] at hm
  have hn : (Lfuda.dynAge (lfudaAfter cfg evs i) e.now).2 = n := by
    have : Out.nat (Lfuda.dynAge (lfudaAfter cfg evs i) e.now).2 = Out.nat n := hm
    exact Out.nat.inj this
  refine ⟨tr, hrun, hat, hmono, ?_⟩
  rw [← hn]
  exact (hord.dynAge (hT e.now hle)).2.1

/-- **G2′ — the same in terms of the previous recorded sweep.**  If the `dynamically_age()` call is event `i + 1`
and every inserted key is in the swept universe, the resident keys are those the sweep after event `i` showed, so
`n` is the number of keys `u` of that sweep with `stamp u + tick < e.now`, the ghost's stamps being those after the
recorded history of events `0 .. i`. -/
theorem lfuda_age_observed_sweep (cfg : Cfg) (hk : cfg.kind = .lfuda) (hcap : 0 < cfg.cap) (nkeys : Nat)
    (evs : List Event) (hinst : ∀ e ∈ evs, e.inst = 0) (hlog : logOk nkeys evs = true)
    (hacc : l1 cfg nkeys evs = none)
    (i : Nat) (e0 e : Event) (n : Nat) (h0 : evs[i]? = some e0) (h1 : evs[i + 1]? = some e)
    (hop : e.op = .age) (hout : e.out = .nat n)
    (ht : TimesFrom 0 (opsOf (evs.take (i + 2)))) :
    ∃ tr : STrace LfudaState,
      CRun Lfuda.core (Lfuda.init cfg.cap cfg.tick cfg.num cfg.den) tr (lfudaAfter cfg evs (i + 1)) ∧
      tr.atoms = (lfudaV cfg.cap hcap cfg.tick cfg.num cfg.den).history (opsOf (evs.take (i + 1))) ∧
      STrace.monotone tr ∧
      n = ((sweepKeys e0).filter (fun u =>
            decide ((lfudaGhost cfg.cap cfg.tick cfg.num cfg.den tr).stamp u + cfg.tick * msNs < e.now))).length := by
  obtain ⟨tr, hrun, hat, hmono, hn⟩ :=
    lfuda_age_observed cfg hk hcap nkeys evs hinst hacc (i + 1) e n h1 hop hout ht
  refine ⟨tr, hrun, hat, hmono, ?_⟩
  rw [hn]
  have hinit : MState.init cfg = MState.lfuda (Lfuda.init cfg.cap cfg.tick cfg.num cfg.den) := by
    simp only [MState.init, hk]
  have hb := (l1_transfer_after cfg nkeys evs hinst hacc i e0 h0).2.2
  rw [hinit, emb_lfuda.runM, emb_lfuda.sweep] at hb
  change Lfuda.core.sweep (lfudaAfter cfg evs (i + 1)) e0.now nkeys = e0.obs.sweep at hb
  have hlt : ∀ u ∈ keys (lfudaAfter cfg evs (i + 1)).ents, u < nkeys :=
    resident_lt (lfudaV cfg.cap hcap cfg.tick cfg.num cfg.den) (lfudaV_timeless cfg.cap hcap cfg.tick cfg.num cfg.den)
      (fun s => keys s.ents)
      (fun s u => by
        show ((getE s.ents u).map _).isSome = true ↔ _
        rw [Option.isSome_map, getE_isSome_iff])
      nkeys _ (ops_ok hlog (i + 1))
  have hlook : ∀ u, (Lfuda.core.look (lfudaAfter cfg evs (i + 1)) e0.now u).isSome = true ↔
      u ∈ keys (lfudaAfter cfg evs (i + 1)).ents := by
    intro u
    show ((getE _ u).map _).isSome = true ↔ _
    rw [Option.isSome_map, getE_isSome_iff]
  have hnd0 : (sweepKeys e0).Nodup := by
    unfold sweepKeys
    rw [← hb, sweep_keys_eq_filter]
    exact List.nodup_range.filter _
  have hmem : ∀ u, u ∈ keys (lfudaAfter cfg evs (i + 1)).ents ↔ u ∈ sweepKeys e0 := by
    intro u
    unfold sweepKeys
    rw [← hb, mem_sweep_keys, hlook]
    exact ⟨fun h => ⟨hlt u h, h⟩, fun h => h.2⟩
  have hnd : (keys (lfudaAfter cfg evs (i + 1)).ents).Nodup := by
    obtain ⟨_, _, _, _, _, hord, _⟩ := lfuda_prefix cfg evs (i + 1) (by
      have h2 : opsOf (evs.take (i + 2)) = opsOf (evs.take (i + 1)) ++ [(e.now, e.op)] := by
        rw [take_succ_of_getElem? evs (i + 1) e h1]; simp [opsOf]
      rw [h2] at ht
      exact timesFrom_append_left ht)
    exact hord.nodup
  exact length_filter_eq_of_nodup hnd hnd0 hmem _

theorem plain_lfuda (cap : Nat) (h : 0 < cap) (tickMs num den : Nat) :
    PlainKeyed (lfudaV cap h tickMs num den) MState.lfuda (fun s => keys s.ents) where
  emb := emb_lfuda
  timeless := lfudaV_timeless cap h tickMs num den
  plain := rfl
  pre := fun _ _ => rfl
  look := fun s _ u => by
    show ((getE s.ents u).map _).isSome = true ↔ _
    rw [Option.isSome_map, getE_isSome_iff]
  abs := fun s u => by
    show ((getE s.ents u).map _).isSome = true ↔ _
    rw [Option.isSome_map, getE_isSome_iff]

/-- the aged ghost depends on the resident keys only through membership -/
theorem ageAt_congr (g : DA) {rk rk' : List Key} (h : ∀ u, u ∈ rk ↔ u ∈ rk') (tick num den : Nat) (now : Time) :
    (g.ageAt rk tick num den now).1.cnt = (g.ageAt rk' tick num den now).1.cnt := by
  funext k
  simp only [DA.ageAt, h k]

/-- **G3 — C14/C11 at event level, victim (lfuda_cache).**  Single-instance log of an `lfuda_cache` accepted by the
observable tier, every inserted key in the swept universe, the clock readings recorded for events `0 .. i + 1` never
decreasing.  Let event `i + 1` be a single `insert(k, v, a)` that returned `true`, where the sweep recorded after
event `i` does not show `k` and the recorded `size()` after event `i` equals the recorded `capacity()`.  Then the
sweep after event `i + 1` shows the keys of the sweep after event `i` minus exactly one key `w`, plus `k`; and `w`
has a minimal count among the keys swept after event `i` *after* they are aged at the insert's clock reading
(`ageAt`: those idle for strictly longer than the tick have their count scaled by `num/den`, rounded down), the
counts before aging being those of the aging ghost of the run `tr` of the model over the recorded history of events
`0 .. i` — which are the counts the sweep after event `i` reported. -/
theorem lfuda_victim_observed (cfg : Cfg) (hk : cfg.kind = .lfuda) (hcap : 0 < cfg.cap) (htick : 0 < cfg.tick)
    (nkeys : Nat) (evs : List Event) (hinst : ∀ e ∈ evs, e.inst = 0) (hlog : logOk nkeys evs = true)
    (hacc : l1 cfg nkeys evs = none)
    (i : Nat) (e0 e : Event) (k : Key) (v : Val) (a : Allow) (ttl : Nat)
    (h0 : evs[i]? = some e0) (h1 : evs[i + 1]? = some e)
    (hop : e.op = .insert k v a ttl) (hout : e.out = .bool true)
    (hnew : k ∉ sweepKeys e0) (hfull : e0.obs.size = e0.obs.cap)
    (ht : TimesFrom 0 (opsOf (evs.take (i + 2)))) :
    ∃ (tr : STrace LfudaState) (w : Key),
      CRun Lfuda.core (Lfuda.init cfg.cap cfg.tick cfg.num cfg.den) tr (lfudaAfter cfg evs (i + 1)) ∧
      tr.atoms = (lfudaV cfg.cap hcap cfg.tick cfg.num cfg.den).history (opsOf (evs.take (i + 1))) ∧
      STrace.monotone tr ∧
      (∀ u vu cu, (u, vu, cu) ∈ e0.obs.sweep → cu = (lfudaGhost cfg.cap cfg.tick cfg.num cfg.den tr).cnt u) ∧
      (∀ u ∈ sweepKeys e0,
        ((lfudaGhost cfg.cap cfg.tick cfg.num cfg.den tr).ageAt (sweepKeys e0) (cfg.tick * msNs) cfg.num cfg.den
            e.now).1.cnt w ≤
        ((lfudaGhost cfg.cap cfg.tick cfg.num cfg.den tr).ageAt (sweepKeys e0) (cfg.tick * msNs) cfg.num cfg.den
            e.now).1.cnt u) ∧
      w ∈ sweepKeys e0 ∧ w ≠ k ∧
      ∀ u, u ∈ sweepKeys e ↔ (u ∈ sweepKeys e0 ∧ u ≠ w) ∨ u = k := by
  have hinit : MState.init cfg = MState.lfuda (lfudaV cfg.cap hcap cfg.tick cfg.num cfg.den).s0 := by
    simp only [MState.init, hk]; rfl
  have hsplit : opsOf (evs.take (i + 2)) = opsOf (evs.take (i + 1)) ++ [(e.now, e.op)] := by
    rw [take_succ_of_getElem? evs (i + 1) e h1]; simp [opsOf]
  rw [hsplit] at ht
  have hpw := Lfuda.core.runA_pairwise (Lfuda.init cfg.cap cfg.tick cfg.num cfg.den) (opsOf (evs.take (i + 1))) 0
    (timesFrom_append_left ht)
  have hle := runA_times_le Lfuda.core (opsOf (evs.take (i + 1)))
    (Lfuda.init cfg.cap cfg.tick cfg.num cfg.den) 0 ht
  have hmono_of : ∀ tr : STrace LfudaState,
      tr.atoms = (lfudaV cfg.cap hcap cfg.tick cfg.num cfg.den).history (opsOf (evs.take (i + 1))) →
      STrace.monotone tr ∧ ∀ x ∈ tr, x.2.1 ≤ e.now := by
    intro tr hat
    refine ⟨?_, ?_⟩
    · have hp := hpw
      rw [show (Lfuda.core.runA (Lfuda.init cfg.cap cfg.tick cfg.num cfg.den) (opsOf (evs.take (i + 1)))).2.2
        = tr.atoms from hat.symm] at hp
      simp only [STrace.atoms, List.pairwise_map] at hp
      exact hp
    · intro x hx
      have hx' : x.2 ∈ tr.atoms := List.mem_map_of_mem (f := (·.2)) hx
      rw [hat] at hx'
      exact hle x.2 hx'
  obtain ⟨tr, w, hrun, hat, hsw, _, hq, hw, hwk, hall⟩ :=
    evicting_insert_observed_st (lfudaV cfg.cap hcap cfg.tick cfg.num cfg.den) MState.lfuda (fun s => keys s.ents)
      (plain_lfuda cfg.cap hcap cfg.tick cfg.num cfg.den)
      (fun tr _ now rk w => ∀ u ∈ rk,
          ((lfudaGhost cfg.cap cfg.tick cfg.num cfg.den tr).ageAt rk (cfg.tick * msNs) cfg.num cfg.den now).1.cnt w ≤
          ((lfudaGhost cfg.cap cfg.tick cfg.num cfg.den tr).ageAt rk (cfg.tick * msNs) cfg.num cfg.den now).1.cnt u)
      (fun tr s now rk rk' w h hq u hu => by
        rw [← ageAt_congr _ h]
        exact hq u ((h u).2 hu))
      (fun tr s now rk w hq => by
        have hg : lfudaGhost cfg.cap cfg.tick cfg.num cfg.den (tr ++ [(s, now, Atom.pre)]) =
            lfudaGhost cfg.cap cfg.tick cfg.num cfg.den tr := by
          unfold lfudaGhost; rw [daGhost_snoc]; rfl
        rw [← hg]
        exact hq)
      (fun tr now => STrace.monotone tr ∧ ∀ x ∈ tr, x.2.1 ≤ now)
      (fun tr s s' now k v al d hrun hmm hstep hnew hfull => by
        have hmono : STrace.monotone (tr ++ [(s, now, Atom.ins k v al d true)]) := by
          unfold STrace.monotone
          rw [List.pairwise_append]
          exact ⟨hmm.1, List.pairwise_singleton _ _, fun x hx y hy => by
            simp only [List.mem_singleton] at hy; subst hy; exact hmm.2 x hx⟩
        obtain ⟨w, h1, h2⟩ :=
          C14_lfuda_victim cfg.cap cfg.tick cfg.num cfg.den hcap htick hrun hstep hmono hnew hfull
        exact ⟨w, h2, h1⟩)
      cfg nkeys evs hinit hinst hlog hacc i e0 e k v a ttl h0 h1
      (fun tr hat => by
        obtain ⟨p, x, rfl⟩ : ∃ p x, tr = p ++ [x] := by
          cases hl : tr.reverse with
          | nil =>
            have : tr = [] := List.reverse_eq_nil_iff.1 hl
            rw [this] at hat
            simp at hat
          | cons x r =>
            refine ⟨r.reverse, x, ?_⟩
            have := congrArg List.reverse hl
            simpa using this
        rw [STrace.atoms_append] at hat
        have hlen : (STrace.atoms p).length = ((lfudaV cfg.cap hcap cfg.tick cfg.num cfg.den).history
            (opsOf (evs.take (i + 1)))).length := by
          have := congrArg List.length hat
          simpa [STrace.atoms] using this
        obtain ⟨hp, hx⟩ := List.append_inj hat hlen
        obtain ⟨hm, hle'⟩ := hmono_of p hp
        have hxt : x.2.1 = e.now := by
          have : x.2 = (e.now, Atom.pre) := by simpa [STrace.atoms] using hx
          rw [this]
        refine ⟨?_, ?_⟩
        · unfold STrace.monotone
          rw [List.pairwise_append]
          exact ⟨hm, List.pairwise_singleton _ _, fun y hy z hz => by
            simp only [List.mem_singleton] at hz; subst hz; rw [hxt]; exact hle' y hy⟩
        · intro y hy
          rcases List.mem_append.1 hy with hy | hy
          · exact hle' y hy
          · simp only [List.mem_singleton] at hy; subst hy; exact Nat.le_of_eq hxt)
      hop hout hnew hfull
  change CRun Lfuda.core (Lfuda.init cfg.cap cfg.tick cfg.num cfg.den) tr (lfudaAfter cfg evs (i + 1)) at hrun
  change Lfuda.core.sweep (lfudaAfter cfg evs (i + 1)) e0.now nkeys = e0.obs.sweep at hsw
  obtain ⟨hmono, _⟩ := hmono_of tr hat
  obtain ⟨T, hord, _⟩ := Lfuda.ord_run cfg.cap cfg.tick cfg.num cfg.den hrun hmono
  refine ⟨tr, w, hrun, hat, hmono, ?_, hq, hw, hwk, hall⟩
  intro u vu cu hmem
  rw [← hsw] at hmem
  have hl : (getE (lfudaAfter cfg evs (i + 1)).ents u).map (fun e => (e.val, e.cnt)) = some (vu, cu) :=
    ((mem_sweep _ _ _ _ _ _ _).1 hmem).2
  cases hg : getE (lfudaAfter cfg evs (i + 1)).ents u with
  | none => rw [hg] at hl; cases hl
  | some en =>
    rw [hg] at hl
    simp only [Option.map_some, Option.some.injEq, Prod.mk.injEq] at hl
    have := hord.cnt_eq en (getE_mem hg)
    rw [getE_key hg] at this
    rw [← hl.2]; exact this

/-! ## non-vacuity -/

namespace Example
open Verif.CapstoneOrder.Example

/-- a `tlru_cache` of capacity 2 over the keys 0..2: key 0 is inserted with a 100 ms TTL, key 1 with a 1 ms TTL;
2 ms later key 2 is inserted: key 1 (expired, though more recently used than key 0) goes -/
def evE0 : Event := ev 10 (.insert 0 10 .insertOrUpdate 100) (.bool true) 1 [(0, 10, 0)]
def evE1 : Event := ev 20 (.insert 1 11 .insertOrUpdate 1) (.bool true) 2 [(0, 10, 0), (1, 11, 0)]
def evE2 : Event := ev 2000000 (.insert 2 12 .insertOrUpdate 100) (.bool true) 2 [(0, 10, 0), (2, 12, 0)]

def logE : List Event := [evE0, evE1, evE2]

def cfgE : Cfg := { kind := .tlru, cap := 2 }

theorem logE_accepted : l1 cfgE 3 logE = none := by rfl

/-- Part E on `logE`: event 2 is an evicting insert at which an entry of the replayed twin has expired; the
removed key `w` is an expired one -/
theorem logE_expired_first :
    ∃ w, w ≠ 2 ∧
      (∀ u, u ∈ [0, 2] ↔ (u = 2 ∧ 0 < 100) ∨ (u ≠ w ∧ LiveAt (tlruAfter cfgE logE 2) 2000000 u)) ∧
      ∃ en, getE (tlruAfter cfgE logE 2).ents w = some en ∧ en.dl ≤ 2000000 := by
  obtain ⟨_, _, _, w, _, hwk, hall, h16, _⟩ :=
    tlru_insert_observed cfgE rfl (by decide) 3 logE (by decide) (by decide) logE_accepted 1 evE1 evE2 2 12
      .insertOrUpdate 100 rfl rfl rfl rfl (by decide) rfl
  exact ⟨w, hwk, hall, (h16 ⟨{ key := 1, val := 11, dl := 1000020 }, by decide, by decide⟩).1⟩

/-- … and that key is 1: key 0, the least recently used one, is still shown -/
example : ∃ en, getE (tlruAfter cfgE logE 2).ents 1 = some en ∧ en.dl ≤ 2000000 := by
  obtain ⟨w, _, hall, hexp⟩ := logE_expired_first
  have h0 := (hall 0).1 (by simp)
  have : w = 1 := by
    rcases h0 with ⟨h, _⟩ | ⟨hne, _⟩
    · cases h
    · obtain ⟨en, hen, _⟩ := hexp
      have hw : w ∈ keys (tlruAfter cfgE logE 2).ents := getE_isSome_iff.1 (by simp [hen])
      have hk : keys (tlruAfter cfgE logE 2).ents = [0, 1] := by decide
      rw [hk] at hw
      simp only [List.mem_cons, List.not_mem_nil, or_false] at hw
      rcases hw with rfl | rfl
      · exact absurd rfl hne
      · rfl
  subst this
  exact hexp

/-- the same `tlru_cache`, the clock standing still at 30 after the first insert: nothing has expired, the sweep
after event 1 has `size()` entries, and the insert of key 2 evicts the least recently used key -/
def evH0 : Event := ev 30 (.insert 0 10 .insertOrUpdate 100) (.bool true) 1 [(0, 10, 0)]
def evH1 : Event := ev 30 (.insert 1 11 .insertOrUpdate 100) (.bool true) 2 [(0, 10, 0), (1, 11, 0)]
def evH2 : Event := ev 30 (.insert 2 12 .insertOrUpdate 100) (.bool true) 2 [(1, 11, 0), (2, 12, 0)]

def logH : List Event := [evH0, evH1, evH2]

theorem logH_accepted : l1 cfgE 3 logH = none := by rfl

/-- Part E on `logH`, hypotheses on the recorded events only -/
theorem logH_victim :
    ∃ w, (∀ tr : STrace TlruState, tr.atoms = (tlruV 2 (by decide)).history (opsOf (logH.take 2)) →
            firstIn (useOrder tr) [0, 1] = some w) ∧
      w ∈ [0, 1] ∧ w ≠ 2 ∧ ∀ u, u ∈ [1, 2] ↔ (u ∈ [0, 1] ∧ u ≠ w) ∨ (u = 2 ∧ 0 < 100) :=
  tlru_lru_victim_observed_sameclock cfgE rfl (by decide) 3 logH (by decide) (by decide) logH_accepted 1 evH1 evH2
    2 12 .insertOrUpdate 100 rfl rfl rfl rfl (by decide) rfl rfl rfl

/-- an `rr_cache` of capacity 2 whose mirrored draws are `[1]`: keys 0 and 1 take slots 0 and 1, the insert of
key 2 evicts the entry in slot 1 -/
def evF0 : Event := ev 10 (.insert 0 10 .insertOrUpdate 0) (.bool true) 1 [(0, 10, 0)]
def evF1 : Event := ev 20 (.insert 1 11 .insertOrUpdate 0) (.bool true) 2 [(0, 10, 0), (1, 11, 0)]
def evF2 : Event := ev 30 (.insert 2 12 .insertOrUpdate 0) (.bool true) 2 [(0, 10, 0), (2, 12, 0)]

def logF : List Event := [evF0, evF1, evF2]

def cfgF : Cfg := { kind := .rr, cap := 2, rnd := [1] }

theorem logF_accepted : l1 cfgF 3 logF = none := by rfl

/-- Part F on `logF` -/
theorem logF_victim :
    ∃ (tr : STrace RrState) (w : Key) (en : Entry),
      CRun Rr.core (Rr.init 2 [1]) tr (rrAfter cfgF logF 2) ∧
      tr.atoms = (rrV 2 (by decide) [1] (by decide)).history (opsOf (logF.take 2)) ∧
      (∀ u, u ∈ [0, 1] ↔ u ∈ keys (rrAfter cfgF logF 2).ents) ∧
      (([1] : List Nat).drop (rrDraws 2 tr)).headD 0 < 2 ∧
      en ∈ (rrAfter cfgF logF 2).ents ∧
      en.slot = (([1] : List Nat).drop (rrDraws 2 tr)).headD 0 ∧
      (∀ e' ∈ (rrAfter cfgF logF 2).ents, e'.slot = (([1] : List Nat).drop (rrDraws 2 tr)).headD 0 → e' = en) ∧
      en.key = w ∧ w ∈ [0, 1] ∧ w ≠ 2 ∧
      ∀ u, u ∈ [0, 2] ↔ (u ∈ [0, 1] ∧ u ≠ w) ∨ u = 2 :=
  rr_victim_observed cfgF rfl (by decide) (by decide) 3 logF (by decide) (by decide) logF_accepted 1 evF1 evF2
    2 12 .insertOrUpdate 0 rfl rfl rfl rfl (by decide) rfl

/-- an `lfuda_cache` (tick 1 ms, ratio 1/2): key 0 is inserted and looked up (count 2); 5 ms later
`dynamically_age()` ages it (count 1) and reports 1 -/
def evG0 : Event := ev 10 (.insert 0 10 .insertOrUpdate 0) (.bool true) 1 [(0, 10, 1)]
def evG1 : Event := ev 20 (.find 0 false) (.opt (some 10)) 1 [(0, 10, 2)]
def evG2 : Event := ev 5000000 .age (.nat 1) 1 [(0, 10, 1)]

def logG : List Event := [evG0, evG1, evG2]

def cfgG : Cfg := { kind := .lfuda, cap := 2, tick := 1, num := 1, den := 2 }

theorem logG_accepted : l1 cfgG 3 logG = none := by rfl

/-- an `lfuda_cache` of capacity 2: key 0 is used twice, key 1 once; the insert of key 2 evicts key 1 -/
def evJ0 : Event := ev 10 (.insert 0 10 .insertOrUpdate 0) (.bool true) 1 [(0, 10, 1)]
def evJ1 : Event := ev 20 (.find 0 false) (.opt (some 10)) 1 [(0, 10, 2)]
def evJ2 : Event := ev 30 (.insert 1 11 .insertOrUpdate 0) (.bool true) 2 [(0, 10, 2), (1, 11, 1)]
def evJ3 : Event := ev 40 (.insert 2 12 .insertOrUpdate 0) (.bool true) 2 [(0, 10, 2), (2, 12, 1)]

def logJ : List Event := [evJ0, evJ1, evJ2, evJ3]

theorem logJ_accepted : l1 cfgG 3 logJ = none := by rfl

/-- Part G on `logJ`: the victim of event 3 has a minimal aged count -/
theorem logJ_victim :
    ∃ (tr : STrace LfudaState) (w : Key),
      CRun Lfuda.core (Lfuda.init 2 1 1 2) tr (lfudaAfter cfgG logJ 3) ∧
      tr.atoms = (lfudaV 2 (by decide) 1 1 2).history (opsOf (logJ.take 3)) ∧
      STrace.monotone tr ∧
      (∀ u vu cu, (u, vu, cu) ∈ [(0, 10, 2), (1, 11, 1)] → cu = (lfudaGhost 2 1 1 2 tr).cnt u) ∧
      (∀ u ∈ [0, 1],
        ((lfudaGhost 2 1 1 2 tr).ageAt [0, 1] (1 * msNs) 1 2 40).1.cnt w ≤
        ((lfudaGhost 2 1 1 2 tr).ageAt [0, 1] (1 * msNs) 1 2 40).1.cnt u) ∧
      w ∈ [0, 1] ∧ w ≠ 2 ∧
      ∀ u, u ∈ [0, 2] ↔ (u ∈ [0, 1] ∧ u ≠ w) ∨ u = 2 :=
  lfuda_victim_observed cfgG rfl (by decide) (by decide) 3 logJ (by decide) (by decide) logJ_accepted 2 evJ2 evJ3
    2 12 .insertOrUpdate 0 rfl rfl rfl rfl (by decide) rfl ⟨by decide, by decide, by decide, by decide, trivial⟩

theorem logG_times : TimesFrom 0 (opsOf (logG.take 3)) :=
  ⟨by decide, by decide, by decide, trivial⟩

/-- Part G on `logG`: the count swept after the aging call is the ghost's -/
theorem logG_counts :
    ∃ tr : STrace LfudaState,
      CRun Lfuda.core (Lfuda.init 2 1 1 2) tr (lfudaAfter cfgG logG 3) ∧
      tr.atoms = (lfudaV 2 (by decide) 1 1 2).history (opsOf (logG.take 3)) ∧
      STrace.monotone tr ∧
      ∀ u vu cu, (u, vu, cu) ∈ [(0, 10, 1)] → cu = (lfudaGhost 2 1 1 2 tr).cnt u :=
  lfuda_counts_observed cfgG rfl (by decide) 3 logG (by decide) logG_accepted 2 evG2 rfl logG_times

/-- … and the `1` the aging call reported is the number of swept keys the ghost ages -/
theorem logG_age :
    ∃ tr : STrace LfudaState,
      CRun Lfuda.core (Lfuda.init 2 1 1 2) tr (lfudaAfter cfgG logG 2) ∧
      tr.atoms = (lfudaV 2 (by decide) 1 1 2).history (opsOf (logG.take 2)) ∧
      STrace.monotone tr ∧
      1 = ([0].filter (fun u => decide ((lfudaGhost 2 1 1 2 tr).stamp u + 1 * msNs < 5000000))).length :=
  lfuda_age_observed_sweep cfgG rfl (by decide) 3 logG (by decide) (by decide) logG_accepted 1 evG1 evG2 1
    rfl rfl rfl rfl logG_times

end Example

end Verif.CapstoneOrder2

#print axioms Verif.CapstoneOrder2.ttl_insert_observed
#print axioms Verif.CapstoneOrder2.ttl_lru_victim_observed
#print axioms Verif.CapstoneOrder2.ttl_all_live_iff
#print axioms Verif.CapstoneOrder2.ttl_lru_victim_observed_sameclock
#print axioms Verif.CapstoneOrder2.ttl_expired_first_observed_sameclock
#print axioms Verif.CapstoneOrder2.tlru_insert_observed
#print axioms Verif.CapstoneOrder2.tlru_lru_victim_observed
#print axioms Verif.CapstoneOrder2.tlru_lru_victim_observed_sameclock
#print axioms Verif.CapstoneOrder2.tlru_expired_first_observed_sameclock
#print axioms Verif.CapstoneOrder2.utlru_insert_observed
#print axioms Verif.CapstoneOrder2.utlru_lru_victim_observed
#print axioms Verif.CapstoneOrder2.utlru_lru_victim_observed_sameclock
#print axioms Verif.CapstoneOrder2.utlru_expired_first_observed_sameclock
#print axioms Verif.CapstoneOrder2.evicting_insert_observed_st
#print axioms Verif.CapstoneOrder2.rr_rnd_run
#print axioms Verif.CapstoneOrder2.rr_victim_observed
#print axioms Verif.CapstoneOrder2.lfuda_counts_observed
#print axioms Verif.CapstoneOrder2.lfuda_age_observed
#print axioms Verif.CapstoneOrder2.lfuda_age_observed_sweep
#print axioms Verif.CapstoneOrder2.lfuda_victim_observed
#print axioms Verif.CapstoneOrder2.Example.logE_accepted
#print axioms Verif.CapstoneOrder2.Example.logE_expired_first
#print axioms Verif.CapstoneOrder2.Example.logH_victim
#print axioms Verif.CapstoneOrder2.Example.logF_victim
#print axioms Verif.CapstoneOrder2.Example.logJ_victim
#print axioms Verif.CapstoneOrder2.Example.logG_counts
#print axioms Verif.CapstoneOrder2.Example.logG_age
