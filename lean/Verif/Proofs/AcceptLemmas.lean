import Verif.Accept
import Verif.ListLemmas
import Verif.Proofs.Refine.TlruLemmas
import Verif.Proofs.Refine.UtMap
/-!
# List-level lemmas for the soundness proof of the acceptor (`Verif/Proofs/AcceptSound.lean`)

`insSorted` / `put` on key-sorted entry lists, `dedup`, `List.mapM` in `Option`, and `ARun` append.
-/
namespace Verif.Accept
open Verif Verif.Proto Verif.Spec

/-- strictly sorted by key -/
abbrev Sorted (l : List Entry) : Prop := l.Pairwise (fun a b => a.key < b.key)

theorem Sorted.nodup {l : List Entry} (h : Sorted l) : (keys l).Nodup := by
  unfold keys List.Nodup
  rw [List.pairwise_map]
  exact h.imp (fun hab => Nat.ne_of_lt hab)

theorem Sorted.delE {l : List Entry} (h : Sorted l) (k : Key) : Sorted (delE l k) :=
  List.Pairwise.filter _ h

theorem mem_insSorted {e x : Entry} : ∀ {l : List Entry}, x ∈ insSorted e l ↔ x = e ∨ x ∈ l
  | [] => by simp [insSorted]
  | y :: ys => by
    unfold insSorted
    by_cases h : e.key ≤ y.key
    · simp [h]
    · simp only [h, if_false, List.mem_cons, mem_insSorted (l := ys)]
      constructor
      · rintro (h1 | h1 | h1)
        · exact Or.inr (Or.inl h1)
        · exact Or.inl h1
        · exact Or.inr (Or.inr h1)
      · rintro (h1 | h1 | h1)
        · exact Or.inr (Or.inl h1)
        · exact Or.inl h1
        · exact Or.inr (Or.inr h1)

theorem length_insSorted (e : Entry) : ∀ (l : List Entry), (insSorted e l).length = l.length + 1
  | [] => rfl
  | y :: ys => by
    unfold insSorted
    by_cases h : e.key ≤ y.key
    · simp [h]
    · simp [h, length_insSorted e ys]

theorem getE_insSorted (e : Entry) (k : Key) :
    ∀ (l : List Entry), getE (insSorted e l) k = if e.key = k then some e else getE l k
  | [] => by simp [insSorted, getE_cons]
  | y :: ys => by
    unfold insSorted
    by_cases h : e.key ≤ y.key
    · simp only [h, if_true]; rw [getE_cons]
    · simp only [h, if_false]
      rw [getE_cons, getE_insSorted e k ys, getE_cons]
      by_cases hy : y.key = k
      · have : ¬ e.key = k := by
          intro he; apply h; rw [he, hy]; exact Nat.le_refl _
        simp [hy, this]
      · simp [hy]

theorem Sorted.insSorted {e : Entry} :
    ∀ {l : List Entry}, Sorted l → (∀ x ∈ l, x.key ≠ e.key) → Sorted (insSorted e l)
  | [], _, _ => by simp [Accept.insSorted]
  | y :: ys, hs, hne => by
    unfold Accept.insSorted
    have hs' := List.pairwise_cons.mp hs
    by_cases h : e.key ≤ y.key
    · simp only [h, if_true]
      refine List.pairwise_cons.mpr ⟨?_, hs⟩
      intro z hz
      have hey : e.key < y.key :=
        Nat.lt_of_le_of_ne h (fun hh => hne y (List.mem_cons_self ..) hh.symm)
      rcases List.mem_cons.mp hz with hz | hz
      · rw [hz]; exact hey
      · exact Nat.lt_trans hey (hs'.1 z hz)
    · simp only [h, if_false]
      refine List.pairwise_cons.mpr ⟨?_, Sorted.insSorted hs'.2 (fun x hx => hne x (List.mem_cons_of_mem _ hx))⟩
      intro z hz
      rcases mem_insSorted.mp hz with hz | hz
      · rw [hz]; exact Nat.lt_of_not_le h
      · exact hs'.1 z hz

theorem getE_put (l : List Entry) (e : Entry) (k : Key) :
    getE (put l e) k = if k = e.key then some e else getE l k := by
  unfold put
  rw [getE_insSorted]
  by_cases h : k = e.key
  · simp [h]
  · have : ¬ e.key = k := fun hh => h hh.symm
    simp only [h, this, if_false]
    exact getE_delE_ne _ h

theorem Sorted.put {l : List Entry} (h : Sorted l) (e : Entry) : Sorted (put l e) := by
  unfold Accept.put
  apply Sorted.insSorted (h.delE _)
  intro x hx
  have := (List.mem_filter.mp hx).2
  simpa using this

theorem length_put_new {l : List Entry} {e : Entry} (h : getE l e.key = none) :
    (put l e).length = l.length + 1 := by
  unfold put
  rw [length_insSorted, delE_eq_self_of_not_mem (getE_eq_none_iff.mp h)]

theorem length_put_old {l : List Entry} (hn : (keys l).Nodup) {e x : Entry} (h : getE l e.key = some x) :
    (put l e).length = l.length := by
  unfold put
  rw [length_insSorted]
  exact length_delE_of_getE hn h

theorem absOf_put (l : List Entry) (e : Entry) :
    (absOf (put l e)).get = (absOf l).get.set e.key (e.val, e.dl) := by
  funext k
  simp only [absOf_get, AMap.set, getE_put]
  by_cases h : k = e.key <;> simp [h]

theorem absOf_isSome_of_mem {l : List Entry} {w : Entry} (h : w ∈ l) : ((absOf l).get w.key).isSome = true := by
  rw [absOf_get, Option.isSome_map, getE_isSome_iff]
  exact List.mem_map_of_mem (f := (·.key)) h

/-! ## `dedup` -/

theorem mem_of_mem_dedup {α : Type} [DecidableEq α] {x : α} : ∀ {l : List α}, x ∈ dedup l → x ∈ l
  | [], h => by simp [dedup] at h
  | y :: ys, h => by
    unfold dedup at h
    by_cases hy : y ∈ ys
    · simp only [hy, if_true] at h
      exact List.mem_cons_of_mem _ (mem_of_mem_dedup h)
    · simp only [hy, if_false] at h
      rcases List.mem_cons.mp h with h | h
      · rw [h]; exact List.mem_cons_self ..
      · exact List.mem_cons_of_mem _ (mem_of_mem_dedup h)

/-! ## `List.mapM` in `Option` -/

theorem mapM_option_mem {α β : Type} {f : α → Option β} :
    ∀ {l : List α} {r : List β}, l.mapM f = some r → ∀ y ∈ r, ∃ x ∈ l, f x = some y
  | [], r, h, y, hy => by
    rw [List.mapM_nil] at h
    cases h
    cases hy
  | a :: l, r, h, y, hy => by
    rw [List.mapM_cons] at h
    cases hfa : f a with
    | none => rw [hfa] at h; cases h
    | some b =>
      cases hl : l.mapM f with
      | none => rw [hfa, hl] at h; cases h
      | some bs =>
        rw [hfa, hl] at h
        cases h
        rcases List.mem_cons.mp hy with hy | hy
        · exact ⟨a, List.mem_cons_self .., by rw [hfa, hy]⟩
        · obtain ⟨x, hx, hfx⟩ := mapM_option_mem hl y hy
          exact ⟨x, List.mem_cons_of_mem _ hx, hfx⟩

/-! ## `ARun` -/

theorem ARun.append {fl : Flavor} {cap : Nat} {a b c : A} {t1 t2 : List (Time × Atom)}
    (h1 : ARun fl cap a t1 b) (h2 : ARun fl cap b t2 c) : ARun fl cap a (t1 ++ t2) c := by
  induction h1 with
  | nil => exact h2
  | cons hs _ ih => exact ARun.cons hs (ih h2)

theorem ARun.single {fl : Flavor} {cap : Nat} {a b : A} {now : Time} {x : Atom}
    (h : AStep fl cap a now x b) : ARun fl cap a [(now, x)] b :=
  ARun.cons h (ARun.nil _)

end Verif.Accept
