import Verif.Proofs.Refine.UtMap
import Verif.Proofs.NonInterference
/-!
# C19 for ut_map / ut_set, the continuation half

`C19_utmap` shows a no-effect call at `t0` does exactly what the per-call purge does.  Here: two states
with the same purged content at `t0` return the same results for every later call (clock readings ≥ t0)
except `size()`, `empty()` and the count of `clean_expired_values()`.
-/
namespace Verif.BisimUt
open Verif

structure Rel (t0 : Time) (s s' : UtMapState) : Prop where
  ttl : s.ttl = s'.ttl
  inv : ∃ t, UtMap.Inv t s
  inv' : ∃ t, UtMap.Inv t s'
  same : UtMap.purge s.tq t0 = UtMap.purge s'.tq t0

def sameOut : Op → Out → Out → Prop
  | .size, _, _ => True
  | .empty, _, _ => True
  | .clean, _, _ => True
  | _, a, b => a = b

/-! ## helpers -/

/-- purging at a later reading factors through purging at an earlier one (no sortedness needed) -/
theorem purge_purge_of_le (l : List Entry) {t0 now : Time} (h : t0 ≤ now) :
    UtMap.purge (UtMap.purge l t0) now = UtMap.purge l now := by
  induction l with
  | nil => rfl
  | cons e l ih =>
    simp only [UtMap.purge] at ih ⊢
    by_cases h0 : e.dl ≤ t0
    · have h1 : e.dl ≤ now := Nat.le_trans h0 h
      simp only [List.dropWhile_cons, h0, h1, decide_true, if_true]
      exact ih
    · simp only [List.dropWhile_cons, h0, decide_false, Bool.false_eq_true, if_false]

/-- related states have the same prologue result at every reading `≥ t0` -/
theorem pre_eq {t0 now : Time} (h : t0 ≤ now) {s s' : UtMapState} (hr : Rel t0 s s') :
    UtMap.core.pre s now = UtMap.core.pre s' now := by
  have hp : UtMap.purge s.tq now = UtMap.purge s'.tq now := by
    rw [← purge_purge_of_le s.tq h, ← purge_purge_of_le s'.tq h, hr.same]
  cases s with
  | mk ttl tq =>
    cases s' with
    | mk ttl' tq' =>
      have ht : ttl = ttl' := hr.ttl
      simp only [UtMap.core] at hp ⊢
      subst ht
      rw [hp]

theorem rel_of_eq {t0 now : Time} {s s' : UtMapState} (he : s = s') (hi : UtMap.Inv now s) :
    Rel t0 s s' := by
  subst he
  exact ⟨rfl, ⟨now, hi⟩, ⟨now, hi⟩, rfl⟩

theorem inv_step (now : Time) (s : UtMapState) (op : Op) (h : UtMap.Inv now s) :
    UtMap.Inv now (UtMap.core.step s now op).1 := by
  have := ((UtMap.refines 0).stepA s now op h).1
  rw [(UtMap.core.stepA_eq s now op).1] at this
  exact this

/-- **C19 (continuation), ut_map / ut_set**: one later call.  `hclock`: the clock reading is not before any
reading under which the two states were built (so that the ttl lists stay sorted). -/
theorem step_utmap (t0 now : Time) (h : t0 ≤ now) (s s' : UtMapState) (op : Op)
    (hr : Rel t0 s s') (hclock : UtMap.Inv now s ∧ UtMap.Inv now s') :
    sameOut op (UtMap.core.step s now op).2 (UtMap.core.step s' now op).2 ∧
    Rel t0 (UtMap.core.step s now op).1 (UtMap.core.step s' now op).1 ∧
    UtMap.Inv now (UtMap.core.step s now op).1 ∧ UtMap.Inv now (UtMap.core.step s' now op).1 := by
  have hi := inv_step now s op hclock.1
  have hi' := inv_step now s' op hclock.2
  have hpre := pre_eq h hr
  refine ⟨?_, ?_, hi, hi'⟩
  · cases op <;> simp only [sameOut, Core.step, hpre] <;> rfl
  · -- the final states
    cases op with
    | insert k v a ttl =>
      exact rel_of_eq (by simp only [Core.step, hpre]) hi
    | insertRange xs a =>
      exact rel_of_eq (by simp only [Core.step, hpre]) hi
    | find k peek =>
      exact rel_of_eq (by simp only [Core.step, hpre]) hi
    | findRange ks peek =>
      exact rel_of_eq (by simp only [Core.step, hpre]) hi
    | findCount k peek =>
      exact rel_of_eq (by simp only [Core.step, hpre]) hi
    | erase k =>
      exact rel_of_eq (by simp only [Core.step, hpre]) hi
    | eraseRange ks =>
      exact rel_of_eq (by simp only [Core.step, hpre]) hi
    | clear =>
      refine rel_of_eq ?_ hi
      have ht := hr.ttl
      simp only [Core.step, UtMap.core, if_true]
      rw [ht]
    | clean =>
      refine rel_of_eq ?_ hi
      exact hpre
    | age => exact hr
    | updateTtl t => exact hr
    | size => exact hr
    | empty => exact hr
    | capacity => exact hr

/-- a state and its purge at `t0` are related -/
theorem rel_of_purge (t0 t : Time) (s : UtMapState) (hinv : UtMap.Inv t s) :
    Rel t0 s { s with tq := UtMap.purge s.tq t0 } := by
  refine ⟨rfl, ⟨t, hinv⟩, ⟨t, ?_⟩, ?_⟩
  · rw [UtMap.purge_eq_filter hinv.sorted]
    exact UtMap.inv_filter hinv _
  · exact (purge_purge_of_le s.tq (Nat.le_refl t0)).symm

end Verif.BisimUt

