import Verif.Proofs.Refine.Tlru
import Verif.Proofs.NonInterference
/-!
# C19 for tlru_cache / utlru_cache, the continuation half: states that differ only in entries that had
already expired answer every later call alike

`C19_tlru` / `C19_utlru` (NonInterference.lean) show that a call with no effect removes at most entries
that had already expired at its clock reading `t0`.  Here: two states whose entries NOT yet expired at
`t0` coincide (same entries in the same recency order, same ttl-structure order) return the same
results for every later call (clock readings ≥ t0), except for `size()`, `empty()` and the count returned
by `clean_expired_values()`, as long as no erase and no update-only insert is addressed to a key that is
resident-but-dead-at-`t0` in either state (the latitude the property grants: such a call may succeed on
one side and fail on the other).

Entries are compared through `vis` (key, value, deadline): the other `Entry` fields are not used by
these two containers, `Tlru.Inv` does not constrain them, and an overwrite keeps them while a creating
insert resets them, so comparing them would make the statement false for states with junk in them.
-/
namespace Verif.Bisim
open Verif

/-- the entries not yet expired at `t0` -/
def aliveE (t0 : Time) (l : List Entry) : List Entry := l.filter (fun e => decide (t0 < e.dl))
def aliveQ (t0 : Time) (q : List (Time × Key)) : List (Time × Key) := q.filter (fun x => decide (t0 < x.1))

/-- is `k` resident in `s` with a deadline that had passed at `t0`? -/
def deadKey (t0 : Time) (s : TlruState) (k : Key) : Bool :=
  match getE s.ents k with
  | some e => decide (e.dl ≤ t0)
  | none => false

/-- the fields of an entry that tlru_cache / utlru_cache use -/
def vis (e : Entry) : Key × Val × Time := (e.key, e.val, e.dl)

structure Rel (cap : Nat) (t0 : Time) (s s' : TlruState) : Prop where
  inv : Tlru.Inv cap s
  inv' : Tlru.Inv cap s'
  ttl : s.ttl = s'.ttl
  ents : (aliveE t0 s.ents).map vis = (aliveE t0 s'.ents).map vis
  tq : aliveQ t0 s.tq = aliveQ t0 s'.tq

/-- calls whose result the property lets differ: an erase or update-only insert addressed to a key that
is dead-at-`t0` on either side -/
def touchy (t0 : Time) (s s' : TlruState) : Op → Bool
  | .erase k => deadKey t0 s k || deadKey t0 s' k
  | .eraseRange ks => ks.any (fun k => deadKey t0 s k || deadKey t0 s' k)
  | .insert k _ .update _ => deadKey t0 s k || deadKey t0 s' k
  | .insertRange xs .update => xs.any (fun x => deadKey t0 s x.1 || deadKey t0 s' x.1)
  | _ => false

/-- outputs equal, except those that count unreaped entries -/
def sameOut : Op → Out → Out → Prop
  | .size, _, _ => True
  | .empty, _, _ => True
  | .clean, _, _ => True
  | _, a, b => a = b

/-! ## the view: what is left of a state when the entries dead at `t0` are ignored -/

/-- the visible part of the entries alive at `t0`, in recency order -/
def vE (t0 : Time) (l : List Entry) : List (Key × Val × Time) := (aliveE t0 l).map vis

/-- lookup in the view -/
def vfind (E : List (Key × Val × Time)) (k : Key) : Option (Key × Val × Time) :=
  E.find? (fun x => decide (x.1 = k))

/-- `delE` on views -/
def vdel (E : List (Key × Val × Time)) (k : Key) : List (Key × Val × Time) :=
  E.filter (fun x => !decide (x.1 = k))

theorem Rel.vE_eq {cap : Nat} {t0 : Time} {s s' : TlruState} (h : Rel cap t0 s s') :
    vE t0 s.ents = vE t0 s'.ents := h.ents

theorem Rel.symm {cap : Nat} {t0 : Time} {s s' : TlruState} (h : Rel cap t0 s s') : Rel cap t0 s' s :=
  ⟨h.inv', h.inv, h.ttl.symm, h.ents.symm, h.tq.symm⟩

theorem vE_cons (t0 : Time) (e : Entry) (l : List Entry) :
    vE t0 (e :: l) = if t0 < e.dl then vis e :: vE t0 l else vE t0 l := by
  simp only [vE, aliveE, List.filter_cons]
  by_cases h : t0 < e.dl <;> simp [h]

theorem vE_append (t0 : Time) (l₁ l₂ : List Entry) : vE t0 (l₁ ++ l₂) = vE t0 l₁ ++ vE t0 l₂ := by
  simp [vE, aliveE]

theorem vE_snoc (t0 : Time) (l : List Entry) (e : Entry) :
    vE t0 (l ++ [e]) = vE t0 l ++ (if t0 < e.dl then [vis e] else []) := by
  rw [vE_append]
  congr 1
  rw [vE_cons]
  rfl

theorem vE_delE (t0 : Time) (l : List Entry) (k : Key) : vE t0 (delE l k) = vdel (vE t0 l) k := by
  induction l with
  | nil => rfl
  | cons e l ih =>
    simp only [delE, List.filter_cons] at ih ⊢
    by_cases hk : e.key = k
    · simp only [hk, decide_true, Bool.not_true, Bool.false_eq_true, if_false]
      rw [ih, vE_cons]
      by_cases hd : t0 < e.dl
      · simp [hd, vdel, vis, hk]
      · simp [hd]
    · simp only [hk, decide_false, Bool.not_false, if_true]
      rw [vE_cons, vE_cons]
      by_cases hd : t0 < e.dl
      · simp only [hd, if_true, vdel, List.filter_cons, vis, hk, decide_false, Bool.not_false]
        rw [ih]; rfl
      · simp only [hd, if_false]; exact ih

theorem vE_length_le (t0 : Time) (l : List Entry) : (vE t0 l).length ≤ l.length := by
  simp only [vE, List.length_map, aliveE]; exact List.length_filter_le _ _

/-- no dead entry: the view is everything -/
theorem aliveE_eq_self {t0 : Time} {l : List Entry} (h : ∀ e ∈ l, t0 < e.dl) : aliveE t0 l = l := by
  unfold aliveE
  rw [List.filter_eq_self]
  intro e he
  simp [h e he]

/-- a dead entry: the view is strictly shorter -/
theorem vE_length_lt {t0 : Time} {l : List Entry} {e : Entry} (he : e ∈ l) (hd : e.dl ≤ t0) :
    (vE t0 l).length < l.length := by
  simp only [vE, List.length_map, aliveE]
  rw [List.length_filter_lt_length_iff_exists]
  exact ⟨e, he, by simp [Nat.not_lt.mpr hd]⟩

theorem getE_of_mem {l : List Entry} (hn : (keys l).Nodup) {e : Entry} (he : e ∈ l) :
    getE l e.key = some e := by
  induction l with
  | nil => cases he
  | cons a t ih =>
    simp only [keys, List.map_cons, List.nodup_cons] at hn
    rw [getE_cons]
    rcases List.mem_cons.mp he with rfl | he
    · simp
    · have : a.key ≠ e.key := fun h => hn.1 (h ▸ List.mem_map_of_mem (f := (·.key)) he)
      rw [if_neg this]
      exact ih hn.2 he

theorem vfind_alive {t0 : Time} {l : List Entry} {k : Key} {e : Entry} (hg : getE l k = some e)
    (hd : t0 < e.dl) : vfind (vE t0 l) k = some (vis e) := by
  induction l with
  | nil => cases hg
  | cons a t ih =>
    rw [getE_cons] at hg
    rw [vE_cons]
    by_cases hk : a.key = k
    · rw [if_pos hk] at hg
      cases hg
      simp [hd, vfind, vis, hk]
    · rw [if_neg hk] at hg
      by_cases ha : t0 < a.dl
      · simp only [ha, if_true, vfind, List.find?_cons, vis, hk, decide_false]
        exact ih hg
      · simp only [ha, if_false]; exact ih hg

theorem vfind_some {t0 : Time} {l : List Entry} {k : Key} {x : Key × Val × Time}
    (h : vfind (vE t0 l) k = some x) : ∃ e ∈ l, e.key = k ∧ t0 < e.dl ∧ vis e = x := by
  have hm := List.mem_of_find?_eq_some h
  have hp := List.find?_some h
  simp only [vE, aliveE, List.mem_map, List.mem_filter, decide_eq_true_eq] at hm hp
  obtain ⟨e, ⟨he, hd⟩, rfl⟩ := hm
  exact ⟨e, he, hp, hd, rfl⟩

theorem vfind_dead {t0 : Time} {l : List Entry} (hn : (keys l).Nodup) {k : Key} {e : Entry}
    (hg : getE l k = some e) (hd : e.dl ≤ t0) : vfind (vE t0 l) k = none := by
  cases h : vfind (vE t0 l) k with
  | none => rfl
  | some x =>
    obtain ⟨e', he', hk, hd', _⟩ := vfind_some h
    have := getE_of_mem hn he'
    rw [hk, hg] at this
    cases this
    exact absurd hd' (Nat.not_lt.mpr hd)

theorem vfind_absent {t0 : Time} {l : List Entry} {k : Key} (hg : getE l k = none) :
    vfind (vE t0 l) k = none := by
  cases h : vfind (vE t0 l) k with
  | none => rfl
  | some x =>
    obtain ⟨e', he', hk, _, _⟩ := vfind_some h
    have : k ∈ keys l := hk ▸ List.mem_map_of_mem (f := (·.key)) he'
    exact absurd this (getE_eq_none_iff.mp hg)

theorem vdel_of_vfind_none {E : List (Key × Val × Time)} {k : Key} (h : vfind E k = none) :
    vdel E k = E := by
  unfold vdel
  rw [List.filter_eq_self]
  intro x hx
  have := List.find?_eq_none.mp h x hx
  simpa using this

theorem vfind_key {E : List (Key × Val × Time)} {k : Key} {x : Key × Val × Time}
    (h : vfind E k = some x) : x.1 = k := by
  simpa using List.find?_some h

theorem deadKey_eq_true {t0 : Time} {s : TlruState} {k : Key} :
    deadKey t0 s k = true ↔ ∃ e, getE s.ents k = some e ∧ e.dl ≤ t0 := by
  unfold deadKey
  cases getE s.ents k <;> simp

/-! ## the ttl structure -/

theorem aliveQ_unfile (t0 : Time) (q : List (Time × Key)) (k : Key) :
    aliveQ t0 (Tlru.unfile q k) = Tlru.unfile (aliveQ t0 q) k := by
  simp only [aliveQ, Tlru.unfile, List.filter_filter]
  apply List.filter_congr
  intro x _
  exact Bool.and_comm _ _

/-- filing on views -/
def vfile (t0 : Time) (Q : List (Time × Key)) (d : Time) (k : Key) : List (Time × Key) :=
  if t0 < d then Tlru.fileDl Q d k else Q

theorem aliveQ_fileDl (t0 : Time) (q : List (Time × Key)) (d : Time) (k : Key) :
    aliveQ t0 (Tlru.fileDl q d k) = vfile t0 (aliveQ t0 q) d k := by
  unfold vfile
  induction q with
  | nil =>
    by_cases hd : t0 < d <;> simp [Tlru.fileDl, aliveQ, hd]
  | cons x xs ih =>
    simp only [Tlru.fileDl]
    by_cases hx : x.1 ≤ d
    · simp only [hx, if_true]
      by_cases ha : t0 < x.1
      · have h1 : aliveQ t0 (x :: Tlru.fileDl xs d k) = x :: aliveQ t0 (Tlru.fileDl xs d k) := by
          simp [aliveQ, ha]
        have h2 : aliveQ t0 (x :: xs) = x :: aliveQ t0 xs := by simp [aliveQ, ha]
        rw [h1, h2, ih]
        by_cases hd : t0 < d
        · simp [hd, Tlru.fileDl, hx]
        · simp [hd]
      · have h1 : aliveQ t0 (x :: Tlru.fileDl xs d k) = aliveQ t0 (Tlru.fileDl xs d k) := by
          simp [aliveQ, ha]
        have h2 : aliveQ t0 (x :: xs) = aliveQ t0 xs := by simp [aliveQ, ha]
        rw [h1, h2, ih]
    · simp only [hx, if_false]
      have hdx : d < x.1 := Nat.lt_of_not_le hx
      by_cases hd : t0 < d
      · have ha : t0 < x.1 := Nat.lt_trans hd hdx
        have h2 : aliveQ t0 (x :: xs) = x :: aliveQ t0 xs := by simp [aliveQ, ha]
        rw [h2]
        simp only [hd, if_true, Tlru.fileDl, hx, if_false]
        simp [aliveQ, hd, ha]
      · simp only [hd, if_false]
        simp [aliveQ, hd]

/-- no alive entry under `k`: nothing alive is filed under `k` -/
theorem unfile_of_vfind_none {cap : Nat} {t0 : Time} {s : TlruState} (h : Tlru.Inv cap s) {k : Key}
    (hv : vfind (vE t0 s.ents) k = none) : Tlru.unfile (aliveQ t0 s.tq) k = aliveQ t0 s.tq := by
  unfold Tlru.unfile
  rw [List.filter_eq_self]
  rintro ⟨d, k'⟩ hx
  simp only [aliveQ, List.mem_filter, decide_eq_true_eq] at hx
  obtain ⟨e, he, hd⟩ := (h.tq_iff d k').mp hx.1
  by_cases hk : k' = k
  · subst hk
    rw [vfind_alive he (by rw [hd]; exact hx.2)] at hv
    cases hv
  · simp [hk]

/-- no dead entry: nothing dead is filed -/
theorem aliveQ_eq_self {cap : Nat} {t0 : Time} {s : TlruState} (h : Tlru.Inv cap s)
    (hd : ∀ e ∈ s.ents, t0 < e.dl) : aliveQ t0 s.tq = s.tq := by
  unfold aliveQ
  rw [List.filter_eq_self]
  rintro ⟨d, k⟩ hx
  obtain ⟨e, he, hed⟩ := (h.tq_iff d k).mp hx
  have := hd e (getE_mem he)
  simp only [decide_eq_true_eq]
  rw [← hed]; exact this

/-! ## removing a key -/

theorem removeKey_vE (t0 : Time) (s : TlruState) (k : Key) :
    vE t0 (Tlru.removeKey s k).ents = vdel (vE t0 s.ents) k := vE_delE t0 s.ents k

theorem removeKey_vQ (t0 : Time) (s : TlruState) (k : Key) :
    aliveQ t0 (Tlru.removeKey s k).tq = Tlru.unfile (aliveQ t0 s.tq) k := aliveQ_unfile t0 s.tq k

/-- removing a key with no alive entry (dead or absent) leaves the view alone -/
theorem removeKey_view {cap : Nat} {t0 : Time} {s : TlruState} (h : Tlru.Inv cap s) {k : Key}
    (hv : vfind (vE t0 s.ents) k = none) :
    vE t0 (Tlru.removeKey s k).ents = vE t0 s.ents ∧
      aliveQ t0 (Tlru.removeKey s k).tq = aliveQ t0 s.tq := by
  rw [removeKey_vE, removeKey_vQ, vdel_of_vfind_none hv, unfile_of_vfind_none h hv]
  exact ⟨rfl, rfl⟩

@[simp] theorem removeKey_ttl (s : TlruState) (k : Key) : (Tlru.removeKey s k).ttl = s.ttl := rfl
@[simp] theorem removeKey_cap (s : TlruState) (k : Key) : (Tlru.removeKey s k).cap = s.cap := rfl

/-- a state and what a no-effect call at `t0` leaves of it are related (links with `C19_tlru`) -/
theorem rel_of_removed (cap : Nat) (t0 : Time) (s : TlruState) (hinv : Tlru.Inv cap s) (ks : List Key)
    (hk : ∀ k ∈ ks, ∃ e, getE s.ents k = some e ∧ e.dl ≤ t0) :
    Rel cap t0 s (ks.foldl Tlru.removeKey s) := by
  suffices H : ∀ (ks : List Key) (s' : TlruState), Rel cap t0 s s' →
      (∀ k ∈ ks, ∀ e, getE s'.ents k = some e → e.dl ≤ t0) → Rel cap t0 s (ks.foldl Tlru.removeKey s') by
    refine H ks s ⟨hinv, hinv, rfl, rfl, rfl⟩ ?_
    intro k hks e he
    obtain ⟨e', he', hd⟩ := hk k hks
    rw [he] at he'; cases he'; exact hd
  intro ks
  induction ks with
  | nil => intro s' hr _; exact hr
  | cons k ks ih =>
    intro s' hr hd
    simp only [List.foldl_cons]
    apply ih
    · cases hg : getE s'.ents k with
      | none =>
        have : Tlru.removeKey s' k = s' := by
          have h1 : delE s'.ents k = s'.ents := delE_eq_self_of_not_mem (getE_eq_none_iff.mp hg)
          have h2 : Tlru.unfile s'.tq k = s'.tq := by
            unfold Tlru.unfile
            rw [List.filter_eq_self]
            rintro ⟨d, k'⟩ hx
            obtain ⟨e, he, _⟩ := (hr.inv'.tq_iff d k').mp hx
            by_cases hkk : k' = k
            · subst hkk; rw [hg] at he; cases he
            · simp [hkk]
          simp only [Tlru.removeKey, h1, h2]
        rw [this]; exact hr
      | some e =>
        have hv := vfind_dead hr.inv'.nodup hg (hd k (List.mem_cons_self ..) e hg)
        obtain ⟨v1, v2⟩ := removeKey_view hr.inv' hv
        exact ⟨hr.inv, (Tlru.removeKey_spec hr.inv' hg).1, hr.ttl, hr.ents.trans v1.symm,
          hr.tq.trans v2.symm⟩
    · intro k' hk' e he
      exact hd k' (List.mem_cons_of_mem _ hk') e (Tlru.getE_removeKey he)

/-! ## lookups -/

/-- what a lookup reports, from the view -/
def fres (now : Time) : Option (Key × Val × Time) → Option (Val × Nat)
  | some x => if now < x.2.2 then some (x.2.1, 0) else none
  | none => none

def fE (now : Time) (peek : Bool) (k : Key) (E : List (Key × Val × Time)) : List (Key × Val × Time) :=
  match vfind E k with
  | some x => if now < x.2.2 then (if peek then E else vdel E k ++ [x]) else vdel E k
  | none => E

def fQ (now : Time) (k : Key) (E : List (Key × Val × Time)) (Q : List (Time × Key)) : List (Time × Key) :=
  match vfind E k with
  | some x => if now < x.2.2 then Q else Tlru.unfile Q k
  | none => Q

theorem find1_ttl (s : TlruState) (now : Time) (k : Key) (peek : Bool) :
    (Tlru.find1 s now k peek).1.ttl = s.ttl := by
  unfold Tlru.find1
  cases getE s.ents k with
  | none => rfl
  | some e =>
    simp only
    by_cases hd : now < e.dl
    · cases peek <;> simp [hd]
    · simp [hd]

theorem find1_view {cap : Nat} {t0 now : Time} (h : t0 ≤ now) {s : TlruState} (hinv : Tlru.Inv cap s)
    (k : Key) (peek : Bool) :
    (Tlru.find1 s now k peek).2 = fres now (vfind (vE t0 s.ents) k) ∧
    vE t0 (Tlru.find1 s now k peek).1.ents = fE now peek k (vE t0 s.ents) ∧
    aliveQ t0 (Tlru.find1 s now k peek).1.tq = fQ now k (vE t0 s.ents) (aliveQ t0 s.tq) := by
  cases hg : getE s.ents k with
  | none =>
    have hv : vfind (vE t0 s.ents) k = none := vfind_absent hg
    simp only [Tlru.find1, hg, fres, fE, fQ, hv, and_self]
  | some e =>
    by_cases hd : t0 < e.dl
    · have hv : vfind (vE t0 s.ents) k = some (vis e) := vfind_alive hg hd
      by_cases hn : now < e.dl
      · cases peek with
        | true => simp [Tlru.find1, hg, fres, fE, fQ, hv, hn, vis]
        | false =>
          simp only [Tlru.find1, hg, fres, fE, fQ, hv, hn, vis, if_true, Bool.false_eq_true, if_false,
            true_and]
          rw [vE_snoc, vE_delE, if_pos hd]
          exact ⟨rfl, trivial⟩
      · simp only [Tlru.find1, hg, fres, fE, fQ, hv, hn, vis, if_false, true_and]
        exact ⟨removeKey_vE t0 s k, removeKey_vQ t0 s k⟩
    · have hle : e.dl ≤ t0 := Nat.le_of_not_lt hd
      have hv : vfind (vE t0 s.ents) k = none := vfind_dead hinv.nodup hg hle
      have hn : ¬ now < e.dl := Nat.not_lt.mpr (Nat.le_trans hle h)
      simp only [Tlru.find1, hg, fres, fE, fQ, hv, hn, if_false, true_and]
      exact removeKey_view hinv hv

/-- related states answer a lookup alike and stay related -/
theorem find1_rel {cap : Nat} {t0 now : Time} (h : t0 ≤ now) {s s' : TlruState} (hr : Rel cap t0 s s')
    (k : Key) (peek : Bool) :
    (Tlru.find1 s now k peek).2 = (Tlru.find1 s' now k peek).2 ∧
      Rel cap t0 (Tlru.find1 s now k peek).1 (Tlru.find1 s' now k peek).1 := by
  obtain ⟨a1, a2, a3⟩ := find1_view h hr.inv k peek
  obtain ⟨b1, b2, b3⟩ := find1_view h hr.inv' k peek
  refine ⟨?_, (Tlru.find1_spec hr.inv now k peek).1, (Tlru.find1_spec hr.inv' now k peek).1, ?_, ?_, ?_⟩
  · rw [a1, b1, hr.vE_eq]
  · rw [find1_ttl, find1_ttl]; exact hr.ttl
  · show vE t0 _ = vE t0 _
    rw [a2, b2, hr.vE_eq]
  · rw [a3, b3, hr.vE_eq, hr.tq]

/-! ## erase -/

theorem erase1_ttl (s : TlruState) (k : Key) : (Tlru.erase1 s k).1.ttl = s.ttl := by
  unfold Tlru.erase1
  cases getE s.ents k <;> rfl

theorem erase1_view {cap : Nat} {t0 : Time} {s : TlruState} (hinv : Tlru.Inv cap s) (k : Key)
    (hk : deadKey t0 s k = false) :
    (Tlru.erase1 s k).2 = (vfind (vE t0 s.ents) k).isSome ∧
    vE t0 (Tlru.erase1 s k).1.ents = vdel (vE t0 s.ents) k ∧
    aliveQ t0 (Tlru.erase1 s k).1.tq = Tlru.unfile (aliveQ t0 s.tq) k := by
  cases hg : getE s.ents k with
  | none =>
    have hv : vfind (vE t0 s.ents) k = none := vfind_absent hg
    simp only [Tlru.erase1, hg, hv, Option.isSome_none, true_and]
    rw [vdel_of_vfind_none hv, unfile_of_vfind_none hinv hv]
    exact ⟨rfl, rfl⟩
  | some e =>
    have hd : t0 < e.dl := by
      simp only [deadKey, hg, decide_eq_false_iff_not] at hk
      exact Nat.lt_of_not_le hk
    have hv : vfind (vE t0 s.ents) k = some (vis e) := vfind_alive hg hd
    simp only [Tlru.erase1, hg, hv, Option.isSome_some, true_and]
    exact ⟨removeKey_vE t0 s k, removeKey_vQ t0 s k⟩

theorem erase1_rel {cap : Nat} {t0 : Time} {s s' : TlruState} (hr : Rel cap t0 s s') (k : Key)
    (hk : deadKey t0 s k = false) (hk' : deadKey t0 s' k = false) :
    (Tlru.erase1 s k).2 = (Tlru.erase1 s' k).2 ∧ Rel cap t0 (Tlru.erase1 s k).1 (Tlru.erase1 s' k).1 := by
  obtain ⟨a1, a2, a3⟩ := erase1_view hr.inv k hk
  obtain ⟨b1, b2, b3⟩ := erase1_view hr.inv' k hk'
  refine ⟨?_, (Tlru.erase1_spec hr.inv 0 k).1, (Tlru.erase1_spec hr.inv' 0 k).1, ?_, ?_, ?_⟩
  · rw [a1, b1, hr.vE_eq]
  · rw [erase1_ttl, erase1_ttl]; exact hr.ttl
  · show vE t0 _ = vE t0 _
    rw [a2, b2, hr.vE_eq]
  · rw [a3, b3, hr.tq]

/-- erasing creates no dead key -/
theorem deadKey_erase1 {t0 : Time} {s : TlruState} {k k' : Key} (h : deadKey t0 s k' = false) :
    deadKey t0 (Tlru.erase1 s k).1 k' = false := by
  cases hd : deadKey t0 (Tlru.erase1 s k).1 k' with
  | false => rfl
  | true =>
    obtain ⟨e, he, hle⟩ := deadKey_eq_true.mp hd
    have : getE s.ents k' = some e := by
      unfold Tlru.erase1 at he
      cases hg : getE s.ents k with
      | none => simpa [hg] using he
      | some e0 => rw [hg] at he; exact Tlru.getE_removeKey he
    rw [deadKey_eq_true.mpr ⟨e, this, hle⟩] at h
    cases h

/-! ## clean -/

theorem foldl_removeKey_fields (ks : List Key) (s : TlruState) :
    (ks.foldl Tlru.removeKey s).ents = s.ents.filter (fun e => !decide (e.key ∈ ks)) ∧
    (ks.foldl Tlru.removeKey s).tq = s.tq.filter (fun x => !decide (x.2 ∈ ks)) ∧
    (ks.foldl Tlru.removeKey s).ttl = s.ttl := by
  induction ks generalizing s with
  | nil =>
    have h1 : ∀ {α : Type} (l : List α), l.filter (fun _ => true) = l := fun l => by
      rw [List.filter_eq_self]; intros; rfl
    simp [h1]
  | cons k ks ih =>
    simp only [List.foldl_cons]
    obtain ⟨i1, i2, i3⟩ := ih (Tlru.removeKey s k)
    refine ⟨?_, ?_, i3⟩
    · rw [i1]
      simp only [Tlru.removeKey, delE, List.filter_filter]
      apply List.filter_congr
      intro e _
      by_cases h1 : e.key = k <;> simp [h1]
    · rw [i2]
      simp only [Tlru.removeKey, Tlru.unfile, List.filter_filter]
      apply List.filter_congr
      intro x _
      by_cases h1 : x.2 = k <;> simp [h1]

theorem clean_view {cap : Nat} (t0 : Time) {now : Time} {s : TlruState} (hinv : Tlru.Inv cap s) :
    vE t0 (Tlru.clean s now).1.ents = (vE t0 s.ents).filter (fun x => decide (now < x.2.2)) ∧
    aliveQ t0 (Tlru.clean s now).1.tq = (aliveQ t0 s.tq).filter (fun x => decide (now < x.1)) ∧
    (Tlru.clean s now).1.ttl = s.ttl := by
  have hmem : ∀ k, k ∈ Tlru.cleanLoop now s.tq ↔ ∃ e, getE s.ents k = some e ∧ e.dl ≤ now := by
    intro k
    rw [Tlru.mem_cleanLoop hinv.sorted]
    constructor
    · rintro ⟨d, hm, hd⟩
      obtain ⟨e, he, hed⟩ := (hinv.tq_iff d k).mp hm
      exact ⟨e, he, hed ▸ hd⟩
    · rintro ⟨e, he, hd⟩
      exact ⟨e.dl, (hinv.tq_iff e.dl k).mpr ⟨e, he, rfl⟩, hd⟩
  obtain ⟨f1, f2, f3⟩ := foldl_removeKey_fields (Tlru.cleanLoop now s.tq) s
  simp only [Tlru.clean]
  refine ⟨?_, ?_, f3⟩
  · rw [f1]
    simp only [vE, aliveE, List.filter_map, List.filter_filter]
    congr 1
    apply List.filter_congr
    intro e he
    have hg := getE_of_mem hinv.nodup he
    by_cases hd : e.dl ≤ now
    · have : e.key ∈ Tlru.cleanLoop now s.tq := (hmem _).mpr ⟨e, hg, hd⟩
      simp [this, Nat.not_lt.mpr hd, vis]
    · have : e.key ∉ Tlru.cleanLoop now s.tq := by
        intro hin
        obtain ⟨e', he', hd'⟩ := (hmem _).mp hin
        rw [hg] at he'; cases he'; exact hd hd'
      simp [this, Nat.lt_of_not_le hd, vis, Bool.and_comm]
  · rw [f2]
    simp only [aliveQ, List.filter_filter]
    apply List.filter_congr
    rintro ⟨d, k⟩ hx
    obtain ⟨e, hg, hed⟩ := (hinv.tq_iff d k).mp hx
    by_cases hd : d ≤ now
    · have : k ∈ Tlru.cleanLoop now s.tq := (hmem _).mpr ⟨e, hg, hed ▸ hd⟩
      simp [this, Nat.not_lt.mpr hd]
    · have : k ∉ Tlru.cleanLoop now s.tq := by
        intro hin
        obtain ⟨e', he', hd'⟩ := (hmem _).mp hin
        rw [hg] at he'; cases he'; exact hd (hed ▸ hd')
      simp [this, Nat.lt_of_not_le hd, Bool.and_comm]

theorem clean_rel {cap : Nat} {t0 : Time} (now : Time) {s s' : TlruState} (hr : Rel cap t0 s s') :
    Rel cap t0 (Tlru.clean s now).1 (Tlru.clean s' now).1 := by
  obtain ⟨a1, a2, a3⟩ := clean_view t0 (now := now) hr.inv
  obtain ⟨b1, b2, b3⟩ := clean_view t0 (now := now) hr.inv'
  refine ⟨(Tlru.clean_spec hr.inv now).1, (Tlru.clean_spec hr.inv' now).1, ?_, ?_, ?_⟩
  · rw [a3, b3]; exact hr.ttl
  · show vE t0 _ = vE t0 _
    rw [a1, b1, hr.vE_eq]
  · rw [a2, b2, hr.tq]

/-! ## insert -/

/-- the write that ends a creating insert -/
def wr (s1 : TlruState) (k : Key) (v : Val) (d : Time) : TlruState :=
  { s1 with ents := s1.ents ++ [{ key := k, val := v, dl := d }], tq := Tlru.fileDl s1.tq d k }

/-- the state a creating insert writes into: after `do_prune` if the cache is full -/
def pre (s : TlruState) (now : Time) : TlruState :=
  if s.ents.length ≥ s.cap then Tlru.prune s now else s

/-- appending the written entry to a view -/
def vpush (t0 : Time) (E : List (Key × Val × Time)) (k : Key) (v : Val) (d : Time) :
    List (Key × Val × Time) :=
  E ++ if t0 < d then [(k, v, d)] else []

theorem wr_vE (t0 : Time) (s1 : TlruState) (k : Key) (v : Val) (d : Time) :
    vE t0 (wr s1 k v d).ents = vpush t0 (vE t0 s1.ents) k v d := by
  simp only [wr, vE_snoc, vpush, vis]

theorem wr_vQ (t0 : Time) (s1 : TlruState) (k : Key) (v : Val) (d : Time) :
    aliveQ t0 (wr s1 k v d).tq = vfile t0 (aliveQ t0 s1.tq) d k := aliveQ_fileDl t0 s1.tq d k

theorem update_vE (t0 : Time) (s : TlruState) (e : Entry) (v : Val) (d : Time) :
    vE t0 (Tlru.update s e v d).ents = vpush t0 (vdel (vE t0 s.ents) e.key) e.key v d := by
  simp only [Tlru.update, vE_snoc, vE_delE, vpush, vis]

theorem update_vQ (t0 : Time) (s : TlruState) (e : Entry) (v : Val) (d : Time) :
    aliveQ t0 (Tlru.update s e v d).tq = vfile t0 (Tlru.unfile (aliveQ t0 s.tq) e.key) d e.key := by
  simp only [Tlru.update, aliveQ_fileDl, aliveQ_unfile]

theorem insert1_some {s : TlruState} {k : Key} {e : Entry} (hg : getE s.ents k = some e) (now : Time)
    (v : Val) (a : Allow) (d : Time) :
    Tlru.insert1 s now k v a d =
      if (a.upd || (a.ins && decide (e.dl ≤ now))) = true then (Tlru.update s e v d, true) else (s, false) := by
  simp only [Tlru.insert1, hg]
  by_cases hd : e.dl ≤ now <;> cases a <;> simp [Allow.upd, Allow.ins, hd]

theorem insert1_none {s : TlruState} {k : Key} (hg : getE s.ents k = none) (now : Time)
    (v : Val) (a : Allow) (d : Time) :
    Tlru.insert1 s now k v a d = if a.ins = true then (wr (pre s now) k v d, true) else (s, false) := by
  simp only [Tlru.insert1, hg, pre, wr]

theorem prune_ttl (s : TlruState) (now : Time) : (Tlru.prune s now).ttl = s.ttl := by
  unfold Tlru.prune
  cases s.tq with
  | nil => rfl
  | cons x _ =>
    obtain ⟨d, k⟩ := x
    simp only
    split
    · rfl
    · cases s.ents <;> rfl

theorem insert1_ttl (s : TlruState) (now : Time) (k : Key) (v : Val) (a : Allow) (d : Time) :
    (Tlru.insert1 s now k v a d).1.ttl = s.ttl := by
  cases hg : getE s.ents k with
  | some e =>
    rw [insert1_some hg]
    split <;> rfl
  | none =>
    rw [insert1_none hg]
    split
    · show (pre s now).ttl = s.ttl
      unfold pre
      split
      · exact prune_ttl s now
      · rfl
    · rfl

/-- with a dead resident, `do_prune` evicts a dead entry: the view does not change -/
theorem prune_dead {cap : Nat} {t0 now : Time} (h : t0 ≤ now) {s : TlruState} (hinv : Tlru.Inv cap s)
    {e : Entry} (he : e ∈ s.ents) (hd : e.dl ≤ t0) :
    vE t0 (Tlru.prune s now).ents = vE t0 s.ents ∧ aliveQ t0 (Tlru.prune s now).tq = aliveQ t0 s.tq := by
  have hm : (e.dl, e.key) ∈ s.tq := (hinv.tq_iff e.dl e.key).mpr ⟨e, getE_of_mem hinv.nodup he, rfl⟩
  have hs := hinv.sorted
  have hiff := hinv.tq_iff
  have key : ∃ k0, Tlru.prune s now = Tlru.removeKey s k0 ∧ vfind (vE t0 s.ents) k0 = none := by
    cases htq : s.tq with
    | nil => rw [htq] at hm; cases hm
    | cons x rest =>
      obtain ⟨d0, k0⟩ := x
      rw [htq] at hm hs
      rw [List.pairwise_cons] at hs
      have hd0 : d0 ≤ e.dl := by
        rcases List.mem_cons.mp hm with heq | hm'
        · simp only [Prod.mk.injEq] at heq; rw [heq.1]; exact Nat.le_refl _
        · exact hs.1 _ hm'
      have hd0t : d0 ≤ t0 := Nat.le_trans hd0 hd
      have hd0n : d0 ≤ now := Nat.le_trans hd0t h
      have hp : Tlru.prune s now = Tlru.removeKey s k0 := by
        unfold Tlru.prune
        rw [htq]
        simp only [hd0n, if_true]
      obtain ⟨e0, hg0, hdl0⟩ := (hiff d0 k0).mp (by rw [htq]; exact List.mem_cons_self ..)
      exact ⟨k0, hp, vfind_dead hinv.nodup hg0 (by rw [hdl0]; exact hd0t)⟩
  obtain ⟨k0, hp, hv⟩ := key
  rw [hp]
  exact removeKey_view hinv hv

/-- equal ttl structures and equal visible entries: `do_prune` evicts the same key -/
theorem prune_same {s s' : TlruState} (now : Time) (hq : s.tq = s'.tq)
    (hE : s.ents.map vis = s'.ents.map vis) :
    (Tlru.prune s now = s ∧ Tlru.prune s' now = s') ∨
      ∃ w, Tlru.prune s now = Tlru.removeKey s w ∧ Tlru.prune s' now = Tlru.removeKey s' w := by
  unfold Tlru.prune
  rw [← hq]
  cases s.tq with
  | nil => exact Or.inl ⟨rfl, rfl⟩
  | cons x rest =>
    obtain ⟨d, k⟩ := x
    simp only
    by_cases hd : d ≤ now
    · simp only [hd, if_true]; exact Or.inr ⟨k, rfl, rfl⟩
    · simp only [hd, if_false]
      cases h1 : s.ents with
      | nil =>
        rw [h1] at hE
        have h2 : s'.ents = [] := by simpa using hE.symm
        rw [h2]; exact Or.inl ⟨rfl, rfl⟩
      | cons e t =>
        rw [h1] at hE
        cases h2 : s'.ents with
        | nil => rw [h2] at hE; simp at hE
        | cons e' t' =>
          rw [h2] at hE
          simp only [List.map_cons, List.cons.injEq] at hE
          have hk : e.key = e'.key := congrArg (·.1) hE.1
          simp only
          rw [hk]; exact Or.inr ⟨e'.key, rfl, rfl⟩

theorem pre_view_of_dead {cap : Nat} {t0 now : Time} (h : t0 ≤ now) {s : TlruState}
    (hinv : Tlru.Inv cap s) (hfd : s.ents.length ≥ s.cap → ∃ e ∈ s.ents, e.dl ≤ t0) :
    vE t0 (pre s now).ents = vE t0 s.ents ∧ aliveQ t0 (pre s now).tq = aliveQ t0 s.tq := by
  unfold pre
  by_cases hf : s.ents.length ≥ s.cap
  · rw [if_pos hf]
    obtain ⟨e, he, hd⟩ := hfd hf
    exact prune_dead h hinv he hd
  · rw [if_neg hf]; exact ⟨rfl, rfl⟩

/-- if one side has a dead resident and the other side is full, the other side has one too -/
theorem full_has_dead {cap : Nat} {t0 : Time} {s s' : TlruState} (hr : Rel cap t0 s s')
    (hd : ∃ e ∈ s.ents, e.dl ≤ t0) (hfull : s'.ents.length ≥ s'.cap) : ∃ e ∈ s'.ents, e.dl ≤ t0 := by
  by_cases hx : ∃ e ∈ s'.ents, e.dl ≤ t0
  · exact hx
  · exfalso
    have hall : ∀ e ∈ s'.ents, t0 < e.dl := fun e he => Nat.lt_of_not_le (fun hle => hx ⟨e, he, hle⟩)
    obtain ⟨e, he, hde⟩ := hd
    have h1 : (vE t0 s.ents).length < s.ents.length := vE_length_lt he hde
    have h2 : (vE t0 s'.ents).length = s'.ents.length := by
      simp only [vE, List.length_map, aliveE_eq_self hall]
    have h3 : (vE t0 s.ents).length = (vE t0 s'.ents).length := by rw [hr.vE_eq]
    have h4 := hr.inv.bound
    have h5 := hr.inv'.cap_eq
    omega

/-- related states: the states a creating insert writes into have the same view -/
theorem pre_rel_view {cap : Nat} {t0 now : Time} (h : t0 ≤ now) {s s' : TlruState}
    (hr : Rel cap t0 s s') :
    vE t0 (pre s now).ents = vE t0 (pre s' now).ents ∧
      aliveQ t0 (pre s now).tq = aliveQ t0 (pre s' now).tq := by
  by_cases hd : ∃ e ∈ s.ents, e.dl ≤ t0
  · obtain ⟨a1, a2⟩ := pre_view_of_dead (now := now) h hr.inv (fun _ => hd)
    obtain ⟨b1, b2⟩ := pre_view_of_dead (now := now) h hr.inv' (full_has_dead hr hd)
    rw [a1, a2, b1, b2]; exact ⟨hr.vE_eq, hr.tq⟩
  · by_cases hd' : ∃ e ∈ s'.ents, e.dl ≤ t0
    · obtain ⟨a1, a2⟩ := pre_view_of_dead (now := now) h hr.inv (full_has_dead hr.symm hd')
      obtain ⟨b1, b2⟩ := pre_view_of_dead (now := now) h hr.inv' (fun _ => hd')
      rw [a1, a2, b1, b2]; exact ⟨hr.vE_eq, hr.tq⟩
    · have hall : ∀ e ∈ s.ents, t0 < e.dl := fun e he => Nat.lt_of_not_le (fun hle => hd ⟨e, he, hle⟩)
      have hall' : ∀ e ∈ s'.ents, t0 < e.dl :=
        fun e he => Nat.lt_of_not_le (fun hle => hd' ⟨e, he, hle⟩)
      have hE : s.ents.map vis = s'.ents.map vis := by
        have := hr.ents
        rw [aliveE_eq_self hall, aliveE_eq_self hall'] at this
        exact this
      have hq : s.tq = s'.tq := by
        have := hr.tq
        rw [aliveQ_eq_self hr.inv hall, aliveQ_eq_self hr.inv' hall'] at this
        exact this
      have hlen : s.ents.length = s'.ents.length := by
        have := congrArg List.length hE
        simpa using this
      have hcap : s.cap = s'.cap := hr.inv.cap_eq.trans hr.inv'.cap_eq.symm
      unfold pre
      rw [← hlen, ← hcap]
      by_cases hf : s.ents.length ≥ s.cap
      · rw [if_pos hf, if_pos hf]
        rcases prune_same now hq hE with ⟨p1, p2⟩ | ⟨w, p1, p2⟩
        · rw [p1, p2]; exact ⟨hr.vE_eq, hr.tq⟩
        · rw [p1, p2, removeKey_vE, removeKey_vE, removeKey_vQ, removeKey_vQ, hr.vE_eq, hr.tq]
          exact ⟨rfl, rfl⟩
      · rw [if_neg hf, if_neg hf]; exact ⟨hr.vE_eq, hr.tq⟩

/-- insert addressed to a key whose entry is alive at `t0` -/
theorem ins_alive_view (t0 : Time) {s : TlruState} {k : Key} {e : Entry} (hg : getE s.ents k = some e)
    (now : Time) (v : Val) (a : Allow) (d : Time) :
    (Tlru.insert1 s now k v a d).2 = (a.upd || (a.ins && decide (e.dl ≤ now))) ∧
    vE t0 (Tlru.insert1 s now k v a d).1.ents =
      (if (a.upd || (a.ins && decide (e.dl ≤ now))) = true then vpush t0 (vdel (vE t0 s.ents) k) k v d
        else vE t0 s.ents) ∧
    aliveQ t0 (Tlru.insert1 s now k v a d).1.tq =
      (if (a.upd || (a.ins && decide (e.dl ≤ now))) = true
        then vfile t0 (Tlru.unfile (aliveQ t0 s.tq) k) d k else aliveQ t0 s.tq) := by
  have hk := getE_key hg
  rw [insert1_some hg]
  generalize (a.upd || (a.ins && decide (e.dl ≤ now))) = c
  cases c with
  | false => exact ⟨rfl, rfl, rfl⟩
  | true =>
    refine ⟨rfl, ?_, ?_⟩
    · show vE t0 (Tlru.update s e v d).ents = vpush t0 (vdel (vE t0 s.ents) k) k v d
      rw [update_vE, hk]
    · show aliveQ t0 (Tlru.update s e v d).tq = vfile t0 (Tlru.unfile (aliveQ t0 s.tq) k) d k
      rw [update_vQ, hk]

/-- insert addressed to a key whose entry is dead at `t0`: overwritten, whatever the allow mode -/
theorem ins_dead_view {cap : Nat} {t0 now : Time} (h : t0 ≤ now) {s : TlruState}
    (hinv : Tlru.Inv cap s) {k : Key} {e : Entry} (hg : getE s.ents k = some e) (hd : e.dl ≤ t0)
    (v : Val) (a : Allow) (d : Time) :
    (Tlru.insert1 s now k v a d).2 = true ∧
    vE t0 (Tlru.insert1 s now k v a d).1.ents = vpush t0 (vE t0 s.ents) k v d ∧
    aliveQ t0 (Tlru.insert1 s now k v a d).1.tq = vfile t0 (aliveQ t0 s.tq) d k := by
  have hv := vfind_dead hinv.nodup hg hd
  have hn : e.dl ≤ now := Nat.le_trans hd h
  have hc : (a.upd || (a.ins && decide (e.dl ≤ now))) = true := by
    cases a <;> simp [Allow.upd, Allow.ins, hn]
  obtain ⟨r1, r2, r3⟩ := ins_alive_view t0 hg now v a d
  rw [hc] at r1
  rw [if_pos hc, vdel_of_vfind_none hv] at r2
  rw [if_pos hc, unfile_of_vfind_none hinv hv] at r3
  exact ⟨r1, r2, r3⟩

/-- creating insert -/
theorem ins_absent_view (t0 : Time) {s : TlruState} {k : Key} (hg : getE s.ents k = none) (now : Time)
    (v : Val) {a : Allow} (ha : a.ins = true) (d : Time) :
    (Tlru.insert1 s now k v a d).2 = true ∧
    vE t0 (Tlru.insert1 s now k v a d).1.ents = vpush t0 (vE t0 (pre s now).ents) k v d ∧
    aliveQ t0 (Tlru.insert1 s now k v a d).1.tq = vfile t0 (aliveQ t0 (pre s now).tq) d k := by
  rw [insert1_none hg, if_pos ha]
  exact ⟨rfl, wr_vE t0 _ k v d, wr_vQ t0 _ k v d⟩

/-- dead on one side, absent on the other -/
theorem ins_dead_absent {cap : Nat} {t0 now : Time} (h : t0 ≤ now) {s s' : TlruState}
    (hr : Rel cap t0 s s') {k : Key} {e : Entry} (hg : getE s.ents k = some e) (hd : e.dl ≤ t0)
    (hg' : getE s'.ents k = none) (v : Val) (a : Allow) (d : Time)
    (hupd : a.ins = false → deadKey t0 s k = deadKey t0 s' k) :
    (Tlru.insert1 s now k v a d).2 = (Tlru.insert1 s' now k v a d).2 ∧
    vE t0 (Tlru.insert1 s now k v a d).1.ents = vE t0 (Tlru.insert1 s' now k v a d).1.ents ∧
    aliveQ t0 (Tlru.insert1 s now k v a d).1.tq = aliveQ t0 (Tlru.insert1 s' now k v a d).1.tq := by
  have ha : a.ins = true := by
    cases hi : a.ins with
    | true => rfl
    | false =>
      have := hupd hi
      rw [deadKey_eq_true.mpr ⟨e, hg, hd⟩] at this
      simp [deadKey, hg'] at this
  obtain ⟨a1, a2, a3⟩ := ins_dead_view h hr.inv hg hd v a d
  obtain ⟨b1, b2, b3⟩ := ins_absent_view t0 hg' now v ha d
  obtain ⟨p1, p2⟩ := pre_view_of_dead (now := now) h hr.inv'
    (full_has_dead hr ⟨e, getE_mem hg, hd⟩)
  rw [a1, a2, a3, b1, b2, b3, p1, p2, hr.vE_eq, hr.tq]
  exact ⟨rfl, rfl, rfl⟩

theorem insert1_core {cap : Nat} {t0 now : Time} (h : t0 ≤ now) {s s' : TlruState}
    (hr : Rel cap t0 s s') (k : Key) (v : Val) (a : Allow) (d : Time)
    (hupd : a.ins = false → deadKey t0 s k = deadKey t0 s' k) :
    (Tlru.insert1 s now k v a d).2 = (Tlru.insert1 s' now k v a d).2 ∧
    vE t0 (Tlru.insert1 s now k v a d).1.ents = vE t0 (Tlru.insert1 s' now k v a d).1.ents ∧
    aliveQ t0 (Tlru.insert1 s now k v a d).1.tq = aliveQ t0 (Tlru.insert1 s' now k v a d).1.tq := by
  have hvE := hr.vE_eq
  cases hg : getE s.ents k with
  | some e =>
    by_cases hd : t0 < e.dl
    · -- alive on the left: alive on the right, same visible entry
      have hv := vfind_alive hg hd
      cases hg' : getE s'.ents k with
      | some e' =>
        by_cases hd' : t0 < e'.dl
        · have hv' := vfind_alive hg' hd'
          rw [hvE, hv'] at hv
          have hdl : e'.dl = e.dl := congrArg (fun x => x.2.2) (Option.some.inj hv)
          obtain ⟨a1, a2, a3⟩ := ins_alive_view t0 hg now v a d
          obtain ⟨b1, b2, b3⟩ := ins_alive_view t0 hg' now v a d
          rw [a1, a2, a3, b1, b2, b3, hdl, hvE, hr.tq]
          exact ⟨rfl, rfl, rfl⟩
        · have hv' := vfind_dead hr.inv'.nodup hg' (Nat.le_of_not_lt hd')
          rw [hvE, hv'] at hv; cases hv
      | none =>
        have hv' := vfind_absent (t0 := t0) hg'
        rw [hvE, hv'] at hv; cases hv
    · have hle : e.dl ≤ t0 := Nat.le_of_not_lt hd
      cases hg' : getE s'.ents k with
      | some e' =>
        by_cases hd' : t0 < e'.dl
        · have hv := vfind_dead hr.inv.nodup hg hle
          have hv' := vfind_alive hg' hd'
          rw [hvE, hv'] at hv; cases hv
        · obtain ⟨a1, a2, a3⟩ := ins_dead_view h hr.inv hg hle v a d
          obtain ⟨b1, b2, b3⟩ := ins_dead_view h hr.inv' hg' (Nat.le_of_not_lt hd') v a d
          rw [a1, a2, a3, b1, b2, b3, hvE, hr.tq]
          exact ⟨rfl, rfl, rfl⟩
      | none => exact ins_dead_absent h hr hg hle hg' v a d hupd
  | none =>
    cases hg' : getE s'.ents k with
    | some e' =>
      by_cases hd' : t0 < e'.dl
      · have hv := vfind_absent (t0 := t0) hg
        have hv' := vfind_alive hg' hd'
        rw [hvE, hv'] at hv; cases hv
      · obtain ⟨c1, c2, c3⟩ := ins_dead_absent h hr.symm hg' (Nat.le_of_not_lt hd') hg v a d
          (fun hi => (hupd hi).symm)
        exact ⟨c1.symm, c2.symm, c3.symm⟩
    | none =>
      by_cases ha : a.ins = true
      · obtain ⟨a1, a2, a3⟩ := ins_absent_view t0 hg now v ha d
        obtain ⟨b1, b2, b3⟩ := ins_absent_view t0 hg' now v ha d
        obtain ⟨p1, p2⟩ := pre_rel_view (now := now) h hr
        rw [a1, a2, a3, b1, b2, b3, p1, p2]
        exact ⟨rfl, rfl, rfl⟩
      · rw [insert1_none hg, insert1_none hg', if_neg ha, if_neg ha]
        exact ⟨rfl, hvE, hr.tq⟩

/-- related states treat an insert alike and stay related (for an update-only insert: if the key is
dead on both sides or on neither) -/
theorem insert1_rel {cap : Nat} {t0 now : Time} (h : t0 ≤ now) {s s' : TlruState}
    (hr : Rel cap t0 s s') (k : Key) (v : Val) (a : Allow) (d : Time)
    (hupd : a.ins = false → deadKey t0 s k = deadKey t0 s' k) :
    (Tlru.insert1 s now k v a d).2 = (Tlru.insert1 s' now k v a d).2 ∧
      Rel cap t0 (Tlru.insert1 s now k v a d).1 (Tlru.insert1 s' now k v a d).1 := by
  obtain ⟨c1, c2, c3⟩ := insert1_core h hr k v a d hupd
  refine ⟨c1, (Tlru.insert1_spec hr.inv now k v a d).1, (Tlru.insert1_spec hr.inv' now k v a d).1,
    ?_, c2, c3⟩
  rw [insert1_ttl, insert1_ttl]; exact hr.ttl

/-! ## the range forms -/

/-- an update-only insert changes the deadness of the written key only, and only if it succeeds -/
theorem deadKey_insert1_upd (t0 : Time) (s : TlruState) (now : Time) (k : Key) (v : Val) {a : Allow}
    (ha : a.ins = false) (d : Time) (k' : Key) :
    deadKey t0 (Tlru.insert1 s now k v a d).1 k' =
      if k' = k ∧ (Tlru.insert1 s now k v a d).2 = true then decide (d ≤ t0) else deadKey t0 s k' := by
  have hu : a.upd = true := by cases a <;> simp_all [Allow.ins, Allow.upd]
  cases hg : getE s.ents k with
  | none =>
    rw [insert1_none hg, if_neg (by simp [ha])]
    simp
  | some e =>
    rw [insert1_some hg, if_pos (by simp [hu])]
    have hk := getE_key hg
    simp only [and_true]
    by_cases hkk : k' = k
    · subst hkk
      simp only [if_true, deadKey, Tlru.update, getE_append_single, hk, getE_delE_self, Option.none_or]
    · have hne : ¬ k = k' := fun h => hkk h.symm
      simp only [hkk, if_false, deadKey, Tlru.update, getE_append_single, hk, getE_delE_ne _ hkk, hne,
        Option.or_none]

section generic
variable {c : Core TlruState} {f : Nat → Time → Nat → Time}

/-- what the two cores have in common -/
structure TtlCore (c : Core TlruState) (f : Nat → Time → Nat → Time) : Prop where
  pre : ∀ s now, c.pre s now = s
  find1 : c.find1 = Tlru.find1
  erase1 : c.erase1 = Tlru.erase1
  clean : c.clean = Tlru.clean
  age : ∀ s now, c.age s now = (s, 0)
  capacity : ∀ s, c.capacity s = s.cap
  insert1 : ∀ s now k v a ttl, c.insert1 s now k v a ttl = Tlru.insert1 s now k v a (f s.ttl now ttl)
  clear : ∀ cap t0 s s', Rel cap t0 s s' →
    Rel cap t0 (if c.hasClear then c.clear s else s) (if c.hasClear then c.clear s' else s')
  updateTtl : ∀ cap t0 s s' t, Rel cap t0 s s' → Rel cap t0 (c.updateTtl s t) (c.updateTtl s' t)

theorem insertMany_rel (H : TtlCore c f) {cap : Nat} {t0 now : Time} (h : t0 ≤ now) (a : Allow)
    (xs : List (Key × Val × Nat)) : ∀ (s s' : TlruState), Rel cap t0 s s' →
    (a.ins = false → ∀ x ∈ xs, deadKey t0 s x.1 = deadKey t0 s' x.1) →
    (c.insertMany s now a xs).2 = (c.insertMany s' now a xs).2 ∧
      Rel cap t0 (c.insertMany s now a xs).1 (c.insertMany s' now a xs).1 := by
  induction xs with
  | nil => intro s s' hr _; exact ⟨rfl, hr⟩
  | cons x xs ih =>
    obtain ⟨k, v, ttl⟩ := x
    intro s s' hr hupd
    simp only [Core.insertMany, H.insert1]
    rw [← hr.ttl]
    obtain ⟨r1, r2⟩ := insert1_rel h hr k v a (f s.ttl now ttl)
      (fun ha => hupd ha (k, v, ttl) (List.mem_cons_self ..))
    obtain ⟨i1, i2⟩ := ih _ _ r2 (by
      intro ha x hx
      rw [deadKey_insert1_upd t0 s now k v ha, deadKey_insert1_upd t0 s' now k v ha, ← r1,
        hupd ha x (List.mem_cons_of_mem _ hx)])
    exact ⟨by rw [r1, i1], i2⟩

theorem findMany_rel (H : TtlCore c f) {cap : Nat} {t0 now : Time} (h : t0 ≤ now) (peek : Bool)
    (ks : List Key) : ∀ (s s' : TlruState), Rel cap t0 s s' →
    (c.findMany s now peek ks).2 = (c.findMany s' now peek ks).2 ∧
      Rel cap t0 (c.findMany s now peek ks).1 (c.findMany s' now peek ks).1 := by
  induction ks with
  | nil => intro s s' hr; exact ⟨rfl, hr⟩
  | cons k ks ih =>
    intro s s' hr
    simp only [Core.findMany, H.find1]
    obtain ⟨r1, r2⟩ := find1_rel (now := now) h hr k peek
    obtain ⟨i1, i2⟩ := ih _ _ r2
    exact ⟨by rw [r1, i1], i2⟩

theorem eraseMany_rel (H : TtlCore c f) {cap : Nat} {t0 : Time} (ks : List Key) :
    ∀ (s s' : TlruState), Rel cap t0 s s' →
    (∀ k ∈ ks, deadKey t0 s k = false ∧ deadKey t0 s' k = false) →
    (c.eraseMany s ks).2 = (c.eraseMany s' ks).2 ∧
      Rel cap t0 (c.eraseMany s ks).1 (c.eraseMany s' ks).1 := by
  induction ks with
  | nil => intro s s' hr _; exact ⟨rfl, hr⟩
  | cons k ks ih =>
    intro s s' hr hd
    simp only [Core.eraseMany, H.erase1]
    obtain ⟨d1, d2⟩ := hd k (List.mem_cons_self ..)
    obtain ⟨r1, r2⟩ := erase1_rel hr k d1 d2
    obtain ⟨i1, i2⟩ := ih _ _ r2 (fun k' hk' =>
      ⟨deadKey_erase1 (hd k' (List.mem_cons_of_mem _ hk')).1,
        deadKey_erase1 (hd k' (List.mem_cons_of_mem _ hk')).2⟩)
    exact ⟨by rw [r1, i1], i2⟩

/-- one later call, for either core -/
theorem step_generic (H : TtlCore c f) (cap : Nat) (t0 now : Time) (h : t0 ≤ now) (s s' : TlruState)
    (op : Op) (hr : Rel cap t0 s s') (hb : touchy t0 s s' op = false) :
    sameOut op (c.step s now op).2 (c.step s' now op).2 ∧
      Rel cap t0 (c.step s now op).1 (c.step s' now op).1 := by
  cases op with
  | insert k v a ttl =>
    have hupd : a.ins = false → deadKey t0 s k = deadKey t0 s' k := by
      intro ha
      cases a with
      | update =>
        simp only [touchy, Bool.or_eq_false_iff] at hb
        rw [hb.1, hb.2]
      | insert => simp [Allow.ins] at ha
      | insertOrUpdate => simp [Allow.ins] at ha
    simp only [Core.step, H.pre, H.insert1, sameOut]
    rw [← hr.ttl]
    obtain ⟨r1, r2⟩ := insert1_rel h hr k v a (f s.ttl now ttl) hupd
    exact ⟨by rw [r1], r2⟩
  | insertRange xs a =>
    have hupd : a.ins = false → ∀ x ∈ xs, deadKey t0 s x.1 = deadKey t0 s' x.1 := by
      intro ha x hx
      cases a with
      | update =>
        simp only [touchy, List.any_eq_false, Bool.or_eq_true, not_or, Bool.not_eq_true] at hb
        rw [(hb x hx).1, (hb x hx).2]
      | insert => simp [Allow.ins] at ha
      | insertOrUpdate => simp [Allow.ins] at ha
    simp only [Core.step, H.pre, sameOut]
    obtain ⟨r1, r2⟩ := insertMany_rel H h a xs s s' hr hupd
    exact ⟨by rw [r1], r2⟩
  | find k peek =>
    simp only [Core.step, H.pre, H.find1, sameOut]
    obtain ⟨r1, r2⟩ := find1_rel (now := now) h hr k peek
    exact ⟨by rw [r1], r2⟩
  | findRange ks peek =>
    simp only [Core.step, H.pre, sameOut]
    obtain ⟨r1, r2⟩ := findMany_rel H h peek ks s s' hr
    exact ⟨by rw [r1], r2⟩
  | findCount k peek =>
    simp only [Core.step, H.pre, H.find1, sameOut]
    obtain ⟨r1, r2⟩ := find1_rel (now := now) h hr k peek
    exact ⟨by rw [r1], r2⟩
  | erase k =>
    simp only [touchy, Bool.or_eq_false_iff] at hb
    simp only [Core.step, H.pre, H.erase1, sameOut]
    obtain ⟨r1, r2⟩ := erase1_rel hr k hb.1 hb.2
    exact ⟨by rw [r1], r2⟩
  | eraseRange ks =>
    simp only [touchy, List.any_eq_false, Bool.or_eq_true, not_or, Bool.not_eq_true] at hb
    simp only [Core.step, H.pre, sameOut]
    obtain ⟨r1, r2⟩ := eraseMany_rel H ks s s' hr hb
    exact ⟨by rw [r1], r2⟩
  | clear => exact ⟨rfl, H.clear cap t0 s s' hr⟩
  | clean =>
    simp only [Core.step, H.clean, sameOut, true_and]
    exact clean_rel now hr
  | age =>
    simp only [Core.step, H.age, sameOut, true_and]
    exact hr
  | updateTtl t => exact ⟨rfl, H.updateTtl cap t0 s s' t hr⟩
  | size => exact ⟨trivial, hr⟩
  | empty => exact ⟨trivial, hr⟩
  | capacity =>
    simp only [Core.step, H.capacity, sameOut]
    exact ⟨by rw [hr.inv.cap_eq, hr.inv'.cap_eq], hr⟩

end generic

theorem tlru_ttlCore : TtlCore Tlru.core (fun _ now ttl => now + ttl * msNs) where
  pre _ _ := rfl
  find1 := rfl
  erase1 := rfl
  clean := rfl
  age _ _ := rfl
  capacity _ := rfl
  insert1 _ _ _ _ _ _ := rfl
  clear _ _ _ _ hr := hr
  updateTtl _ _ _ _ _ hr := hr

theorem utlru_ttlCore : TtlCore Utlru.core (fun ttl now _ => now + ttl) where
  pre _ _ := rfl
  find1 := rfl
  erase1 := rfl
  clean := rfl
  age _ _ := rfl
  capacity _ := rfl
  insert1 _ _ _ _ _ _ := rfl
  clear _ _ _ _ hr :=
    ⟨Tlru.Inv.of_cons hr.inv.cap_eq hr.inv.cap_pos (Nat.zero_le _) Tlru.cons_nil,
      Tlru.Inv.of_cons hr.inv'.cap_eq hr.inv'.cap_pos (Nat.zero_le _) Tlru.cons_nil, hr.ttl, rfl, rfl⟩
  updateTtl _ _ _ _ _ hr :=
    ⟨⟨hr.inv.cap_eq, hr.inv.cap_pos, hr.inv.nodup, hr.inv.bound, hr.inv.tq_nodup, hr.inv.tq_iff,
        hr.inv.sorted⟩,
      ⟨hr.inv'.cap_eq, hr.inv'.cap_pos, hr.inv'.nodup, hr.inv'.bound, hr.inv'.tq_nodup, hr.inv'.tq_iff,
        hr.inv'.sorted⟩, rfl, hr.ents, hr.tq⟩

/-- **C19 (continuation), tlru_cache**: one later call -/
theorem step_tlru (cap : Nat) (t0 now : Time) (h : t0 ≤ now) (s s' : TlruState) (op : Op)
    (hr : Rel cap t0 s s') (hb : touchy t0 s s' op = false) :
    sameOut op (Tlru.core.step s now op).2 (Tlru.core.step s' now op).2 ∧
    Rel cap t0 (Tlru.core.step s now op).1 (Tlru.core.step s' now op).1 :=
  step_generic tlru_ttlCore cap t0 now h s s' op hr hb

/-- **C19 (continuation), utlru_cache**: one later call -/
theorem step_utlru (cap : Nat) (t0 now : Time) (h : t0 ≤ now) (s s' : TlruState) (op : Op)
    (hr : Rel cap t0 s s') (hb : touchy t0 s s' op = false) :
    sameOut op (Utlru.core.step s now op).2 (Utlru.core.step s' now op).2 ∧
    Rel cap t0 (Utlru.core.step s now op).1 (Utlru.core.step s' now op).1 :=
  step_generic utlru_ttlCore cap t0 now h s s' op hr hb

/-! ## whole histories: the step theorems iterate -/

/-- every call of the history reads a clock ≥ `t0` and is not `touchy` for the two states it meets -/
def quiet (c : Core TlruState) (t0 : Time) : TlruState → TlruState → List (Time × Op) → Prop
  | _, _, [] => True
  | s, s', (t, op) :: rest =>
    t0 ≤ t ∧ touchy t0 s s' op = false ∧ quiet c t0 (c.step s t op).1 (c.step s' t op).1 rest

/-- the outputs of two runs of the same history agree call by call in the sense of `sameOut` -/
def sameOuts : List (Time × Op) → List Out → List Out → Prop
  | [], [], [] => True
  | (_, op) :: rest, a :: as, b :: bs => sameOut op a b ∧ sameOuts rest as bs
  | _, _, _ => False

theorem run_generic {c : Core TlruState} {f : Nat → Time → Nat → Time} (H : TtlCore c f) (cap : Nat)
    (t0 : Time) (hist : List (Time × Op)) : ∀ (s s' : TlruState), Rel cap t0 s s' →
    quiet c t0 s s' hist →
    sameOuts hist (c.run s hist).2 (c.run s' hist).2 ∧ Rel cap t0 (c.run s hist).1 (c.run s' hist).1 := by
  induction hist with
  | nil => intro s s' hr _; exact ⟨trivial, hr⟩
  | cons x rest ih =>
    obtain ⟨t, op⟩ := x
    intro s s' hr hq
    obtain ⟨ht, hb, hq'⟩ := hq
    obtain ⟨r1, r2⟩ := step_generic H cap t0 t ht s s' op hr hb
    obtain ⟨i1, i2⟩ := ih _ _ r2 hq'
    exact ⟨⟨r1, i1⟩, i2⟩

/-- **C19 (continuation), tlru_cache**: every later history without a `touchy` call -/
theorem run_tlru (cap : Nat) (t0 : Time) (s s' : TlruState) (hist : List (Time × Op))
    (hr : Rel cap t0 s s') (hq : quiet Tlru.core t0 s s' hist) :
    sameOuts hist (Tlru.core.run s hist).2 (Tlru.core.run s' hist).2 ∧
    Rel cap t0 (Tlru.core.run s hist).1 (Tlru.core.run s' hist).1 :=
  run_generic tlru_ttlCore cap t0 hist s s' hr hq

/-- **C19 (continuation), utlru_cache**: every later history without a `touchy` call -/
theorem run_utlru (cap : Nat) (t0 : Time) (s s' : TlruState) (hist : List (Time × Op))
    (hr : Rel cap t0 s s') (hq : quiet Utlru.core t0 s s' hist) :
    sameOuts hist (Utlru.core.run s hist).2 (Utlru.core.run s' hist).2 ∧
    Rel cap t0 (Utlru.core.run s hist).1 (Utlru.core.run s' hist).1 :=
  run_generic utlru_ttlCore cap t0 hist s s' hr hq

end Verif.Bisim
