import Verif.Proofs.Twin
import Verif.Properties
/-!
# The eager-TTL containers (`ut_map` / `ut_set`) at the level of whole public calls, and utlru's configuration

* **A. `C18_utmap`** — range = singles for ut_map/ut_set.  Their per-call prologue purges the expired
  prefix, so `Core.C18_preTrivial` does not apply; instead every single call after the first finds
  a state on which the prologue is the identity (`Core.PreStable`), provided the TTL is positive.
* **B. `C04_utmap`** — every lookup that reports a value does so strictly before the deadline of
  the key's latest successful write (eager flavor: every lookup atom of a public call runs on the
  freshly purged state).
* **C. `Utlru.ttl_ms`** — the configured TTL of a utlru model is always a whole number of
  milliseconds and the capacity never changes.
-/
namespace Verif
open Verif.Spec

/-! ## A. C18 for ut_map / ut_set -/

namespace Core
variable {σ : Type} (c : Core σ)

/-- `P` makes the prologue at `now` the identity and is kept by the single-key primitives at `now` -/
structure PreStable (now : Time) (P : σ → Prop) : Prop where
  pre_id : ∀ s, P s → c.pre s now = s
  insert1 : ∀ s k v a ttl, P s → P (c.insert1 s now k v a ttl).1
  find1 : ∀ s k peek, P s → P (c.find1 s now k peek).1
  erase1 : ∀ s k, P s → P (c.erase1 s k).1

theorem run_singles_insert' {now : Time} {P : σ → Prop} (hp : c.PreStable now P) (s : σ) (hs : P s)
    (a : Allow) (xs : List (Key × Val × Nat)) :
    (c.run s (xs.map (fun x => (now, Op.insert x.1 x.2.1 a x.2.2)))).1 = (c.insertMany s now a xs).1 ∧
    ((c.run s (xs.map (fun x => (now, Op.insert x.1 x.2.1 a x.2.2)))).2.filter (· == .bool true)).length
      = (c.insertMany s now a xs).2 := by
  induction xs generalizing s with
  | nil => exact ⟨rfl, rfl⟩
  | cons x xs ih =>
    obtain ⟨k, v, ttl⟩ := x
    have := ih (c.insert1 s now k v a ttl).1 (hp.insert1 s k v a ttl hs)
    simp only [List.map_cons, run, step, hp.pre_id s hs, insertMany]
    refine ⟨this.1, ?_⟩
    rw [List.filter_cons, ← this.2]
    cases h : (c.insert1 s now k v a ttl).2 <;> simp <;> omega

theorem run_singles_find' {now : Time} {P : σ → Prop} (hp : c.PreStable now P) (s : σ) (hs : P s)
    (peek : Bool) (ks : List Key) :
    (c.run s (ks.map (fun k => (now, Op.find k peek)))).1 = (c.findMany s now peek ks).1 ∧
    ((c.run s (ks.map (fun k => (now, Op.find k peek)))).2.map
        (fun o => match o with | .opt v => v | _ => none)) = (c.findMany s now peek ks).2 := by
  induction ks generalizing s with
  | nil => exact ⟨rfl, rfl⟩
  | cons k ks ih =>
    have := ih (c.find1 s now k peek).1 (hp.find1 s k peek hs)
    simp only [List.map_cons, run, step, hp.pre_id s hs, findMany]
    exact ⟨this.1, by rw [this.2]⟩

theorem run_singles_erase' {now : Time} {P : σ → Prop} (hp : c.PreStable now P) (s : σ) (hs : P s)
    (ks : List Key) :
    (c.run s (ks.map (fun k => (now, Op.erase k)))).1 = (c.eraseMany s ks).1 ∧
    ((c.run s (ks.map (fun k => (now, Op.erase k)))).2.filter (· == .bool true)).length
      = (c.eraseMany s ks).2 := by
  induction ks generalizing s with
  | nil => exact ⟨rfl, rfl⟩
  | cons k ks ih =>
    have := ih (c.erase1 s k).1 (hp.erase1 s k hs)
    simp only [List.map_cons, run, step, hp.pre_id s hs, eraseMany]
    refine ⟨this.1, ?_⟩
    rw [List.filter_cons, ← this.2]
    cases h : (c.erase1 s k).2 <;> simp <;> omega

/-- **C18** for a core with a non-trivial prologue: if the state right after the prologue satisfies a
predicate that makes the prologue the identity and that the single-key primitives keep, a
*non-empty* range call equals its single calls in order. -/
theorem C18_preStable {now : Time} {P : σ → Prop} (hp : c.PreStable now P) (s : σ)
    (hpre : P (c.pre s now)) (op : Op) (hne : singles op ≠ []) :
    (c.run s ((singles op).map (fun o => (now, o)))).1 = (c.step s now op).1 ∧
    aggregate op (c.run s ((singles op).map (fun o => (now, o)))).2 = (c.step s now op).2 := by
  cases op with
  | insertRange xs a =>
    cases xs with
    | nil => exact absurd rfl hne
    | cons x xs =>
      obtain ⟨k, v, ttl⟩ := x
      have h := c.run_singles_insert' hp (c.insert1 (c.pre s now) now k v a ttl).1
        (hp.insert1 _ k v a ttl hpre) a xs
      simp only [singles, aggregate, step, List.map_map, Function.comp_def, List.map_cons, run, insertMany]
      refine ⟨h.1, ?_⟩
      rw [List.filter_cons, ← h.2]
      cases hh : (c.insert1 (c.pre s now) now k v a ttl).2 <;> simp <;> omega
  | findRange ks peek =>
    cases ks with
    | nil => exact absurd rfl hne
    | cons k ks =>
      have h := c.run_singles_find' hp (c.find1 (c.pre s now) now k peek).1
        (hp.find1 _ k peek hpre) peek ks
      simp only [singles, aggregate, step, List.map_map, Function.comp_def, List.map_cons, run, findMany]
      exact ⟨h.1, by rw [← h.2]; rfl⟩
  | eraseRange ks =>
    cases ks with
    | nil => exact absurd rfl hne
    | cons k ks =>
      have h := c.run_singles_erase' hp (c.erase1 (c.pre s now) k).1 (hp.erase1 _ k hpre) ks
      simp only [singles, aggregate, step, List.map_map, Function.comp_def, List.map_cons, run, eraseMany]
      refine ⟨h.1, ?_⟩
      rw [List.filter_cons, ← h.2]
      cases hh : (c.erase1 (c.pre s now) k).2 <;> simp <;> omega
  | _ => simp [singles, aggregate, run]

end Core

namespace UtMap

/-- every entry is strictly before its deadline at `now`, and a new write will be too -/
def Live (now : Time) (s : UtMapState) : Prop := 0 < s.ttl ∧ ∀ e ∈ s.tq, now < e.dl

theorem purge_live {l : List Entry} {now : Time} (h : ∀ e ∈ l, now < e.dl) : purge l now = l := by
  cases l with
  | nil => rfl
  | cons e l =>
    have : ¬ e.dl ≤ now := Nat.not_le.mpr (h e (List.mem_cons_self ..))
    simp [purge, this]

theorem purge_purge {l : List Entry} (hs : List.Pairwise (fun x y => x.dl ≤ y.dl) l) (now : Time) :
    purge (purge l now) now = purge l now := by
  apply purge_live
  intro e he
  rw [purge_eq_filter hs] at he
  simpa using (List.mem_filter.mp he).2

theorem live_pre {s : UtMapState} {now : Time} (hs : List.Pairwise (fun x y => x.dl ≤ y.dl) s.tq)
    (httl : 0 < s.ttl) : Live now (core.pre s now) := by
  refine ⟨httl, ?_⟩
  intro e he
  change e ∈ purge s.tq now at he
  rw [purge_eq_filter hs] at he
  simpa using (List.mem_filter.mp he).2

theorem preStable (now : Time) : core.PreStable now (Live now) where
  pre_id s hs := by
    show ({ s with tq := purge s.tq now } : UtMapState) = s
    rw [purge_live hs.2]
  insert1 s k v a ttl hs := by
    show Live now (UtMap.insert1 s now k v a).1
    unfold UtMap.insert1
    split
    · split
      · refine ⟨hs.1, ?_⟩
        intro e he
        simp only [List.mem_append, List.mem_singleton] at he
        rcases he with he | rfl
        · exact hs.2 e (List.mem_filter.mp he).1
        · exact Nat.lt_add_of_pos_right hs.1
      · exact hs
    · split
      · refine ⟨hs.1, ?_⟩
        intro e he
        simp only [List.mem_append, List.mem_singleton] at he
        rcases he with he | rfl
        · exact hs.2 e he
        · exact Nat.lt_add_of_pos_right hs.1
      · exact hs
  find1 s k peek hs := hs
  erase1 s k hs := by
    show Live now (UtMap.erase1 s k).1
    unfold UtMap.erase1
    split
    · exact ⟨hs.1, fun e he => hs.2 e (List.mem_filter.mp he).1⟩
    · exact hs

end UtMap

/-- C18 for ut_map: a non-empty range call equals its single calls in order, provided the TTL is positive
(with TTL 0 a just-written entry is already expired and the single calls purge each other's writes:
known finding KF1) -/
theorem C18_utmap (s : UtMapState) (t now : Time) (op : Op) (hinv : UtMap.Inv t s) (ht : t ≤ now)
    (httl : 0 < s.ttl) (hne : singles op ≠ []) :
    (UtMap.core.run s ((singles op).map (fun o => (now, o)))).1 = (UtMap.core.step s now op).1 ∧
    aggregate op (UtMap.core.run s ((singles op).map (fun o => (now, o)))).2 = (UtMap.core.step s now op).2 :=
  have _ := ht
  UtMap.core.C18_preStable (UtMap.preStable now) s (UtMap.live_pre hinv.sorted httl) op hne

/-! ## B. C04 for ut_map / ut_set at the level of whole public calls -/

namespace Core
variable {σ : Type} (c : Core σ)

theorem mem_insertManyA (s : σ) (now : Time) (a : Allow) (xs : List (Key × Val × Nat)) :
    ∀ y ∈ (c.insertManyA s now a xs).2.2, ∃ k v al d ok, y = Atom.ins k v al d ok := by
  induction xs generalizing s with
  | nil => intro y hy; simp [insertManyA] at hy
  | cons x xs ih =>
    obtain ⟨k, v, ttl⟩ := x
    intro y hy
    simp only [insertManyA, List.mem_cons] at hy
    rcases hy with rfl | hy
    · exact ⟨_, _, _, _, _, rfl⟩
    · exact ih _ y hy

theorem mem_eraseManyA (s : σ) (ks : List Key) :
    ∀ y ∈ (c.eraseManyA s ks).2.2, ∃ k ok, y = Atom.del k ok := by
  induction ks generalizing s with
  | nil => intro y hy; simp [eraseManyA] at hy
  | cons k ks ih =>
    intro y hy
    simp only [eraseManyA, List.mem_cons] at hy
    rcases hy with rfl | hy
    · exact ⟨_, _, rfl⟩
    · exact ih _ y hy

end Core

namespace UtMap

/-- a range lookup leaves a ut_map state alone; each of its atoms is a lookup on that state -/
theorem findManyA_spec (s : UtMapState) (now : Time) (peek : Bool) (ks : List Key) :
    ∀ y ∈ (core.findManyA s now peek ks).2.2, ∃ k', y = Atom.look k' peek (find1 s k').2 := by
  induction ks with
  | nil => intro y hy; simp [Core.findManyA] at hy
  | cons k ks ih =>
    intro y hy
    have e : core.find1 s now k peek = find1 s k := rfl
    have e1 : (find1 s k).1 = s := rfl
    simp only [Core.findManyA, e, e1, List.mem_cons] at hy
    rcases hy with rfl | hy
    · exact ⟨k, rfl⟩
    · exact ih y hy

/-- a lookup atom only occurs in a lookup call; it is evaluated on the freshly purged state, and no
atom of that call writes -/
theorem look_in_step (s : UtMapState) (t : Time) (op : Op) (k : Key) (pk : Bool) (r : Option (Val × Nat))
    (hm : Atom.look k pk r ∈ (core.stepA s t op).2.2) :
    r = (find1 (core.pre s t) k).2 ∧ ∀ y ∈ (core.stepA s t op).2.2, ∀ g, ghost g y = g := by
  cases op with
  | insert k' v a ttl => simp [Core.stepA] at hm
  | insertRange xs a =>
    simp only [Core.stepA, List.mem_cons, reduceCtorEq, false_or] at hm
    obtain ⟨_, _, _, _, _, h⟩ := core.mem_insertManyA _ _ _ _ _ hm
    cases h
  | find k' peek =>
    simp only [Core.stepA, List.mem_cons, reduceCtorEq, false_or, List.not_mem_nil, or_false,
      Atom.look.injEq] at hm
    obtain ⟨rfl, rfl, rfl⟩ := hm
    refine ⟨rfl, ?_⟩
    intro y hy g
    simp only [Core.stepA, List.mem_cons, List.not_mem_nil, or_false] at hy
    rcases hy with rfl | rfl <;> rfl
  | findRange ks peek =>
    simp only [Core.stepA, List.mem_cons, reduceCtorEq, false_or] at hm
    have hall := findManyA_spec (core.pre s t) t peek ks
    obtain ⟨k', h⟩ := hall _ hm
    simp only [Atom.look.injEq] at h
    obtain ⟨rfl, _, rfl⟩ := h
    refine ⟨rfl, ?_⟩
    intro y hy g
    simp only [Core.stepA, List.mem_cons] at hy
    rcases hy with rfl | hy
    · rfl
    · obtain ⟨k'', rfl⟩ := hall _ hy; rfl
  | findCount k' peek =>
    simp only [Core.stepA, List.mem_cons, reduceCtorEq, false_or, List.not_mem_nil, or_false,
      Atom.look.injEq] at hm
    obtain ⟨rfl, rfl, rfl⟩ := hm
    refine ⟨rfl, ?_⟩
    intro y hy g
    simp only [Core.stepA, List.mem_cons, List.not_mem_nil, or_false] at hy
    rcases hy with rfl | rfl <;> rfl
  | erase k' => simp [Core.stepA] at hm
  | eraseRange ks =>
    simp only [Core.stepA, List.mem_cons, reduceCtorEq, false_or] at hm
    obtain ⟨_, _, h⟩ := core.mem_eraseManyA _ _ _ hm
    cases h
  | clear => simp [Core.stepA, core] at hm
  | clean => simp [Core.stepA] at hm
  | age => simp [Core.stepA] at hm
  | updateTtl t' => simp [Core.stepA] at hm
  | size => simp [Core.stepA] at hm
  | empty => simp [Core.stepA] at hm
  | capacity => simp [Core.stepA] at hm

theorem foldl_ghost_neutral (p : List (Time × Atom)) (g : AMap)
    (h : ∀ y ∈ p, ∀ g, ghost g y.2 = g) : p.foldl (fun g x => ghost g x.2) g = g := by
  induction p generalizing g with
  | nil => rfl
  | cons y p ih =>
    simp only [List.foldl_cons]
    rw [h y (List.mem_cons_self ..) g]
    exact ih g (fun z hz => h z (List.mem_cons_of_mem _ hz))

/-- C04 inside one public call -/
theorem C04_step (s : UtMapState) (t : Time) (op : Op) (hinv : Inv t s) (g : AMap)
    (hc : Coupled (abs s) g) (p q : List (Time × Atom)) (now : Time) (k : Key) (pk : Bool) (v : Val)
    (n : Nat)
    (hsplit : (core.stepA s t op).2.2.map (fun a => (t, a)) = p ++ (now, .look k pk (some (v, n))) :: q) :
    ∃ d, p.foldl (fun g x => ghost g x.2) g k = some (v, d) ∧ now < d := by
  have hx : (now, Atom.look k pk (some (v, n))) ∈ (core.stepA s t op).2.2.map (fun a => (t, a)) := by
    rw [hsplit]; simp
  obtain ⟨a, ha, he⟩ := List.mem_map.mp hx
  simp only [Prod.mk.injEq] at he
  obtain ⟨rfl, rfl⟩ := he
  obtain ⟨hr, hneut⟩ := look_in_step s t op k pk _ ha
  have hp : p.foldl (fun g x => ghost g x.2) g = g := by
    apply foldl_ghost_neutral
    intro y hy g'
    have hy' : y ∈ (core.stepA s t op).2.2.map (fun a => (t, a)) := by
      rw [hsplit]; exact List.mem_append_left _ hy
    obtain ⟨a', ha', rfl⟩ := List.mem_map.mp hy'
    exact hneut a' ha' g'
  rw [hp]
  have hr' : some (v, n) = (getE (purge s.tq t) k).map (fun e => (e.val, 0)) := hr
  rw [purge_eq_filter hinv.sorted, getE_filter hinv.nodup] at hr'
  cases hg : getE s.tq k with
  | none => simp [hg, Option.filter] at hr'
  | some e =>
    by_cases hl : t < e.dl
    · simp only [hg, Option.filter, hl, decide_true, if_true, Option.map_some, Option.some.injEq,
        Prod.mk.injEq] at hr'
      refine ⟨e.dl, ?_, hl⟩
      rw [hr'.1]
      exact hc k (e.val, e.dl) (by simp [abs, absOf_get, hg])
    · simp [hg, Option.filter, hl] at hr'

/-- C04 along a history, from any state satisfying the invariant and coupled with the ghost -/
theorem C04_run (ops : List (Time × Op)) : ∀ (s : UtMapState) (t0 : Time) (g : AMap), Inv t0 s →
    TimesFrom t0 ops → Coupled (abs s) g →
    ∀ (p q : List (Time × Atom)) (now : Time) (k : Key) (pk : Bool) (v : Val) (n : Nat),
      (core.runA s ops).2.2 = p ++ (now, .look k pk (some (v, n))) :: q →
      ∃ d, p.foldl (fun g x => ghost g x.2) g k = some (v, d) ∧ now < d := by
  induction ops with
  | nil =>
    intro s t0 g _ _ _ p q now k pk v n h
    have := congrArg List.length h
    simp [Core.runA] at this
  | cons x rest ih =>
    obtain ⟨t, op⟩ := x
    intro s t0 g hinv ht hc p q now k pk v n h
    simp only [TimesFrom] at ht
    have hinv' : Inv t s := (refines 0).mono s t0 t hinv ht.1
    have hstep := (refines 0).stepA s t op hinv'
    have hc' := coupled_run hc hstep.2
    simp only [Core.runA] at h
    rcases List.append_eq_append_iff.mp h with ⟨a', hp, hrest⟩ | ⟨c', hblock, hq⟩
    · -- the lookup is in a later call
      obtain ⟨d, hd, hlt⟩ := ih _ t _ hstep.1 ht.2 hc' a' q now k pk v n hrest
      refine ⟨d, ?_, hlt⟩
      rw [hp, List.foldl_append]; exact hd
    · cases c' with
      | nil =>
        -- the lookup is the first atom of the next call
        simp only [List.nil_append] at hq
        simp only [List.append_nil] at hblock
        obtain ⟨d, hd, hlt⟩ := ih _ t _ hstep.1 ht.2 hc' [] q now k pk v n hq.symm
        refine ⟨d, ?_, hlt⟩
        rw [← hblock]; exact hd
      | cons y c'' =>
        simp only [List.cons_append, List.cons.injEq] at hq
        obtain ⟨rfl, _⟩ := hq
        exact C04_step s t op hinv' g hc p c'' now k pk v n hblock

end UtMap

/-- **C04 for ut_map / ut_set** (eager flavor): in every history with non-decreasing clock from the
fresh map, every lookup atom that reports a value does so strictly before the deadline of the
key's latest successful write. -/
theorem C04_utmap (ttlMs : Nat) (ops : List (Time × Op)) (t0 : Time) (ht : TimesFrom t0 ops)
    (p q : List (Time × Spec.Atom)) (now : Time) (k : Key) (pk : Bool) (v : Val) (n : Nat)
    (hsplit : (utmapV ttlMs).history ops = p ++ (now, .look k pk (some (v, n))) :: q) :
    ∃ d, Spec.lastWrite p k = some (v, d) ∧ now < d :=
  UtMap.C04_run ops (UtMap.init ttlMs) t0 AMap.empty (UtMap.inv_init ttlMs t0) ht
    (by intro k x h; simp [UtMap.abs, UtMap.init, absOf_get] at h) p q now k pk v n hsplit

/-! ## C. utlru: the TTL is a whole number of milliseconds, the capacity is constant -/

namespace Tlru

/-- same configured TTL, same capacity -/
def Same (s s' : TlruState) : Prop := s'.ttl = s.ttl ∧ s'.cap = s.cap

theorem Same.refl (s : TlruState) : Same s s := ⟨rfl, rfl⟩

theorem Same.trans {s1 s2 s3 : TlruState} (h1 : Same s1 s2) (h2 : Same s2 s3) : Same s1 s3 :=
  ⟨h2.1.trans h1.1, h2.2.trans h1.2⟩

theorem removeKey_same (s : TlruState) (k : Key) : Same s (removeKey s k) := ⟨rfl, rfl⟩

theorem update_same (s : TlruState) (e : Entry) (v : Val) (d : Time) : Same s (update s e v d) := ⟨rfl, rfl⟩

theorem prune_same (s : TlruState) (now : Time) : Same s (prune s now) := by
  unfold prune
  split
  · exact Same.refl s
  · split
    · exact removeKey_same s _
    · split
      · exact Same.refl s
      · exact removeKey_same s _

theorem insert1_same (s : TlruState) (now : Time) (k : Key) (v : Val) (a : Allow) (d : Time) :
    Same s (insert1 s now k v a d).1 := by
  unfold insert1
  split
  · split
    · exact update_same s _ v d
    · split
      · split
        · exact update_same s _ v d
        · exact Same.refl s
      · exact Same.refl s
  · split
    · show (if s.ents.length ≥ s.cap then prune s now else s).ttl = s.ttl ∧
        (if s.ents.length ≥ s.cap then prune s now else s).cap = s.cap
      split
      · exact prune_same s now
      · exact Same.refl s
    · exact Same.refl s

theorem find1_same (s : TlruState) (now : Time) (k : Key) (peek : Bool) : Same s (find1 s now k peek).1 := by
  unfold find1
  split
  · split
    · cases peek <;> exact ⟨rfl, rfl⟩
    · exact removeKey_same s k
  · exact Same.refl s

theorem erase1_same (s : TlruState) (k : Key) : Same s (erase1 s k).1 := by
  unfold erase1
  split
  · exact removeKey_same s k
  · exact Same.refl s

theorem foldl_removeKey_same (ks : List Key) (s : TlruState) : Same s (ks.foldl removeKey s) := by
  induction ks generalizing s with
  | nil => exact Same.refl s
  | cons k ks ih => exact (removeKey_same s k).trans (ih _)

theorem clean_same (s : TlruState) (now : Time) : Same s (clean s now).1 :=
  foldl_removeKey_same _ s

end Tlru

namespace Utlru
open Tlru

theorem insertMany_same (now : Time) (a : Allow) (xs : List (Key × Val × Nat)) (s : TlruState) :
    Same s (core.insertMany s now a xs).1 := by
  induction xs generalizing s with
  | nil => exact Same.refl s
  | cons x xs ih =>
    obtain ⟨k, v, ttl⟩ := x
    exact (insert1_same s now k v a (now + s.ttl)).trans (ih _)

theorem findMany_same (now : Time) (peek : Bool) (ks : List Key) (s : TlruState) :
    Same s (core.findMany s now peek ks).1 := by
  induction ks generalizing s with
  | nil => exact Same.refl s
  | cons k ks ih => exact (find1_same s now k peek).trans (ih _)

theorem eraseMany_same (ks : List Key) (s : TlruState) : Same s (core.eraseMany s ks).1 := by
  induction ks generalizing s with
  | nil => exact Same.refl s
  | cons k ks ih => exact (erase1_same s k).trans (ih _)

/-- one public call keeps the capacity, and either keeps the TTL or sets it to whole milliseconds -/
theorem step_cfg (s : TlruState) (now : Time) (op : Op) :
    (core.step s now op).1.cap = s.cap ∧
      ((core.step s now op).1.ttl = s.ttl ∨ ∃ m, (core.step s now op).1.ttl = m * msNs) := by
  have same : ∀ s' : TlruState, Same s s' → s'.cap = s.cap ∧ (s'.ttl = s.ttl ∨ ∃ m, s'.ttl = m * msNs) :=
    fun s' h => ⟨h.2, Or.inl h.1⟩
  cases op with
  | insert k v a ttl => exact same _ (insert1_same s now k v a (now + s.ttl))
  | insertRange xs a => exact same _ (insertMany_same now a xs s)
  | find k peek => exact same _ (find1_same s now k peek)
  | findRange ks peek => exact same _ (findMany_same now peek ks s)
  | findCount k peek => exact same _ (find1_same s now k peek)
  | erase k => exact same _ (erase1_same s k)
  | eraseRange ks => exact same _ (eraseMany_same ks s)
  | clear => exact ⟨rfl, Or.inl rfl⟩
  | clean => exact same _ (clean_same s now)
  | age => exact ⟨rfl, Or.inl rfl⟩
  | updateTtl t => exact ⟨rfl, Or.inr ⟨t, rfl⟩⟩
  | size => exact ⟨rfl, Or.inl rfl⟩
  | empty => exact ⟨rfl, Or.inl rfl⟩
  | capacity => exact ⟨rfl, Or.inl rfl⟩

theorem run_cfg (ops : List (Time × Op)) (s : TlruState) (cap : Nat)
    (h : (∃ m, s.ttl = m * msNs) ∧ s.cap = cap) :
    (∃ m, (core.run s ops).1.ttl = m * msNs) ∧ (core.run s ops).1.cap = cap := by
  induction ops generalizing s with
  | nil => exact h
  | cons x rest ih =>
    obtain ⟨t, op⟩ := x
    have hs := step_cfg s t op
    apply ih (core.step s t op).1
    refine ⟨?_, hs.1.trans h.2⟩
    rcases hs.2 with he | hm
    · obtain ⟨m, hm⟩ := h.1; exact ⟨m, he.trans hm⟩
    · exact hm

end Utlru

/-- the configured TTL of a utlru model is always a whole number of milliseconds, and the capacity
never changes -/
theorem Utlru.ttl_ms (cap ttlMs : Nat) (ops : List (Time × Op)) :
    ∃ m, (Utlru.core.run (Utlru.init cap ttlMs) ops).1.ttl = m * msNs ∧
      (Utlru.core.run (Utlru.init cap ttlMs) ops).1.cap = cap := by
  obtain ⟨⟨m, hm⟩, hc⟩ := Utlru.run_cfg ops (Utlru.init cap ttlMs) cap ⟨⟨ttlMs, rfl⟩, rfl⟩
  exact ⟨m, hm, hc⟩

end Verif
